#!/bin/bash
# usage: mutant2.sh <abs patch> <ID> [tier]   like mutant.sh, but in the private copy /tmp/verif2 against the scratch worktree /tmp/cleanrepo (leaves /repo alone)
P=$1; ID=$2; T=${3:-quick}
export VERIF_DIR=/tmp/verif2 VERIF_REPO=/tmp/cleanrepo
cd /tmp/cleanrepo && git checkout -q -- . && git apply "$P" || { echo "does not apply"; exit 3; }
cd /tmp/verif2 && ./check $ID $T > /tmp/mutant2-$ID.out 2>&1; echo "exit=$?" >> /tmp/mutant2-$ID.out
git -C /tmp/cleanrepo checkout -q -- .
grep -E "key:|^$ID $T|ENGINE|exit=" /tmp/mutant2-$ID.out | sort -u | head -6 | cut -c1-220

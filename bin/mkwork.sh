#!/bin/bash
# usage: mkwork.sh <name>   creates /tmp/w/<name>/{verif,repo,out}: a private copy of /verif (no build output) and a git worktree of /repo
set -e
N=$1
W=/tmp/w/$N
mkdir -p $W/out
rsync -a --exclude build --exclude .git --exclude replays /verif/ $W/verif/
git -C /repo worktree add --detach $W/repo HEAD >/dev/null 2>&1
echo $W

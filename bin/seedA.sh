#!/bin/bash
# usage: seedA.sh <ID> <k>  : confirms in the scratch worktree /tmp/s/<ID>/repo that seeded change k compiles, passes the
# repository's tests, and that its demonstration fails with the change and passes without it. Prints one summary line.
export GOFLAGS=-mod=mod GOPROXY=off GOSUMDB=off GOTOOLCHAIN=local
ID=$1; K=$2; S=${3:-/tmp/s}; W=$S/$ID/repo; O=$S/$ID/out/$K
cd $W || exit 2
git checkout -q -- . ; git clean -fdq
git apply $O/patch.diff || { echo "$ID/$K patch-does-not-apply"; exit 1; }
go build ./... > $O/confirm-build.log 2>&1; B=$?
go test -vet=off -count=1 ./... > $O/confirm-tests.log 2>&1; T=$?
if [ $T != 0 ]; then go test -vet=off -count=1 ./... > $O/confirm-tests2.log 2>&1; T2=$?; else T2=0; fi
DEMO=$(ls $O/demo_test.go $O/demo*_test.go 2>/dev/null | head -1)
if [ -n "$DEMO" ]; then
  PKG=$(grep -m1 "^package" $DEMO | awk '{print $2}')
  DIR=tests; [ "$PKG" = cmd ] && DIR=cmd
  grep -q "demo.*cmd/\|to \`cmd/" $O/README.md && grep -q "^package cmd" $DEMO && DIR=cmd
  # the README says where the demonstration goes: "cp .../demo_test.go <dir>/..."
  D2=$(grep -o "cp [^ ]*demo[^ ]*_test.go  *[a-z/]*/" $O/README.md | head -1 | awk '{print $3}' | sed 's#/$##')
  [ -n "$D2" ] && [ -d "$D2" ] && DIR=$D2
  [ "$PKG" = main ] && DIR=.
  cp $DEMO $DIR/zz_seed_demo_test.go
  NAMES=$(grep -o "^func Test[A-Za-z0-9_]*" $DEMO | sed 's/func //' | paste -sd'|')
  go test -vet=off -count=1 -run "^($NAMES)\$" ./$DIR > $O/confirm-demo-with.log 2>&1; DW=$?
  git apply -R $O/patch.diff
  go test -vet=off -count=1 -run "^($NAMES)\$" ./$DIR > $O/confirm-demo-without.log 2>&1; DO=$?
  rm -f $DIR/zz_seed_demo_test.go
elif [ -f $O/main.go ]; then
  mkdir -p zzdemo && cp $O/main.go zzdemo/main.go
  go run ./zzdemo > $O/confirm-demo-with.log 2>&1; DW=$?
  git apply -R $O/patch.diff
  go run ./zzdemo > $O/confirm-demo-without.log 2>&1; DO=$?
  rm -rf zzdemo
else DW=-1; DO=-1; fi
git checkout -q -- . ; git clean -fdq
echo "$ID/$K build=$B tests=$T tests_rerun=$T2 demo_with_change_exit=$DW demo_without_exit=$DO"

#!/bin/bash
# usage: seedeval.sh <ID> [check-id] [seed-root]  : A (confirm in scratch worktree) + B (quick check with the patch applied to /repo) for k=1..3
ID=$1; CK=${2:-$1}; S=${3:-/tmp/s}
for k in 1 2 3; do
  [ -f $S/$ID/out/$k/patch.diff ] || { echo "$ID/$k no patch"; continue; }
  /verif/bin/seedA.sh $ID $k $S
  echo "--- check $CK with $ID/$k"; /verif/bin/mutant.sh $S/$ID/out/$k/patch.diff $CK quick 2>&1 | grep -E "key:|^C[0-9]+ quick|exit=|ENGINE|not clean|does not apply" | head -5 | cut -c1-220
done

#!/bin/bash
# usage: seedeval.sh <ID> [check-id]  : A (confirm in scratch worktree) + B (run quick check with the patch applied to /repo) for k=1..3
ID=$1; CK=${2:-$1}
for k in 1 2 3; do
  [ -f /tmp/s/$ID/out/$k/patch.diff ] || { echo "$ID/$k no patch"; continue; }
  /verif/bin/seedA.sh $ID $k
  echo "--- check $CK with $ID/$k"; /verif/bin/mutant.sh /tmp/s/$ID/out/$k/patch.diff $CK quick 2>&1 | cut -c1-260 | head -6
done

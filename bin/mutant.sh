#!/bin/bash
# usage: mutant.sh <patch.diff> <ID> [tier]   applies the patch to /repo, runs the check, restores /repo
P=$1; ID=$2; TIER=${3:-quick}
git -C /repo diff --quiet || { echo "/repo not clean"; exit 3; }
git -C /repo apply "$P" || { echo "patch does not apply"; exit 3; }
/verif/check $ID $TIER > /tmp/mutant-$ID.out 2>&1; rc=$?
git -C /repo checkout -- .
grep -E "^VIOLATION|^KNOWN|ENGINE|^C[0-9]+ " /tmp/mutant-$ID.out | head -8
grep -A2 "^VIOLATION" /tmp/mutant-$ID.out | grep -E "key:|what:" | head -6 | cut -c1-300
echo "exit=$rc"

#!/bin/bash
# Re-instruments /repo's current working tree (if it changed) and builds the harness against it.
# usage: build.sh [race]   -> prints the path of the harness binary on stdout
set -e
export GOFLAGS=-mod=mod GOPROXY=off GOSUMDB=off GOTOOLCHAIN=local GODEBUG=goindex=0
V=${VERIF_DIR:-/verif}
REPO=${VERIF_REPO:-/repo}
B=$V/build
mkdir -p $B/bin $B/inst
( cd $V/mc && go build -o $B/bin/mcinst ./cmd/mcinst ) >&2
H=$( (cd $REPO && find . -name '*.go' -not -path './.git/*' -print0 | sort -z | xargs -0 sha1sum; sha1sum go.mod; echo $REPO; cd $V/mc && find rt cmd -name '*.go' -print0 | sort -z | xargs -0 sha1sum) | sha1sum | cut -c1-16)
I=$B/inst/$H
if [ ! -f $I/overlay.json ]; then
  rm -rf $I.tmp && mkdir -p $I.tmp
  $B/bin/mcinst -repo $REPO -rt $V/mc/rt -out $I.tmp >&2 || { echo "mcinst failed" >&2; exit 2; }
  sed -i "s#$I.tmp#$I#g" $I.tmp/overlay.json
  rm -rf $I && mv $I.tmp $I
  # keep only the 4 most recent instrumented trees
  ls -dt $B/inst/*/ 2>/dev/null | tail -n +5 | xargs -r rm -rf
fi
cp $REPO/go.sum $V/harness/go.sum
sed -i "s#^replace github.com/evolbioinfo/gotree => .*#replace github.com/evolbioinfo/gotree => $REPO#" $V/harness/go.mod
if [ "$1" = plain ]; then
  # the plain, uninstrumented gotree binary of the current working tree (fresh-process runs of C18)
  OUT=$B/bin/gotree-$H
  if [ ! -x $OUT ]; then
    ( cd $REPO && go build -o $OUT.tmp . && mv $OUT.tmp $OUT ) >&2 || { echo "plain build failed" >&2; exit 2; }
    ls -t $B/bin/gotree-* 2>/dev/null | tail -n +4 | xargs -r rm -f
  fi
  echo $OUT
  exit 0
fi
OUT=$B/bin/vh-$H
FLAGS=""
if [ "$1" = race ]; then OUT=$OUT-race; FLAGS="-race"; fi
if [ ! -x $OUT ] || [ -n "$(find $V/harness -name '*.go' -newer $OUT -print -quit)" ]; then
  ( cd $V/harness && go build $FLAGS -overlay $I/overlay.json -o $OUT.tmp ./cmd/vh && mv $OUT.tmp $OUT ) >&2 || { echo "harness build failed" >&2; exit 2; }
  ls -t $B/bin/vh-* 2>/dev/null | tail -n +7 | xargs -r rm -f
fi
echo $I > $B/current-inst
echo $OUT

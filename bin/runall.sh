#!/bin/bash
# usage: runall.sh [quick|thorough] [ids...]  - runs the checks one after the other, prints one summary line each
T=${1:-quick}; shift
IDS=${@:-C01 C02 C03 C04 C05 C06 C07 C08 C09 C10 C11 C12 C13 C14 C15 C16 C17 C18 C19 C20}
cd ${VERIF_DIR:-/verif}
for i in $IDS; do
  s=$(date +%s); out=$(./check $i $T 2>&1); rc=$?; e=$(( $(date +%s) - s ))
  echo "$out" | grep -E "^VIOLATION|^KNOWN-FINDING|^ENGINE-ERROR" | head -5 | cut -c1-200
  echo "$i rc=$rc ${e}s $(echo "$out" | grep -E "^$i $T:" | cut -c1-220)"
done

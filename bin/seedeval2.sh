#!/bin/bash
# usage: seedeval2.sh <ID> [check-id] [seed-root]  : like seedeval.sh, but step B runs in the private copy (bin/mutant2.sh), /repo is left alone
ID=$1; CK=${2:-$1}; S=${3:-/tmp/s}
for k in 1 2 3; do
  [ -f $S/$ID/out/$k/patch.diff ] || { echo "$ID/$k no patch"; continue; }
  /verif/bin/seedA.sh $ID $k $S
  echo "--- check $CK with $ID/$k"; /verif/bin/mutant2.sh $S/$ID/out/$k/patch.diff $CK quick 2>&1 | grep -E "key:|^C[0-9]+ quick|exit=|ENGINE|does not apply" | head -5 | cut -c1-220
done

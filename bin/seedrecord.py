#!/usr/bin/env python3
# usage: seedrecord.py <round> <seed-root> <eval.txt (first run)> <final.txt>  : writes /verif/seeded/<ID>-r<round>-<k>/
import sys, os, re, json, shutil
rnd, root, evalf, finalf = sys.argv[1:5]
# first-run status: lines "<ID>/<k> build=..", then "--- check", then "<ID> quick: ... new=N"
first = {}
cur = None
for l in open(evalf):
    m = re.match(r'(C\d\d)/(\d) build=', l)
    if m:
        cur = (m.group(1), m.group(2)); first[cur] = {'confirm': l.strip(), 'new': None, 'keys': []}
        continue
    if cur:
        m = re.search(r'new=(\d+)', l)
        if m and ' quick:' in l: first[cur]['new'] = int(m.group(1))
        m = re.search(r'key:\s+(\S.*)', l)
        if m: first[cur]['keys'].append(m.group(1).strip())
final = {}
for l in open(finalf):
    m = re.match(r'(C\d\d)/(\d) check=(C\d\d) new=(\d+) engine=(\d+) keys: (.*)', l)
    if m:
        final.setdefault((m.group(1), m.group(2)), []).append({'check': m.group(3), 'new': int(m.group(4)), 'keys': [x.strip() for x in re.split(r' (?=C\d\d/)', m.group(6).strip()) if x.strip()]})
notes = json.load(open(os.path.join(os.path.dirname(finalf), 'notes.json'))) if os.path.exists(os.path.join(os.path.dirname(finalf), 'notes.json')) else {}
for (pid, k), f in sorted(first.items()):
    src = f'{root}/{pid}/out/{k}'
    dst = f'/verif/seeded/{pid}-r{rnd}-{k}'
    os.makedirs(dst, exist_ok=True)
    for fn in os.listdir(src):
        if fn.startswith('confirm-'): continue
        p = os.path.join(src, fn)
        if os.path.isfile(p) and os.path.getsize(p) < 200000: shutil.copy(p, dst)
    readme = open(os.path.join(src, 'README.md')).read() if os.path.exists(os.path.join(src, 'README.md')) else ''
    title = readme.splitlines()[0].lstrip('# ').strip() if readme else ''
    needs = ''
    m = re.search(r'##[^\n]*needs[^\n]*\n(.*?)(\n## |\Z)', readme, re.S | re.I)
    if m: needs = ' '.join(m.group(1).split())[:900]
    fin = final.get((pid, k), [])
    own = [x for x in fin if x['check'] == pid]
    cross = [x for x in fin if x['check'] != pid and x['new'] > 0]
    caught_first = (f['new'] or 0) > 0 or len(f['keys']) > 0
    if caught_first:
        det = 'caught at first run by ' + pid + ': ' + ', '.join(f['keys'][:3])
    elif own and own[-1]['new'] > 0:
        det = 'MISSED at first; caught after the check was extended (' + notes.get(f'{pid}/{k}', 'see DESIGN 11.5 round %s' % rnd) + '): ' + ', '.join(own[-1]['keys'][:3])
    elif cross:
        det = 'not seen by ' + pid + ' (' + notes.get(f'{pid}/{k}', '') + '); caught by ' + cross[0]['check'] + ': ' + ', '.join(cross[0]['keys'][:3])
    else:
        det = 'NOT DETECTED: ' + notes.get(f'{pid}/{k}', 'see DESIGN 11.5')
    if caught_first and cross:
        det += '; also caught by ' + cross[0]['check']
    meta = {
        'property': pid, 'round': int(rnd), 'change': title, 'needs_to_manifest': needs,
        'origin': 'written by a fresh sub-agent that was given only the property text, the list of earlier mechanisms to avoid, and a scratch worktree of the repository (nothing from /verif)',
        'confirmed_by_me': {'commands': 'bin/seedA.sh <id> <k> %s: git apply; go build ./...; go test -vet=off -count=1 ./... (rerun once if only the flaky TestEdgeNeighbor failed); demonstration with the change (fails); without it (passes)' % root,
                            'result': f['confirm']},
        'checks_run': 'bin/mutant.sh seeded/%s-r%s-%s/patch.diff <check> quick (git -C /repo apply; ./check <check> quick; git -C /repo checkout -- .)' % (pid, rnd, k),
        'detected': det,
    }
    json.dump(meta, open(os.path.join(dst, 'meta.json'), 'w'), indent=1)
    print(pid, k, det[:150])

#!/bin/bash
# Runs every author mutant (mutants/CNN/mutant-*.diff) against the quick check of its property, in a private copy of
# /verif and a scratch worktree of /repo (so /repo and /verif stay untouched). Output: one line per mutant.
# usage: mutants_all.sh [ids...]
export GOFLAGS=-mod=mod GOPROXY=off GOSUMDB=off GOTOOLCHAIN=local
M=/tmp/m; mkdir -p $M
rsync -a --delete --exclude build --exclude .git --exclude replays /verif/ $M/verif/
[ -d $M/repo ] || git -C /repo worktree add --detach $M/repo HEAD >/dev/null 2>&1
git -C $M/repo checkout -q --detach $(git -C /repo rev-parse HEAD); git -C $M/repo checkout -q -- .
export VERIF_DIR=$M/verif VERIF_REPO=$M/repo VERIF_WORKERS=${VERIF_WORKERS:-8}
IDS=${@:-$(ls /verif/mutants)}
for id in $IDS; do
  for d in $(ls /verif/mutants/$id/mutant-*.diff 2>/dev/null | sort -V); do
    if ! git -C $M/repo apply $d 2>/dev/null; then echo "$id $(basename $d) DOES-NOT-APPLY"; continue; fi
    if ! (cd $M/repo && go build ./... >/dev/null 2>&1); then echo "$id $(basename $d) DOES-NOT-BUILD"; git -C $M/repo checkout -q -- .; continue; fi
    out=$(cd $M/verif && ./check $id quick 2>&1); rc=$?
    keys=$(echo "$out" | grep "key:" | sed 's/ *key: *//' | head -3 | paste -sd' ')
    echo "$id $(basename $d) rc=$rc $keys"
    git -C $M/repo checkout -q -- .
  done
done

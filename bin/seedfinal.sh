#!/bin/bash
# usage: seedfinal.sh <seed-root> <out-file> <ID/k[:check]>...   final detection status of seeded changes (applies each to /repo, restores)
S=$1; OUT=$2; shift 2
for spec in "$@"; do
  sk=${spec%%:*}; ck=${spec#*:}; ID=${sk%/*}; k=${sk#*/}
  [ "$ck" = "$spec" ] && ck=$ID
  /verif/bin/mutant.sh $S/$ID/out/$k/patch.diff $ck quick >/dev/null 2>&1
  keys=$(grep -E "key:" /tmp/mutant-$ck.out | sed 's/.*key: *//' | sort -u | head -3 | tr '\n' ' ')
  line=$(grep -E "^$ck quick" /tmp/mutant-$ck.out | tail -1 | grep -o "new=[0-9]*")
  eng=$(grep -c "ENGINE-ERROR" /tmp/mutant-$ck.out)
  echo "$ID/$k check=$ck $line engine=$eng keys: $keys" | tee -a $OUT
done

#!/usr/bin/env python3
# Generates MANIFEST.json from bin/manifest_src.json (claimed checks) + properties.jsonl (everything else -> not_applicable).
import json
src=json.load(open('/verif/bin/manifest_src.json'))
props=[json.loads(l) for l in open('/verif/properties.jsonl')]
checks=[]; na=[]
for p in props:
    i=p['id']
    if i in src['claimed']:
        c=src['claimed'][i]
        checks.append({
            "property_id": i,
            "quick_cmd": f"./check {i} quick",
            "thorough_cmd": f"./check {i} thorough",
            "evidence_file": f"/verif/evidence/{i}.json",
            "replay_cmd_template": f"./check {i} --replay {{path}}",
            "engine": "gomc",
            "level_claimed": {"category":"model_checking","text":c['text'],"design_ref":c.get('design_ref','DESIGN.md §5 '+i)},
            "level_note": c['note'],
            "technique": c['technique'],
        })
    else:
        na.append({"property_id": i, "reason": src['not_claimed'].get(i, "check not built yet (work in progress); see DESIGN.md §5 for the planned bounded exhaustive check")})
m={"version":1,"setup_cmd":"./setup.sh",
 "hooks":{"guard":"none: no source change in /repo; instrumentation is applied by `go build -overlay` only when /verif builds its harness (bin/build.sh), the plain build and test suite never see it",
          "enable":"bin/build.sh: mcinst rewrites /repo's current *.go into build/inst/<hash>/ and builds harness/cmd/vh with -overlay (virtual package github.com/evolbioinfo/gotree/mcrt)",
          "baseline_off_cmd":"cd /repo && GOFLAGS=-mod=mod GOPROXY=off GOSUMDB=off GOTOOLCHAIN=local go test -vet=off -count=1 -timeout 25m ./...",
          "source_commits":[], "add_only": True},
 "engines":[{"name":"gomc","path":"/verif/mc","serves_properties":sorted(src['claimed'].keys()),"kind_free_text":"hand-written stateless model checker for Go: source instrumenter (mcinst) + controlled runtime/scheduler/explorer (mcrt) + exhaustive enumerators and reference model (harness)"}],
 "checks":checks,"not_applicable":na,"notes":src.get('notes','')}
json.dump(m,open('/verif/MANIFEST.json','w'),indent=1)
print(len(checks),"claimed,",len(na),"not claimed")

package main

import (
	"encoding/json"
	"fmt"
	"io"
	"log"
	"os"
	"runtime"
	"runtime/debug"
	"sort"
	"strings"

	"github.com/evolbioinfo/gotree/mcrt"
	"github.com/evolbioinfo/gotree/tree"

	"verif/harness/enum"
	rm "verif/harness/refmodel"
)

// C05: re-rooting, unrooting and reordering never change the tree itself.
//
// Reference side (never looks at gotree): a tree is reduced to
//   (sorted tip names, canonical bipartition -> {summed length, support, #branches}, tip-to-tip path sums)
// by definition (tip set below every branch, path sums). The two branches that
// define the same bipartition (root branches of a rooted tree; the two sides of
// the old root that Reroot(n) leaves as a two-neighbour node; the two halves of
// a cut branch) are one split with the summed length. A support is demanded only
// on a split that is a single branch before AND after (neither merged nor cut).

const c05Absent = "zz" // a name that is in no enumerated tree

type c05op struct {
	Kind    string   `json:"kind"` // reroot | outgroup | midpoint | unroot | rotate | sort
	Node    int      `json:"node,omitempty"`
	Tips    []string `json:"tips,omitempty"`
	Remove  bool     `json:"remove,omitempty"`
	Strict  bool     `json:"strict,omitempty"`
	Choices []int    `json:"choices,omitempty"`
}

type c05case struct {
	Tree string `json:"tree"`
	Op   c05op  `json:"op"`
}

func (o c05op) String() string {
	switch o.Kind {
	case "reroot":
		return fmt.Sprintf("Reroot(inner node #%d in pre-order)", o.Node)
	case "outgroup":
		return fmt.Sprintf("RerootOutGroup(remove=%v, strict=%v, %s)", o.Remove, o.Strict, strings.Join(o.Tips, ","))
	case "midpoint":
		return "RerootMidPoint()"
	case "unroot":
		return "UnRoot()"
	case "rotate":
		return fmt.Sprintf("RotateInternalNodes() with random answers %v", o.Choices)
	case "sort":
		return "SortNeighborsByTips()"
	}
	return o.Kind
}

// ---- reference view ----------------------------------------------------------

type c05view struct {
	names []string
	sm    map[rm.Split]rm.BranchInfo
	keys  []rm.Split // sorted
	d     [][]float64
}

func c05sortedKeys(sm map[rm.Split]rm.BranchInfo) []rm.Split {
	ks := make([]rm.Split, 0, len(sm))
	for k := range sm {
		ks = append(ks, k)
	}
	sort.Slice(ks, func(i, j int) bool { return ks[i] < ks[j] })
	return ks
}

func c05viewOf(m *rm.Tree) *c05view {
	v := &c05view{}
	v.sm, v.names = m.SplitMap()
	v.keys = c05sortedKeys(v.sm)
	v.d, _ = m.DistMatrix(rm.MetricLen)
	return v
}

func c05sameNames(a, b []string) bool {
	if len(a) != len(b) {
		return false
	}
	for i := range a {
		if a[i] != b[i] {
			return false
		}
	}
	return true
}

func c05side(s rm.Split, names []string) string {
	return "{" + strings.Join(s.Names(names), ",") + "}"
}

// c05preserved decides the first sentence of the property on two views:
// returns ("", "") or (clause, detail).
func c05preserved(b, a *c05view, nsup *int64) (string, string) {
	if !c05sameNames(b.names, a.names) {
		return "tips", fmt.Sprintf("tip set %v became %v", b.names, a.names)
	}
	for _, k := range b.keys {
		if _, ok := a.sm[k]; !ok {
			return "splits", fmt.Sprintf("split %s|rest is lost", c05side(k, b.names))
		}
	}
	for _, k := range a.keys {
		if _, ok := b.sm[k]; !ok {
			return "splits", fmt.Sprintf("split %s|rest appeared", c05side(k, b.names))
		}
	}
	for _, k := range b.keys {
		x, y := b.sm[k], a.sm[k]
		if x.Len != y.Len {
			return "lengths", fmt.Sprintf("split %s|rest: length %v (on %d branch(es)) became %v (on %d)", c05side(k, b.names), x.Len, x.N, y.Len, y.N)
		}
		if x.N == 1 && y.N == 1 && x.HasLen && !y.HasLen {
			return "lengths", fmt.Sprintf("untouched branch %s|rest lost its length %v", c05side(k, b.names), x.Len)
		}
		// two root branches merged into one: a length that was written (0 included) is still written; only a branch CUT by the
		// new root (y.N == 2) falls under "absent counts as 0" (the code writes no length on the halves of a zero-length branch)
		if x.N == 2 && y.N == 1 && x.HasLen && !y.HasLen {
			return "lengths/merged-root-branches", fmt.Sprintf("split %s|rest: the two root branches carried the length %v, the branch that replaces them has none", c05side(k, b.names), x.Len)
		}
	}
	for i := range b.d {
		for j := range b.d[i] {
			if b.d[i][j] != a.d[i][j] {
				return "distances", fmt.Sprintf("path %s-%s: %v became %v", b.names[i], b.names[j], b.d[i][j], a.d[i][j])
			}
		}
	}
	for _, k := range b.keys {
		x, y := b.sm[k], a.sm[k]
		if x.N == 1 && y.N == 1 {
			if x.HasSup {
				*nsup++
			}
			if x.HasSup != y.HasSup || (x.HasSup && !rm.SameFloat(x.Sup, y.Sup)) {
				return "supports", fmt.Sprintf("untouched branch %s|rest: support %v/%v became %v/%v", c05side(k, b.names), x.HasSup, x.Sup, y.HasSup, y.Sup)
			}
		}
	}
	return "", ""
}

// c05restrict: the view of the tree induced on the tips in keep (mask over the
// sorted names of m), by definition: every branch is restricted to keep, branches
// with an empty side vanish, branches restricting to the same bipartition are one
// branch with the summed length (N counts them).
func c05restrict(m *rm.Tree, full *c05view, keep rm.Split) *c05view {
	idx := rm.TipIndex(full.names)
	below := m.Below(idx)
	n := len(full.names)
	// compress bit positions
	pos := make([]int, n)
	v := &c05view{}
	var old []int
	for i := 0; i < n; i++ {
		if keep&(1<<uint(i)) != 0 {
			pos[i] = len(v.names)
			v.names = append(v.names, full.names[i])
			old = append(old, i)
		}
	}
	nk := len(v.names)
	comp := func(s rm.Split) rm.Split {
		var o rm.Split
		for i := 0; i < n; i++ {
			if s&(1<<uint(i)) != 0 {
				o |= 1 << uint(pos[i])
			}
		}
		return o
	}
	v.sm = map[rm.Split]rm.BranchInfo{}
	m.Walk(func(nd, p *rm.Node) {
		if p == nil {
			return
		}
		in := below[nd] & keep
		out := keep &^ below[nd]
		if in == 0 || out == 0 {
			return
		}
		k := comp(in).Canon(nk)
		bi := v.sm[k]
		bi.N++
		if nd.HasLen {
			bi.Len += nd.Len
			bi.HasLen = true
		}
		if nd.HasSup {
			if !bi.HasSup || nd.Sup > bi.Sup {
				bi.Sup = nd.Sup
			}
			bi.HasSup = true
		}
		v.sm[k] = bi
	})
	v.keys = c05sortedKeys(v.sm)
	v.d = make([][]float64, nk)
	for i := range v.d {
		v.d[i] = make([]float64, nk)
		for j := range v.d[i] {
			v.d[i][j] = full.d[old[i]][old[j]]
		}
	}
	return v
}

func c05len(n *rm.Node) float64 {
	if n.HasLen {
		return n.Len
	}
	return 0
}

// tips below each child of the root, as masks over names (names must be the tip set of a)
func c05rootClades(a *rm.Tree, names []string) []rm.Split {
	idx := rm.TipIndex(names)
	below := a.Below(idx)
	out := make([]rm.Split, len(a.Root.Children))
	for i, c := range a.Root.Children {
		out[i] = below[c]
	}
	return out
}

// ---- one tree under test -------------------------------------------------------

type c05tree struct {
	m      *rm.Tree
	txt    string
	v      *c05view
	ninner int
	diam   float64
	npairs int // number of tip pairs realising the diameter
	nzero  int // zero-length branches
}

func c05prepare(m *rm.Tree) *c05tree {
	b := &c05tree{m: m, txt: m.Newick(), v: c05viewOf(m)}
	m.Walk(func(n, p *rm.Node) {
		if !n.IsTip() {
			b.ninner++
		}
		if p != nil && c05len(n) == 0 {
			b.nzero++
		}
	})
	for i := range b.v.d {
		for j := i + 1; j < len(b.v.d); j++ {
			if b.v.d[i][j] > b.diam {
				b.diam = b.v.d[i][j]
			}
		}
	}
	for i := range b.v.d {
		for j := i + 1; j < len(b.v.d); j++ {
			if b.v.d[i][j] == b.diam {
				b.npairs++
			}
		}
	}
	return b
}

// inner nodes of the gotree tree in pre-order from the root (public API only)
func c05inner(t *tree.Tree) []*tree.Node {
	var out []*tree.Node
	var rec func(n, p *tree.Node)
	rec = func(n, p *tree.Node) {
		if !n.Tip() {
			out = append(out, n)
		}
		for _, nb := range n.Neigh() {
			if nb != p {
				rec(nb, n)
			}
		}
	}
	rec(t.Root(), nil)
	return out
}

// what one execution of the real code delivered
type c05raw struct {
	err      error
	o, mt    *rm.Tree
	oerr     error
	merr     error
	w0, w1   string
	rootedIn bool
}

func c05body(b *c05tree, op c05op, x *c05raw) func() {
	return func() {
		*x = c05raw{}
		t := gtMustParse(b.txt)
		x.w0 = t.Newick()
		x.rootedIn = t.Rooted()
		switch op.Kind {
		case "reroot":
			nodes := c05inner(t)
			if op.Node >= len(nodes) {
				panic("harness: inner node index out of range")
			}
			x.err = t.Reroot(nodes[op.Node])
		case "outgroup":
			x.err = t.RerootOutGroup(op.Remove, op.Strict, op.Tips...)
		case "midpoint":
			x.err = t.RerootMidPoint()
		case "unroot":
			t.UnRoot()
		case "rotate":
			t.RotateInternalNodes()
		case "sort":
			t.SortNeighborsByTips()
		default:
			panic("harness: unknown op " + op.Kind)
		}
		if x.err != nil {
			return
		}
		x.o, x.oerr = observe(t)
		x.mt, x.w1, x.merr = modelOf(t)
	}
}

type c05result struct {
	key, what string
	changed   bool
	tags      []string // counters (and, joined, the outcome class)
	nsup      int64
}

func (r *c05result) tag(s string) { r.tags = append(r.tags, s) }

func c05exec(b *c05tree, op c05op) c05result {
	var x c05raw
	cfg := mcrt.Config{NoSched: true, Fuel: 20_000_000}
	if op.Kind == "rotate" {
		cfg.RandMode = mcrt.RandEnumerate
		cfg.Prefix = op.Choices
	}
	r := mcrt.Run(cfg, c05body(b, op, &x))
	return c05judge(b, op, &x, &r)
}

func c05judge(b *c05tree, op c05op, x *c05raw, r *mcrt.Result) c05result {
	var res c05result
	pre := "C05/" + op.Kind + "/"
	fail := func(clause, detail string) c05result {
		after := x.w1
		if after == "" {
			after = "(no text)"
		}
		res.key = pre + clause
		res.what = fmt.Sprintf("tree %s, %s: %s; result %s", b.txt, op, detail, after)
		return res
	}
	if crashed(*r) {
		res.tag("crash")
		return fail("crash/"+crashSite(*r), verdictStr(*r))
	}
	// classification of the outgroup by the model
	var present rm.Split
	isSplit, nonMono := false, false
	if op.Kind == "outgroup" {
		idx := rm.TipIndex(b.v.names)
		absent := false
		for _, nm := range op.Tips {
			if i, ok := idx[nm]; ok {
				present |= 1 << uint(i)
			} else {
				absent = true
			}
		}
		n := len(b.v.names)
		full := rm.Split(1)<<uint(n) - 1
		switch {
		case present == 0:
			res.tag("og:none-present")
		case present == full:
			res.tag("og:all-tips")
		default:
			if _, ok := b.v.sm[present.Canon(n)]; ok {
				isSplit = true
				res.tag("og:split")
				// does the outgroup side contain the node the tree is presented at (complement of a clade)?
				if c05containsRoot(b.m, present, b.v.names) {
					res.tag("og:split-complement-of-clade")
				}
			} else {
				nonMono = true
				res.tag("og:non-split")
			}
		}
		if absent {
			res.tag("og:with-absent-name")
		}
		if op.Strict {
			res.tag("og:strict")
		}
		if op.Remove {
			res.tag("og:remove")
		}
	}
	if x.err != nil {
		res.tag("error")
		if isSplit && op.Remove {
			// refusals of a removable outgroup: the evidence shows how many tips would have been left
			res.tag(fmt.Sprintf("would-leave-%s-tips", c05few(len(b.v.names)-present.Count())))
		}
		// a failed operation creates no obligation
		return res
	}
	res.tag("ok")
	res.changed = x.w1 != x.w0
	if op.Kind == "outgroup" && nonMono && op.Strict {
		return fail("non-monophyletic-accepted-in-strict-mode", fmt.Sprintf("outgroup %s is not a side of any split, yet the strict call succeeded", c05side(present, b.v.names)))
	}
	if x.oerr != nil {
		return fail("malformed", "walk through Root/Neigh/Edges fails: "+x.oerr.Error())
	}
	if x.merr != nil {
		return fail("unreadable-newick", x.merr.Error())
	}
	views := []struct {
		a   *rm.Tree
		suf string
	}{{x.o, ""}, {x.mt, "/newick-text"}}
	for vi, vw := range views {
		a := vw.a
		av := c05viewOf(a)
		bad := func(clause, detail string) c05result {
			if vw.suf != "" {
				detail += " (seen in the Newick text only, the API walk agrees with the model)"
			}
			return fail(clause+vw.suf, detail)
		}
		first := vi == 0
		if op.Kind == "outgroup" && op.Remove {
			if !isSplit {
				// statement silent (non-monophyletic outgroup removed in lenient mode, or degenerate outgroup)
				if first {
					res.tag("remove-unconstrained")
				}
				continue
			}
			n := len(b.v.names)
			keep := (rm.Split(1)<<uint(n) - 1) &^ present
			rv := c05restrict(b.m, b.v, keep)
			if cl, d := c05preserved(rv, av, &res.nsup); cl != "" {
				return bad("remove/"+cl, "compared with the input tree minus the outgroup: "+d)
			}
			if first {
				res.tag(fmt.Sprintf("remove-left-%s-tips", c05few(len(rv.names))))
			}
			continue
		}
		if cl, d := c05preserved(b.v, av, &res.nsup); cl != "" {
			return bad(cl, d)
		}
		switch op.Kind {
		case "reroot":
			if first {
				if x.rootedIn {
					res.tag("rooted-input")
				}
				if a.SingleChildNodes() > 0 {
					res.tag("old-root-kept-as-2-neighbour-node")
				}
			}
		case "unroot":
			if first {
				if x.rootedIn {
					res.tag("rooted-input")
				}
				if a.Rooted() {
					res.tag("still-rooted")
				}
			}
		case "outgroup":
			cl := c05rootClades(a, b.v.names)
			if isSplit {
				if len(cl) != 2 {
					return bad("root-not-bifurcating", fmt.Sprintf("outgroup %s is one side of a split but the new root has %d children", c05side(present, b.v.names), len(cl)))
				}
				if cl[0] != present && cl[1] != present {
					return bad("outgroup-not-a-root-clade", fmt.Sprintf("outgroup %s is one side of a split but the clades below the root are %s and %s", c05side(present, b.v.names), c05side(cl[0], b.v.names), c05side(cl[1], b.v.names)))
				}
				l0, l1 := c05len(a.Root.Children[0]), c05len(a.Root.Children[1])
				if l0 != l1 {
					return bad("unequal-halves", fmt.Sprintf("the separating branch (length %v) is cut into %v and %v", b.v.sm[present.Canon(len(b.v.names))].Len, l0, l1))
				}
				if first {
					if l0 == 0 {
						res.tag("cut-branch-zero")
					}
					if x.rootedIn {
						res.tag("rooted-input")
					}
				}
			} else if nonMono {
				inside := false
				for _, s := range cl {
					if present&^s == 0 {
						inside = true
					}
				}
				if !inside {
					return bad("outgroup-split-across-root", fmt.Sprintf("non-monophyletic outgroup %s is not inside one clade below the root", c05side(present, b.v.names)))
				}
			}
		case "midpoint":
			rd := a.RootDist()
			cl := c05rootClades(a, b.v.names)
			half := b.diam / 2
			found := false
			for i := 0; i < len(cl) && !found; i++ {
				for j := i + 1; j < len(cl) && !found; j++ {
					for _, ta := range cl[i].Names(b.v.names) {
						for _, tb := range cl[j].Names(b.v.names) {
							if rd[ta] == half && rd[tb] == half {
								found = true
							}
						}
					}
				}
			}
			if !found {
				var rds []string
				for _, nm := range b.v.names {
					rds = append(rds, fmt.Sprintf("%s:%v", nm, rd[nm]))
				}
				return bad("root-not-at-midpoint", fmt.Sprintf("longest tip-to-tip path is %v but no two tips in different clades below the root are both at %v from it (root-to-tip %s)", b.diam, half, strings.Join(rds, " ")))
			}
			if first {
				if b.npairs > 1 {
					res.tag("tie")
				}
				if b.nzero > 0 {
					res.tag("zero-branch")
				}
				if b.diam == 0 {
					res.tag("diameter-zero")
				}
				if x.rootedIn {
					res.tag("rooted-input")
				}
				for _, ch := range a.Root.Children {
					if c05len(ch) == 0 && b.diam > 0 {
						res.tag("midpoint-on-a-node")
						break
					}
				}
			}
		}
	}
	return res
}

func c05few(n int) string {
	if n >= 3 {
		return "3+"
	}
	return fmt.Sprint(n)
}

// c05containsRoot: is the presentation root of m on the outgroup side of the branch defining split s?
// (then the outgroup is the complement of a clade of the tree as written)
func c05containsRoot(m *rm.Tree, s rm.Split, names []string) bool {
	idx := rm.TipIndex(names)
	below := m.Below(idx)
	clade := false
	m.Walk(func(n, p *rm.Node) {
		if p != nil && below[n] == s {
			clade = true
		}
	})
	return !clade
}

// ---- enumeration ----------------------------------------------------------------

var c05menu = []float64{0, 0.5, 1, 2}

// branches (non-root nodes) in pre-order; inner = non-root non-tip
func c05branches(m *rm.Tree) (all, inner []*rm.Node) {
	m.Walk(func(n, p *rm.Node) {
		if p == nil {
			return
		}
		all = append(all, n)
		if !n.IsTip() {
			inner = append(inner, n)
		}
	})
	return
}

// support patterns over k inner branches; pattern 0 = all distinct. Each entry: has/value per branch.
type c05sup struct {
	has bool
	v   float64
}

func c05supPatterns(k int, all bool, with05 bool) [][]c05sup {
	distinct := make([]c05sup, k)
	for j := range distinct {
		distinct[j] = c05sup{true, 0.5 + float64(j)/16}
	}
	out := [][]c05sup{distinct}
	if !all || k == 0 {
		return out
	}
	seen := map[string]bool{fmt.Sprint(distinct): true}
	add := func(p []c05sup) {
		s := fmt.Sprint(p)
		if !seen[s] {
			seen[s] = true
			out = append(out, p)
		}
	}
	add(make([]c05sup, k)) // none
	for _, val := range []float64{0.9, 0.5} {
		if val == 0.5 && !with05 {
			continue
		}
		for j := 0; j < k; j++ {
			p := make([]c05sup, k)
			p[j] = c05sup{true, val}
			add(p)
		}
	}
	for j := 0; j < k; j++ {
		p := append([]c05sup(nil), distinct...)
		p[j] = c05sup{}
		add(p)
	}
	return out
}

type c05plan struct {
	n          int
	exhaustive bool // lengths: all assignments over the menu
	dev1       int  // deviations from all-1
	devD       int  // deviations from all-distinct (-1: base not used)
	// a tree with k length deviations from its base gets the extra support patterns if k <= patDev,
	// and the outgroups padded with an absent name if k <= absDev (-1 = never, 99 = always)
	patDev, absDev int
	sup05          bool // also the patterns "a single support 0.5"
}

// c05forTrees enumerates the decorated trees of a plan. f gets the tree and its number of length deviations
// from the base assignment (all-1 or all-distinct).
func c05forTrees(c *Ctx, pl c05plan, f func(m *rm.Tree, ndev int)) {
	for _, sh := range enum.Shapes(pl.n, "t") {
		if c.TimeUp() {
			return
		}
		allb, innerb := c05branches(sh)
		emit := func(lens []float64, ndev int) {
			for _, sp := range c05supPatterns(len(innerb), ndev <= pl.patDev, pl.sup05) {
				if !c.Mine() {
					continue
				}
				m := sh.Clone()
				ab, ib := c05branches(m)
				for i, n := range ab {
					n.HasLen, n.Len = true, lens[i]
				}
				for j, n := range ib {
					n.HasSup, n.Sup = sp[j].has, sp[j].v
				}
				f(m, ndev)
			}
		}
		nb := len(allb)
		lens := make([]float64, nb)
		if pl.exhaustive {
			enum.Sequences(len(c05menu), nb, func(seq []int) {
				non1 := 0
				for i, s := range seq {
					lens[i] = c05menu[s]
					if lens[i] != 1 {
						non1++
					}
				}
				emit(lens, non1)
			})
		} else {
			menu := make([]int, nb)
			for i := range menu {
				menu[i] = 4
			}
			alt := []float64{0, 0.5, 2}
			enum.Deviations(menu, pl.dev1, func(as []int) {
				nd := 0
				for i, a := range as {
					lens[i] = 1
					if a != 0 {
						lens[i] = alt[a-1]
						nd++
					}
				}
				emit(lens, nd)
			})
		}
		if pl.devD >= 0 {
			menu := make([]int, nb)
			for i := range menu {
				menu[i] = 4
			}
			alt := []float64{0, 0.5, 2}
			enum.Deviations(menu, pl.devD, func(as []int) {
				nd := 0
				for i, a := range as {
					lens[i] = float64(2*i+3) / 16
					if a != 0 {
						lens[i] = alt[a-1]
						nd++
					}
				}
				emit(lens, nd)
			})
		}
	}
}

func c05record(c *Ctx, b *c05tree, op c05op, res *c05result) {
	c.Transitions++
	out := op.Kind + ":" + strings.Join(res.tags, ",")
	c.Outcome(out)
	c.Count(out, 1)
	if res.nsup > 0 {
		c.Count("untouched_supports_compared", res.nsup)
	}
	if res.changed {
		c.Nontrivial(b.txt + "|" + op.String())
		c.Count(op.Kind+"_changed_text", 1)
	}
	// clause guards
	has := func(t string) bool {
		for _, x := range res.tags {
			if x == t {
				return true
			}
		}
		return false
	}
	ok := has("ok")
	switch op.Kind {
	case "reroot":
		if ok {
			c.Count("G:reroot_ok", 1)
			if has("rooted-input") {
				c.Count("G:reroot_rooted_input_ok", 1)
			}
		}
	case "unroot":
		if ok && has("rooted-input") {
			c.Count("G:unroot_rooted_input", 1)
		}
	case "rotate":
		if ok {
			c.Count("G:rotate_ok", 1)
		}
	case "sort":
		if ok {
			c.Count("G:sort_ok", 1)
		}
	case "midpoint":
		if ok {
			c.Count("G:midpoint_ok", 1)
			if has("tie") {
				c.Count("G:midpoint_tie_ok", 1)
			}
			if has("zero-branch") {
				c.Count("G:midpoint_zero_branch_ok", 1)
			}
		}
	case "outgroup":
		switch {
		case has("og:split") && ok && !has("og:remove"):
			c.Count("G:outgroup_split_ok", 1)
			if has("og:split-complement-of-clade") {
				c.Count("G:outgroup_complement_of_clade_ok", 1)
			}
			if has("cut-branch-zero") {
				c.Count("G:outgroup_zero_branch_cut_ok", 1)
			}
			if has("og:with-absent-name") {
				c.Count("G:outgroup_with_absent_name_ok", 1)
			}
		case has("og:split") && ok && has("og:remove"):
			c.Count("G:outgroup_split_removed_ok", 1)
		case has("og:split") && !ok:
			c.Count("outgroup_split_refused", 1) // not a violation by the text (only successful calls are constrained); reported
		case has("og:non-split") && has("og:strict") && !ok:
			c.Count("G:outgroup_nonmono_strict_refused", 1)
		case has("og:non-split") && !has("og:strict") && ok && !has("og:remove"):
			c.Count("G:outgroup_nonmono_lenient_ok", 1)
		}
	}
}

func c05outgroups(names []string, absent bool, f func(tips []string)) {
	n := len(names)
	for mask := uint64(0); mask < 1<<uint(n); mask++ {
		var tips []string
		for i := 0; i < n; i++ {
			if mask&(1<<uint(i)) != 0 {
				tips = append(tips, names[i])
			}
		}
		if mask != 0 {
			f(tips)
		}
		if absent {
			// the absent name first, last, or in the middle depending on the subset (position must not matter)
			k := int(mask) % (len(tips) + 1)
			withAbs := append(append(append([]string(nil), tips[:k]...), c05Absent), tips[k:]...)
			f(withAbs)
		}
	}
}

func c05allOps(c *Ctx, b *c05tree, absent bool, rotate bool) {
	run := func(op c05op) {
		var res c05result
		c.Check(c05case{Tree: b.txt, Op: op}, func() (string, string) {
			res = c05exec(b, op)
			return res.key, res.what
		})
		c05record(c, b, op, &res)
	}
	for i := 0; i < b.ninner; i++ {
		run(c05op{Kind: "reroot", Node: i})
	}
	run(c05op{Kind: "midpoint"})
	run(c05op{Kind: "unroot"})
	run(c05op{Kind: "sort"})
	if rotate {
		run(c05op{Kind: "rotate"}) // default answers only; all answers are explored in the rotation section
	}
	c05outgroups(b.v.names, absent, func(tips []string) {
		for fl := 0; fl < 4; fl++ {
			run(c05op{Kind: "outgroup", Tips: tips, Remove: fl&1 != 0, Strict: fl&2 != 0})
		}
	})
}

// all random answers of RotateInternalNodes on one tree (bound < 0), or those with <= bound non-default draws
func c05rotations(c *Ctx, b *c05tree, bound int) {
	var x c05raw
	op := c05op{Kind: "rotate"}
	base := mcrt.Config{NoSched: true, Fuel: 20_000_000, RandMode: mcrt.RandEnumerate}
	bd := 0
	if bound >= 0 {
		base.RandMode = mcrt.RandBounded
		bd = bound
	}
	st := mcrt.Explore(mcrt.ExploreOpts{Base: base, Bound: bd, Deadline: c.Deadline}, c05body(b, op, &x), func(r *mcrt.Result, choices []int) bool {
		o := c05op{Kind: "rotate", Choices: append([]int(nil), choices...)}
		res := c05judge(b, o, &x, r)
		if r.Verdict == mcrt.VDiverged {
			c.EngineError("rotation exploration diverged on " + b.txt)
			return false
		}
		if res.key != "" {
			// re-execute from the recorded answers (must reproduce)
			c.Check(c05case{Tree: b.txt, Op: o}, func() (string, string) {
				r2 := c05exec(b, o)
				return r2.key, r2.what
			})
		} else {
			c.Execs++
		}
		c05record(c, b, o, &res)
		c.Outcome("rotate-text:" + x.w1)
		return true
	})
	if !st.Exhaustive {
		c.Exhaustive = false
	}
	c.Max("rotate_answers_per_tree", st.Execs)
	c.Count("rotate_explored_trees", 1)
}

// plain executions on larger trees ("whatever the size"; not exhaustive)
func c05large(c *Ctx) {
	mk := func(kind string, n int) *rm.Tree {
		var root *rm.Node
		tip := func(i int) *rm.Node {
			return &rm.Node{Name: fmt.Sprintf("s%02d", i), HasLen: true, Len: float64(i%5) / 4}
		}
		switch kind {
		case "caterpillar":
			cur := &rm.Node{Children: []*rm.Node{tip(0), tip(1)}}
			for i := 2; i < n; i++ {
				cur.HasLen, cur.Len, cur.HasSup, cur.Sup = true, float64(i%3)/2, true, 0.5+float64(i%7)/16
				cur = &rm.Node{Children: []*rm.Node{cur, tip(i)}}
			}
			root = cur
		case "balanced":
			var lvl []*rm.Node
			for i := 0; i < n; i++ {
				lvl = append(lvl, tip(i))
			}
			k := 0
			for len(lvl) > 3 {
				var nx []*rm.Node
				for i := 0; i+1 < len(lvl); i += 2 {
					k++
					nx = append(nx, &rm.Node{Children: []*rm.Node{lvl[i], lvl[i+1]}, HasLen: true, Len: float64(k%4) / 2, HasSup: true, Sup: 0.5 + float64(k%7)/16})
				}
				if len(lvl)%2 == 1 {
					nx = append(nx, lvl[len(lvl)-1])
				}
				lvl = nx
			}
			root = &rm.Node{Children: lvl}
		case "star":
			root = &rm.Node{}
			for i := 0; i < n; i++ {
				root.Children = append(root.Children, tip(i))
			}
		}
		return &rm.Tree{Root: root}
	}
	for _, kind := range []string{"caterpillar", "balanced", "star"} {
		for _, n := range []int{33, 64} {
			m := mk(kind, n)
			b := c05prepare(m)
			run := func(op c05op) {
				var res c05result
				c.Check(c05case{Tree: b.txt, Op: op}, func() (string, string) {
					res = c05exec(b, op)
					return res.key, res.what
				})
				c.Count("large_instance_executions", 1)
			}
			for i := 0; i < b.ninner; i++ {
				run(c05op{Kind: "reroot", Node: i})
			}
			run(c05op{Kind: "midpoint"})
			run(c05op{Kind: "unroot"})
			run(c05op{Kind: "sort"})
			run(c05op{Kind: "rotate"})
			// every clade and every complement of a clade as outgroup, and prefixes of the tip order (mostly non-clades)
			idx := rm.TipIndex(b.v.names)
			below := m.Below(idx)
			var sets []rm.Split
			m.Walk(func(nd, p *rm.Node) {
				if p != nil {
					full := rm.Split(1)<<uint(n-1)<<1 - 1
					sets = append(sets, below[nd], full&^below[nd])
				}
			})
			for k := 2; k < n; k += 7 {
				var s rm.Split
				for i := 0; i < k; i++ {
					s |= 1 << uint((i*3)%n)
				}
				sets = append(sets, s)
			}
			for _, s := range sets {
				for fl := 0; fl < 4; fl++ {
					run(c05op{Kind: "outgroup", Tips: s.Names(b.v.names), Remove: fl&1 != 0, Strict: fl&2 != 0})
				}
			}
		}
	}
}

func init() {
	register(&Prop{
		ID: "C05",
		Rule: "every plane rooted multifurcating shape with n tips (root with 2 children = rooted input, >= 3 = unrooted input), tips t1..tn; " +
			"branch lengths: every assignment over {0,1/2,1,2} (n <= 4), above that <= d deviations (values 0,1/2,2) from all-1 and from an all-distinct assignment (odd/16); " +
			"supports on the inner branches: all distinct, and for trees with <= 1 length deviation also none / a single 0.5 or 0.9 / all but one; " +
			"operations per tree: Reroot at every inner node, RerootOutGroup for every non-empty tip subset (and every subset padded with a name absent from the tree) x strict x remove, " +
			"RerootMidPoint, UnRoot, SortNeighborsByTips, RotateInternalNodes (default draws), plus RotateInternalNodes under every sequence of random answers on the distinct-decorated trees; " +
			"each executed on a fresh parse of the model's Newick text by the real code and observed twice (public API walk, Newick text re-read by the model's reader); " +
			"non-trivial = the operation changed the Newick text",
		Assumptions: []string{
			"the reference reduction (tip sets below branches, path sums, restriction to a tip subset) implemented in c05.go on refmodel trees is by definition and never looks at gotree",
			"all lengths are dyadic (k/16) so every sum, half and difference is exact: comparisons are exact",
			"gotree's Newick parser/writer agree with the model's reader on these plain trees (property C01)",
		},
		Require: []string{
			"G:reroot_ok", "G:reroot_rooted_input_ok", "G:unroot_rooted_input", "G:rotate_ok", "G:sort_ok",
			"G:midpoint_ok", "G:midpoint_tie_ok", "G:midpoint_zero_branch_ok",
			"G:outgroup_split_ok", "G:outgroup_complement_of_clade_ok", "G:outgroup_zero_branch_cut_ok", "G:outgroup_with_absent_name_ok",
			"G:outgroup_split_removed_ok", "G:outgroup_nonmono_strict_refused", "G:outgroup_nonmono_lenient_ok",
			"untouched_supports_compared", "rotate_explored_trees",
		},
		Run: func(c *Ctx) {
			// gotree logs a warning per absent name / non-monophyletic outgroup: silence it (millions of lines)
			if dn, err := os.OpenFile(os.DevNull, os.O_WRONLY, 0); err == nil {
				old := os.Stderr
				os.Stderr = dn
				defer func() { os.Stderr = old; dn.Close() }()
			}
			log.SetOutput(io.Discard)
			// the code under test allocates 16 kB slices per traversal: one P and a lazier collector make a worker ~2x faster
			runtime.GOMAXPROCS(1)
			debug.SetGCPercent(800)
			debug.SetMemoryLimit(1 << 30)

			plans := []c05plan{
				{n: 3, exhaustive: true, devD: 1, patDev: 99, absDev: 99, sup05: true},
				{n: 4, exhaustive: true, devD: 1, patDev: 1, absDev: 1, sup05: true},
				{n: 5, dev1: 2, devD: 1, patDev: 0, absDev: 0}}
			rotN, rotBoundedN := 5, 6
			if !c.Quick() {
				plans = []c05plan{
					{n: 3, exhaustive: true, devD: 2, patDev: 99, absDev: 99, sup05: true},
					{n: 4, exhaustive: true, devD: 2, patDev: 99, absDev: 99, sup05: true},
					{n: 5, dev1: 3, devD: 2, patDev: 1, absDev: 1, sup05: true},
					{n: 6, dev1: 2, devD: 1, patDev: 0, absDev: 0},
					{n: 7, dev1: 0, devD: 0, patDev: 0, absDev: -1}}
				rotN, rotBoundedN = 6, 7
			}
			for _, pl := range plans {
				pl := pl
				c05forTrees(c, pl, func(m *rm.Tree, ndev int) {
					if c.TimeUp() {
						return
					}
					b := c05prepare(m)
					c.States++
					c.Sample(b.txt)
					c.Pin(func() string { return b.txt })
					c05allOps(c, b, ndev <= pl.absDev, true)
				})
			}
			// rotations: every sequence of random answers
			for n := 3; n <= rotBoundedN; n++ {
				for _, sh := range enum.Shapes(n, "t") {
					for variant := 0; variant < 2; variant++ {
						if c.TimeUp() {
							return
						}
						if !c.Mine() {
							continue
						}
						m := sh.Clone()
						ab, ib := c05branches(m)
						for i, nd := range ab {
							nd.HasLen, nd.Len = true, float64(2*i+3)/16
							if variant == 1 {
								nd.Len = c05menu[(i*7+n)%4]
							}
						}
						for j, nd := range ib {
							if variant == 0 || j%2 == 0 {
								nd.HasSup, nd.Sup = true, 0.5+float64(j)/16
							}
						}
						b := c05prepare(m)
						c.States++
						bound := -1
						if n > rotN {
							bound = 2
						}
						c05rotations(c, b, bound)
					}
				}
			}
			if c.Shard == 0 {
				c05large(c)
			}
		},
		Replay: func(c *Ctx, raw json.RawMessage) {
			var cs c05case
			if err := json.Unmarshal(raw, &cs); err != nil {
				fmt.Println("bad replay data:", err)
				return
			}
			m, err := rm.ParseNewick(cs.Tree)
			if err != nil {
				fmt.Println("cannot re-read model:", err)
				return
			}
			log.SetOutput(io.Discard)
			b := c05prepare(m)
			res := c05exec(b, cs.Op)
			fmt.Printf("tree: %s\nop: %s\noutcome: %s\nresult: %s %s\n", cs.Tree, cs.Op, strings.Join(res.tags, ","), res.key, res.what)
			if res.key != "" {
				c.Violate(res.key, res.what, cs)
			}
		},
	})
}

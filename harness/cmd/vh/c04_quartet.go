package main

import (
	"fmt"
	"sort"

	"github.com/evolbioinfo/gotree/hashmap"
	"github.com/evolbioinfo/gotree/tree"

	"verif/harness/enum"
	rm "verif/harness/refmodel"
)

// C04 part (d): quartets. Model: a quartet is an unordered pair of unordered pairs of taxa.

type c04q [4]uint

const (
	c04qEqual = iota
	c04qConflict
	c04qDiff
)

var c04relName = []string{"equal", "conflict", "different-taxa"}

func (q c04q) sorted() c04q {
	s := q
	sort.Slice(s[:], func(i, j int) bool { return s[i] < s[j] })
	return s
}

// c04qrel by definition: same taxon set? then same partner of the first taxon?
func c04qrel(a, b c04q) int {
	if a.sorted() != b.sorted() {
		return c04qDiff
	}
	for i, x := range b {
		if x == a[0] {
			if b[i^1] == a[1] {
				return c04qEqual
			}
			return c04qConflict
		}
	}
	return c04qDiff
}

func (q c04q) gt() *tree.Quartet { return &tree.Quartet{T1: q[0], T2: q[1], T3: q[2], T4: q[3]} }

// c04tuples: all ordered 4-tuples of distinct elements of ids.
func c04tuples(ids []uint) []c04q {
	var out []c04q
	for a := range ids {
		for b := range ids {
			for c := range ids {
				for d := range ids {
					if a != b && a != c && a != d && b != c && b != d && c != d {
						out = append(out, c04q{ids[a], ids[b], ids[c], ids[d]})
					}
				}
			}
		}
	}
	return out
}

type c04qstats struct{ pairs, equal, conflict, diff int64 }

// c04quartetPairs: q1 against every q2.
func c04quartetPairs(q1 c04q, all []c04q, stats *c04qstats) (key, what string, with c04q) {
	r := c04fast(func() {
		g1 := q1.gt()
		for _, q2 := range all {
			g2 := q2.gt()
			rel := c04qrel(q1, q2)
			cmp := g1.Compare(g2)
			bad := func(k, w string) {
				key, what, with = "C04/quartet/"+k, fmt.Sprintf("(%d,%d|%d,%d) vs (%d,%d|%d,%d): %s", q1[0], q1[1], q1[2], q1[3], q2[0], q2[1], q2[2], q2[3], w), q2
			}
			want := []int{tree.QUARTET_EQUALS, tree.QUARTET_CONFLICT, tree.QUARTET_DIFF}[rel]
			if cmp != want {
				got := "?"
				for i, v := range []int{tree.QUARTET_EQUALS, tree.QUARTET_CONFLICT, tree.QUARTET_DIFF} {
					if v == cmp {
						got = c04relName[i]
					}
				}
				bad("compare/"+c04relName[rel]+"-reported-as-"+got, "Compare reports "+got+", by definition "+c04relName[rel])
				return
			}
			he := g1.HashEquals(g2)
			if he != (rel != c04qDiff) {
				bad("hash-equals/"+c04relName[rel], fmt.Sprintf("HashEquals=%v for %s quartets (documented: true iff same four taxa)", he, c04relName[rel]))
				return
			}
			if he && g1.HashCode() != g2.HashCode() {
				bad("hashcode-differs/"+c04relName[rel], fmt.Sprintf("HashEquals is true but the hash codes are %d and %d", g1.HashCode(), g2.HashCode()))
				return
			}
			stats.pairs++
			switch rel {
			case c04qEqual:
				stats.equal++
			case c04qConflict:
				stats.conflict++
			default:
				stats.diff++
			}
		}
	})
	if crashed(r) {
		return "C04/quartet/crash/" + crashSite(r), verdictStr(r), c04q{}
	}
	return
}

// ---- quartet index of a tree ----------------------------------------------------------

type c04qistats struct{ trees, emissions, lookups, otherPres, direct int64 }

var c04perm4 = func() [][]int {
	var out [][]int
	enum.Permutations(4, func(p []int) { out = append(out, append([]int(nil), p...)) })
	sort.Slice(out, func(i, j int) bool {
		for k := range out[i] {
			if out[i][k] != out[j][k] {
				return out[i][k] < out[j][k]
			}
		}
		return false
	})
	return out
}()

// c04quartetTree: the quartets gotree enumerates for the tree, put into a hashmap of every
// capacity x load factor (and, if direct, into IndexQuartets' own map), must be found,
// counted and overwritten exactly as in a plain map keyed by the four taxa, whichever of the
// 24 presentations is used for the look-up. On unrooted presentations without two-neighbour
// nodes the enumerated set is also compared with the quartets induced by the model's splits.
func c04quartetTree(spec c04spec, specific, direct bool, stats *c04qistats) (key, what string) {
	mode := "all"
	if specific {
		mode = "specific"
	}
	r := c04run(8_000_000_000, 0, func() {
		t, st, skip := c04make(spec)
		if skip != "" {
			return
		}
		n := len(st.names)
		var ems []c04q
		t.Quartets(specific, func(q *tree.Quartet) { ems = append(ems, c04q{q.T1, q.T2, q.T3, q.T4}) })
		stats.emissions += int64(len(ems))
		model := map[c04q]int{} // sorted taxa -> index of the last emission
		var order []c04q
		for i, q := range ems {
			s := q.sorted()
			if _, ok := model[s]; !ok {
				order = append(order, s)
			}
			model[s] = i
		}
		// content against the model's splits
		plain := len(st.m.Root.Children) >= 3
		for i, nd := range st.nodes {
			if i > 0 && nd.Nneigh() == 2 {
				plain = false
			}
		}
		if plain {
			var splits []rm.Split
			for _, rc := range st.recs {
				if c := rc.right.Count(); c >= 2 && n-c >= 2 {
					splits = append(splits, rc.right)
				}
			}
			want := map[c04q]bool{}
			for a := 0; a < n; a++ {
				for b := a + 1; b < n; b++ {
					for c := b + 1; c < n; c++ {
						for d := c + 1; d < n; d++ {
							for _, pr := range [][4]int{{a, b, c, d}, {a, c, b, d}, {a, d, b, c}} {
								l := rm.Split(1)<<uint(pr[0]) | rm.Split(1)<<uint(pr[1])
								rr := rm.Split(1)<<uint(pr[2]) | rm.Split(1)<<uint(pr[3])
								cnt := 0
								for _, s := range splits {
									if (s&l == l && s&rr == 0) || (s&rr == rr && s&l == 0) {
										cnt++
									}
								}
								if (specific && cnt == 1) || (!specific && cnt >= 1) {
									want[c04q{uint(pr[0]), uint(pr[1]), uint(pr[2]), uint(pr[3])}] = true
								}
							}
						}
					}
				}
			}
			got := map[c04q]bool{}
			for _, q := range ems {
				// canonical: smallest taxon first, its partner second, other pair ascending
				c := q
				if c[0] > c[1] {
					c[0], c[1] = c[1], c[0]
				}
				if c[2] > c[3] {
					c[2], c[3] = c[3], c[2]
				}
				if c[0] > c[2] {
					c[0], c[1], c[2], c[3] = c[2], c[3], c[0], c[1]
				}
				if !want[c] {
					key, what = "C04/quartets/enumeration/"+mode+"/extra", fmt.Sprintf("%v: gotree enumerates (%d,%d|%d,%d), which the tree's splits do not induce", spec, q[0], q[1], q[2], q[3])
					return
				}
				got[c] = true
			}
			if len(got) != len(want) {
				key, what = "C04/quartets/enumeration/"+mode+"/missing", fmt.Sprintf("%v: gotree enumerates %d distinct quartets, the tree's splits induce %d", spec, len(got), len(want))
				return
			}
		}
		check := func(h *hashmap.HashMap, cfg string, valueIsQuartet bool) bool {
			if got := len(h.Keys()); got != len(model) {
				key, what = "C04/quartet-index/"+mode+"/keys-count", fmt.Sprintf("%v %s: the index holds %d keys, a plain map keyed by the four taxa %d (%d quartets enumerated)", spec, cfg, got, len(model), len(ems))
				return false
			}
			for _, s := range order {
				last := model[s]
				for _, p := range c04perm4 {
					q := c04q{s[p[0]], s[p[1]], s[p[2]], s[p[3]]}
					v, ok := h.Value(q.gt())
					stats.lookups++
					feat := "same-presentation"
					if q != ems[last] {
						feat = "other-presentation"
						stats.otherPres++
					}
					if !ok {
						key, what = "C04/quartet-index/"+mode+"/value-missing/"+feat, fmt.Sprintf("%v %s: (%d,%d|%d,%d) is not found although quartets on these taxa were put", spec, cfg, q[0], q[1], q[2], q[3])
						return false
					}
					if valueIsQuartet {
						vq, is := v.(*tree.Quartet)
						if !is || vq == nil || (c04q{vq.T1, vq.T2, vq.T3, vq.T4}) != ems[last] {
							key, what = "C04/quartet-index/"+mode+"/value-stale", fmt.Sprintf("%v %s: look-up of (%d,%d|%d,%d) does not return the last quartet put for these taxa", spec, cfg, q[0], q[1], q[2], q[3])
							return false
						}
					} else if iv, is := v.(int); !is || iv != last {
						key, what = "C04/quartet-index/"+mode+"/value-stale", fmt.Sprintf("%v %s: look-up of (%d,%d|%d,%d) returns %v, the plain map holds %d", spec, cfg, q[0], q[1], q[2], q[3], v, last)
						return false
					}
				}
			}
			// taxon sets never put
			for a := 0; a < n; a++ {
				for b := a + 1; b < n; b++ {
					for c := b + 1; c < n; c++ {
						for d := c + 1; d < n; d++ {
							s := c04q{uint(a), uint(b), uint(c), uint(d)}
							if _, in := model[s]; in {
								continue
							}
							if _, ok := h.Value(s.gt()); ok {
								key, what = "C04/quartet-index/"+mode+"/phantom", fmt.Sprintf("%v %s: (%d,%d|%d,%d) is found although nothing on these taxa was put", spec, cfg, a, b, c, d)
								return false
							}
						}
					}
				}
			}
			return true
		}
		for _, capa := range c04caps {
			for _, lf := range c04lfs {
				h := hashmap.NewHashMap(capa, lf)
				for i, q := range ems {
					h.PutValue(q.gt(), i)
				}
				if !check(h, fmt.Sprintf("capacity %d load factor %v", capa, lf), false) {
					return
				}
			}
		}
		if direct {
			stats.direct++
			if !check(t.IndexQuartets(specific), "IndexQuartets", true) {
				return
			}
		}
		stats.trees++
	})
	if crashed(r) {
		return "C04/quartet-index/crash/" + crashSite(r), fmt.Sprintf("%v: %s", spec, verdictStr(r))
	}
	return
}

package main

import (
	"fmt"
	"math"
	"os"
	"sort"
	"strconv"
	"strings"

	"github.com/evolbioinfo/gotree/tree"
	"github.com/fredericlemoine/bitset"

	rm "verif/harness/refmodel"
)

// C15, part B: a clone or an extracted subtree is fully independent of its source.
// Explicit-state search: a state is the list of edits that reaches it, replayed on a freshly
// parsed source and a fresh copy (gotree objects cannot be copied reliably - Clone is under test).

type c15op struct {
	N string `json:"n"`
	A int    `json:"a,omitempty"` // pre-order position of the node (or of the node below the branch) the edit is applied to
}

var c15sources = []string{
	"((A:0.125[bA],B:0.25)0.9[n1]:0.5[b1],(C:1,D:2)0.5/0.01:0.375,E:0.75)[rc];",
	"((A:1,B:2)0.8:0.5[bc],(C:0.5,D:0.25)in1[nc1][nc2]:1.5)r;",
	"(A:0,B,C[x][y]:1[z],(D,E,F)0.3:0.25);",
	"((A:1,(B:0.5)s:0.25,C:1)0.7:1,D:2);",
	"(A:1[c],B:2);",
	"(((A:1,B:1)0.9:1,C:2)0.6[k]:1[kb],(D:1,E:1)0.4:2,F:3);",
}

// ---- complete public-API dump ------------------------------------------------------------

// One line per node (with the branch above it), fields separated by \x1f as name=value; then, in a full
// dump, the traversals and name look-ups of the tree and its text. A light dump (used between the steps
// of a sequence; every prefix of a sequence is also judged as a sequence of its own with the full dump)
// stops after the per-node lines and the text.
func c15dump(t *tree.Tree, full bool) []string {
	var L []string
	if t.Root() == nil {
		return []string{"tree\x1froot=nil"}
	}
	nodes, edges := c15walk(t)
	pos := make(map[*tree.Node]int, len(nodes))
	for i, n := range nodes {
		pos[n] = i
	}
	at := func(n *tree.Node) int {
		if p, ok := pos[n]; ok {
			return p
		}
		return -1
	}
	var sb strings.Builder
	field := func(name string) {
		sb.WriteByte(0x1f)
		sb.WriteString(name)
		sb.WriteByte('=')
	}
	num := func(v int) { sb.WriteString(strconv.Itoa(v)); sb.WriteByte(' ') }
	flt := func(v float64) { sb.WriteString(strconv.FormatUint(math.Float64bits(v), 16)) }
	strs := func(v []string) {
		for _, c := range v {
			sb.WriteString(strconv.Quote(c))
		}
	}
	ptr := func(p any) { fmt.Fprintf(&sb, "%p ", p) }
	list := func(ns []*tree.Node) {
		for _, n := range ns {
			num(at(n))
		}
	}
	elist := func(es []*tree.Edge) {
		for _, e := range es {
			ptr(e)
		}
	}
	flush := func() {
		L = append(L, sb.String())
		sb.Reset()
	}
	for i, n := range nodes {
		sb.WriteString("node ")
		num(i)
		field("node.identity")
		ptr(n)
		field("node.name")
		sb.WriteString(strconv.Quote(n.Name()))
		field("node.comments")
		strs(n.Comments())
		field("node.id")
		num(n.Id())
		field("node.tipindex")
		num(n.TipIndex())
		field("node.depth")
		d, err := n.Depth()
		num(d)
		sb.WriteString(strconv.FormatBool(err != nil))
		field("node.neighbours")
		num(n.Nneigh())
		sb.WriteString(strconv.FormatBool(n.Tip()))
		list(n.Neigh())
		field("node.branches")
		elist(n.Edges())
		if e := edges[i]; e != nil {
			field("branch.identity")
			ptr(e)
			field("branch.ends")
			num(at(e.Left()))
			num(at(e.Right()))
			field("branch.length")
			flt(e.Length())
			field("branch.support")
			flt(e.Support())
			field("branch.pvalue")
			flt(e.PValue())
			field("branch.comments")
			strs(e.Comments())
			field("branch.id")
			num(e.Id())
			field("branch.bitset")
			if bs := e.Bitset(); bs == nil {
				sb.WriteString("nil")
			} else {
				ptr(bs)
				num(int(bs.Len()))
				sb.WriteString(bs.String())
			}
			field("branch.tipcounts")
			num(e.NumTipsLeft())
			num(e.NumTipsRight())
			field("branch.topodepth")
			td, err := e.TopoDepth()
			num(td)
			sb.WriteString(strconv.FormatBool(err != nil))
			field("branch.hash")
			sb.WriteString(strconv.FormatUint(e.HashCode(), 16))
		}
		flush()
	}
	sb.WriteString("tree")
	field("tree.rooted")
	sb.WriteString(strconv.FormatBool(t.Rooted()))
	field("text")
	sb.WriteString(t.Newick())
	flush()
	if !full {
		return L
	}
	sb.WriteString("traversals")
	field("tree.nodes")
	list(t.Nodes())
	field("tree.tips")
	list(t.Tips())
	field("tree.sortedtips")
	list(t.SortedTips())
	field("tree.edges")
	elist(t.Edges())
	field("tree.tipedges")
	elist(t.TipEdges())
	field("tree.internaledges")
	elist(t.InternalEdges())
	atn := t.AllTipNames()
	field("tree.alltipnames")
	strs(atn)
	flush()
	names := append(append([]string(nil), atn...), "zz-absent")
	sort.Strings(names)
	sb.WriteString("lookups")
	for i, nm := range names {
		if i > 0 && names[i-1] == nm {
			continue
		}
		ti, e1 := t.TipIndex(nm)
		ex, e2 := t.ExistsTip(nm)
		tn, e3 := t.TipNode(nm)
		field("index.lookup")
		sb.WriteString(strconv.Quote(nm))
		num(ti)
		num(at(tn))
		fmt.Fprint(&sb, e1 != nil, ex, e2 != nil, e3 != nil)
	}
	flush()
	return L
}

// c15diff compares two dumps (b may be a light dump: then only its lines are compared): "" or the
// class of the first differing field and a description.
func c15diff(a, b []string) (string, string) {
	for i := 0; i < len(a) && i < len(b); i++ {
		if a[i] == b[i] {
			continue
		}
		fa, fb := strings.Split(a[i], "\x1f"), strings.Split(b[i], "\x1f")
		for j := 0; j < len(fa) && j < len(fb); j++ {
			if fa[j] != fb[j] {
				cl := strings.SplitN(fa[j], "=", 2)[0]
				if j == 0 {
					cl = "structure"
				}
				return cl, fmt.Sprintf("%s: %q became %q", fa[0], fa[j], fb[j])
			}
		}
		return "structure", fmt.Sprintf("%q became %q", a[i], b[i])
	}
	return "", ""
}

// c15shared: objects reachable through the public API of both trees.
func c15shared(a, b *tree.Tree) (string, string) {
	na, ea := c15walk(a)
	nb, eb := c15walk(b)
	ns := map[*tree.Node]bool{}
	es := map[*tree.Edge]bool{}
	bs := map[*bitset.BitSet]bool{}
	cs := map[*string]bool{}
	for i, n := range na {
		ns[n] = true
		if c := n.Comments(); len(c) > 0 {
			cs[&c[0]] = true
		}
		if e := ea[i]; e != nil {
			es[e] = true
			if e.Bitset() != nil {
				bs[e.Bitset()] = true
			}
			if c := e.Comments(); len(c) > 0 {
				cs[&c[0]] = true
			}
		}
	}
	for i, n := range nb {
		if ns[n] {
			return "node", fmt.Sprintf("node %q (position %d of the copy) belongs to both trees", n.Name(), i)
		}
		if c := n.Comments(); len(c) > 0 && cs[&c[0]] {
			return "comments", fmt.Sprintf("the comment list of node %d of the copy is the memory of a list of the source", i)
		}
		if e := eb[i]; e != nil {
			if es[e] {
				return "branch", fmt.Sprintf("the branch above position %d of the copy belongs to both trees", i)
			}
			if e.Bitset() != nil && bs[e.Bitset()] {
				return "bitset", fmt.Sprintf("the bitset of the branch above position %d of the copy is the source's object", i)
			}
			if c := e.Comments(); len(c) > 0 && cs[&c[0]] {
				return "comments", fmt.Sprintf("the comment list of the branch above position %d of the copy is the memory of a list of the source", i)
			}
		}
	}
	return "", ""
}

// ---- edit alphabet -------------------------------------------------------------------------

const (
	c15onTree = iota
	c15onTip
	c15onInner // non-root nodes with >= 2 neighbours
	c15onNode
	c15onNodeCom // nodes carrying a comment
	c15onEdge
	c15onEdgeCom
	c15onEdgeBits
	c15onInnerEdge
)

type c15opdef struct {
	name     string
	on       int
	core     bool
	terminal bool
	f        func(x *tree.Tree, n *tree.Node, e *tree.Edge, step int) error
}

func c15fresh(txt string) *tree.Tree {
	t := gtMustParse(txt)
	t.UpdateTipIndex()
	return t
}

var c15alphabet = []c15opdef{
	// whole-tree edits
	{"rerootfirst", c15onTree, false, false, func(x *tree.Tree, _ *tree.Node, _ *tree.Edge, _ int) error { return x.RerootFirst() }},
	{"unroot", c15onTree, true, false, func(x *tree.Tree, _ *tree.Node, _ *tree.Edge, _ int) error { x.UnRoot(); return nil }},
	{"collapse-short-0.3", c15onTree, true, false, func(x *tree.Tree, _ *tree.Node, _ *tree.Edge, _ int) error {
		x.CollapseShortBranches(0.3, false, false)
		return nil
	}},
	{"collapse-short-all", c15onTree, false, false, func(x *tree.Tree, _ *tree.Node, _ *tree.Edge, _ int) error {
		x.CollapseShortBranches(100, true, true)
		return nil
	}},
	{"collapse-support", c15onTree, false, false, func(x *tree.Tree, _ *tree.Node, _ *tree.Edge, _ int) error {
		x.CollapseLowSupport(0.85, false)
		return nil
	}},
	{"collapse-depth", c15onTree, false, false, func(x *tree.Tree, _ *tree.Node, _ *tree.Edge, _ int) error {
		return x.CollapseTopoDepth(2, 2, false, false)
	}},
	{"clearcomments", c15onTree, true, false, func(x *tree.Tree, _ *tree.Node, _ *tree.Edge, _ int) error { x.ClearComments(); return nil }},
	{"clearnodecomments", c15onTree, false, false, func(x *tree.Tree, _ *tree.Node, _ *tree.Edge, _ int) error { x.ClearNodeComments(); return nil }},
	{"clearedgecomments", c15onTree, false, false, func(x *tree.Tree, _ *tree.Node, _ *tree.Edge, _ int) error { x.ClearEdgeComments(); return nil }},
	{"cleartipscomments", c15onTree, false, false, func(x *tree.Tree, _ *tree.Node, _ *tree.Edge, _ int) error { x.ClearTipsComments(); return nil }},
	{"clearterminaledgecomments", c15onTree, false, false, func(x *tree.Tree, _ *tree.Node, _ *tree.Edge, _ int) error {
		x.ClearTerminalEdgeComments()
		return nil
	}},
	{"clearlengths", c15onTree, true, false, func(x *tree.Tree, _ *tree.Node, _ *tree.Edge, _ int) error { x.ClearLengths(true, true); return nil }},
	{"clearsupports", c15onTree, false, false, func(x *tree.Tree, _ *tree.Node, _ *tree.Edge, _ int) error { x.ClearSupports(); return nil }},
	{"clearpvalues", c15onTree, false, false, func(x *tree.Tree, _ *tree.Node, _ *tree.Edge, _ int) error { x.ClearPvalues(); return nil }},
	{"scalelengths", c15onTree, false, false, func(x *tree.Tree, _ *tree.Node, _ *tree.Edge, _ int) error { x.ScaleLengths(2, true, true); return nil }},
	{"addlength", c15onTree, false, false, func(x *tree.Tree, _ *tree.Node, _ *tree.Edge, _ int) error { x.AddLength(0.5, true, true); return nil }},
	{"roundlengths", c15onTree, false, false, func(x *tree.Tree, _ *tree.Node, _ *tree.Edge, _ int) error { x.RoundLengths(1, true, true); return nil }},
	{"scalesupports", c15onTree, false, false, func(x *tree.Tree, _ *tree.Node, _ *tree.Edge, _ int) error { x.ScaleSupports(2); return nil }},
	{"roundsupports", c15onTree, false, false, func(x *tree.Tree, _ *tree.Node, _ *tree.Edge, _ int) error { x.RoundSupports(1); return nil }},
	{"rotate", c15onTree, true, false, func(x *tree.Tree, _ *tree.Node, _ *tree.Edge, _ int) error { x.RotateInternalNodes(); return nil }},
	{"sortneighbours", c15onTree, false, false, func(x *tree.Tree, _ *tree.Node, _ *tree.Edge, _ int) error { x.SortNeighborsByTips(); return nil }},
	{"shuffletips", c15onTree, false, false, func(x *tree.Tree, _ *tree.Node, _ *tree.Edge, _ int) error { x.ShuffleTips(); return nil }},
	{"removesinglenodes", c15onTree, true, false, func(x *tree.Tree, _ *tree.Node, _ *tree.Edge, _ int) error { x.RemoveSingleNodes(); return nil }},
	{"resolve", c15onTree, false, false, func(x *tree.Tree, _ *tree.Node, _ *tree.Edge, _ int) error { x.Resolve(); return nil }},
	{"resolvenamed", c15onTree, false, false, func(x *tree.Tree, _ *tree.Node, _ *tree.Edge, _ int) error { x.ResolveNamedInternalNodes(); return nil }},
	{"reinitindexes", c15onTree, true, false, func(x *tree.Tree, _ *tree.Node, _ *tree.Edge, _ int) error { return x.ReinitIndexes() }},
	{"updatetipindex", c15onTree, false, false, func(x *tree.Tree, _ *tree.Node, _ *tree.Edge, _ int) error { return x.UpdateTipIndex() }},
	{"clearbitsets", c15onTree, false, false, func(x *tree.Tree, _ *tree.Node, _ *tree.Edge, _ int) error { return x.ClearBitSets() }},
	{"updatebitset", c15onTree, false, false, func(x *tree.Tree, _ *tree.Node, _ *tree.Edge, _ int) error { return x.UpdateBitSet() }},
	{"computedepths", c15onTree, false, false, func(x *tree.Tree, _ *tree.Node, _ *tree.Edge, _ int) error { x.ComputeDepths(); return nil }},
	{"reinitinternalindexes", c15onTree, false, false, func(x *tree.Tree, _ *tree.Node, _ *tree.Edge, _ int) error { x.ReinitInternalIndexes(); return nil }},
	{"merge", c15onTree, false, false, func(x *tree.Tree, _ *tree.Node, _ *tree.Edge, s int) error {
		if err := x.UpdateTipIndex(); err != nil {
			return err
		}
		return x.Merge(c15fresh(fmt.Sprintf("(m%da:1,m%db:2)mr;", s, s)))
	}},
	{"renameauto", c15onTree, false, false, func(x *tree.Tree, _ *tree.Node, _ *tree.Edge, _ int) error {
		id := 0
		return x.RenameAuto(true, true, 4, &id, map[string]string{})
	}},
	{"addquotes", c15onTree, false, false, func(x *tree.Tree, _ *tree.Node, _ *tree.Edge, _ int) error {
		return x.AddQuotes(false, true, map[string]string{}) // tips only: with internals=true it indexes the empty name of unnamed nodes and panics (not C15's business)
	}},
	{"delete", c15onTree, true, true, func(x *tree.Tree, _ *tree.Node, _ *tree.Edge, _ int) error { x.Delete(); return nil }},
	// per tip
	{"removetip", c15onTip, true, false, func(x *tree.Tree, n *tree.Node, _ *tree.Edge, _ int) error { return x.RemoveTips(false, n.Name()) }},
	{"rename", c15onTip, true, false, func(x *tree.Tree, n *tree.Node, _ *tree.Edge, _ int) error {
		return x.Rename(map[string]string{n.Name(): n.Name() + "r"})
	}},
	{"graft", c15onTip, true, false, func(x *tree.Tree, n *tree.Node, _ *tree.Edge, s int) error {
		if err := x.UpdateTipIndex(); err != nil {
			return err
		}
		return x.GraftTreeOnTip(n.Name(), gtMustParse(fmt.Sprintf("(g%da:0.5[gc],g%db:0.25)gr;", s, s)))
	}},
	{"insertidentical", c15onTip, true, false, func(x *tree.Tree, n *tree.Node, _ *tree.Edge, s int) error {
		if err := x.UpdateTipIndex(); err != nil {
			return err
		}
		return x.InsertIdenticalTips([][]string{{n.Name(), fmt.Sprintf("i%d", s)}})
	}},
	{"insertidenticaltip", c15onTip, false, false, func(x *tree.Tree, n *tree.Node, _ *tree.Edge, s int) error {
		if err := x.UpdateTipIndex(); err != nil {
			return err
		}
		_, err := x.InsertIdenticalTip(n, fmt.Sprintf("j%d", s))
		return err
	}},
	// per inner node
	{"reroot", c15onInner, true, false, func(x *tree.Tree, n *tree.Node, _ *tree.Edge, _ int) error { return x.Reroot(n) }},
	{"rotatenode", c15onInner, false, false, func(x *tree.Tree, n *tree.Node, _ *tree.Edge, _ int) error { n.RotateNeighbors(); return nil }},
	// per node
	{"setname", c15onNode, true, false, func(_ *tree.Tree, n *tree.Node, _ *tree.Edge, _ int) error { n.SetName(n.Name() + "s"); return nil }},
	{"node-addcomment", c15onNode, true, false, func(_ *tree.Tree, n *tree.Node, _ *tree.Edge, _ int) error { n.AddComment("zn"); return nil }},
	{"node-clearcomments", c15onNode, true, false, func(_ *tree.Tree, n *tree.Node, _ *tree.Edge, _ int) error { n.ClearComments(); return nil }},
	{"node-setid", c15onNode, true, false, func(_ *tree.Tree, n *tree.Node, _ *tree.Edge, _ int) error { n.SetId(78); return nil }},
	{"node-setdepth", c15onNode, false, false, func(_ *tree.Tree, n *tree.Node, _ *tree.Edge, _ int) error { n.SetDepth(9); return nil }},
	{"node-overwritecomment", c15onNodeCom, true, false, func(_ *tree.Tree, n *tree.Node, _ *tree.Edge, _ int) error {
		n.Comments()[0] = "zo"
		return nil
	}},
	// per branch
	{"setlength", c15onEdge, true, false, func(_ *tree.Tree, _ *tree.Node, e *tree.Edge, _ int) error { e.SetLength(7.5); return nil }},
	{"setsupport", c15onEdge, true, false, func(_ *tree.Tree, _ *tree.Node, e *tree.Edge, _ int) error { e.SetSupport(0.33); return nil }},
	{"setpvalue", c15onEdge, false, false, func(_ *tree.Tree, _ *tree.Node, e *tree.Edge, _ int) error { e.SetPValue(0.004); return nil }},
	{"incrementsupport", c15onEdge, false, false, func(_ *tree.Tree, _ *tree.Node, e *tree.Edge, _ int) error { e.IncrementSupport(1); return nil }},
	{"branch-addcomment", c15onEdge, true, false, func(_ *tree.Tree, _ *tree.Node, e *tree.Edge, _ int) error { e.AddComment("ze"); return nil }},
	{"branch-clearcomments", c15onEdge, true, false, func(_ *tree.Tree, _ *tree.Node, e *tree.Edge, _ int) error { e.ClearComments(); return nil }},
	{"branch-setid", c15onEdge, true, false, func(_ *tree.Tree, _ *tree.Node, e *tree.Edge, _ int) error { e.SetId(77); return nil }},
	{"grafttiponedge", c15onEdge, false, false, func(x *tree.Tree, _ *tree.Node, e *tree.Edge, s int) error {
		nn := x.NewNode()
		nn.SetName(fmt.Sprintf("k%d", s))
		_, _, _, err := x.GraftTipOnEdge(nn, e)
		return err
	}},
	{"branch-overwritecomment", c15onEdgeCom, true, false, func(_ *tree.Tree, _ *tree.Node, e *tree.Edge, _ int) error {
		e.Comments()[0] = "zo"
		return nil
	}},
	{"bitset-flip", c15onEdgeBits, true, false, func(_ *tree.Tree, _ *tree.Node, e *tree.Edge, _ int) error { e.Bitset().Flip(0); return nil }},
	{"removeedge", c15onInnerEdge, true, false, func(x *tree.Tree, _ *tree.Node, e *tree.Edge, _ int) error {
		x.RemoveEdges(false, false, e)
		return nil
	}},
}

var c15opIndex = func() map[string]*c15opdef {
	m := map[string]*c15opdef{}
	for i := range c15alphabet {
		m[c15alphabet[i].name] = &c15alphabet[i]
	}
	return m
}()

func c15applicable(d *c15opdef, x *tree.Tree, n *tree.Node, e *tree.Edge) bool {
	root := n == x.Root()
	switch d.on {
	case c15onTree:
		return true
	case c15onTip:
		return n.Tip() && !root
	case c15onInner:
		return !root && n.Nneigh() >= 2
	case c15onNode:
		return true
	case c15onNodeCom:
		return len(n.Comments()) > 0
	case c15onEdge:
		return e != nil
	case c15onEdgeCom:
		return e != nil && len(e.Comments()) > 0
	case c15onEdgeBits:
		return e != nil && e.Bitset() != nil && e.Bitset().Len() > 0
	case c15onInnerEdge:
		return e != nil && !n.Tip()
	}
	return false
}

// c15ops: every edit of the alphabet instantiated on every node / branch / tip of the current state.
// core: the core alphabet on the first tip, the first inner node and the root only.
func c15ops(x *tree.Tree, core bool) []c15op {
	var out []c15op
	nodes, edges := c15walk(x)
	firstTip, firstInner := -1, -1
	for i, n := range nodes {
		if i == 0 {
			continue
		}
		if n.Tip() && firstTip < 0 {
			firstTip = i
		}
		if !n.Tip() && firstInner < 0 {
			firstInner = i
		}
	}
	for di := range c15alphabet {
		d := &c15alphabet[di]
		if core && !d.core {
			continue
		}
		if d.on == c15onTree {
			out = append(out, c15op{N: d.name})
			continue
		}
		for i, n := range nodes {
			if core && i != 0 && i != firstTip && i != firstInner {
				continue
			}
			if c15applicable(d, x, n, edges[i]) {
				out = append(out, c15op{N: d.name, A: i})
			}
		}
	}
	return out
}

func c15apply(x *tree.Tree, op c15op, step int) error {
	d := c15opIndex[op.N]
	if d == nil {
		return fmt.Errorf("unknown edit %q", op.N)
	}
	if d.on == c15onTree {
		return d.f(x, nil, nil, step)
	}
	nodes, edges := c15walk(x)
	if op.A >= len(nodes) || !c15applicable(d, x, nodes[op.A], edges[op.A]) {
		return fmt.Errorf("edit %v not applicable", op)
	}
	return d.f(x, nodes[op.A], edges[op.A], step)
}

// ---- one sequence ----------------------------------------------------------------------------

type c15res struct {
	status    string  // ok | failed | crashed | setup-failed
	next      []c15op // edits available afterwards (nil unless status ok and not terminal)
	effective bool    // sequences of one edit: the edit changed the dump of the edited tree (a terminal edit counts as effective)
}

// c15indep replays one case: copy, edit one side step by step, compare the other side's dump after every step.
func c15indep(cs c15case, wantNext, core bool, res *c15res) (key, what string) {
	if res == nil {
		res = &c15res{}
	}
	res.status = "ok"
	who := "copy"
	if cs.EditCopy {
		who = "source"
	}
	phase, step := "setup", -1
	var observed *tree.Tree
	var snap0 []string
	describe := func() string {
		var ops []string
		for i, o := range cs.Ops {
			if i > step && step >= 0 {
				break
			}
			ops = append(ops, fmt.Sprintf("%s@%d", o.N, o.A))
		}
		side := "the source"
		if cs.EditCopy {
			side = "the copy"
		}
		kind := "Clone()"
		if cs.Kind == "subtree" {
			kind = fmt.Sprintf("SubTree(pre-order node %d)", cs.Node)
		}
		return fmt.Sprintf("%s of %s (indexes built: %v), edits on %s: %s", kind, cs.Tree, cs.Reindex, side, strings.Join(ops, ", "))
	}
	r := c15guard(func() {
		src := gtMustParse(cs.Tree) // that the parser reads the sources as the model does is checked once in c15enumIndep
		if cs.Reindex {
			if err := src.ReinitIndexes(); err != nil {
				res.status = "setup-failed"
				return
			}
		}
		var cp *tree.Tree
		if cs.Kind == "clone" {
			cp = src.Clone()
		} else {
			ns, _ := c15walk(src)
			if cs.Node >= len(ns) {
				key, what = "C15/harness/input", "node index"
				return
			}
			cp = src.SubTree(ns[cs.Node])
		}
		if len(cs.Ops) == 0 && os.Getenv("C15_NOSHARED") == "" { // development aid: lets the search alone find what the identity check finds
			if k, w := c15shared(src, cp); k != "" {
				key, what = "C15/"+cs.Kind+"/shared-object/"+k, describe()+": "+w
				return
			}
		}
		edited := src
		observed = cp
		if cs.EditCopy {
			edited, observed = cp, src
		}
		phase = "dump"
		snap0 = c15dump(observed, true)
		var ed0 []string
		if len(cs.Ops) == 1 {
			ed0 = c15dump(edited, true)
		}
		terminal := false
		for i, op := range cs.Ops {
			step = i
			phase = "edit"
			err := c15apply(edited, op, i)
			phase = "dump"
			if cl, d := c15diff(snap0, c15dump(observed, i == len(cs.Ops)-1)); cl != "" {
				key, what = "C15/"+cs.Kind+"/"+who+"-changed/"+cl, describe()+": "+d
				return
			}
			if err != nil {
				res.status = "failed"
				return
			}
			terminal = c15opIndex[op.N].terminal
		}
		if terminal {
			res.effective = true
			return
		}
		phase = "after"
		if ed0 != nil {
			if cl, _ := c15diff(ed0, c15dump(edited, true)); cl != "" {
				res.effective = true
			}
		}
		if wantNext {
			res.next = c15ops(edited, core)
		}
	})
	if !crashed(r) {
		return
	}
	switch phase {
	case "setup":
		return "C15/" + cs.Kind + "/crash/" + crashSite(r), describe() + ": " + verdictStr(r)
	case "edit":
		// the edit itself crashed: no obligation about the edited tree, but its twin must still be untouched
		res.status = "crashed"
		r2 := c15guard(func() {
			if cl, d := c15diff(snap0, c15dump(observed, true)); cl != "" {
				key, what = "C15/"+cs.Kind+"/"+who+"-changed/"+cl, describe()+" (the last edit crashed): "+d
			}
		})
		if crashed(r2) {
			return "C15/" + cs.Kind + "/" + who + "-changed/unobservable", describe() + " (the last edit crashed): the untouched tree cannot be dumped any more: " + verdictStr(r2)
		}
		return
	case "dump":
		if step < 0 {
			return "C15/" + cs.Kind + "/crash/dump-" + crashSite(r), describe() + ": the fresh copy cannot be dumped: " + verdictStr(r)
		}
		return "C15/" + cs.Kind + "/" + who + "-changed/unobservable", describe() + ": the untouched tree cannot be dumped any more: " + verdictStr(r)
	default:
		// dumping / listing the edits of the edited tree crashed: the state is not expanded
		res.status = "crashed"
		res.next = nil
		return
	}
}

// ---- search --------------------------------------------------------------------------------------

func c15enumIndep(c *Ctx) {
	for si, src := range c15sources {
		// the parser must read the source as the model's reader does (otherwise the harness, not gotree, is at fault)
		var inputErr error
		if r := c15guard(func() { _, _, inputErr = c15input(src, false) }); crashed(r) || inputErr != nil {
			c.EngineError(fmt.Sprintf("C15/harness/input: source %s: %v %s", src, inputErr, verdictStr(r)))
			continue
		}
		pre := c15preorder(rm.MustParse(src))
		type kind struct {
			name string
			node int
		}
		kinds := []kind{{"clone", 0}}
		for k, n := range pre {
			if !n.IsTip() {
				kinds = append(kinds, kind{"subtree", k})
			}
		}
		for _, reindex := range []bool{false, true} {
			for _, kd := range kinds {
				for _, editCopy := range []bool{true, false} {
					base := c15case{Op: "indep", Tree: src, Reindex: reindex, Kind: kd.name, Node: kd.node, EditCopy: editCopy}
					counter := "indep_" + kd.name + "_edit_source"
					if editCopy {
						counter = "indep_" + kd.name + "_edit_copy"
					}
					// depth 0 (every worker needs the list of first edits; the verdict is recorded once)
					var r0 c15res
					k0, w0 := c15indep(base, true, false, &r0)
					if c.Shard == 0 {
						c.States++
						c.Count("indep_copies", 1)
						c.Check(base, func() (string, string) {
							return c15filter(c, base, func(c15case) (string, string) { return k0, w0 })
						})
					}
					if k0 != "" || r0.status != "ok" {
						if c.Shard == 0 {
							c.Count("indep_setups_not_expanded", 1)
						}
						continue
					}
					// rec judges every sequence prefix+o (o in ops) and descends. coreAt[d] = the edits at depth d come
					// from the core alphabet; judgeFrom = sequences shorter than this were judged by an earlier pass.
					var rec func(prefix []c15op, ops []c15op, depth, maxDepth, judgeFrom int, coreAt []bool, firstEffective bool)
					rec = func(prefix []c15op, ops []c15op, depth, maxDepth, judgeFrom int, coreAt []bool, firstEffective bool) {
						type todo struct {
							ops  []c15op
							next []c15op
							eff  bool
						}
						var level []todo // breadth first inside the unit: the shortest failing sequence is met first
						for _, o := range ops {
							if c.TimeUp() {
								return
							}
							if depth == 1 && !c.Mine() {
								continue
							}
							cs := base
							cs.Ops = append(append([]c15op(nil), prefix...), o)
							var res c15res
							expand := depth < maxDepth
							coreNext := expand && coreAt[depth+1]
							if depth < judgeFrom {
								if k, _ := c15indep(cs, true, coreNext, &res); k == "" && res.status == "ok" && len(res.next) > 0 {
									level = append(level, todo{cs.Ops, res.next, (depth == 1 && res.effective) || (depth > 1 && firstEffective)})
								}
								continue
							}
							held := c.Check(cs, func() (string, string) {
								return c15filter(c, cs, func(x c15case) (string, string) { return c15indep(x, expand, coreNext, &res) })
							})
							c.States++
							c.Transitions += int64(len(cs.Ops))
							c.Count(counter, 1)
							c.Count("indep_edits_"+res.status, 1)
							if res.status != "ok" {
								c.Count("indep_"+res.status+":"+o.N, 1)
							}
							c.Max("indep_depth", int64(depth))
							c.Outcome(o.N + "/" + res.status)
							eff := firstEffective
							if depth == 1 {
								eff = res.effective
								if eff {
									c.Count("indep_effective_first_edits", 1)
								}
							}
							if eff && res.status == "ok" {
								c.Count("indep_effective_sequences", 1)
								c.Nontrivial(fmt.Sprint("indep|", si, reindex, kd, editCopy, cs.Ops))
							}
							if depth == 1 && c.States%50 == 1 && len(c.Samples) < 8 {
								c.Samples = append(c.Samples, cs)
							}
							if held && res.status == "ok" && expand && len(res.next) > 0 {
								level = append(level, todo{cs.Ops, res.next, eff})
							}
						}
						for _, td := range level {
							rec(td.ops, td.next, depth+1, maxDepth, judgeFrom, coreAt, td.eff)
						}
					}
					if c.Quick() {
						// every single edit; every pair (any edit, core edit)
						rec(nil, r0.next, 1, 2, 1, []bool{false, false, true}, false)
					} else {
						// every sequence of <= 2 edits; every sequence of 3 core edits
						rec(nil, r0.next, 1, 2, 1, []bool{false, false, false}, false)
						var rc c15res
						if k, _ := c15indep(base, true, true, &rc); k == "" && rc.status == "ok" {
							rec(nil, rc.next, 1, 3, 3, []bool{false, true, true, true}, false)
						}
					}
				}
			}
		}
	}
}

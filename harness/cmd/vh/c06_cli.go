package main

import (
	"fmt"
	"sort"
	"strings"

	"github.com/evolbioinfo/gotree/mcrt"

	"verif/harness/enum"
	rm "verif/harness/refmodel"
)

// C06 at command level: `gotree prune` (tip file, compared tree, tips on the command line, --revert, several trees per
// file) run in-process; every output line is judged by the same induced-subtree oracle as the library.

type c06cliCase struct {
	Mode  string            `json:"cli_mode"`
	Tree  string            `json:"tree"`
	Keep  []string          `json:"kept_tips"`
	Args  []string          `json:"args"`
	Files map[string]string `json:"files"`
}

func c06cliRun(m *rm.Tree, keep map[string]bool, mode string) (cs c06cliCase, key, what string) {
	txt := m.Newick()
	var keepL, dropL []string
	for _, n := range m.TipNames() {
		if keep[n] {
			keepL = append(keepL, n)
		} else {
			dropL = append(dropL, n)
		}
	}
	// the second tree of the file carries one more taxon (x9, attached to the root): options must be evaluated per tree
	m2 := m.Clone()
	m2.Root.Children = append(m2.Root.Children, &rm.Node{Name: "x9", HasLen: m2.Root.Children[0].HasLen, Len: 0.5})
	txt2 := m2.Newick()
	files := map[string]string{"in.nw": txt + "\n" + txt2 + "\n"}
	args := []string{"prune", "-i", "@/in.nw"}
	switch mode {
	case "args":
		// x9 (a tip of the second tree only) and a name that is in no tree come FIRST: what is ignored for one tree still counts for the next
		args = append(args, append([]string{"x9", "notatip"}, dropL...)...)
	case "args-revert":
		args = append(append(args, "-r"), append([]string{"x9", "notatip"}, keepL...)...)
	case "tipfile":
		files["tips.txt"] = strings.Join(append([]string{"x9", "notatip"}, dropL...), "\n") + "\n"
		args = append(args, "-f", "@/tips.txt")
	case "tipfile-commas-revert":
		files["tips.txt"] = strings.Join(keepL, ",") // no newline at the end of the file
		args = append(args, "-f", "@/tips.txt", "-r")
	case "tipfile-long-line-crlf":
		// one comma-separated line of more than 64 KiB (names that are not in the tree are ignored), CR LF line ends, every name twice
		var pad []string
		for i := 0; i < 9000; i++ {
			pad = append(pad, fmt.Sprintf("zq%05d", i))
		}
		files["tips.txt"] = strings.Join(append(append(pad, dropL...), "x9"), ",") + "\r\n" + strings.Join(append(append([]string{}, dropL...), "x9"), "\r\n") + "\r\n"
		args = append(args, "-f", "@/tips.txt")
	case "comp":
		// the compared tree holds the tips to keep plus taxa of its own: tips specific to the input tree are removed
		// its own taxa sit under an inner node labelled like a tip that is to be removed: a label is not a tip
		files["comp.nw"] = "(" + strings.Join(append(append([]string{}, keepL...), "(zz1,zz2)"+c06first(dropL)), ",") + ");\n"
		args = append(args, "-c", "@/comp.nw")
	case "comp-revert":
		// with -r only the tips specific to the input tree are kept: the compared tree holds the others
		files["comp.nw"] = "(" + strings.Join(append(append([]string{}, dropL...), "(zz1,zz2)"+c06first(keepL)), ",") + ");\n"
		args = append(args, "-c", "@/comp.nw", "-r")
	}
	cs = c06cliCase{Mode: mode, Tree: txt, Keep: keepL, Args: args, Files: files}
	res, r := cliExec(mcrt.Config{}, args, "", files, nil)
	if crashed(r) {
		return cs, "C06/cli-" + mode + "/crash/" + crashSite(r), fmt.Sprintf("`gotree %s` on %s: %s", strings.Join(args, " "), txt, verdictStr(r))
	}
	if res.Err != "" {
		return cs, "C06/cli-" + mode + "/error", fmt.Sprintf("`gotree %s` on %s: %s", strings.Join(args, " "), txt, res.Err)
	}
	lines := strings.Split(strings.TrimSpace(res.Stdout), "\n")
	if len(lines) != 2 {
		return cs, "C06/cli-" + mode + "/trees-written", fmt.Sprintf("`gotree %s`: 2 trees in, %d lines out: %q", strings.Join(args, " "), len(lines), res.Stdout)
	}
	keep2 := map[string]bool{}
	for k, v := range keep {
		keep2[k] = v
	}
	if mode == "comp-revert" || mode == "args-revert" {
		keep2["x9"] = true
	}
	refs := []*c06ref{c06expect(m, keep), c06expect(m2, keep2)}
	for li, l := range lines {
		ref := refs[li]
		out, err := rm.ParseNewick(l)
		if err != nil {
			return cs, "C06/cli-" + mode + "/unreadable-newick", fmt.Sprintf("output line %q: %v", l, err)
		}
		if clause, w := c06judge(ref, out); clause != "" {
			return cs, "C06/cli-" + mode + "/" + clause, fmt.Sprintf("`gotree %s` on %s wrote %s: %s", strings.Join(args, " "), txt, l, w)
		}
	}
	return cs, "", ""
}

func c06cli(c *Ctx) {
	defer cliCleanup()
	maxN := 5
	if !c.Quick() {
		maxN = 6
	}
	for n := 4; n <= maxN+1; n++ {
		for _, sh := range enum.Shapes(n, "t") {
			if c.TimeUp() {
				return
			}
			c06decorate(sh, 0, func(profile int, assign []int, mk func() *rm.Tree) {
				if n == maxN+1 && profile != 0 {
					return
				}
				m := mk()
				names := m.TipNames()
				enum.Subsets(n, 3, n, func(mask uint64) {
					keep := map[string]bool{}
					for i, nm := range names {
						if mask&(1<<uint(i)) != 0 {
							keep[nm] = true
						}
					}
					modes := []string{"args", "args-revert", "tipfile", "tipfile-commas-revert", "comp"}
					if n-len(keep) >= 3 {
						// comp-revert keeps the complement
						modes = append(modes, "comp-revert")
					}
					if n == maxN+1 {
						// one size above the bound: only the mode that needs >= 6 tips
						if n-len(keep) < 3 || len(keep) != 3 {
							return
						}
						modes = []string{"comp-revert"}
					}
					if n == 4 || mask%5 == 1 {
						modes = append(modes, "tipfile-long-line-crlf")
					}
					for _, mode := range modes {
						if !c.Mine() {
							continue
						}
						k2 := keep
						if mode == "comp-revert" {
							k2 = map[string]bool{}
							for _, nm := range names {
								if !keep[nm] {
									k2[nm] = true
								}
							}
						}
						var cs c06cliCase
						c.Check(&cs, func() (string, string) {
							var k, w string
							cs, k, w = c06cliRun(m, k2, mode)
							return k, w
						})
						c.States++
						c.Transitions++
						c.Count("cli_prune_runs", 1)
						c.Count("cli_prune_"+mode, 1)
						if len(k2) < n {
							c.Nontrivial("cli " + mode + " " + m.Newick() + fmt.Sprint(sortedKeys(k2)))
						}
					}
				})
			})
		}
	}
}

func sortedKeys(m map[string]bool) []string {
	var out []string
	for k := range m {
		out = append(out, k)
	}
	sort.Strings(out)
	return out
}

func c06first(l []string) string {
	if len(l) == 0 {
		return ""
	}
	return l[0]
}

package main

// C04 part w: trees whose tip bitset spans several machine words (65, 70, 130 tips), beyond the 60-tip limit of the
// 64-bit split of the reference model. The oracle is a plain set of tip names per branch, computed here by a walk over
// Neigh()/Edges(). Plain executions on a handful of structured trees (not exhaustive); every branch and every pair of
// branches of two rootings of the same tree are checked.

import (
	"fmt"
	"sort"
	"strings"

	"github.com/evolbioinfo/gotree/mcrt"
	"github.com/evolbioinfo/gotree/tree"
)

type c04wrec struct {
	e     *tree.Edge
	right map[string]bool // tip names at the Right() side
}

func c04wideText(n int, kind string, rot int) string {
	m := 3 // smallest multiplier >= 3 coprime with n: j -> (j*m+rot)%n is a permutation of the labels
	gcd := func(a, b int) int {
		for b != 0 {
			a, b = b, a%b
		}
		return a
	}
	for gcd(m, n) != 1 {
		m++
	}
	lab := func(j int) string { return fmt.Sprintf("w%03d", (j*m+rot)%n) }
	if kind == "caterpillar" {
		s := "(" + lab(0) + "," + lab(1) + ")"
		for j := 2; j < n-1; j++ {
			s = "(" + s + "," + lab(j) + ")"
		}
		return s[:len(s)-1] + "," + lab(n-1) + ");"
	}
	// balanced: pair up repeatedly, three subtrees at the root
	var cur []string
	for j := 0; j < n; j++ {
		cur = append(cur, lab(j))
	}
	for len(cur) > 3 {
		var nx []string
		for j := 0; j+1 < len(cur); j += 2 {
			nx = append(nx, "("+cur[j]+","+cur[j+1]+")")
		}
		if len(cur)%2 == 1 {
			nx = append(nx, cur[len(cur)-1])
		}
		cur = nx
	}
	return "(" + strings.Join(cur, ",") + ");"
}

func c04wideRecs(t *tree.Tree) ([]c04wrec, []string) {
	var recs []c04wrec
	var all []string
	var rec func(n, parent *tree.Node) map[string]bool
	rec = func(n, parent *tree.Node) map[string]bool {
		below := map[string]bool{}
		if n.Tip() {
			below[n.Name()] = true
			all = append(all, n.Name())
		}
		edges := n.Edges()
		for i, nb := range n.Neigh() {
			if nb == parent {
				continue
			}
			sub := rec(nb, n)
			for k := range sub {
				below[k] = true
			}
			recs = append(recs, c04wrec{e: edges[i], right: sub})
		}
		return below
	}
	rec(t.Root(), nil)
	sort.Strings(all)
	for i := range recs { // orientation: sub is the side of the far node; turn it into the Right() side
		r := &recs[i]
		far := r.e.Right()
		farHas := false
		if far.Tip() {
			farHas = r.right[far.Name()]
		} else {
			// far node is inner: it is the child iff some neighbour other than Left() leads into sub; decide by a tip walk
			farHas = c04wideLeads(far, r.e.Left(), r.right)
		}
		if !farHas {
			comp := map[string]bool{}
			for _, nm := range all {
				if !r.right[nm] {
					comp[nm] = true
				}
			}
			r.right = comp
		}
	}
	return recs, all
}

// c04wideLeads: does walking from n away from 'from' reach a tip of set?
func c04wideLeads(n, from *tree.Node, set map[string]bool) bool {
	if n.Tip() {
		return set[n.Name()]
	}
	for _, nb := range n.Neigh() {
		if nb != from {
			return c04wideLeads(nb, n, set)
		}
	}
	return false
}

func c04wideKey(s map[string]bool, all []string) string {
	b := make([]byte, len(all))
	for i, nm := range all {
		b[i] = '0'
		if s[nm] {
			b[i] = '1'
		}
	}
	if b[0] == '1' { // canonical side: the one without the first name
		for i := range b {
			b[i] ^= 1
		}
	}
	return string(b)
}

func c04wideCheck(text string, rerootAt int) (string, string) {
	var key, what string
	res := c04fast(func() {
		t1, t2 := gtMustParse(text), gtMustParse(text)
		if tips := t2.Tips(); rerootAt >= 0 {
			if err := t2.Reroot(tips[rerootAt%len(tips)].Neigh()[0]); err != nil {
				key, what = "wide/reroot-error", err.Error()
				return
			}
		}
		for _, t := range []*tree.Tree{t1, t2} {
			if err := t.ReinitIndexes(); err != nil {
				key, what = "wide/reinit-error", err.Error()
				return
			}
		}
		r1, all := c04wideRecs(t1)
		r2, _ := c04wideRecs(t2)
		n := len(all)
		for ti, rs := range [][]c04wrec{r1, r2} {
			t := []*tree.Tree{t1, t2}[ti]
			for _, r := range rs {
				bs := r.e.Bitset()
				if bs == nil || int(bs.Len()) != n {
					key, what = "wide/bitset-width", fmt.Sprintf("bitset nil or not %d bits wide", n)
					return
				}
				cnt := 0
				for i, nm := range all {
					idx, err := t.TipIndex(nm)
					if err != nil || idx != i {
						key, what = "wide/tipindex", fmt.Sprintf("TipIndex(%q)=%d (%v), rank %d", nm, idx, err, i)
						return
					}
					if bs.Test(uint(i)) != r.right[nm] || r.e.TipPresent(uint(i)) != r.right[nm] {
						key, what = "wide/bitset-content", fmt.Sprintf("bit %d (%s) is %v, the tip is at the right side: %v (tree %d of %s)", i, nm, bs.Test(uint(i)), r.right[nm], ti, text)
						return
					}
					if r.right[nm] {
						cnt++
					}
				}
				want := cnt
				if n-cnt < want {
					want = n - cnt
				}
				td, err := r.e.TopoDepth()
				if r.e.NumTipsRight() != cnt || r.e.NumTipsLeft() != n-cnt || err != nil || td != want {
					key, what = "wide/counts", fmt.Sprintf("NumTipsRight=%d NumTipsLeft=%d TopoDepth=%d (%v); %d of %d tips are at the right side", r.e.NumTipsRight(), r.e.NumTipsLeft(), td, err, cnt, n)
					return
				}
			}
		}
		k1 := make([]string, len(r1))
		for i, r := range r1 {
			k1[i] = c04wideKey(r.right, all)
		}
		for _, b := range r2 {
			kb := c04wideKey(b.right, all)
			for i, a := range r1 {
				same := k1[i] == kb
				if a.e.SameBipartition(b.e) != same || a.e.HashEquals(b.e) != same {
					key, what = "wide/equality", fmt.Sprintf("splits %s / %s: same=%v but SameBipartition=%v HashEquals=%v", k1[i], kb, same, a.e.SameBipartition(b.e), a.e.HashEquals(b.e))
					return
				}
				if same && a.e.HashCode() != b.e.HashCode() {
					key, what = "wide/hashcode-differs", fmt.Sprintf("equal splits %s hash to %d and %d", kb, a.e.HashCode(), b.e.HashCode())
					return
				}
			}
		}
	})
	if res.Verdict != mcrt.VDone {
		return "wide/crash", res.Detail
	}
	return key, what
}

func c04partW(c *Ctx) {
	if c.Shard != 0 {
		return
	}
	for _, n := range []int{63, 64, 65, 70, 130} {
		for _, kind := range []string{"caterpillar", "balanced"} {
			for _, rr := range []int{-1, 0, n / 2, n - 1} {
				if c.TimeUp() {
					return
				}
				cs := c04case{Part: "w", Newick: c04wideText(n, kind, 1), N: rr}
				c.Count("w_wide_trees_verified", 1)
				c.Count("w_wide_branch_pairs", int64((2*n-3)*(2*n-3)))
				c.States++
				c.Check(cs, func() (string, string) { return c04wideCheck(cs.Newick, cs.N) })
			}
		}
	}
}

package main

import (
	"encoding/json"
	"fmt"
	"sort"
	"strings"

	"github.com/evolbioinfo/gotree/mcrt"
	"github.com/spf13/pflag"
)

// Second sentence of C19: "Registering the options of one command never changes the behaviour of another command."
// Finite configuration enumeration: every command line of the driver table x every option variable that NO option
// accepted by that command (local or inherited) is bound to. Such a variable holds whatever the other commands'
// registrations left in it; it is given another value (as if the owning command had registered another default) and
// the command line must write exactly what it wrote before. A difference means the command reads a variable that only
// other commands' option registrations initialise.

type c19interfCase struct {
	Marker string `json:"c19_interference"` // entry name
	Owner  string `json:"owner"`            // "command --flag" whose registration initialises the variable
	Value  string `json:"value"`
}

func c19otherValue(f *pflag.Flag) string {
	cur := f.Value.String()
	switch f.Value.Type() {
	case "bool":
		if cur == "true" {
			return "false"
		}
		return "true"
	case "int", "int64", "uint", "int32":
		if cur == "3" {
			return "5"
		}
		return "3"
	case "float64", "float32":
		if cur == "0.37" {
			return "0.61"
		}
		return "0.37"
	case "string":
		return cur + "_zz"
	}
	return ""
}

type c19var struct {
	owner string
	f     *pflag.Flag
}

// c19variables: one representative flag per distinct option variable.
func c19variables() map[uintptr]c19var {
	out := map[uintptr]c19var{}
	for _, f := range c19flags() {
		if f.addr == 0 {
			continue
		}
		if _, ok := out[f.addr]; !ok {
			out[f.addr] = c19var{f.Cmd + " --" + f.Flag, f.f}
		}
	}
	return out
}

// c19interfBase: output of the unperturbed command line, computed once per entry and worker.
var c19interfBase = map[string]string{}

func c19interfRun(e cliEntry, v c19var, val string) (string, string) {
	o0, ok := c19interfBase[e.Name]
	if !ok {
		base, r0 := cliExec(mcrt.Config{MapMode: mcrt.MapSorted}, e.Args, e.Stdin, e.Files, e.Out)
		o0 = verdictStr(r0) + " " + base.String()
		c19interfBase[e.Name] = o0
	}
	cliPreRun = func() { v.f.Value.Set(val) }
	with, r1 := cliExec(mcrt.Config{MapMode: mcrt.MapSorted}, e.Args, e.Stdin, e.Files, e.Out)
	cliPreRun = nil
	o1 := verdictStr(r1) + " " + with.String()
	if o0 != o1 {
		cc, _ := c19resolve(e.Args)
		return fmt.Sprintf("C19/interference/%s reads the variable of `%s`", cc.CommandPath(), v.owner),
			fmt.Sprintf("`gotree %s` accepts no option bound to the variable that `%s` registers, yet its output follows that variable: with the registered value: %.300s; with %q in the variable: %.300s",
				strings.Join(e.Args, " "), v.owner, o0, val, o1)
	}
	return "", ""
}

func c19interference(c *Ctx) {
	defer cliCleanup()
	vars := c19variables()
	var addrs []uintptr
	for a := range vars {
		addrs = append(addrs, a)
	}
	sort.Slice(addrs, func(i, j int) bool { return vars[addrs[i]].owner < vars[addrs[j]].owner })
	for _, e := range cliTable() {
		if c18hasFlag(e.Args, "-t") {
			continue
		}
		_, fl := c19resolve(e.Args)
		own := map[uintptr]bool{}
		for _, f := range fl {
			own[c19addr(f.Value)] = true
		}
		for _, a := range addrs {
			if own[a] {
				continue
			}
			if c.TimeUp() {
				return
			}
			if !c.Mine() {
				continue
			}
			v := vars[a]
			val := c19otherValue(v.f)
			if val == "" {
				continue
			}
			e := e
			c.Check(c19interfCase{Marker: e.Name, Owner: v.owner, Value: val}, func() (string, string) { return c19interfRun(e, v, val) })
			c.States++
			c.Transitions += 2
			c.Count("interference_pairs", 1)
		}
	}
}

func init() {
	addExtra("C19", c19interference)
	extraRequire["C19"] = append(extraRequire["C19"], "interference_pairs")
	extraReplays = append(extraReplays, func(c *Ctx, raw json.RawMessage) bool {
		var cs c19interfCase
		if json.Unmarshal(raw, &cs) != nil || cs.Marker == "" {
			return false
		}
		defer cliCleanup()
		for _, e := range cliTable() {
			if e.Name != cs.Marker {
				continue
			}
			for _, v := range c19variables() {
				if v.owner == cs.Owner {
					if k, w := c19interfRun(e, v, cs.Value); k != "" {
						c.Violate(k, w, cs)
					}
				}
			}
		}
		return true
	})
}

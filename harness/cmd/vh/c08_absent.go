package main

import (
	"encoding/json"
	"fmt"

	"verif/harness/enum"
	rm "verif/harness/refmodel"
)

// Weighted comparison of trees in which some or all branches carry no length. The property fixes no value for an absent
// length, so only what holds under ANY fixed reading of "absent" is demanded:
//   - a tree compared with any re-rooted / mirrored presentation of itself (same lengths by split, same absences) shares
//     every split, every reported difference is 0 and the trees are reported identical;
//   - swapping reference and compared tree swaps the two lists of unshared lengths and keeps the absolute differences.

type c08absentCase struct {
	Marker string `json:"c08_absent"` // self | swap
	Scheme string `json:"scheme"`
	Ref    string `json:"ref"`
	Comp   string `json:"comp"`
	Tips   bool   `json:"tips"`
	Ident  bool   `json:"identical_only"`
}

// c08absentTree: lengths of scheme "a" (a function of the split), removed everywhere ("none") or on every third split ("some").
func c08absentTree(t *rm.Tree, scheme string) *rm.Tree {
	c := c08lengths(t, "a")
	c.Walk(func(n, p *rm.Node) {
		if p == nil {
			return
		}
		if scheme == "none" || int(n.Len*8)%3 == 0 {
			n.HasLen, n.Len = false, 0
		}
	})
	return c
}

func c08absentRun(cs c08absentCase) (string, string) {
	desc := fmt.Sprintf("CompareWeighted(ref %s, compared %s, tips=%v, identical-only=%v): ", cs.Ref, cs.Comp, cs.Tips, cs.Ident)
	recs, callErr, res := c08exec("weighted", cs.Ref, []string{cs.Comp}, cs.Tips, cs.Ident)
	if crashed(res) {
		return "C08/absent-lengths/crash/" + crashSite(res), desc + verdictStr(res)
	}
	if callErr != "" || recs[0].err != "" || recs[0].n != 1 {
		return "C08/absent-lengths/error", desc + fmt.Sprintf("call error %q, record error %q, %d records", callErr, recs[0].err, recs[0].n)
	}
	r := recs[0]
	if cs.Marker == "self" {
		if !r.same {
			return "C08/absent-lengths/self/not-identical", desc + "the compared tree is another presentation of the reference tree and is reported different"
		}
		if cs.Ident {
			return "", ""
		}
		if len(r.w1) != 0 || len(r.w2) != 0 {
			return "C08/absent-lengths/self/unshared", desc + fmt.Sprintf("unshared lengths %v / %v between two presentations of one tree", r.w1, r.w2)
		}
		for _, d := range r.wc {
			if d != 0 {
				return "C08/absent-lengths/self/difference", desc + fmt.Sprintf("differences %v between two presentations of one tree (same lengths, same absent lengths)", r.wc)
			}
		}
		return "", ""
	}
	back, callErr2, res2 := c08exec("weighted", cs.Comp, []string{cs.Ref}, cs.Tips, cs.Ident)
	if crashed(res2) || callErr2 != "" || back[0].err != "" {
		return "C08/absent-lengths/swap/error", desc + "fails with the two trees swapped"
	}
	b := back[0]
	if r.same != b.same {
		return "C08/absent-lengths/swap/identical-flag", desc + fmt.Sprintf("identical=%v, swapped %v", r.same, b.same)
	}
	if !cs.Ident && (!c08eqf(r.w1, b.w2) || !c08eqf(r.w2, b.w1) || !c08eqf(r.wc, b.wc)) {
		return "C08/absent-lengths/swap/terms", desc + fmt.Sprintf("ref-only %v common |d| %v compared-only %v; swapped: ref-only %v common |d| %v compared-only %v", r.w1, r.wc, r.w2, b.w1, b.wc, b.w2)
	}
	return "", ""
}

func c08absent(c *Ctx) {
	sizes := []int{4, 5}
	if !c.Quick() {
		sizes = []int{4, 5, 6}
	}
	for _, n := range sizes {
		trees := enum.Unrooted(enum.Labels(n, ""), false)
		for _, scheme := range []string{"none", "some"} {
			pres := make([][]string, len(trees))
			for i, t := range trees {
				pres[i], _ = c08presentations(c08absentTree(t, scheme))
			}
			for i := range trees {
				if c.TimeUp() {
					return
				}
				if !c.Mine() {
					continue
				}
				for _, cf := range c08configs {
					for _, p := range pres[i] {
						cs := c08absentCase{Marker: "self", Scheme: scheme, Ref: pres[i][0], Comp: p, Tips: cf[0], Ident: cf[1]}
						c.Check(cs, func() (string, string) { return c08absentRun(cs) })
						c.Count("absent_lengths_self_comparisons", 1)
						c.Transitions++
					}
					if n > 5 && (cf[0] || cf[1]) {
						continue
					}
					for j := range trees {
						if j == i {
							continue
						}
						// the compared tree in its last presentation: rooted elsewhere and mirrored
						cs := c08absentCase{Marker: "swap", Scheme: scheme, Ref: pres[i][0], Comp: pres[j][len(pres[j])-1], Tips: cf[0], Ident: cf[1]}
						c.Check(cs, func() (string, string) { return c08absentRun(cs) })
						c.Count("absent_lengths_swapped_pairs", 1)
						c.Transitions += 2
					}
				}
				c.States++
			}
		}
	}
}

func init() {
	addExtra("C08", c08absent)
	extraRequire["C08"] = append(extraRequire["C08"], "absent_lengths_self_comparisons", "absent_lengths_swapped_pairs")
	extraReplays = append(extraReplays, func(c *Ctx, raw json.RawMessage) bool {
		var cs c08absentCase
		if json.Unmarshal(raw, &cs) != nil || cs.Marker == "" {
			return false
		}
		if k, w := c08absentRun(cs); k != "" {
			c.Violate(k, w, cs)
		}
		return true
	})
}

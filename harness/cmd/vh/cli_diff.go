package main

import (
	"encoding/json"
	"fmt"
	"math"
	realrand "math/rand"
	"sort"
	"strings"

	"github.com/evolbioinfo/gotree/acr"
	"github.com/evolbioinfo/gotree/mcrt"
	"github.com/evolbioinfo/gotree/support"
	"github.com/evolbioinfo/gotree/tree"

	"verif/harness/enum"
	rm "verif/harness/refmodel"
)

// Command-level families ("the command does what the library does"): for the properties whose library functions are
// decided against the reference model elsewhere, the corresponding `gotree` command is run in-process on an enumerated
// set of small inputs x option values and its output must be byte-identical to the text obtained by calling the
// library function with the values the options denote. A slip in a command wrapper (swapped flags, wrong variable,
// wrong default, a tree not re-indexed, an option ignored) shows as a difference.

var extras = map[string][]func(c *Ctx){}

// counters that must be > 0 after the extra families ran (vacuity guards)
var extraRequire = map[string][]string{
	"C07": {"cli_diff_collapse-length", "cli_diff_collapse-support", "cli_diff_collapse-depth", "cli_diff_resolve", "cli_diff_collapse-support-negative", "cli_diff_collapse-depth-small-then-large"},
	"C05": {"cli_diff_reroot-midpoint", "cli_diff_unroot", "cli_diff_reroot-outgroup", "cli_diff_reroot-outgroup-multi"},
	"C09": {"cli_diff_consensus"},
	"C10": {"cli_diff_support-fbp", "cli_diff_support-tbe"},
	"C08": {"cli_diff_compare-trees"},
	"C12": {"cli_diff_acr-out-states", "cli_diff_acr"},
	"C15": {"cli_diff_graft", "cli_diff_repopulate", "cli_diff_merge"},
}

// cliDiffMore: generators of further differential families (searched by the replay function)
var cliDiffMore []func(quick bool) []cliDiff

func addExtra(id string, f func(c *Ctx)) { extras[id] = append(extras[id], f) }

type cliDiffCase struct {
	Marker string            `json:"cli_diff"` // name of the family
	Prop   string            `json:"property"`
	Args   []string          `json:"args"`
	Files  map[string]string `json:"files"`
	Param  string            `json:"library_call"`
}

// a differential case: command line + the library computation that defines the expected standard output
// ("" + libErr=true: the library refuses, the command must fail too)
type cliDiff struct {
	prop, fam string
	args      []string
	files     map[string]string
	param     string
	lib       func() (out string, libErr bool)
}

func (d cliDiff) run() (key, what string) {
	var exp string
	var libErr bool
	lr := mcrt.Run(mcrt.Config{NoSched: true, Fuel: 50_000_000, MapMode: mcrt.MapSorted}, func() { exp, libErr = d.lib() })
	res, r := cliExec(mcrt.Config{MapMode: mcrt.MapSorted}, d.args, "", d.files, nil)
	cmdFailed := res.Err != "" || (r.Verdict == mcrt.VExit && r.ExitCode != 0)
	k := d.prop + "/cli-diff/" + d.fam
	desc := fmt.Sprintf("`gotree %s` [%s] with files %s", strings.Join(d.args, " "), d.param, cliFilesDesc(d.files))
	if crashed(lr) {
		if crashed(r) && r.Verdict != mcrt.VExit {
			return "", "" // both crash the same way: the library function's own business
		}
		libErr = true
	}
	if crashed(r) && r.Verdict != mcrt.VExit {
		return k + "/crash/" + crashSite(r), desc + ": " + verdictStr(r)
	}
	if libErr != cmdFailed {
		return k + "/error-status", fmt.Sprintf("%s: library call fails=%v, command fails=%v (%s %s)", desc, libErr, cmdFailed, res.Err, firstLine(res.Stderr))
	}
	if !libErr && res.Stdout != exp {
		return k + "/output", fmt.Sprintf("%s: command wrote %q, the library call gives %q", desc, res.Stdout, exp)
	}
	return "", ""
}

func cliFilesDesc(f map[string]string) string {
	var ks []string
	for k := range f {
		ks = append(ks, k)
	}
	sort.Strings(ks)
	var sb strings.Builder
	for _, k := range ks {
		fmt.Fprintf(&sb, "%s=%q ", k, f[k])
	}
	return sb.String()
}

// cliDiffTrees: every plane shape with 3..n tips, distinct dyadic lengths, distinct supports on inner branches.
func cliDiffTrees(n int) []string {
	var out []string
	for k := 3; k <= n; k++ {
		for _, sh := range enum.Shapes(k, "t") {
			m := sh.Clone()
			i, j := 0, 0
			m.Walk(func(nd, p *rm.Node) {
				if p == nil {
					return
				}
				i++
				nd.HasLen, nd.Len = true, float64(i%5)/4 // 0.25 0.5 0.75 1 0 ...
				if !nd.IsTip() {
					j++
					nd.HasSup, nd.Sup = true, float64(j%4+1)/8
				}
			})
			out = append(out, m.Newick())
		}
	}
	return out
}

// cliDiffPairs: for commands that process every tree of the input file, the same command line on a file holding two
// different trees must write the two results one after the other (per-tree state must not leak from one tree to the next).
// Two single-tree cases with identical arguments (file "t.nw") are merged into one two-tree case.
func cliDiffPairs(ds []cliDiff, every int) []cliDiff {
	byArgs := map[string][]int{}
	var order []string
	for i, d := range ds {
		if len(d.files) != 1 || d.files["t.nw"] == "" || c18hasFlag(d.args, "--seed") {
			continue // (seeded commands draw from one generator for the whole file: the per-tree library calls would re-seed)
		}
		k := d.fam + " " + strings.Join(d.args, " ")
		if _, ok := byArgs[k]; !ok {
			order = append(order, k)
		}
		byArgs[k] = append(byArgs[k], i)
	}
	var out []cliDiff
	for _, k := range order {
		idx := byArgs[k]
		for j := 0; j+1 < len(idx); j += every {
			a, b := ds[idx[j]], ds[idx[j+1]]
			out = append(out, cliDiff{a.prop, a.fam + "-two-trees", a.args, map[string]string{"t.nw": a.files["t.nw"] + b.files["t.nw"]}, a.param + " on each of the two trees", func() (string, bool) {
				o1, e1 := a.lib()
				o2, e2 := b.lib()
				if e1 || e2 {
					return "", true
				}
				return o1 + o2, false
			}})
		}
	}
	return out
}

// cliDiffListLayouts: every case that reads a list file (*.txt: tips, groups, states) is repeated with the same list in
// two other layouts of the file - last line not terminated, Windows line ends. The expected output is the same.
func cliDiffListLayouts(ds []cliDiff) []cliDiff {
	var out []cliDiff
	for _, d := range ds {
		has := false
		for n, content := range d.files {
			has = has || (strings.HasSuffix(n, ".txt") && strings.HasSuffix(content, "\n"))
		}
		if !has {
			continue
		}
		for v := 0; v < 2; v++ {
			f2 := map[string]string{}
			for n, content := range d.files {
				if strings.HasSuffix(n, ".txt") && strings.HasSuffix(content, "\n") {
					if v == 0 {
						content = strings.TrimSuffix(content, "\n")
					} else {
						content = strings.ReplaceAll(content, "\n", "\r\n")
					}
				}
				f2[n] = content
			}
			out = append(out, cliDiff{d.prop, d.fam + "-list-layout", d.args, f2, d.param + []string{" (last line of the list file not terminated)", " (list file with CR LF line ends)"}[v], d.lib})
		}
	}
	return out
}

func cliDiffRun(c *Ctx, ds []cliDiff) {
	for _, d := range ds {
		if c.TimeUp() {
			return
		}
		if !c.Mine() {
			continue
		}
		d := d
		c.Check(cliDiffCase{Marker: d.fam, Prop: d.prop, Args: d.args, Files: d.files, Param: d.param}, d.run)
		c.States++
		c.Transitions += 2
		c.Count("cli_diff_"+d.fam, 1)
		c.Nontrivial("cli-diff " + d.fam + strings.Join(d.args, " ") + cliFilesDesc(d.files))
	}
}

func nwOf(t *tree.Tree) string { return t.Newick() + "\n" }

// ---- C07: collapse / resolve ------------------------------------------------------------

func cliDiffC07(quick bool) []cliDiff {
	var ds []cliDiff
	n := 4
	if !quick {
		n = 5
	}
	trees := cliDiffTrees(n)
	bs := []bool{false, true}
	for _, txt := range trees {
		txt := txt
		files := map[string]string{"t.nw": txt + "\n"}
		for _, l := range []float64{0, 0.25, 0.5, 1} {
			for _, root := range bs {
				for _, tips := range bs {
					l, root, tips := l, root, tips
					args := []string{"collapse", "length", "-i", "@/t.nw", "-l", fmt.Sprint(l)}
					if root {
						args = append(args, "--root")
					}
					if tips {
						args = append(args, "--tips")
					}
					ds = append(ds, cliDiff{"C07", "collapse-length", args, files, fmt.Sprintf("CollapseShortBranches(%v, removeRoot=%v, removeTips=%v)", l, root, tips), func() (string, bool) {
						t := gtMustParse(txt)
						t.CollapseShortBranches(l, root, tips)
						return nwOf(t), false
					}})
				}
			}
		}
		for _, s := range []float64{0.125, 0.25, 0.375, 0.5, 1} {
			for _, root := range bs {
				s, root := s, root
				args := []string{"collapse", "support", "-i", "@/t.nw", "-s", fmt.Sprint(s)}
				if root {
					args = append(args, "--root")
				}
				ds = append(ds, cliDiff{"C07", "collapse-support", args, files, fmt.Sprintf("CollapseLowSupport(%v, removeRoot=%v)", s, root), func() (string, bool) {
					t := gtMustParse(txt)
					t.CollapseLowSupport(s, root)
					return nwOf(t), false
				}})
			}
		}
		for _, mm := range [][2]int{{1, 1}, {2, 2}, {1, 2}, {0, 3}, {2, 1}} {
			for _, root := range bs {
				for _, tips := range bs {
					mm, root, tips := mm, root, tips
					args := []string{"collapse", "depth", "-i", "@/t.nw", "-m", fmt.Sprint(mm[0]), "-M", fmt.Sprint(mm[1])}
					if root {
						args = append(args, "--root")
					}
					if tips {
						args = append(args, "--tips")
					}
					ds = append(ds, cliDiff{"C07", "collapse-depth", args, files, fmt.Sprintf("ReinitIndexes; CollapseTopoDepth(%d, %d, removeRoot=%v, removeTips=%v)", mm[0], mm[1], root, tips), func() (string, bool) {
						t := gtMustParse(txt)
						if err := t.ReinitIndexes(); err != nil {
							return "", true
						}
						if err := t.CollapseTopoDepth(mm[0], mm[1], root, tips); err != nil {
							return "", true
						}
						return nwOf(t), false
					}})
				}
			}
		}
		for _, seed := range []int64{1, 2} {
			seed := seed
			ds = append(ds, cliDiff{"C07", "resolve", []string{"resolve", "-i", "@/t.nw", "--seed", fmt.Sprint(seed)}, files, fmt.Sprintf("rand.Seed(%d); Resolve()", seed), func() (string, bool) {
				realrand.Seed(seed)
				t := gtMustParse(txt)
				t.Resolve()
				return nwOf(t), false
			}})
		}
	}
	// supports are arbitrary numbers (internode certainty lies in [-1,1]): negative supports, cutoffs <= 0, no cutoff given
	for _, txt := range []string{
		"((A:1,B:1)-0.5:0.1,C:1,((D:1,E:1)0.3:0.2,F:1)0.9:0.4);",
		"((A:1,B:1)-0.5:0.1,(C:1,(D:1,E:1)-0.25:0.2)0:0.4);",
		"(A:1,(B:1,(C:1,(D:1,E:1)-2:1)-0.125:1)0.5:1);",
	} {
		txt := txt
		files := map[string]string{"t.nw": txt + "\n"}
		for _, s := range []float64{0, -0.25, -0.125, -1, 0.5} {
			for _, given := range bs {
				if !given && s != 0 {
					continue
				}
				s := s
				args := []string{"collapse", "support", "-i", "@/t.nw"}
				if given {
					args = append(args, "-s", fmt.Sprint(s))
				}
				ds = append(ds, cliDiff{"C07", "collapse-support-negative", args, files, fmt.Sprintf("CollapseLowSupport(%v, removeRoot=false)", s), func() (string, bool) {
					t := gtMustParse(txt)
					t.CollapseLowSupport(s, false)
					return nwOf(t), false
				}})
			}
		}
	}
	// a small tree followed by a larger one in the same file: thresholds that exceed what the small tree can show
	big := cliDiffBig()
	for _, small := range []string{"(t1:1,t2:1,t3:1);", "((t1:0.25,t2:0.5)0.25:0.75,t3:1,(t4:0.5,(t5:1,t6:2)0.125:0.25)0.5:0.5);"} {
		for _, bg := range big {
			small, bg := small, bg
			files := map[string]string{"t.nw": small + "\n" + bg + "\n"}
			both := func(f func(t *tree.Tree) bool) (string, bool) {
				out := ""
				for _, x := range []string{small, bg} {
					t := gtMustParse(x)
					if !f(t) {
						return "", true
					}
					out += nwOf(t)
				}
				return out, false
			}
			for _, mm := range [][2]int{{2, 4}, {3, 5}, {1, 6}, {4, 4}, {0, 100}} {
				mm := mm
				ds = append(ds, cliDiff{"C07", "collapse-depth-small-then-large", []string{"collapse", "depth", "-i", "@/t.nw", "-m", fmt.Sprint(mm[0]), "-M", fmt.Sprint(mm[1])}, files,
					fmt.Sprintf("ReinitIndexes; CollapseTopoDepth(%d, %d, false, false) on each tree", mm[0], mm[1]), func() (string, bool) {
						return both(func(t *tree.Tree) bool {
							return t.ReinitIndexes() == nil && t.CollapseTopoDepth(mm[0], mm[1], false, false) == nil
						})
					}})
			}
			for _, l := range []float64{0.5, 3, 100} {
				l := l
				ds = append(ds, cliDiff{"C07", "collapse-length-small-then-large", []string{"collapse", "length", "-i", "@/t.nw", "-l", fmt.Sprint(l)}, files,
					fmt.Sprintf("CollapseShortBranches(%v, false, false) on each tree", l), func() (string, bool) {
						return both(func(t *tree.Tree) bool { t.CollapseShortBranches(l, false, false); return true })
					}})
				ds = append(ds, cliDiff{"C07", "collapse-support-small-then-large", []string{"collapse", "support", "-i", "@/t.nw", "-s", fmt.Sprint(l / 4)}, files,
					fmt.Sprintf("CollapseLowSupport(%v, false) on each tree", l/4), func() (string, bool) {
						return both(func(t *tree.Tree) bool { t.CollapseLowSupport(l/4, false); return true })
					}})
			}
		}
	}
	return ds
}

// cliDiffBig: a 12-tip caterpillar and a 12-tip balanced tree, lengths 0.25..4 and supports 0.0625.. on inner branches.
func cliDiffBig() []string {
	cat := "(u1:1,u2:2"
	for i := 3; i <= 11; i++ {
		cat = fmt.Sprintf("(%s)%v:%v,u%d:%v", cat, float64(i)/16, float64(i%5+1)/4, i, float64(i%3+1))
	}
	cat = "(" + cat + ")0.875:0.5,u12:1,u13:2);"
	bal := "((((v1:1,v2:2)0.1:0.25,v3:1)0.2:3,((v4:1,v5:1)0.3:0.5,v6:2)0.4:1)0.5:4,(((v7:1,v8:1)0.6:0.75,v9:3)0.7:2,((v10:1,v11:1)0.8:0.5,v12:1)0.9:0.25)0.95:1,v13:1);"
	return []string{cat, bal}
}

// ---- C05: reroot / unroot ------------------------------------------------------------------

func cliDiffC05(quick bool) []cliDiff {
	var ds []cliDiff
	n := 4
	if !quick {
		n = 5
	}
	bs := []bool{false, true}
	for _, txt := range cliDiffTrees(n) {
		txt := txt
		files := map[string]string{"t.nw": txt + "\n"}
		m := rm.MustParse(txt)
		names := m.TipNames()
		ds = append(ds, cliDiff{"C05", "reroot-midpoint", []string{"reroot", "midpoint", "-i", "@/t.nw"}, files, "RerootMidPoint()", func() (string, bool) {
			t := gtMustParse(txt)
			if err := t.RerootMidPoint(); err != nil {
				return "", true
			}
			return nwOf(t), false
		}})
		ds = append(ds, cliDiff{"C05", "unroot", []string{"unroot", "-i", "@/t.nw"}, files, "UnRoot()", func() (string, bool) {
			t := gtMustParse(txt)
			t.UnRoot()
			return nwOf(t), false
		}})
		enum.Subsets(len(names), 1, 2, func(mask uint64) {
			var og []string
			for i, nm := range names {
				if mask&(1<<uint(i)) != 0 {
					og = append(og, nm)
				}
			}
			for _, rmv := range bs {
				for _, strict := range bs {
					for _, viaFile := range bs {
						if viaFile && (rmv || len(og) != 2) {
							continue
						}
						og, rmv, strict := og, rmv, strict
						args := []string{"reroot", "outgroup", "-i", "@/t.nw"}
						f2 := files
						if rmv {
							args = append(args, "-r")
						}
						if strict {
							args = append(args, "--strict")
						}
						if viaFile {
							f2 = map[string]string{"t.nw": txt + "\n", "og.txt": strings.Join(og, "\n") + "\n"}
							args = append(args, "-l", "@/og.txt")
						} else {
							args = append(args, og...)
						}
						ds = append(ds, cliDiff{"C05", "reroot-outgroup", args, f2, fmt.Sprintf("RerootOutGroup(remove=%v, strict=%v, %q)", rmv, strict, og), func() (string, bool) {
							t := gtMustParse(txt)
							if err := t.RerootOutGroup(rmv, strict, og...); err != nil {
								return "", true
							}
							return nwOf(t), false
						}})
						if len(og) == 2 && !viaFile && !strict {
							// several trees in one file, the first one lacking one taxon of the outgroup: each tree is rooted on ITS members of the list
							first := strings.Replace(txt, og[0]+":", "zz9:", 1)
							f3 := map[string]string{"t.nw": first + "\n" + txt + "\n"}
							ds = append(ds, cliDiff{"C05", "reroot-outgroup-multi", args, f3, fmt.Sprintf("per tree: RerootOutGroup(remove=%v, strict=false, %q) with a fresh list", rmv, og), func() (string, bool) {
								var sb strings.Builder
								for _, x := range []string{first, txt} {
									t := gtMustParse(x)
									if err := t.RerootOutGroup(rmv, false, append([]string{}, og...)...); err != nil {
										return "", true
									}
									sb.WriteString(nwOf(t))
								}
								return sb.String(), false
							}})
						}
					}
				}
			}
		})
	}
	return ds
}

// ---- collections of trees (C08, C09, C10) -------------------------------------------------------

func cliDiffPool5() []string {
	labels := enum.Labels(5, "")
	var out []string
	for i, m := range enum.Unrooted(labels, false) {
		k := 0
		m.Walk(func(nd, p *rm.Node) {
			if p != nil {
				k++
				nd.HasLen, nd.Len = true, float64((k+i)%4+1)/4
			}
		})
		out = append(out, m.Newick())
	}
	return out
}

func cliDiffC09(quick bool) []cliDiff {
	var ds []cliDiff
	pool := cliDiffPool5()
	step := 3
	if !quick {
		step = 1
	}
	for i := 0; i < len(pool); i += step {
		for j := i; j < len(pool); j += step + 2 {
			colls := [][]string{{pool[i], pool[j]}, {pool[i], pool[j], pool[(i+j)%len(pool)]}}
			for _, coll := range colls {
				for _, f := range []float64{0.5, 0.7, 1} {
					coll, f := coll, f
					files := map[string]string{"in.nw": strings.Join(coll, "\n") + "\n"}
					ds = append(ds, cliDiff{"C09", "consensus", []string{"compute", "consensus", "-i", "@/in.nw", "-f", fmt.Sprint(f)}, files, fmt.Sprintf("Consensus(trees, %v)", f), func() (string, bool) {
						var ts []*tree.Tree
						for _, s := range coll {
							ts = append(ts, gtMustParse(s))
						}
						cons, err := tree.Consensus(feed(ts), f)
						if err != nil {
							return "", true
						}
						return nwOf(cons), false
					}})
				}
			}
		}
	}
	// the default threshold (option left out) is the documented 0.5
	coll := []string{pool[1], pool[5], pool[1]}
	files := map[string]string{"in.nw": strings.Join(coll, "\n") + "\n"}
	ds = append(ds, cliDiff{"C09", "consensus", []string{"compute", "consensus", "-i", "@/in.nw"}, files, "Consensus(trees, 0.5) (default)", func() (string, bool) {
		var ts []*tree.Tree
		for _, s := range coll {
			ts = append(ts, gtMustParse(s))
		}
		cons, err := tree.Consensus(feed(ts), 0.5)
		if err != nil {
			return "", true
		}
		return nwOf(cons), false
	}})
	return ds
}

func cliDiffC10(quick bool) []cliDiff {
	var ds []cliDiff
	pool := cliDiffPool5()
	step := 4
	if !quick {
		step = 2
	}
	for i := 0; i < len(pool); i += step {
		for j := 1; j < len(pool); j += step + 1 {
			ref := pool[i]
			boots := []string{pool[j], pool[(i+j)%len(pool)], pool[i]}
			if (i+j)%5 == 0 {
				// a bootstrap tree on other taxa in the middle of the file: the command fails as the library call does
				boots = []string{pool[j], "((A:1,B:1):1,C:1,(D:1,zz:1):1);", pool[i]}
			}
			files := map[string]string{"ref.nw": ref + "\n", "boot.nw": strings.Join(boots, "\n") + "\n"}
			ds = append(ds, cliDiff{"C10", "support-fbp", []string{"compute", "support", "fbp", "-i", "@/ref.nw", "-b", "@/boot.nw", "--silent"}, files, "FBP(ref, boots, 1)", func() (string, bool) {
				r := gtMustParse(ref)
				var ts []*tree.Tree
				for _, s := range boots {
					ts = append(ts, gtMustParse(s))
				}
				if err := support.FBP(r, feed(ts), 1, nil); err != nil {
					return "", true
				}
				return nwOf(r), false
			}})
			for _, alias := range []string{"tbe", "booster"} {
				ds = append(ds, cliDiff{"C10", "support-tbe", []string{"compute", "support", alias, "-i", "@/ref.nw", "-b", "@/boot.nw", "--silent"}, files, "ReinitIndexes; TBE(ref, boots, 1, ...)", func() (string, bool) {
					r := gtMustParse(ref)
					if err := r.ReinitIndexes(); err != nil {
						return "", true
					}
					var ts []*tree.Tree
					for _, s := range boots {
						ts = append(ts, gtMustParse(s))
					}
					if _, err := support.TBE(r, feed(ts), 1, false, false, false, 0.3, nil, nil); err != nil {
						return "", true
					}
					return nwOf(r), false
				}})
			}
		}
	}
	return ds
}

// cliDiffTipLens: the same tree, every tip branch 0.125 longer.
func cliDiffTipLens(txt string) string {
	m := rm.MustParse(txt)
	for _, tp := range m.Tips() {
		tp.HasLen, tp.Len = true, tp.Len+0.125
	}
	return m.Newick()
}

func cliDiffC08(quick bool) []cliDiff {
	var ds []cliDiff
	pool := cliDiffPool5()
	step := 3
	if !quick {
		step = 1
	}
	for i := 0; i < len(pool); i += step {
		ref := pool[i]
		// (the last compared tree is the reference with other tip-branch lengths only)
		comps := []string{pool[(i+1)%len(pool)], pool[i], pool[(i+7)%len(pool)], cliDiffTipLens(pool[i])}
		for _, foreign := range []bool{false, true} {
			if foreign && i%2 == 0 {
				// a tree on other taxa in the middle of the file: every output mode must fail as the library call does
				comps = []string{pool[(i+1)%len(pool)], "((A:1,B:1):1,C:1,(D:1,zz:1):1);", pool[i]}
			} else if foreign {
				comps = []string{"(A:1,B:1,(C:1,D:1):1);"}
			}
			comps := comps
			files := map[string]string{"ref.nw": ref + "\n", "comp.nw": strings.Join(comps, "\n") + "\n"}
			for _, mode := range []string{"", "--tips", "--binary", "--rf", "--weighted", "--weighted --binary", "--weighted --tips", "--weighted --tips --binary", "--tips --binary", "--tips --rf"} {
				mode := mode
				args := append([]string{"compare", "trees", "-i", "@/ref.nw", "-c", "@/comp.nw"}, strings.Fields(mode)...)
				tips := strings.Contains(mode, "--tips")
				binary := strings.Contains(mode, "--binary")
				ds = append(ds, cliDiff{"C08", "compare-trees", args, files, "Compare/CompareWeighted(ref, trees, tips, identical-only, 1) printed as documented", func() (string, bool) {
					r := gtMustParse(ref)
					var ts []*tree.Tree
					for _, s := range comps {
						ts = append(ts, gtMustParse(s))
					}
					var sb strings.Builder
					if strings.Contains(mode, "--weighted") {
						st, err := tree.CompareWeighted(r, feed(ts), tips, binary, 1)
						if err != nil {
							return "", true
						}
						if binary {
							sb.WriteString("tree\tidentical\n")
						} else {
							sb.WriteString("tree\tweighted_RF\tKF\n")
						}
						for {
							s, ok := mcrt.Recv2(st)
							if !ok {
								break
							}
							if s.Err != nil {
								return "", true
							}
							if binary {
								fmt.Fprintf(&sb, "%d\t%v\n", s.Id, s.Sametree)
								continue
							}
							wrf, kf := 0.0, 0.0
							for _, d := range s.Common {
								wrf += math.Abs(d)
								kf += d * d
							}
							for _, cont := range [][]float64{s.Tree1, s.Tree2} {
								for _, l := range cont {
									wrf += l
									kf += l * l
								}
							}
							fmt.Fprintf(&sb, "%d\t%E\t%E\n", s.Id, wrf, math.Sqrt(kf))
						}
						return sb.String(), false
					}
					st, err := tree.Compare(r, feed(ts), tips, binary, 1)
					if err != nil {
						return "", true
					}
					switch {
					case binary:
						sb.WriteString("tree\tidentical\n")
					case strings.Contains(mode, "--rf"):
					default:
						sb.WriteString("tree\treference\tcommon\tcompared\n")
					}
					for {
						s, ok := mcrt.Recv2(st)
						if !ok {
							break
						}
						if s.Err != nil {
							return "", true
						}
						switch {
						case binary:
							fmt.Fprintf(&sb, "%d\t%v\n", s.Id, s.Sametree)
						case strings.Contains(mode, "--rf"):
							fmt.Fprintf(&sb, "%d\n", s.Tree1+s.Tree2)
						default:
							fmt.Fprintf(&sb, "%d\t%d\t%d\t%d\n", s.Id, s.Tree1, s.Common, s.Tree2)
						}
					}
					return sb.String(), false
				}})
			}
		}
	}
	return ds
}

// ---- C12: acr ----------------------------------------------------------------------------------------

func cliDiffC12(quick bool) []cliDiff {
	var ds []cliDiff
	n := 4
	if !quick {
		n = 5
	}
	trees := cliDiffTrees(n)
	// the same trees with numeric tip names (1, 2, ...): unnamed inner nodes are reported under their traversal index
	for _, txt := range cliDiffTrees(n) {
		trees = append(trees, strings.ReplaceAll(txt, "t", ""))
	}
	for ti, txt := range trees {
		txt := txt
		m := rm.MustParse(txt)
		names := m.TipNames()
		for v := 0; v < 3; v++ {
			states := map[string]string{}
			var sb strings.Builder
			for i, nm := range names {
				s := string(rune('A' + (i*(v+1)+ti)%3))
				states[nm] = s
				sep := ","
				if v == 1 {
					sep = "\t"
				}
				sb.WriteString(nm + sep + s + "\n")
			}
			files := map[string]string{"t.nw": txt + "\n", "st.txt": sb.String()}
			for _, algo := range []string{"acctran", "deltran", "downpass", ""} {
				algo := algo
				args := []string{"acr", "-i", "@/t.nw", "--states", "@/st.txt"}
				a := acr.ALGO_ACCTRAN // documented default
				switch algo {
				case "deltran":
					a = acr.ALGO_DELTRAN
				case "downpass":
					a = acr.ALGO_DOWNPASS
				}
				if algo != "" {
					args = append(args, "--algo", algo)
				}
				ds = append(ds, cliDiff{"C12", "acr", args, files, fmt.Sprintf("ParsimonyAcr(tree, states, %q, false)", algo), func() (string, bool) {
					t := gtMustParse(txt)
					_, steps, err := acr.ParsimonyAcr(t, states, a, false)
					if err != nil {
						return "", true
					}
					return nwOf(t) + fmt.Sprintf("steps %d\n", steps), false
				}})
				if v != 2 {
					continue
				}
				ds = append(ds, cliDiff{"C12", "acr-out-states", append(append([]string{}, args...), "--out-states", "-"), files, fmt.Sprintf("ParsimonyAcr(tree, states, %q, false): annotated tree, steps, returned node->states map sorted by key", algo), func() (string, bool) {
					t := gtMustParse(txt)
					sm, steps, err := acr.ParsimonyAcr(t, states, a, false)
					if err != nil {
						return "", true
					}
					var keys []string
					for k := range sm {
						keys = append(keys, k)
					}
					sort.Strings(keys)
					out := nwOf(t) + fmt.Sprintf("steps %d\n", steps)
					for _, k := range keys {
						out += k + "," + sm[k] + "\n"
					}
					return out, false
				}})
			}
		}
	}
	return ds
}

// ---- C15: graft / merge / subtree / repopulate ---------------------------------------------------------------

func cliDiffC15(quick bool) []cliDiff {
	var ds []cliDiff
	n := 4
	if !quick {
		n = 5
	}
	graft := "(g1:0.5,(g2:0.25,g3:1)0.5:0.75);"
	for _, txt := range cliDiffTrees(n) {
		txt := txt
		m := rm.MustParse(txt)
		for _, nm := range m.TipNames() {
			nm := nm
			files := map[string]string{"t.nw": txt + "\n", "g.nw": graft + "\n", "grp.txt": nm + ",n1,n2\n"}
			ds = append(ds, cliDiff{"C15", "graft", []string{"graft", "-i", "@/t.nw", "-c", "@/g.nw", "-l", nm}, files, fmt.Sprintf("UpdateTipIndex; GraftTreeOnTip(%q, graft)", nm), func() (string, bool) {
				t := gtMustParse(txt)
				if err := t.UpdateTipIndex(); err != nil {
					return "", true
				}
				if err := t.GraftTreeOnTip(nm, gtMustParse(graft)); err != nil {
					return "", true
				}
				return nwOf(t), false
			}})
			ds = append(ds, cliDiff{"C15", "repopulate", []string{"repopulate", "-i", "@/t.nw", "-g", "@/grp.txt"}, files, fmt.Sprintf("UpdateTipIndex; InsertIdenticalTips([[%s n1 n2]])", nm), func() (string, bool) {
				t := gtMustParse(txt)
				if err := t.UpdateTipIndex(); err != nil {
					return "", true
				}
				if err := t.InsertIdenticalTips([][]string{{nm, "n1", "n2"}}); err != nil {
					return "", true
				}
				return nwOf(t), false
			}})
		}
		if m.Rooted() {
			other := "((x1:0.5,x2:0.25)0.5:0.125,x3:1);"
			files := map[string]string{"t.nw": txt + "\n", "o.nw": other + "\n"}
			ds = append(ds, cliDiff{"C15", "merge", []string{"merge", "-i", "@/t.nw", "-c", "@/o.nw"}, files, "UpdateTipIndex both; Merge(other)", func() (string, bool) {
				t, o := gtMustParse(txt), gtMustParse(other)
				if t.UpdateTipIndex() != nil || o.UpdateTipIndex() != nil {
					return "", true
				}
				if err := t.Merge(o); err != nil {
					return "", true
				}
				return nwOf(t), false
			}})
		}
	}
	return ds
}

func init() {
	addExtra("C07", func(c *Ctx) {
		defer cliCleanup()
		ds := cliDiffC07(c.Quick())
		cliDiffRun(c, ds)
		cliDiffRun(c, cliDiffPairs(ds, 3))
	})
	addExtra("C05", func(c *Ctx) {
		defer cliCleanup()
		ds := cliDiffC05(c.Quick())
		cliDiffRun(c, ds)
		cliDiffRun(c, cliDiffPairs(ds, 3))
		cliDiffRun(c, cliDiffListLayouts(ds))
	})
	addExtra("C09", func(c *Ctx) { defer cliCleanup(); cliDiffRun(c, cliDiffC09(c.Quick())) })
	addExtra("C10", func(c *Ctx) { defer cliCleanup(); cliDiffRun(c, cliDiffC10(c.Quick())) })
	addExtra("C08", func(c *Ctx) { defer cliCleanup(); cliDiffRun(c, cliDiffC08(c.Quick())) })
	addExtra("C12", func(c *Ctx) {
		defer cliCleanup()
		ds := cliDiffC12(c.Quick())
		cliDiffRun(c, ds)
		cliDiffRun(c, cliDiffListLayouts(ds))
	})
	addExtra("C15", func(c *Ctx) {
		defer cliCleanup()
		ds := cliDiffC15(c.Quick())
		cliDiffRun(c, ds)
		cliDiffRun(c, cliDiffListLayouts(ds))
	})
}

// cliDiffReplay re-runs one recorded differential case (found by its args among the cases of its family).
func cliDiffReplay(c *Ctx, raw json.RawMessage) bool {
	var cs cliDiffCase
	if json.Unmarshal(raw, &cs) != nil || cs.Marker == "" {
		return false
	}
	defer cliCleanup()
	gens := append([]func(bool) []cliDiff{cliDiffC07, cliDiffC05, cliDiffC09, cliDiffC10, cliDiffC08, cliDiffC12, cliDiffC15}, cliDiffMore...)
	for _, g := range gens {
		for _, quick := range []bool{true, false} {
			ds := g(quick)
			if len(ds) == 0 || ds[0].prop != cs.Prop {
				break
			}
			for _, d := range append(append(ds, cliDiffPairs(ds, 3)...), cliDiffListLayouts(ds)...) {
				if strings.Join(d.args, " ") == strings.Join(cs.Args, " ") && cliFilesDesc(d.files) == cliFilesDesc(cs.Files) {
					k, w := d.run()
					fmt.Println(k, w)
					if k != "" {
						c.Violate(k, w, cs)
					}
					return true
				}
			}
		}
	}
	fmt.Println("differential case not found in the current enumeration")
	return true
}

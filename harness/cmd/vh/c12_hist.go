package main

import (
	"fmt"
	"strings"

	"github.com/evolbioinfo/gotree/acr"
	"github.com/evolbioinfo/gotree/tree"
)

// C12, additional families: (1) a tree object with a history - already annotated by an earlier reconstruction, or read
// from a text that carries node comments - must give exactly what a fresh tree gives (states written on the tree, returned
// map, steps); (2) nodes with hundreds of children carrying the same state (counters must not wrap).

type c12histCase struct {
	Marker string `json:"c12_extra"`
	Tree   string `json:"tree"`
	States string `json:"states"`
	Algo   int    `json:"algo"`
}

func c12histRun(c *Ctx) {
	algos := []int{acr.ALGO_DOWNPASS, acr.ALGO_DELTRAN, acr.ALGO_ACCTRAN}
	n := 4
	if !c.Quick() {
		n = 5
	}
	for ti, txt := range cliDiffTrees(n) {
		if c.TimeUp() {
			return
		}
		t0 := gtMustParse(txt)
		names := t0.AllTipNames()
		mk := func(v int) map[string]string {
			m := map[string]string{}
			for i, nm := range names {
				m[nm] = string(rune('A' + (i*(v+1)+ti+v)%3))
			}
			return m
		}
		for _, algo := range algos {
			if !c.Mine() {
				continue
			}
			txt, algo := txt, algo
			st1, st2 := mk(0), mk(1)
			c.Check(c12histCase{Marker: "second-reconstruction", Tree: txt, States: fmt.Sprint(st2), Algo: algo}, func() (string, string) {
				var key, what string
				r := guard(func() {
					fresh := gtMustParse(txt)
					mapF, stepsF, errF := acr.ParsimonyAcr(fresh, st2, algo, false)
					// (a) the same object reconstructed twice
					twice := gtMustParse(txt)
					if _, _, err := acr.ParsimonyAcr(twice, st1, algo, false); err != nil {
						return
					}
					mapT, stepsT, errT := acr.ParsimonyAcr(twice, st2, algo, false)
					// (b) a tree read from a text that already carries node comments
					commented := gtMustParse(txt)
					for _, nd := range commented.Nodes() {
						nd.AddComment("old")
					}
					mapC, stepsC, errC := acr.ParsimonyAcr(gtMustParse(commented.Newick()), st2, algo, false)
					ct := gtMustParse(commented.Newick())
					_, _, _ = acr.ParsimonyAcr(ct, st2, algo, false)
					if (errF != nil) != (errT != nil) || (errF != nil) != (errC != nil) {
						key, what = "C12/history/error", fmt.Sprintf("tree %s states %v: errors fresh=%v second-run=%v commented=%v", txt, st2, errF, errT, errC)
						return
					}
					if errF != nil {
						return
					}
					if stepsT != stepsF || stepsC != stepsF {
						key, what = "C12/history/steps", fmt.Sprintf("tree %s states %v algo %d: steps fresh=%d, second reconstruction on the same object=%d, tree with earlier comments=%d", txt, st2, algo, stepsF, stepsT, stepsC)
						return
					}
					if fmt.Sprint(c12sortedMap(mapT)) != fmt.Sprint(c12sortedMap(mapF)) || fmt.Sprint(c12sortedMap(mapC)) != fmt.Sprint(c12sortedMap(mapF)) {
						key, what = "C12/history/returned-states", fmt.Sprintf("tree %s states %v algo %d: returned map differs from the one of a fresh tree", txt, st2, algo)
						return
					}
					// the states a reader of the tree finds: first comment of every node
					first := func(t *tree.Tree) string {
						var sb strings.Builder
						for _, nd := range t.Nodes() {
							cs := nd.Comments()
							if len(cs) == 0 {
								sb.WriteString("-;")
							} else {
								sb.WriteString(cs[0] + ";")
							}
						}
						return sb.String()
					}
					if first(twice) != first(fresh) {
						key, what = "C12/history/states-on-tree/second-reconstruction", fmt.Sprintf("tree %s: after a second reconstruction (states %v) the tree reads %s, a fresh tree %s", txt, st2, twice.Newick(), fresh.Newick())
						return
					}
					if first(ct) != first(fresh) {
						key, what = "C12/history/states-on-tree/input-with-comments", fmt.Sprintf("tree %s read with node comments [old]: the tree reads %s, a fresh tree %s", txt, ct.Newick(), fresh.Newick())
					}
				})
				if crashed(r) {
					return "C12/history/crash/" + crashSite(r), verdictStr(r)
				}
				return key, what
			})
			c.States++
			c.Count("history_reconstructions", 1)
		}
	}
	// (2) wide nodes
	for _, wide := range []int{255, 256, 257, 300, 520} {
		for _, algo := range algos {
			if !c.Mine() {
				continue
			}
			wide, algo := wide, algo
			c.Check(c12histCase{Marker: "wide-node", Tree: fmt.Sprintf("star of %d+3 tips", wide), Algo: algo}, func() (string, string) {
				var key, what string
				r := guard(func() {
					// ((a1..a<wide> all A, b1 b2 B, c1 C) under one node) next to two more tips: min steps = 3 at the wide node
					var parts []string
					states := map[string]string{"x": "A", "y": "B"}
					for i := 0; i < wide; i++ {
						nm := fmt.Sprintf("a%d", i)
						parts = append(parts, nm)
						states[nm] = "A"
					}
					for _, nm := range []string{"b1", "b2"} {
						parts = append(parts, nm)
						states[nm] = "B"
					}
					parts = append(parts, "c1")
					states["c1"] = "C"
					txt := "((" + strings.Join(parts, ",") + ")w,x,y);"
					t := gtMustParse(txt)
					m, steps, err := acr.ParsimonyAcr(t, states, algo, false)
					if err != nil {
						key, what = "C12/wide-node/error", err.Error()
						return
					}
					// minimum: b1, b2, c1 differ from A below w (3 changes) + y differs at the root (1 change)
					if steps != 4 {
						key, what = "C12/wide-node/steps", fmt.Sprintf("node with %d children in state A, 2 in B, 1 in C (+ tips x=A, y=B at the root): %d steps reported, minimum 4", wide, steps)
						return
					}
					if m["w"] != "A" {
						key, what = "C12/wide-node/state", fmt.Sprintf("node with %d children in state A, 2 in B, 1 in C: state %q reported, only A is optimal", wide, m["w"])
					}
				})
				if crashed(r) {
					return "C12/wide-node/crash/" + crashSite(r), verdictStr(r)
				}
				return key, what
			})
			c.States++
			c.Count("wide_node_cases", 1)
		}
	}
}

func c12sortedMap(m map[string]string) []string {
	var out []string
	for k, v := range m {
		out = append(out, k+"="+v)
	}
	sortStrings(out)
	return out
}

func init() {
	addExtra("C12", c12histRun)
	extraRequire["C12"] = append(extraRequire["C12"], "history_reconstructions", "wide_node_cases")
}

package main

import (
	"fmt"
	realrand "math/rand"
	"strings"

	"github.com/evolbioinfo/gotree/tree"
	"github.com/fredericlemoine/gostats"

	rm "verif/harness/refmodel"
)

// Further command == library families (second batch): generators (C16), rotations (C05), subtree / collapse single (C15).

func cliDiffC16(quick bool) []cliDiff {
	var ds []cliDiff
	sizes := []int{3, 4, 6}
	if !quick {
		sizes = []int{3, 4, 5, 6, 9}
	}
	type gen struct {
		name string
		f    func(n int, rooted bool) (*tree.Tree, error)
	}
	gens := []gen{
		{"yuletree", func(n int, r bool) (*tree.Tree, error) { return tree.RandomYuleBinaryTree(n, r) }},
		{"uniformtree", func(n int, r bool) (*tree.Tree, error) { return tree.RandomUniformBinaryTree(n, r) }},
		{"caterpillartree", func(n int, r bool) (*tree.Tree, error) { return tree.RandomCaterpillarBinaryTree(n, r) }},
		{"startree", func(n int, _ bool) (*tree.Tree, error) {
			t, err := tree.StarTree(n)
			if err == nil {
				for _, e := range t.Edges() {
					e.SetLength(gostats.Exp(1.0 / 0.1))
				}
			}
			return t, err
		}},
	}
	for _, g := range gens {
		for _, n := range sizes {
			for _, rooted := range []bool{false, true} {
				for _, nb := range []int{1, 3} {
					for _, seed := range []int64{1, 5} {
						g, n, rooted, nb, seed := g, n, rooted, nb, seed
						if g.name == "startree" && rooted {
							continue
						}
						args := []string{"generate", g.name, "-l", fmt.Sprint(n), "-n", fmt.Sprint(nb), "--seed", fmt.Sprint(seed)}
						if rooted {
							args = append(args, "-r")
						}
						ds = append(ds, cliDiff{"C16", "generate-" + g.name, args, map[string]string{}, fmt.Sprintf("rand.Seed(%d); %d x generator(%d tips, rooted=%v)", seed, nb, n, rooted), func() (string, bool) {
							realrand.Seed(seed)
							out := ""
							for i := 0; i < nb; i++ {
								t, err := g.f(n, rooted)
								if err != nil {
									return "", true
								}
								out += nwOf(t)
							}
							return out, false
						}})
					}
				}
			}
		}
	}
	for _, d := range []int{1, 2, 3} {
		for _, rooted := range []bool{false, true} {
			for _, seed := range []int64{1, 5} {
				d, rooted, seed := d, rooted, seed
				args := []string{"generate", "balancedtree", "-d", fmt.Sprint(d), "--seed", fmt.Sprint(seed), "-n", "2"}
				if rooted {
					args = append(args, "-r")
				}
				ds = append(ds, cliDiff{"C16", "generate-balancedtree", args, map[string]string{}, fmt.Sprintf("rand.Seed(%d); 2 x RandomBalancedBinaryTree(%d, %v)", seed, d, rooted), func() (string, bool) {
					realrand.Seed(seed)
					out := ""
					for i := 0; i < 2; i++ {
						t, err := tree.RandomBalancedBinaryTree(d, rooted)
						if err != nil {
							return "", true
						}
						out += nwOf(t)
					}
					return out, false
				}})
			}
		}
	}
	return ds
}

func cliDiffC05b(quick bool) []cliDiff {
	var ds []cliDiff
	n := 4
	if !quick {
		n = 5
	}
	for _, txt := range cliDiffTrees(n) {
		txt := txt
		files := map[string]string{"t.nw": txt + "\n"}
		ds = append(ds, cliDiff{"C05", "rotate-sort", []string{"rotate", "sort", "-i", "@/t.nw"}, files, "SortNeighborsByTips()", func() (string, bool) {
			t := gtMustParse(txt)
			t.SortNeighborsByTips()
			return nwOf(t), false
		}})
		for _, seed := range []int64{1, 2, 3} {
			seed := seed
			ds = append(ds, cliDiff{"C05", "rotate-rand", []string{"rotate", "rand", "-i", "@/t.nw", "--seed", fmt.Sprint(seed)}, files, fmt.Sprintf("rand.Seed(%d); RotateInternalNodes()", seed), func() (string, bool) {
				realrand.Seed(seed)
				t := gtMustParse(txt)
				t.RotateInternalNodes()
				return nwOf(t), false
			}})
		}
	}
	return ds
}

func cliDiffC15b(quick bool) []cliDiff {
	var ds []cliDiff
	n := 4
	if !quick {
		n = 5
	}
	for _, txt := range cliDiffTrees(n) {
		// name every inner node, then extract the subtree under each of them
		m := rm.MustParse(txt)
		k := 0
		var inner []string
		m.Walk(func(nd, p *rm.Node) {
			if !nd.IsTip() && p != nil {
				k++
				nd.Name = fmt.Sprintf("in%d", k)
				nd.HasSup = false
				inner = append(inner, nd.Name)
			}
		})
		named := m.Newick()
		files := map[string]string{"t.nw": named + "\n"}
		for _, nm := range append(inner, "t1", "nosuch", "in.*") {
			nm := nm
			ds = append(ds, cliDiff{"C15", "subtree", []string{"subtree", "-i", "@/t.nw", "-n", nm}, files, fmt.Sprintf("SelectNodes(%q); SubTree(node) when exactly one inner node matches", nm), func() (string, bool) {
				t := gtMustParse(named)
				nodes, err := t.SelectNodes(nm)
				if err != nil {
					return "", true
				}
				if len(nodes) != 1 || nodes[0].Tip() {
					return "", false
				}
				return nwOf(t.SubTree(nodes[0])), false
			}})
		}
		// single-child nodes: every branch of the tree subdivided once
		s := rm.MustParse(txt)
		var wrap func(nd *rm.Node) *rm.Node
		wrap = func(nd *rm.Node) *rm.Node {
			for i, ch := range nd.Children {
				nd.Children[i] = wrap(ch)
			}
			if nd.IsTip() || len(nd.Children) < 2 {
				return nd
			}
			return nd
		}
		wrap(s.Root)
		if len(s.Root.Children) > 0 {
			first := s.Root.Children[0]
			mid := &rm.Node{Children: []*rm.Node{first}, HasLen: true, Len: 0.5}
			s.Root.Children[0] = mid
		}
		single := s.Newick()
		if strings.Contains(single, "(") {
			sfiles := map[string]string{"t.nw": single + "\n"}
			ds = append(ds, cliDiff{"C15", "collapse-single", []string{"collapse", "single", "-i", "@/t.nw"}, sfiles, "RemoveSingleNodes()", func() (string, bool) {
				t := gtMustParse(single)
				t.RemoveSingleNodes()
				return nwOf(t), false
			}})
		}
	}
	return ds
}

// cliDiffC13: a multi-tree file whose k-th tree is malformed: every reformat command reports the error (C13: "or an
// error is reported, none is silently skipped").
func cliDiffC13(quick bool) []cliDiff {
	var ds []cliDiff
	good := []string{"(A:1,B:2,(C:1,D:1)0.5:1);", "((A:1,B:2)0.5:1,C:1,D:1);", "(A:1,C:2,(B:1,D:1)0.5:1);"}
	for pos := 0; pos < 3; pos++ {
		for _, bad := range []string{"(A:1,B:2,(C:1,D:1;", "(A,B));", "(A:1,B:x,C:1);"} {
			lines := append([]string{}, good...)
			lines[pos] = bad
			files := map[string]string{"t.nw": strings.Join(lines, "\n") + "\n"}
			for _, out := range []string{"newick", "nexus", "phyloxml"} {
				ds = append(ds, cliDiff{"C13", "reformat-malformed-tree", []string{"reformat", out, "-i", "@/t.nw"}, files, fmt.Sprintf("tree %d of the file is malformed: the conversion fails", pos+1), func() (string, bool) { return "", true }})
			}
		}
	}
	return ds
}

func init() {
	addExtra("C13", func(c *Ctx) { defer cliCleanup(); cliDiffRun(c, cliDiffC13(c.Quick())) })
	cliDiffMore = append(cliDiffMore, cliDiffC13)
	extraRequire["C13"] = append(extraRequire["C13"], "cli_diff_reformat-malformed-tree")
	addExtra("C16", func(c *Ctx) { defer cliCleanup(); cliDiffRun(c, cliDiffC16(c.Quick())) })
	addExtra("C05", func(c *Ctx) {
		defer cliCleanup()
		ds := cliDiffC05b(c.Quick())
		cliDiffRun(c, ds)
		cliDiffRun(c, cliDiffPairs(ds, 3))
	})
	addExtra("C15", func(c *Ctx) {
		defer cliCleanup()
		ds := cliDiffC15b(c.Quick())
		cliDiffRun(c, ds)
		cliDiffRun(c, cliDiffPairs(ds, 3))
	})
	cliDiffMore = append(cliDiffMore, cliDiffC16, cliDiffC05b, cliDiffC15b)
	extraRequire["C16"] = append(extraRequire["C16"], "cli_diff_generate-yuletree", "cli_diff_generate-uniformtree", "cli_diff_generate-caterpillartree", "cli_diff_generate-startree", "cli_diff_generate-balancedtree")
	extraRequire["C05"] = append(extraRequire["C05"], "cli_diff_rotate-sort", "cli_diff_rotate-rand")
	extraRequire["C15"] = append(extraRequire["C15"], "cli_diff_subtree", "cli_diff_collapse-single")
}

package main

import (
	"encoding/base64"
	"encoding/json"
	"fmt"
	"os"
	"regexp"
	"strings"
	"time"

	"github.com/evolbioinfo/gotree/io/nexus"
	"github.com/evolbioinfo/gotree/io/phyloxml"
	"github.com/evolbioinfo/gotree/io/utils"
	"github.com/evolbioinfo/gotree/mcrt"
	"github.com/evolbioinfo/gotree/tree"
)

// C02: tree readers are total. Every byte string of the enumerated space is fed to the
// single-tree and to the multi-tree reader of its format; the execution must end with the
// verdict "completed" (error or trees) - never panic, process exit, infinite loop (fuel), deadlock.

type c02case struct {
	Format string `json:"format"` // newick | nexus | phyloxml | nextstrain
	Driver string `json:"driver"` // single | multi
	B64    string `json:"input_base64"`
	Quoted string `json:"input_quoted"`
	Family string `json:"family"`
}

var c02formats = map[string]int{"newick": utils.FORMAT_NEWICK, "nexus": utils.FORMAT_NEXUS, "phyloxml": utils.FORMAT_PHYLOXML, "nextstrain": utils.FORMAT_NEXTSTRAIN}

const c02fuel = 3_000_000

// c02post exercises a delivered tree: traversal, indexing, writing back.
func c02post(t *tree.Tree, op *string) {
	*op = "Nodes"
	_ = t.Nodes()
	*op = "Tips"
	_ = t.Tips()
	*op = "Edges"
	_ = t.Edges()
	*op = "TipEdges"
	_ = t.TipEdges()
	*op = "InternalEdges"
	_ = t.InternalEdges()
	*op = "AllTipNames"
	_ = t.AllTipNames()
	*op = "Newick"
	_ = t.Newick()
	*op = "UpdateTipIndex"
	_ = t.UpdateTipIndex()
	*op = "ReinitIndexes"
	_ = t.ReinitIndexes()
	*op = "Newick2"
	_ = t.Newick()
	*op = "Nexus"
	_ = t.Nexus()
	*op = "WriteNexus"
	_, _ = nexus.WriteNexus(feed([]*tree.Tree{t}), true)
	*op = "WritePhyloXML"
	_, _ = phyloxml.WritePhyloXML(feed([]*tree.Tree{t}))
	*op = ""
}

// c02run executes one driver on one input. Returns violation key/what ("" = total), ticks, and an outcome class.
func c02run(format, driver, input string) (key, what string, ticks int64, outcome string) {
	ntrees, nerr := 0, 0
	op := ""
	phase := "read"
	r := mcrt.Run(mcrt.Config{NoSched: true, Fuel: c02fuel}, func() {
		f := c02formats[format]
		var trees []*tree.Tree
		if driver == "single" {
			t, err := utils.ReadTreeReader(bufReader(input), f)
			if err != nil {
				nerr++
			} else if t != nil {
				trees = append(trees, t)
			}
		} else {
			ch := utils.ReadMultiTrees(bufReader(input), f)
			for {
				tr, ok := mcrt.Recv2(ch)
				if !ok {
					break
				}
				if tr.Err != nil {
					nerr++
				} else if tr.Tree != nil {
					trees = append(trees, tr.Tree)
				}
			}
		}
		ntrees = len(trees)
		phase = "post"
		for _, t := range trees {
			c02post(t, &op)
		}
	})
	ticks = r.Ticks
	if !crashed(r) {
		return "", "", ticks, fmt.Sprintf("%s/%s trees=%d err=%d", format, driver, min(ntrees, 3), min(nerr, 1))
	}
	site := crashSite(r)
	if r.Verdict == mcrt.VFuel || r.Verdict == mcrt.VDeadlock {
		site = "-" // where the budget ran out is arbitrary
	}
	if phase == "post" {
		key = fmt.Sprintf("C02/%s/delivered-tree/%s/%s@%s", format, op, r.Verdict, site)
		what = fmt.Sprintf("%s %s reader delivered a tree from %s on which %s does not survive: %s", format, driver, c02quote(input), op, verdictStr(r))
	} else {
		key = fmt.Sprintf("C02/%s/%s/%s@%s", format, driver, r.Verdict, site)
		what = fmt.Sprintf("%s %s reader on %s: %s", format, driver, c02quote(input), verdictStr(r))
	}
	return key, what, ticks, "crash"
}

func c02quote(s string) string {
	if len(s) > 300 {
		return fmt.Sprintf("%q...(%d bytes)", s[:300], len(s))
	}
	return fmt.Sprintf("%q", s)
}

// ---- enumerated input spaces -------------------------------------------------

var c02newickAlpha = []string{"(", ")", ",", ":", ";", "[", "]", "A", "1", "1e", "/", " ", "\t", "\n", "\r", "\x00", "é", "'", "\""}

var c02nexusAlpha = []string{"#NEXUS", "BEGIN", "DATA", "TAXA", "TAXLABELS", "TREES", "TREE", "TRANSLATE", "DIMENSIONS", "NTAX", "NCHAR", "FORMAT", "DATATYPE", "MISSING", "GAP", "MATRIX", "END",
	";", "=", ",", "[", "]", "\n", "A", "1", "dna", "(A,B)", "-", "t=(A,B);", "4444444444444444444"}

var c02nexusPrefixes = []string{
	"#NEXUS\n",
	"#NEXUS\nBEGIN TAXA;\n",
	"#NEXUS\nBEGIN TREES;\n",
	"#NEXUS\nBEGIN DATA;\n",
	"#NEXUS\nBEGIN DATA;\nFORMAT ",
	"#NEXUS\nBEGIN TREES;\nTRANSLATE ",
	"#NEXUS\nBEGIN TREES;\nTREE t = ",
	"#NEXUS\nBEGIN TAXA;\nDIMENSIONS NTAX=2;\nTAXLABELS A B;\nEND;\nBEGIN TREES;\n",
}

var c02corpus = map[string][]string{
	"newick": {
		"((A:1,B:2)0.9:0.5,(C:1,D:0.25)0.7/0.01:1.5,E:3)root;\n",
		"((A[c1]:1[e1],B)n1[c2]:0.5,C)[rc];\n(A,B,(C,D));\n",
		"(A:1e-5,\n (B:1E+3, C:.5)x : 2,\n\tD);\n\n(A,B);",
		"(A);",
		"   \n(A,B,C);   \n   \n(D,E,F)  ;  \n",
		"((((((A,B),C),D),E),F),G);(A,B);",
	},
	"nexus": {
		"#NEXUS\nBEGIN TAXA;\n DIMENSIONS NTAX=3;\n TAXLABELS A B C;\nEND;\nBEGIN TREES;\n TREE t1 = (A:1,B:2,C:3);\n TREE t2 = ((A,B),C);\nEND;\n",
		"#NEXUS\nBEGIN TREES;\n TRANSLATE\n  1 A,\n  2 B,\n  3 C\n ;\n TREE t1 = (1:1,2:2,3:3);\nEND;\n",
		"#NEXUS\n[a comment]\nBEGIN DATA;\n DIMENSIONS NTAX=2 NCHAR=4;\n FORMAT DATATYPE=dna MISSING=? GAP=-;\n MATRIX\n A ACGT\n B AC-?\n ;\nEND;\nBEGIN TREES;\n TREE t = (A,B);\nEND;\n",
		"#NEXUS\nBEGIN UNKNOWN;\n FOO bar=1;\nEND;\nBEGIN TREES;\n TREE t = [&R] ((A,B),(C,D));\nEND;\n",
		"#NEXUS\nBEGIN TREES;\n TREE a = (A,B,C);\n TREE b = (A,C,B);\nEND;\nBEGIN TREES;\n TREE c = (B,A,C);\nEND;\nBEGIN TREES;\nEND;\n",
		"#NEXUS\nBEGIN DATA;\n DIMENSIONS NTAX=3 NCHAR=2;\n MATRIX\n A AC\n B AC\n C AG\n ;\nEND;\nBEGIN TREES;\n TREE t = (A,B,C);\nEND;\n",
		"#NEXUS\r\nBEGIN TAXA;\r\nTAXLABELS A B [x] C;\r\nEND;\r\nBEGIN TREES;\r\nTREE 'my tree' = (A,B,C);\r\nEND;\r\n",
	},
	"phyloxml": {
		"<?xml version=\"1.0\" encoding=\"ISO-8859-1\"?>\n<phyloxml><phylogeny rooted=\"true\"><clade><clade><name>A</name></clade><clade><name>B</name></clade></clade></phylogeny></phyloxml>",
		"<?xml version=\"1.0\" encoding=\"us-ascii\"?>\n<phyloxml xmlns=\"http://www.phyloxml.org\"><phylogeny rooted=\"false\"><clade><clade><name>A&amp;B</name></clade><clade><name><![CDATA[B]]></name></clade><clade><name>C</name></clade></clade></phylogeny></phyloxml>",
		"<?xml version=\"1.0\"?>\n<phyloxml><phylogeny rooted=\"true\"><clade><clade><name>A</name><branch_length>1.5</branch_length></clade><clade><confidence type=\"b\">0.9</confidence><branch_length>2</branch_length><clade><name>B</name></clade><clade><taxonomy><scientific_name>C c</scientific_name></taxonomy></clade></clade></clade></phylogeny></phyloxml>",
		"<phyloxml><phylogeny rooted=\"false\"><clade><clade><name>A</name></clade><clade><name>B</name></clade><clade><taxonomy><code>C</code><id provider=\"x\">1</id></taxonomy></clade></clade></phylogeny><phylogeny rooted=\"true\"><clade><name>X</name></clade></phylogeny></phyloxml>",
	},
	"nextstrain": {
		`{"version":"v2","meta":{},"tree":{"name":"r","node_attrs":{"div":0},"children":[{"name":"A","node_attrs":{"div":1.5,"num_date":{"value":2020.5},"country":{"value":"F r,a:n"}},"branch_attrs":{"labels":{"aa":"S: A1B, C2D"},"mutations":{"nuc":["A1C"]}}},{"name":"n1","node_attrs":{"div":1},"children":[{"name":"B","node_attrs":{"div":2,"accession":"X:1"}},{"name":"C","node_attrs":{"div":1}}]}]}}`,
		`{"version":"v2","tree":{"name":"","children":[{"name":"A"},{"name":"B"}]}}`,
	},
}

var c02tokRe = map[string]*regexp.Regexp{
	"newick":     regexp.MustCompile(`[A-Za-z0-9.+\-]+|\s|.`),
	"nexus":      regexp.MustCompile(`[#A-Za-z0-9_.'?()\-:]+|\r?\n|[ \t]+|.`),
	"phyloxml":   regexp.MustCompile(`</?[a-z_?]+|"[^"]*"|[^<>"\s=]+|\s+|.`),
	"nextstrain": regexp.MustCompile(`"[^"]*"|[0-9.]+|\s+|.`),
}

var c02editAlpha = map[string][]string{
	"newick":     {"(", ")", ",", ":", ";", "[", "]", "A", "1", " ", "\n", "'", "\""},
	"nexus":      {"#NEXUS", "BEGIN", "END", "TREES", "TREE", "TAXA", "TRANSLATE", "FORMAT", "MISSING", "GAP", "DATATYPE", "MATRIX", ";", "=", ",", "[", "]", "\n", " ", "A", "4444444444444444444", "0", "-1"},
	"phyloxml":   {"<clade", "</clade", "<name", "<phylogeny", "<branch_length", "<confidence", ">", "<", "\"", "x", "1", "<?xml version=\"1.0\" encoding=\"ISO-8859-1\"?>", "<?xml version=\"1.1\" encoding=\"UTF-16\" standalone=\"yes\"?>", "<!DOCTYPE x>", "<![CDATA[", "&amp;", "&x;"},
	"nextstrain": {"{", "}", "[", "]", ":", ",", "\"", "\"v2\"", "\"children\"", "\"div\"", "1", "null"},
}

var c02coreAlpha = map[string][]string{
	"newick":     {"(", ")", ";", "[", " "},
	"nexus":      {";", "=", "[", "END", "\n"},
	"phyloxml":   {"<clade", ">", "x"},
	"nextstrain": {"{", "]", "null"},
}

func c02tokens(format, doc string) []string { return c02tokRe[format].FindAllString(doc, -1) }

// c02structured returns the structured PhyloXML and Nextstrain documents: clade trees with <= 4 clades x optional fields x document-level variants.
func c02structured(format string, maxDev int, f func(doc string)) {
	// ordered rooted trees with 1..4 nodes as parenthesis strings: node = "(" children ")"
	shapes := []string{"()", "(())", "(()())", "((()))", "(()()())", "((())())", "(()(()))", "((()()))", "(((())))"}
	for _, sh := range shapes {
		n := strings.Count(sh, "(")
		if format == "phyloxml" {
			// per clade: name {absent,A<i>,"",bad}, branch_length {absent,1.5,"",x}, confidence {absent,0.9,"",x}, taxonomy {absent,sci,code,empty}
			menu := make([]int, 0, 4*n+1)
			for i := 0; i < n; i++ {
				menu = append(menu, 4, 4, 4, 4)
			}
			menu = append(menu, 6) // document level
			c02deviations(menu, maxDev, func(a []int) {
				idx := 0
				var sb strings.Builder
				for _, ch := range sh {
					if ch == '(' {
						sb.WriteString("<clade>")
						switch a[4*idx] {
						case 0:
							fmt.Fprintf(&sb, "<name>T%d</name>", idx)
						case 1:
						case 2:
							sb.WriteString("<name></name>")
						case 3:
							sb.WriteString("<name>a b&lt;;(</name>")
						}
						switch a[4*idx+1] {
						case 1:
							sb.WriteString("<branch_length>1.5</branch_length>")
						case 2:
							sb.WriteString("<branch_length></branch_length>")
						case 3:
							sb.WriteString("<branch_length>x</branch_length>")
						}
						switch a[4*idx+2] {
						case 1:
							sb.WriteString("<confidence type=\"b\">0.9</confidence>")
						case 2:
							sb.WriteString("<confidence></confidence>")
						case 3:
							sb.WriteString("<confidence>x</confidence>")
						}
						switch a[4*idx+3] {
						case 1:
							sb.WriteString("<taxonomy><scientific_name>S s</scientific_name></taxonomy>")
						case 2:
							sb.WriteString("<taxonomy><code>CD</code><id>x</id></taxonomy>")
						case 3:
							sb.WriteString("<taxonomy></taxonomy>")
						}
						idx++
					} else {
						sb.WriteString("</clade>")
					}
				}
				body := sb.String()
				switch a[4*n] {
				case 0:
					f("<phyloxml><phylogeny rooted=\"true\">" + body + "</phylogeny></phyloxml>")
				case 1:
					f("<phyloxml><phylogeny>" + body + "</phylogeny></phyloxml>")
				case 2:
					f("<phyloxml><phylogeny rooted=\"x\">" + body + "</phylogeny></phyloxml>")
				case 3:
					f("<notphyloxml><phylogeny rooted=\"true\">" + body + "</phylogeny></notphyloxml>")
				case 4:
					f("<phyloxml><phylogeny rooted=\"false\">" + body + "</phylogeny><phylogeny rooted=\"true\">" + body + "</phylogeny></phyloxml>")
				case 5:
					f("<phyloxml>" + body + "</phyloxml>")
				}
			})
		} else {
			// per node: name {T<i>, absent, "", number}, div {absent, 1.5, "x", null}, attrs {absent, country+date, labels}
			menu := make([]int, 0, 3*n+1)
			for i := 0; i < n; i++ {
				menu = append(menu, 4, 4, 3)
			}
			menu = append(menu, 5)
			c02deviations(menu, maxDev, func(a []int) {
				idx := 0
				var sb strings.Builder
				first := []bool{true}
				for _, ch := range sh {
					if ch == '(' {
						if !first[len(first)-1] {
							sb.WriteString(",")
						}
						first[len(first)-1] = false
						sb.WriteString("{")
						switch a[3*idx] {
						case 0:
							fmt.Fprintf(&sb, "\"name\":\"T%d\",", idx)
						case 2:
							sb.WriteString("\"name\":\"\",")
						case 3:
							sb.WriteString("\"name\":5,")
						}
						sb.WriteString("\"node_attrs\":{")
						switch a[3*idx+1] {
						case 0:
							sb.WriteString("\"x\":1")
						case 1:
							sb.WriteString("\"div\":1.5")
						case 2:
							sb.WriteString("\"div\":\"x\"")
						case 3:
							sb.WriteString("\"div\":null")
						}
						switch a[3*idx+2] {
						case 1:
							sb.WriteString(",\"country\":{\"value\":\"a b\"},\"num_date\":{\"value\":2020.1}")
						}
						sb.WriteString("},")
						if a[3*idx+2] == 2 {
							sb.WriteString("\"branch_attrs\":{\"labels\":{\"aa\":\"X: A1B\"}},")
						}
						sb.WriteString("\"children\":[")
						first = append(first, true)
						idx++
					} else {
						sb.WriteString("]}")
						first = first[:len(first)-1]
					}
				}
				body := sb.String()
				switch a[3*n] {
				case 0:
					f("{\"version\":\"v2\",\"tree\":" + body + "}")
				case 1:
					f("{\"version\":\"v1\",\"tree\":" + body + "}")
				case 2:
					f("{\"tree\":" + body + "}")
				case 3:
					f("{\"version\":\"v2\",\"tree\":[" + body + "]}")
				case 4:
					f("{\"version\":\"v2\"}")
				}
			})
		}
	}
}

func c02deviations(menu []int, maxDev int, f func(assign []int)) {
	assign := make([]int, len(menu))
	var rec func(i, dev int)
	rec = func(i, dev int) {
		if i == len(menu) {
			f(assign)
			return
		}
		assign[i] = 0
		rec(i+1, dev)
		if dev < maxDev {
			for v := 1; v < menu[i]; v++ {
				assign[i] = v
				rec(i+1, dev+1)
			}
			assign[i] = 0
		}
	}
	rec(0, 0)
}

func init() {
	register(&Prop{
		ID: "C02",
		Rule: "inputs: (a) every string of <= L tokens over a 19-token Newick alphabet (parentheses, separators, comment brackets, labels, numbers, blanks, CR, NUL, UTF-8, single and double quote), L = 5 quick / 6 thorough; (b) every string of <= 3 / 4 tokens over a 29-token Nexus alphabet (all keywords, punctuation, identifiers) after each of 8 block prefixes; " +
			"(c) PhyloXML / Nextstrain: every clade tree with <= 4 clades x optional fields {absent, valid, empty, malformed} within 2 / 3 deviations x document-level variants; (d) every byte-wise truncation and every single token edit (delete, substitute, insert from the format's token alphabet; thorough: double edits over a core alphabet) of a corpus of valid documents of the four formats; " +
			"(e) large structured inputs (nesting 1500 balanced / 10^5 unbalanced, 10^5 siblings, 10^5-byte comment/label, 10^4 trees) as plain runs. Every input is given to the single-tree reader and to the multi-tree reader (consumed to channel close) of its format under the controlled runtime; " +
			"oracle: verdict 'completed' (never panic, exit, fuel = infinite loop, deadlock) and every delivered tree survives traversal, UpdateTipIndex/ReinitIndexes and the Newick/Nexus/PhyloXML writers; non-trivial = distinct input on which a tree was delivered or an error reported after > 0 trees",
		Assumptions: []string{"fuel budget 3*10^6 ticks (function entries + loop iterations) is the wall-clock-free definition of 'loops forever': >= 1000x the largest tick count of any terminating small execution, reported as max:ticks_small",
			"encoding/xml and encoding/json (standard library) are executed, not instrumented"},
		Require: []string{"inputs_newick", "inputs_nexus", "inputs_phyloxml", "inputs_nextstrain", "trees_delivered", "errors_reported", "truncations", "token_edits"},
		Run: func(c *Ctx) {
			try := func(format, family, input string) {
				if !c.Mine() {
					return
				}
				c.States++
				c.Count("inputs_"+format, 1)
				c.Count(family, 1)
				for _, drv := range []string{"single", "multi"} {
					drv := drv
					var ticks int64
					var outc string
					cs := c02case{Format: format, Driver: drv, Family: family}
					c.Pin(func() string { return format + "/" + drv + " " + c02quote(input) })
					ok := c.Check(&cs, func() (string, string) {
						k, w, t, o := c02run(format, drv, input)
						ticks, outc = t, o
						if k != "" {
							cs.B64 = base64.StdEncoding.EncodeToString([]byte(input))
							cs.Quoted = c02quote(input)
						}
						return k, w
					})
					c.Transitions++
					if ok {
						if len(input) < 2000 {
							c.Max("ticks_small", ticks)
						}
						c.Outcome(outc)
						if strings.Contains(outc, "trees=0") {
							c.Count("errors_reported", 1)
						} else {
							c.Count("trees_delivered", 1)
							c.Nontrivial(format + drv + input)
						}
					}
				}
				if c.States%50000 == 1 {
					c.Sample(map[string]string{"format": format, "family": family, "input": c02quote(input)})
				}
			}
			quick := c.Quick()
			only := os.Getenv("VERIF_C02_ONLY")
			// (a) Newick token strings
			L := 5
			if !quick {
				L = 6
			}
			buf := make([]string, 0, L)
			var rec func(depth int)
			rec = func(depth int) {
				if c.TimeUp() {
					return
				}
				try("newick", "token_strings", strings.Join(buf, ""))
				if depth == L {
					return
				}
				for _, t := range c02newickAlpha {
					buf = append(buf, t)
					rec(depth + 1)
					buf = buf[:len(buf)-1]
				}
			}
			if only == "" {
				rec(0)
			}
			// (b) Nexus token strings after prefixes
			LN := 3
			if !quick {
				LN = 4
			}
			for _, pre := range c02nexusPrefixes {
				nb := make([]string, 0, LN)
				var recn func(depth int)
				recn = func(depth int) {
					if c.TimeUp() {
						return
					}
					try("nexus", "token_strings", pre+strings.Join(nb, " "))
					if depth == LN {
						return
					}
					for _, t := range c02nexusAlpha {
						nb = append(nb, t)
						recn(depth + 1)
						nb = nb[:len(nb)-1]
					}
				}
				recn(0)
			}
			// (c) structured XML / JSON
			dev := 2
			if !quick {
				dev = 3
			}
			for _, format := range []string{"phyloxml", "nextstrain"} {
				c02structured(format, dev, func(doc string) {
					if !c.TimeUp() {
						try(format, "structured_documents", doc)
					}
				})
			}
			// (d) corpus: truncations and token edits
			for _, format := range []string{"newick", "nexus", "phyloxml", "nextstrain"} {
				for _, doc := range c02corpus[format] {
					try(format, "corpus", doc)
					for i := 0; i < len(doc); i++ {
						try(format, "truncations", doc[:i])
					}
					toks := c02tokens(format, doc)
					join := func(ts []string) string { return strings.Join(ts, "") }
					for i := range toks {
						if c.TimeUp() {
							return
						}
						del := append(append([]string{}, toks[:i]...), toks[i+1:]...)
						try(format, "token_edits", join(del))
						for _, a := range c02editAlpha[format] {
							sub := append(append(append([]string{}, toks[:i]...), a), toks[i+1:]...)
							try(format, "token_edits", join(sub))
							ins := append(append(append([]string{}, toks[:i]...), a), toks[i:]...)
							try(format, "token_edits", join(ins))
						}
					}
					if !quick {
						// double edits: delete or substitute (core alphabet) at two positions
						core := c02coreAlpha[format]
						edit := func(ts []string, i, e int) []string {
							if e == 0 {
								return append(append([]string{}, ts[:i]...), ts[i+1:]...)
							}
							out := append([]string{}, ts...)
							out[i] = core[e-1]
							return out
						}
						for i := 0; i < len(toks); i++ {
							for e1 := 0; e1 <= len(core); e1++ {
								t1 := edit(toks, i, e1)
								for j := i; j < len(t1); j++ {
									if c.TimeUp() {
										return
									}
									for e2 := 0; e2 <= len(core); e2++ {
										try(format, "double_token_edits", join(edit(t1, j, e2)))
									}
								}
							}
						}
					}
				}
			}
			// (e) large structured inputs (plain runs)
			big := []struct{ format, name, doc string }{
				{"newick", "nesting 1500", strings.Repeat("(", 1500) + "A" + strings.Repeat(",B)", 1500) + ";"},
				{"newick", "nesting 10^5 unbalanced", strings.Repeat("(", 100000) + "A;"},
				{"newick", "10^5 siblings", "(" + strings.Repeat("A,", 100000) + "B);"},
				{"newick", "10^5-byte comment", "(A[" + strings.Repeat("x", 100000) + "],B,C);"},
				{"newick", "10^5-byte unterminated comment", "(A[" + strings.Repeat("x", 100000)},
				{"newick", "10^5-byte label", "(" + strings.Repeat("L", 100000) + ",B,C);"},
				{"newick", "10^4 trees", strings.Repeat("(A,B,C);\n", 10000)},
				{"newick", "10^4 blank lines", strings.Repeat(" \n", 10000) + "(A,B,C);"},
				{"nexus", "10^4 trees", "#NEXUS\nBEGIN TREES;\n" + strings.Repeat("TREE t = (A,B,C);\n", 10000) + "END;\n"},
				{"nexus", "10^5-byte unterminated comment", "#NEXUS\n[" + strings.Repeat("x", 100000)},
				{"phyloxml", "nesting 2000", "<phyloxml><phylogeny>" + strings.Repeat("<clade>", 2000) + "<name>A</name>" + strings.Repeat("</clade>", 2000) + "</phylogeny></phyloxml>"},
				{"nextstrain", "nesting 2000", "{\"version\":\"v2\",\"tree\":" + strings.Repeat("{\"children\":[", 2000) + "{\"name\":\"A\"}" + strings.Repeat("]}", 2000) + "}"},
			}
			for _, b := range big {
				if c.TimeUp() {
					return
				}
				if !c.Mine() {
					continue
				}
				c.Count("large_inputs", 1)
				t0 := time.Now()
				for _, drv := range []string{"single", "multi"} {
					drv, b := drv, b
					c.Pin(func() string { return b.format + "/" + drv + " large: " + b.name })
					c.Check(c02case{Format: b.format, Driver: drv, Family: "large:" + b.name, B64: base64.StdEncoding.EncodeToString([]byte(b.doc))}, func() (string, string) {
						r := mcrt.Run(mcrt.Config{NoSched: true, Fuel: 2_000_000_000}, func() {
							f := c02formats[b.format]
							if drv == "single" {
								if t, err := utils.ReadTreeReader(bufReader(b.doc), f); err == nil && t != nil {
									op := ""
									c02post(t, &op)
								}
							} else {
								ch := utils.ReadMultiTrees(bufReader(b.doc), f)
								n := 0
								for {
									tr, ok := mcrt.Recv2(ch)
									if !ok {
										break
									}
									if tr.Tree != nil && n < 3 {
										n++
										op := ""
										c02post(tr.Tree, &op)
									}
								}
							}
						})
						if crashed(r) {
							return fmt.Sprintf("C02/%s/%s/%s@%s/large", b.format, drv, r.Verdict, crashSite(r)), fmt.Sprintf("%s %s reader on large input (%s): %s", b.format, drv, b.name, verdictStr(r))
						}
						return "", ""
					})
				}
				c.Note("large_ms:"+b.format+" "+b.name, fmt.Sprint(time.Since(t0).Milliseconds()))
			}
		},
		Replay: func(c *Ctx, raw json.RawMessage) {
			var cs c02case
			json.Unmarshal(raw, &cs)
			b, err := base64.StdEncoding.DecodeString(cs.B64)
			if err != nil {
				fmt.Println("bad replay file:", err)
				return
			}
			k, w, t, o := c02run(cs.Format, cs.Driver, string(b))
			fmt.Printf("input %s\nformat=%s driver=%s ticks=%d outcome=%s\n%s %s\n", c02quote(string(b)), cs.Format, cs.Driver, t, o, k, w)
			if k != "" {
				c.Violate(k, w, cs)
			}
		},
	})
}

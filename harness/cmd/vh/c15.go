package main

import (
	"encoding/json"
	"fmt"
	"os"
	"sort"
	"strings"

	"github.com/evolbioinfo/gotree/mcrt"
	"github.com/evolbioinfo/gotree/tree"

	"verif/harness/enum"
	rm "verif/harness/refmodel"
)

// C15: local edits leave the rest of the tree intact; copies are independent.
//
// Part A (this file): GraftTreeOnTip, Merge, InsertIdenticalTips/InsertIdenticalTip,
// RemoveSingleNodes, SubTree, Clone executed on exhaustively enumerated inputs; the
// oracle is the reference model: tip sets and path sums before/after.
// Part B (c15_indep.go): explicit-state search over edit sequences applied to one of
// {source, copy} while a complete public-API dump of the other one is compared.

type c15case struct {
	Op      string     `json:"op"` // graft | merge | insert | insert1 | rsn | subtree | clone | indep
	Tree    string     `json:"tree"`
	Tree2   string     `json:"tree2,omitempty"`   // graft / second tree of the merge
	Tip     string     `json:"tip,omitempty"`     // graft position / model tip of insert1
	Groups  [][]string `json:"groups,omitempty"`  // identical groups
	Node    int        `json:"node,omitempty"`    // pre-order index of the subtree root
	Reroot  int        `json:"reroot,omitempty"`  // 1 + pre-order index of the node the source is rerooted on first (0 = not)
	Build   bool       `json:"build,omitempty"`   // input made through the public constructors instead of the Newick parser
	Reindex bool       `json:"reindex,omitempty"` // ReinitIndexes beforehand (otherwise UpdateTipIndex where the operation needs the name index, else nothing)
	// independence search
	Kind     string  `json:"kind,omitempty"`      // clone | subtree
	EditCopy bool    `json:"edit_copy,omitempty"` // edits go to the copy, the source is observed (otherwise vice versa)
	Ops      []c15op `json:"ops,omitempty"`
}

// c15guard: controlled runtime with every random answer fixed to 0 (deterministic re-execution).
func c15guard(f func()) mcrt.Result {
	r := mcrt.Run(mcrt.Config{NoSched: true, Fuel: c15fuel, RandMode: mcrt.RandEnumerate}, f)
	if r.Verdict == mcrt.VDone && r.Ticks > c15maxTicks {
		c15maxTicks = r.Ticks
	}
	return r
}

// fuel = "infinite loop" verdict; the largest tick count of a terminating execution is recorded in the
// evidence (counter max:ticks_of_terminating_executions) and must stay below fuel/1000 (DESIGN 4.4).
var c15fuel int64 = 20_000_000

var c15maxTicks int64

// c15make builds the gotree tree of a model text, by the parser or by the public constructors.
func c15make(txt string, viaBuild bool) *tree.Tree {
	if viaBuild {
		return build(rm.MustParse(txt))
	}
	return gtMustParse(txt)
}

// c15input: the tree and its observation through the public API, which must be the model the text denotes.
func c15input(txt string, viaBuild bool) (*tree.Tree, *rm.Tree, error) {
	t := c15make(txt, viaBuild)
	mb, err := observe(t)
	if err != nil {
		return nil, nil, err
	}
	if d := sameModel(rm.MustParse(txt), mb, true); d != "" {
		return nil, nil, fmt.Errorf("input %s is not the tree its text denotes: %s", txt, d)
	}
	return t, mb, nil
}

// c15walk lists nodes in pre-order through Root/Neigh/Edges; edges[i] is the branch above nodes[i] (nil for the root).
func c15walk(t *tree.Tree) (nodes []*tree.Node, edges []*tree.Edge) {
	seen := map[*tree.Node]bool{}
	var rec func(n, p *tree.Node, e *tree.Edge)
	rec = func(n, p *tree.Node, e *tree.Edge) {
		if n == nil || seen[n] {
			return
		}
		seen[n] = true
		nodes = append(nodes, n)
		edges = append(edges, e)
		ng, br := n.Neigh(), n.Edges()
		for i, c := range ng {
			if c == p || i >= len(br) {
				continue
			}
			rec(c, n, br[i])
		}
	}
	rec(t.Root(), nil, nil)
	return
}

func c15preorder(m *rm.Tree) []*rm.Node {
	var out []*rm.Node
	m.Walk(func(n, _ *rm.Node) { out = append(out, n) })
	return out
}

func c15tipsBelow(n *rm.Node) []string {
	var out []string
	var rec func(x *rm.Node)
	rec = func(x *rm.Node) {
		if x.IsTip() {
			out = append(out, x.Name)
		}
		for _, c := range x.Children {
			rec(c)
		}
	}
	rec(n)
	sort.Strings(out)
	return out
}

// c15dm: distance matrix of a model tree, by tip name.
type c15dm struct {
	idx map[string]int
	d   [][]float64
}

func c15dists(m *rm.Tree) (*c15dm, string) {
	names := m.TipNames()
	for i := 1; i < len(names); i++ {
		if names[i] == names[i-1] {
			return nil, fmt.Sprintf("tip name %q occurs twice", names[i])
		}
	}
	d, ns := m.DistMatrix(rm.MetricLen)
	return &c15dm{idx: rm.TipIndex(ns), d: d}, ""
}

func (a *c15dm) get(x, y string) (float64, bool) {
	i, ok1 := a.idx[x]
	j, ok2 := a.idx[y]
	if !ok1 || !ok2 {
		return 0, false
	}
	return a.d[i][j], true
}

// c15sameDists compares the path lengths between all pairs of names.
func c15sameDists(before, after *c15dm, names []string) string {
	for i := 0; i < len(names); i++ {
		for j := i + 1; j < len(names); j++ {
			b, ok1 := before.get(names[i], names[j])
			a, ok2 := after.get(names[i], names[j])
			if !ok1 || !ok2 {
				return fmt.Sprintf("tip %s or %s missing", names[i], names[j])
			}
			if !rm.Close(a, b) {
				return fmt.Sprintf("path length %s-%s was %v, is %v", names[i], names[j], b, a)
			}
		}
	}
	return ""
}

func c15sameNames(got, want []string) string {
	g := append([]string(nil), got...)
	w := append([]string(nil), want...)
	sort.Strings(g)
	sort.Strings(w)
	if strings.Join(g, "\x00") != strings.Join(w, "\x00") {
		return fmt.Sprintf("tips are %q, expected %q", g, w)
	}
	return ""
}

// c15views: the result seen (1) by walking the public API, (2) by re-reading its Newick text with the model's reader.
func c15views(t *tree.Tree) (ms []*rm.Tree, names []string, problem string) {
	o, err := observe(t)
	if err != nil {
		return nil, nil, "walk: " + err.Error()
	}
	txt := t.Newick()
	p, err := rm.ParseNewick(txt)
	if err != nil {
		return nil, nil, fmt.Sprintf("text %q unreadable: %v", txt, err)
	}
	return []*rm.Tree{o, p}, []string{"API walk", "Newick text " + txt}, ""
}

type c15keep struct {
	clause string // key clause
	ref    *c15dm
	names  []string
}

// c15judge applies the common oracle to every view of the result: exact tip set, conserved path lengths.
func c15judge(op string, t *tree.Tree, wantTips []string, keeps []c15keep, extra func(m *rm.Tree, d *c15dm) (string, string)) (string, string) {
	ms, vn, prob := c15views(t)
	if prob != "" {
		return "C15/" + op + "/unobservable", prob
	}
	for i, m := range ms {
		if d := c15sameNames(c15tipNames(m), wantTips); d != "" {
			return "C15/" + op + "/tips", d + " (" + vn[i] + ")"
		}
		dm, dup := c15dists(m)
		if dup != "" {
			return "C15/" + op + "/tips", dup + " (" + vn[i] + ")"
		}
		for _, k := range keeps {
			if d := c15sameDists(k.ref, dm, k.names); d != "" {
				return "C15/" + op + "/distance/" + k.clause, d + " (" + vn[i] + ")"
			}
		}
		if extra != nil {
			if k, w := extra(m, dm); k != "" {
				return k, w + " (" + vn[i] + ")"
			}
		}
	}
	return "", ""
}

// c15lookups: the operation needs (and maintains) the name index: afterwards look-ups by name answer for the new tip set.
func c15lookups(op string, t *tree.Tree, want []string) (string, string) {
	for _, nm := range want {
		ex, err := t.ExistsTip(nm)
		if err != nil || !ex {
			return "C15/" + op + "/lookup/exists", fmt.Sprintf("ExistsTip(%q) = %v, %v although the tip is in the tree (%s)", nm, ex, err, t.Newick())
		}
		nd, err := t.TipNode(nm)
		if err != nil || nd == nil || nd.Name() != nm || !nd.Tip() {
			return "C15/" + op + "/lookup/tipnode", fmt.Sprintf("TipNode(%q) fails (%v) although the tip is in the tree (%s)", nm, err, t.Newick())
		}
	}
	if nb, err := t.NbTips(); err != nil || nb != len(want) {
		return "C15/" + op + "/lookup/nbtips", fmt.Sprintf("NbTips() = %d, %v for a tree with %d tips (%s)", nb, err, len(want), t.Newick())
	}
	return "", ""
}

func c15tipNames(m *rm.Tree) []string {
	var out []string
	for _, n := range m.Tips() {
		out = append(out, n.Name)
	}
	return out
}

func c15minus(a []string, x string) []string {
	var out []string
	for _, s := range a {
		if s != x {
			out = append(out, s)
		}
	}
	return out
}

func c15prepare(t *tree.Tree, reindex bool) error {
	if reindex {
		return t.ReinitIndexes()
	}
	return t.UpdateTipIndex()
}

// ---- the six operations --------------------------------------------------------------

func c15runGraft(cs c15case) (key, what string) {
	r := c15guard(func() {
		t, mb, e1 := c15input(cs.Tree, cs.Build)
		g, mg, e2 := c15input(cs.Tree2, cs.Build)
		if e1 != nil || e2 != nil {
			key, what = "C15/harness/input", fmt.Sprint(e1, e2)
			return
		}
		db, _ := c15dists(mb)
		dg, _ := c15dists(mg)
		if err := c15prepare(t, cs.Reindex); err != nil {
			key, what = "C15/harness/input", err.Error()
			return
		}
		if err := t.GraftTreeOnTip(cs.Tip, g); err != nil {
			key, what = "C15/graft/refused", fmt.Sprintf("GraftTreeOnTip(%q, %s) on %s: %v", cs.Tip, cs.Tree2, cs.Tree, err)
			return
		}
		others := c15minus(c15tipNames(mb), cs.Tip)
		want := append(append([]string(nil), others...), c15tipNames(mg)...)
		key, what = c15judge("graft", t, want, []c15keep{{"host", db, others}, {"graft", dg, c15tipNames(mg)}}, nil)
		if key == "" {
			key, what = c15lookups("graft", t, want)
		}
		if key != "" {
			what = fmt.Sprintf("graft %s in place of %s in %s: %s", cs.Tree2, cs.Tip, cs.Tree, what)
		}
	})
	if crashed(r) {
		return "C15/graft/crash/" + crashSite(r), fmt.Sprintf("graft %s in place of %s in %s: %s", cs.Tree2, cs.Tip, cs.Tree, verdictStr(r))
	}
	return
}

func c15runMerge(cs c15case) (key, what string) {
	r := c15guard(func() {
		t, m1, e1 := c15input(cs.Tree, cs.Build)
		t2, m2, e2 := c15input(cs.Tree2, cs.Build)
		if e1 != nil || e2 != nil {
			key, what = "C15/harness/input", fmt.Sprint(e1, e2)
			return
		}
		d1, _ := c15dists(m1)
		d2, _ := c15dists(m2)
		if err := c15prepare(t, cs.Reindex); err != nil {
			key, what = "C15/harness/input", err.Error()
			return
		}
		if err := c15prepare(t2, cs.Reindex); err != nil {
			key, what = "C15/harness/input", err.Error()
			return
		}
		if err := t.Merge(t2); err != nil {
			key, what = "C15/merge/refused", fmt.Sprintf("Merge(%s, %s): %v", cs.Tree, cs.Tree2, err)
			return
		}
		n1, n2 := c15tipNames(m1), c15tipNames(m2)
		want := append(append([]string(nil), n1...), n2...)
		key, what = c15judge("merge", t, want, []c15keep{{"first", d1, n1}, {"second", d2, n2}}, func(m *rm.Tree, _ *c15dm) (string, string) {
			// "under a new root": the root has exactly two children carrying the two old tip sets
			if len(m.Root.Children) != 2 {
				return "C15/merge/root", fmt.Sprintf("the new root has %d children", len(m.Root.Children))
			}
			a, b := c15tipsBelow(m.Root.Children[0]), c15tipsBelow(m.Root.Children[1])
			if !(c15sameNames(a, n1) == "" && c15sameNames(b, n2) == "") && !(c15sameNames(a, n2) == "" && c15sameNames(b, n1) == "") {
				return "C15/merge/root", fmt.Sprintf("the children of the new root carry %q and %q", a, b)
			}
			return "", ""
		})
		if key != "" {
			what = fmt.Sprintf("merge %s + %s: %s", cs.Tree, cs.Tree2, what)
		}
	})
	if crashed(r) {
		return "C15/merge/crash/" + crashSite(r), fmt.Sprintf("merge %s + %s: %s", cs.Tree, cs.Tree2, verdictStr(r))
	}
	return
}

// c15branchClass of the branch above the named tip: zero | nonzero | absent.
func c15branchClass(m *rm.Tree, tip string) string {
	cl := "none"
	m.Walk(func(n, p *rm.Node) {
		if p != nil && n.IsTip() && n.Name == tip {
			switch {
			case !n.HasLen:
				cl = "absent"
			case n.Len == 0:
				cl = "zero"
			case n.Len < 0:
				cl = "negative"
			default:
				cl = "nonzero"
			}
		}
	})
	return cl
}

func c15runInsert(cs c15case) (key, what string) {
	cl := "none"
	r := c15guard(func() {
		t, mb, e1 := c15input(cs.Tree, cs.Build)
		if e1 != nil {
			key, what = "C15/harness/input", e1.Error()
			return
		}
		db, _ := c15dists(mb)
		old := c15tipNames(mb)
		if err := c15prepare(t, cs.Reindex); err != nil {
			key, what = "C15/harness/input", err.Error()
			return
		}
		// expected: every group has exactly one member that exists when the group is processed
		exists := map[string]bool{}
		for _, n := range old {
			exists[n] = true
		}
		type pair struct{ model, twin string }
		var twins []pair
		want := append([]string(nil), old...)
		for _, g := range cs.Groups {
			model := ""
			for _, n := range g {
				if exists[n] {
					model = n
				}
			}
			if cl == "none" {
				cl = c15branchClass(mb, model)
			}
			for _, n := range g {
				if n != model {
					twins = append(twins, pair{model, n})
					want = append(want, n)
					exists[n] = true
				}
			}
		}
		// the call gets its own copy of the groups (the recorded case stays what it was)
		groups := make([][]string, len(cs.Groups))
		for i, g := range cs.Groups {
			groups[i] = append([]string(nil), g...)
		}
		groupsBefore := fmt.Sprint(cs.Groups)
		var err error
		if cs.Op == "insert1" {
			var n *tree.Node
			if n, err = t.TipNode(cs.Tip); err == nil {
				_, err = t.InsertIdenticalTip(n, groups[0][1])
			}
		} else {
			err = t.InsertIdenticalTips(groups)
		}
		if err != nil {
			key, what = "C15/insert/refused/"+cl+"-branch", fmt.Sprintf("%v", err)
			return
		}
		key, what = c15judge("insert", t, want, []c15keep{{"existing", db, old}}, func(m *rm.Tree, d *c15dm) (string, string) {
			for _, p := range twins {
				v, ok := d.get(p.model, p.twin)
				if !ok || v != 0 {
					return "C15/insert/identical-not-at-zero/" + cl + "-branch", fmt.Sprintf("path length %s-%s is %v", p.model, p.twin, v)
				}
			}
			return "", ""
		})
		if key == "" {
			key, what = c15lookups("insert", t, want)
		}
		if key == "" && cs.Op == "insert" {
			// the groups are the caller's: the same request on a second tree (next tree of the file) gives the same result
			note := ""
			if fmt.Sprint(groups) != groupsBefore {
				note = fmt.Sprintf(" (the groups passed to the first call are now %q)", groups)
			}
			t2, _, _ := c15input(cs.Tree, cs.Build)
			if err := c15prepare(t2, cs.Reindex); err != nil {
				key, what = "C15/harness/input", err.Error()
				return
			}
			if err := t2.InsertIdenticalTips(groups); err != nil {
				key, what = "C15/insert/second-tree-same-groups/refused", fmt.Sprintf("a second tree given the same groups: %v%s", err, note)
			} else if t2.Newick() != t.Newick() {
				key, what = "C15/insert/second-tree-same-groups", fmt.Sprintf("first tree %s, a second identical tree given the same groups %s%s", t.Newick(), t2.Newick(), note)
			}
		}
	})
	if crashed(r) {
		return "C15/insert/crash/" + crashSite(r), fmt.Sprintf("insert %q into %s: %s", cs.Groups, cs.Tree, verdictStr(r))
	}
	if key != "" && !strings.HasPrefix(key, "C15/harness") {
		what = fmt.Sprintf("insert identical groups %q into %s: %s", cs.Groups, cs.Tree, what)
	}
	return
}

// c15chains: for every distinct tip set below a node, the branches from the topmost node with that tip
// set down to the lowest one (a chain of single-child nodes collapses into one branch): summed length
// and presence pattern (top to bottom).
type c15chain struct {
	tips    string
	sum     float64
	pattern string
	singles int // non-root single-child nodes inside
}

func c15chains(m *rm.Tree) []c15chain {
	var out []c15chain
	pos := map[string]int{}
	var rec func(n, p *rm.Node)
	rec = func(n, p *rm.Node) {
		if p != nil {
			k := strings.Join(c15tipsBelow(n), ",")
			i, ok := pos[k]
			if !ok {
				i = len(out)
				pos[k] = i
				out = append(out, c15chain{tips: k})
			}
			if n.HasLen {
				out[i].sum += n.Len
				if n.Len != 0 {
					out[i].pattern += "p"
				} else {
					out[i].pattern += "z"
				}
			} else {
				out[i].pattern += "a"
			}
			if len(n.Children) == 1 {
				out[i].singles++
			}
		}
		for _, c := range n.Children {
			rec(c, n)
		}
	}
	rec(m.Root, nil)
	return out
}

func c15chainFeature(pat string) string {
	low := pat[len(pat)-1]
	up := "upper-absent"
	if strings.ContainsAny(pat[:len(pat)-1], "p") {
		up = "upper-present"
	}
	lo := "lower-present"
	if low == 'a' {
		lo = "lower-absent"
	}
	return up + "+" + lo
}

func c15runRSN(cs c15case) (key, what string) {
	r := c15guard(func() {
		t, mb, e1 := c15input(cs.Tree, cs.Build)
		if e1 != nil {
			key, what = "C15/harness/input", e1.Error()
			return
		}
		db, _ := c15dists(mb)
		old := c15tipNames(mb)
		if cs.Reindex {
			t.ReinitIndexes() // what a caller holding an indexed tree has done; an error here is not our business
		}
		before := c15chains(mb)
		t.RemoveSingleNodes()
		key, what = c15judge("remove-single", t, old, nil, func(m *rm.Tree, d *c15dm) (string, string) {
			if diff := c15sameDists(db, d, old); diff != "" {
				// attribute the change to the first merged chain whose summed length differs
				after := map[string]float64{}
				for _, ch := range c15chains(m) {
					after[ch.tips] = ch.sum
				}
				for _, ch := range before {
					if a, ok := after[ch.tips]; ok && !rm.Close(a, ch.sum) && len(ch.pattern) > 1 {
						return "C15/remove-single/path-length/" + c15chainFeature(ch.pattern), fmt.Sprintf("%s; the branches above {%s} had lengths %q (p present, z zero, a absent) summing to %v, the merged branch has %v", diff, ch.tips, ch.pattern, ch.sum, a)
					}
				}
				return "C15/remove-single/path-length/unattributed", diff
			}
			if k := m.SingleChildNodes(); k > 0 {
				return "C15/remove-single/not-removed", fmt.Sprintf("%d single-child inner nodes remain below the root", k)
			}
			return "", ""
		})
	})
	if crashed(r) {
		return "C15/remove-single/crash/" + crashSite(r), fmt.Sprintf("RemoveSingleNodes on %s: %s", cs.Tree, verdictStr(r))
	}
	if key != "" && !strings.HasPrefix(key, "C15/harness") {
		what = fmt.Sprintf("RemoveSingleNodes on %s: %s", cs.Tree, what)
	}
	return
}

func c15runSubTree(cs c15case) (key, what string) {
	r := c15guard(func() {
		t, _, e0 := c15input(cs.Tree, cs.Build)
		if e0 != nil {
			key, what = "C15/harness/input", e0.Error()
			return
		}
		ns0, _ := c15walk(t) // the subtree root is named by its pre-order index in the tree as read
		if cs.Node >= len(ns0) || cs.Reroot-1 >= len(ns0) {
			key, what = "C15/harness/input", "node index"
			return
		}
		target := ns0[cs.Node]
		if cs.Reroot > 0 {
			if err := t.Reroot(ns0[cs.Reroot-1]); err != nil {
				key, what = "C15/harness/input", err.Error()
				return
			}
		}
		if cs.Reindex {
			if err := t.ReinitIndexes(); err != nil {
				key, what = "C15/harness/input", err.Error()
				return
			}
		}
		mb, e1 := observe(t)
		if e1 != nil {
			key, what = "C15/harness/input", e1.Error()
			return
		}
		db, _ := c15dists(mb)
		ns, _ := c15walk(t)
		mn := c15preorder(mb)
		at := -1
		for i, n := range ns {
			if n == target {
				at = i
			}
		}
		if at < 0 || len(ns) != len(mn) || mn[at].IsTip() {
			key, what = "C15/harness/input", "subtree root not found or not an inner node"
			return
		}
		want := c15tipsBelow(mn[at])
		txt0 := t.Newick()
		s := t.SubTree(target)
		key, what = c15judge("subtree", s, want, []c15keep{{"inside", db, want}}, nil)
		if key == "" {
			if txt1 := t.Newick(); txt1 != txt0 {
				key, what = "C15/subtree/source-changed/by-extraction", fmt.Sprintf("source text became %s", txt1)
			}
		}
		if key != "" {
			what = fmt.Sprintf("SubTree at the node above {%s} of %s: %s", strings.Join(want, ","), txt0, what)
		}
	})
	if crashed(r) {
		return "C15/subtree/crash/" + crashSite(r), fmt.Sprintf("SubTree at node %d of %s (reroot %d): %s", cs.Node, cs.Tree, cs.Reroot, verdictStr(r))
	}
	return
}

// c15runClone: m is the decorated model (built through the public constructors, as in C01).
func c15runClone(m *rm.Tree, reindex bool) (key, what string) {
	r := c15guard(func() {
		t := build(m)
		if reindex {
			if err := t.ReinitIndexes(); err != nil {
				key, what = "C15/harness/input", err.Error()
				return
			}
		}
		txt0 := t.Newick()
		c := t.Clone()
		txtc := c.Newick()
		os, e1 := observe(t)
		oc, e2 := observe(c)
		if e1 != nil || e2 != nil {
			key, what = "C15/clone/unobservable", fmt.Sprint(e1, e2)
			return
		}
		if d := sameModel(os, oc, true); d != "" {
			key, what = "C15/clone/not-exact/"+strings.Fields(d)[1], fmt.Sprintf("clone of %s is %s: %s", txt0, txtc, d)
			return
		}
		if txtc != txt0 {
			key, what = "C15/clone/not-exact/text", fmt.Sprintf("clone of %s writes %s", txt0, txtc)
			return
		}
		if txt1 := t.Newick(); txt1 != txt0 {
			key, what = "C15/clone/source-changed/by-cloning", fmt.Sprintf("source %s became %s", txt0, txt1)
		}
	})
	if crashed(r) {
		return "C15/clone/crash/" + crashSite(r), fmt.Sprintf("Clone of %s: %s", m.Newick(), verdictStr(r))
	}
	return
}

func c15run(cs c15case) (string, string) {
	switch cs.Op {
	case "graft":
		return c15runGraft(cs)
	case "merge":
		return c15runMerge(cs)
	case "insert", "insert1":
		return c15runInsert(cs)
	case "rsn":
		return c15runRSN(cs)
	case "subtree":
		return c15runSubTree(cs)
	case "clone":
		m, err := rm.ParseNewick(cs.Tree)
		if err != nil {
			return "C15/harness/input", err.Error()
		}
		return c15runClone(m, cs.Reindex)
	case "indep":
		return c15indep(cs, false, false, nil)
	}
	return "C15/harness/input", "unknown op " + cs.Op
}

// ---- enumeration -----------------------------------------------------------------------

// c15lenForest: every decoration of the trees with default lengths i/8 on the i-th branch (pre-order, counted
// through all trees) and at most maxDev branches deviating to {absent, 0, 0.1, -0.25}.
func c15lenForest(trees []*rm.Tree, maxDev int, f func(ms []*rm.Tree)) {
	nb := 0
	for _, t := range trees {
		nb += t.NNodes() - 1
	}
	menu := make([]int, nb)
	for i := range menu {
		menu[i] = 5
	}
	enum.Deviations(menu, maxDev, func(assign []int) {
		ms := make([]*rm.Tree, len(trees))
		i := 0
		for ti, t := range trees {
			m := t.Clone()
			m.Walk(func(n, p *rm.Node) {
				if p == nil {
					return
				}
				n.HasLen, n.Len = true, float64(i+1)/8
				switch assign[i] {
				case 1:
					n.HasLen, n.Len = false, 0
				case 2:
					n.Len = 0
				case 3:
					n.Len = 0.1
				case 4:
					n.Len = -0.25 // distance-based trees (NJ, least squares) carry negative lengths
				}
				i++
			})
			ms[ti] = m
		}
		f(ms)
	})
}

func c15lenTrees(shape *rm.Tree, maxDev int, f func(m *rm.Tree)) {
	c15lenForest([]*rm.Tree{shape}, maxDev, func(ms []*rm.Tree) { f(ms[0]) })
}

var c15grafts = []string{
	"(x1:0.5,x2:0.25);",
	"(a1:1,a2:2,a3:0.125);",
	"((x1:0.5,x2:0.25)0.9:0.125,x3:1)gr[gc];",
	"(x1,x2);",
}

func c15relabel(m *rm.Tree, names []string) *rm.Tree {
	c := m.Clone()
	for _, tp := range c.Tips() {
		tp.Name = names[int(tp.Name[0]-'A')]
	}
	return c
}

type c15plan struct{ n, dev int }

// c15part: development aid - C15_ONLY=graft,merge,... restricts a run to some parts (unset = everything).
func c15part(name string) bool {
	only := os.Getenv("C15_ONLY")
	if only == "" {
		return true
	}
	for _, p := range strings.Split(only, ",") {
		if p == name {
			return true
		}
	}
	return false
}

// c15caterpillar: ladder with n tips prefix0..prefix(n-1), dyadic lengths, every 10th tip with a node and a branch comment.
func c15caterpillar(n int, prefix string, comments bool) *rm.Tree {
	cat := &rm.Node{Name: prefix + "0", HasLen: true, Len: 0.125}
	for i := 1; i < n; i++ {
		tip := &rm.Node{Name: fmt.Sprintf("%s%d", prefix, i), HasLen: true, Len: float64(i%7+1) / 8}
		if comments && i%10 == 0 {
			tip.NodeCom, tip.BrCom = []string{"n" + tip.Name}, []string{"b" + tip.Name}
		}
		cat = &rm.Node{Children: []*rm.Node{cat, tip}, HasLen: true, Len: float64(i%5+1) / 8}
	}
	cat.HasLen, cat.Len = false, 0
	return &rm.Tree{Root: cat}
}

// c15enumLarge: "whatever the size" - a few large structured instances as plain executions (not exhaustive).
func c15enumLarge(c *Ctx) {
	if c.Shard != 0 || !c15part("large") {
		return
	}
	small, smallFuel := c15maxTicks, c15fuel
	c15maxTicks, c15fuel = 0, 2_000_000_000 // the large instances get their own, 100 x larger, fuel and tick record
	defer func() {
		c.Max("ticks_of_large_instances", c15maxTicks)
		c15maxTicks, c15fuel = small, smallFuel
	}()
	run := func(cs c15case) {
		c.Count("large_instances", 1)
		c.States++
		c.Transitions++
		c.Check(cs, func() (string, string) { return c15filter(c, cs, c15run) })
	}
	for _, idx := range []bool{false, true} {
		run(c15case{Op: "clone", Tree: c15caterpillar(300, "t", true).Newick(), Build: true, Reindex: idx})
		run(c15case{Op: "graft", Tree: c15caterpillar(200, "t", false).Newick(), Tree2: c15caterpillar(200, "x", true).Newick(), Tip: "t100", Reindex: idx})
		run(c15case{Op: "merge", Tree: c15caterpillar(200, "a", false).Newick(), Tree2: c15caterpillar(200, "b", false).Newick(), Reindex: idx})
		run(c15case{Op: "insert", Tree: c15caterpillar(200, "t", false).Newick(), Groups: [][]string{{"t50", "n1", "n2"}, {"n3", "t0"}}, Reindex: idx})
		run(c15case{Op: "subtree", Tree: c15caterpillar(300, "t", true).Newick(), Node: 100, Reindex: idx})
		chain := &rm.Node{Name: "c0", HasLen: true, Len: 0.125}
		for i := 1; i <= 300; i++ {
			chain = &rm.Node{Name: fmt.Sprintf("s%d", i), Children: []*rm.Node{chain}, HasLen: i%3 != 0, Len: 0.25}
			if !chain.HasLen {
				chain.Len = 0
			}
		}
		t := &rm.Tree{Root: &rm.Node{Children: []*rm.Node{chain, {Name: "c1", HasLen: true, Len: 1}, {Name: "c2", HasLen: true, Len: 2}}}}
		run(c15case{Op: "rsn", Tree: t.Newick(), Reindex: idx})
	}
}

// c15variants: 0 parser + UpdateTipIndex, 1 constructors + UpdateTipIndex, 2 parser + ReinitIndexes, 3 constructors +
// ReinitIndexes; the quick tier runs the largest trees with the two extreme ones only.
func c15variants(quick bool, n int) []int {
	if quick && n >= 5 {
		return []int{0, 3}
	}
	return []int{0, 1, 2, 3}
}

func c15sel(name string, plans []c15plan) []c15plan {
	if !c15part(name) {
		return nil
	}
	return plans
}

func c15enumLocal(c *Ctx) {
	samples := map[string]bool{}
	doCase := func(cs c15case, counters ...string) {
		if !c.Mine() {
			return
		}
		c.States++
		c.Transitions++
		for _, k := range counters {
			c.Count(k, 1)
		}
		if !cs.Build && !cs.Reindex {
			rb, _ := json.Marshal(cs)
			c.Nontrivial(string(rb))
		}
		if !samples[cs.Op] && c.States > 100 && len(c.Samples) < 8 {
			samples[cs.Op] = true
			c.Samples = append(c.Samples, cs)
		}
		c.Check(cs, func() (string, string) { return c15filter(c, cs, c15run) })
	}
	q := c.Quick()
	pick := func(quick, thorough []c15plan) []c15plan {
		if q {
			return quick
		}
		return thorough
	}

	// --- GraftTreeOnTip: every tree x every tip x 4 grafts
	for _, pl := range c15sel("graft", pick([]c15plan{{2, 2}, {3, 2}, {4, 2}, {5, 1}}, []c15plan{{2, 2}, {3, 3}, {4, 2}, {5, 2}, {6, 1}})) {
		for _, sh := range enum.Shapes(pl.n, "t") {
			if c.TimeUp() {
				return
			}
			c15lenTrees(sh, pl.dev, func(m *rm.Tree) {
				txt := m.Newick()
				for _, tp := range m.Tips() {
					for _, g := range c15grafts {
						for _, v := range c15variants(q, pl.n) {
							cs := c15case{Op: "graft", Tree: txt, Tree2: g, Tip: tp.Name, Build: v&1 != 0, Reindex: v&2 != 0}
							doCase(cs, "graft_cases")
						}
					}
					// the placeholder tip replaced by the clade of that taxon and its relatives: the graft holds a tip of the same name
					for _, g := range []string{"(" + tp.Name + ":0.5,y2:0.25);", "((y1:1," + tp.Name + ":2)0.5:1,y3:1);"} {
						for _, v := range c15variants(q, pl.n) {
							doCase(c15case{Op: "graft", Tree: txt, Tree2: g, Tip: tp.Name, Build: v&1 != 0, Reindex: v&2 != 0}, "graft_cases", "graft_holds_tip_named_like_replaced_tip")
						}
					}
				}
			})
		}
	}

	// --- Merge: all pairs of labelled rooted trees with <= k + <= k disjoint tips
	maxTips := 4
	var rooted []*rm.Tree
	for n := 2; n <= maxTips && c15part("merge"); n++ {
		rooted = append(rooted, enum.RootedTrees(enum.Labels(n, ""), false)...)
	}
	labelSets := [][2][]string{
		{{"A", "B", "C", "D", "E"}, {"P", "Q", "R", "S", "T"}},
		{{"A", "C", "E", "G", "I"}, {"B", "D", "F", "H", "J"}},
		{{"P", "Q", "R", "S", "T"}, {"A", "B", "C", "D", "E"}},
	}
	mergeDev := 1
	if !q {
		mergeDev = 2
	}
	for _, r1 := range rooted {
		if c.TimeUp() {
			return
		}
		for _, r2 := range rooted {
			for li, ls := range labelSets {
				a, b := c15relabel(r1, ls[0]), c15relabel(r2, ls[1])
				// one deviation budget over the branches of both trees
				c15lenForest([]*rm.Tree{a, b}, mergeDev, func(ms []*rm.Tree) {
					x, y := ms[0], ms[1]
					t1, t2 := x.Newick(), y.Newick()
					for v := 0; v < 4; v++ {
						if li > 0 && v != 0 {
							continue
						}
						doCase(c15case{Op: "merge", Tree: t1, Tree2: t2, Build: v&1 != 0, Reindex: v&2 != 0}, "merge_cases")
					}
				})
			}
		}
	}

	// --- InsertIdenticalTips / InsertIdenticalTip
	for _, pl := range c15sel("insert", pick([]c15plan{{2, 2}, {3, 2}, {4, 2}, {5, 1}}, []c15plan{{2, 2}, {3, 3}, {4, 2}, {5, 2}, {6, 1}})) {
		for _, sh := range enum.Shapes(pl.n, "t") {
			if c.TimeUp() {
				return
			}
			c15lenTrees(sh, pl.dev, func(m *rm.Tree) {
				txt := m.Newick()
				tips := c15tipNames(m)
				for i, o := range tips {
					cl := c15branchClass(m, o)
					groupSets := [][][]string{
						{{o}},
						{{o, "m1"}}, {{"u1", o}},
						{{o, "m1", "u2"}}, {{"m1", o, "u2"}}, {{"u2", "m1", o}},
						{{o, "m1"}, {"m1", "u2"}}, // the second group's existing member was inserted by the first
					}
					if i+1 < len(tips) {
						o2 := tips[i+1]
						groupSets = append(groupSets, [][]string{{o, "m1"}, {"u2", o2}}, [][]string{{o2, "m1", "m2"}, {o, "u2"}},
							// a group with nothing to add (a legal line of a group file) before / after a group that adds tips
							[][]string{{o}, {o2, "m1"}}, [][]string{{"m1", o2}, {o}}, [][]string{{o}, {o2}, {"u1", o, "u2"}})
					}
					for _, gs := range groupSets {
						for _, v := range c15variants(q, pl.n) {
							doCase(c15case{Op: "insert", Tree: txt, Groups: gs, Build: v&1 != 0, Reindex: v&2 != 0}, "insert_cases", "insert_"+cl+"_branch", fmt.Sprintf("insert_groups_%d_new_%d", len(gs), c15newCount(gs)))
						}
					}
					for _, v := range c15variants(q, pl.n) {
						doCase(c15case{Op: "insert1", Tree: txt, Tip: o, Groups: [][]string{{o, "m1"}}, Build: v&1 != 0, Reindex: v&2 != 0}, "insert1_cases", "insert_"+cl+"_branch")
					}
				}
			})
		}
	}

	// --- RemoveSingleNodes: every placement of 1-2 single-child nodes, every presence pattern of the lengths involved
	for _, pl := range c15sel("rsn", pick([]c15plan{{2, 0}, {3, 0}, {4, 0}}, []c15plan{{2, 0}, {3, 0}, {4, 0}, {5, 0}})) {
		n := pl.n
		for _, sh := range enum.Shapes(n, "t") {
			if c.TimeUp() {
				return
			}
			c15singlePlacements(sh, func(m *rm.Tree, feats []string) {
				txt := m.Newick()
				for v := 0; v < 4; v++ {
					doCase(c15case{Op: "rsn", Tree: txt, Build: v&1 != 0, Reindex: v&2 != 0}, append([]string{"rsn_cases"}, feats...)...)
				}
			})
		}
	}

	// --- SubTree: every inner node, source as read and rerooted on every inner node
	for _, pl := range c15sel("subtree", pick([]c15plan{{2, 2}, {3, 2}, {4, 2}, {5, 1}}, []c15plan{{2, 2}, {3, 3}, {4, 2}, {5, 2}, {6, 1}})) {
		for _, sh := range enum.Shapes(pl.n, "t") {
			if c.TimeUp() {
				return
			}
			c15lenTrees(sh, pl.dev, func(m *rm.Tree) {
				c15addSupports(m)
				txt := m.Newick()
				pre := c15preorder(m)
				for rr := 0; rr <= len(pre); rr++ {
					if rr > 0 && (pre[rr-1].IsTip() || rr == 1) {
						continue // reroot on inner nodes other than the current root
					}
					for k := range pre {
						if pre[k].IsTip() {
							continue
						}
						for _, v := range c15variants(q, pl.n) {
							cs := c15case{Op: "subtree", Tree: txt, Node: k, Reroot: rr, Build: v&1 != 0, Reindex: v&2 != 0}
							name := "subtree_cases"
							if rr > 0 {
								name = "subtree_rerooted_cases"
							}
							doCase(cs, name)
						}
					}
				}
			})
		}
	}

	// --- Clone on the C01 decoration space
	for _, pl := range c15sel("clone", pick([]c15plan{{2, 2}, {3, 2}, {4, 1}, {5, 1}}, []c15plan{{2, 3}, {3, 2}, {4, 2}, {5, 2}, {6, 1}})) {
		for _, sh := range enum.Shapes(pl.n, "t") {
			if c.TimeUp() {
				return
			}
			probe := sh.Clone()
			slots := c01slots(probe)
			menu := make([]int, len(slots))
			for i, s := range slots {
				menu[i] = s.n
			}
			enum.Deviations(menu, pl.dev, func(assign []int) {
				if !c.Mine() {
					return
				}
				m := sh.Clone()
				sl := c01slots(m)
				for i, a := range assign {
					if a != 0 {
						sl[i].apply(a)
					}
				}
				seen := map[string]bool{}
				hasBrCom := false
				for _, nd := range c15preorder(m) {
					if nd.IsTip() {
						if seen[nd.Name] {
							return
						}
						seen[nd.Name] = true
					}
					if len(nd.BrCom) > 0 {
						hasBrCom = true
					}
				}
				txt := m.Newick()
				c.Nontrivial("clone|" + txt)
				c.Count("clone_cases", 1)
				if hasBrCom {
					c.Count("clone_cases_with_branch_comment", 1)
				}
				for v := 0; v < 2; v++ {
					c.States++
					c.Transitions++
					cs := c15case{Op: "clone", Tree: txt, Build: true, Reindex: v == 1}
					c.Check(cs, func() (string, string) {
						return c15filter(c, cs, func(c15case) (string, string) { return c15runClone(m, v == 1) })
					})
				}
			})
		}
	}
}

// c15filter turns problems of the harness itself (keys C15/harness/...) into engine errors: never a violation.
func c15filter(c *Ctx, cs c15case, run func(c15case) (string, string)) (string, string) {
	k, w := run(cs)
	if strings.HasPrefix(k, "C15/harness/") {
		rb, _ := json.Marshal(cs)
		c.EngineError(fmt.Sprintf("%s: %s on case %s", k, w, rb))
		return "", ""
	}
	return k, w
}

func c15newCount(gs [][]string) int {
	n := 0
	for _, g := range gs {
		n += len(g) - 1
	}
	return n
}

func c15addSupports(m *rm.Tree) {
	i := 0
	m.Walk(func(n, p *rm.Node) {
		if p != nil && !n.IsTip() {
			n.HasSup, n.Sup = true, []float64{0.5, 1, 0.75}[i%3]
			i++
		}
	})
}

// c15singlePlacements: the shape with 1 or 2 single-child nodes inserted on every branch (both on the same
// branch included) or above the root, default lengths k/8 and every pattern {present, zero, absent} on the
// pieces of a subdivided branch.
func c15singlePlacements(shape *rm.Tree, f func(m *rm.Tree, feats []string)) {
	npos := shape.NNodes() // position 0 = above the root, i = above pre-order node i
	var sets [][]int
	for i := 0; i < npos; i++ {
		sets = append(sets, []int{i})
		for j := i; j < npos; j++ {
			sets = append(sets, []int{i, j})
		}
	}
	for _, set := range sets {
		// number of branch pieces whose presence is varied: for a position i > 0 hit k times: k+1 pieces; above the root: k pieces
		hits := map[int]int{}
		for _, p := range set {
			hits[p]++
		}
		var order []int
		for p := 0; p < npos; p++ {
			if hits[p] > 0 {
				order = append(order, p)
			}
		}
		pieces := 0
		for _, p := range order {
			if p == 0 {
				pieces += hits[p]
			} else {
				pieces += hits[p] + 1
			}
		}
		enum.Sequences(3, pieces, func(seq []int) {
			m := shape.Clone()
			pre := c15preorder(m)
			par := map[*rm.Node]*rm.Node{}
			m.Walk(func(n, p *rm.Node) { par[n] = p })
			for i, n := range pre {
				if i > 0 {
					n.HasLen, n.Len = true, float64(i)/8
				}
			}
			si := 0
			k := 0
			setLen := func(n *rm.Node, base float64) {
				switch seq[k] {
				case 0:
					n.HasLen, n.Len = true, base
				case 1:
					n.HasLen, n.Len = true, 0
				case 2:
					n.HasLen, n.Len = false, 0
				}
				k++
			}
			feats := []string{fmt.Sprintf("rsn_singles_%d", len(set))}
			for _, p := range order {
				v := pre[p]
				if p == 0 {
					// new root(s) above the old root
					for h := 0; h < hits[p]; h++ {
						setLen(m.Root, 0.5)
						m.Root = &rm.Node{Children: []*rm.Node{m.Root}}
					}
					feats = append(feats, "rsn_single_child_root")
					continue
				}
				pv := par[v]
				top := v
				setLen(v, float64(p)/8)
				pat := c15pat(v)
				for h := 0; h < hits[p]; h++ {
					si++
					s := &rm.Node{Name: fmt.Sprintf("s%d", si), Children: []*rm.Node{top}}
					setLen(s, float64(p+h+1)/4)
					pat = c15pat(s) + pat
					top = s
				}
				for ci, ch := range pv.Children {
					if ch == v {
						pv.Children[ci] = top
					}
				}
				feats = append(feats, "rsn_chain_"+c15chainFeature(pat))
			}
			f(m, feats)
		})
	}
}

func c15pat(n *rm.Node) string {
	if !n.HasLen {
		return "a"
	}
	if n.Len == 0 {
		return "z"
	}
	return "p"
}

func init() {
	defer func() {
		if os.Getenv("C15_ONLY") != "" { // development aid: a partial run cannot satisfy the vacuity guards of the other parts
			props["C15"].Require = nil
		}
	}()
	register(&Prop{
		ID: "C15",
		Rule: "Part A, every case executed on the real code and judged on the reference model (tip set; path sums, absent length = 0; both the public-API walk and the re-read Newick text of the result): " +
			"GraftTreeOnTip = plane shapes with 2..5 (quick) / 2..6 (thorough) tips x length decorations (default k/8, <= 2 branches deviating to absent/0/0.1) x every tip x 4 grafts (rooted, unrooted, nested+named+commented, without lengths); " +
			"Merge = all ordered pairs of labelled rooted trees with 2..4 + 2..4 disjoint tips x 3 label interleavings x length deviations; " +
			"InsertIdenticalTips = the same trees x every tip x 9 group layouts (0-2 new names, existing member first/middle/last, two groups, a group whose existing member was just inserted) + InsertIdenticalTip directly; zero / non-zero / absent tip branch; " +
			"RemoveSingleNodes = shapes with 2..4 (5) tips x every placement of 1-2 single-child nodes (same branch and above the root included) x {present, zero, absent}^pieces; " +
			"SubTree = every inner node of every tree, as read and after rerooting on every inner node; Clone = C01 decoration space (names, supports, p-values, float menu, node/branch/root comments) with <= 1-2 deviations; " +
			"every case with the tree made by the parser and by the public constructors, with UpdateTipIndex and with ReinitIndexes beforehand. " +
			"plus 12 large structured instances (ladders with 200-300 tips, a chain of 300 single-child nodes) as plain executions (not exhaustive). " +
			"Part B, independence: 6 decorated sources x indexes built or not x copy = Clone() or SubTree(every inner node) x direction (edit the copy / edit the source); identity check (no node, branch, bitset or comment list reachable from both trees), then every " +
			"sequence of edits from an alphabet of 59 public operations instantiated on every node / branch / tip of the current state: quick = every single edit and every pair (any edit, core edit); thorough = every pair and every triple of core edits " +
			"(core = 26 of them, applied to the root, the first tip and the first inner node). After every step the public-API dump (object identities, names, comments, ids, depths, neighbour and branch lists, lengths, supports, p-values, bitsets, tip counts, hashes, text; " +
			"after the last step also all traversals and name look-ups) of the untouched twin must equal its dump before; every prefix of a sequence is itself a sequence. An edit that fails or crashes is not continued but the twin is still compared. " +
			"non-trivial = distinct (operation, input) for part A; for part B edit sequences that succeeded and whose first edit changed the dump of the edited tree",
		Assumptions: []string{
			"reference model (refmodel): path sums and tip sets by definition; its Newick reader implements the writer's grammar",
			"the public accessors used for the dump do not themselves modify the tree",
			"random answers inside edits (rotations, Resolve) are fixed to 0: which rotation is applied is irrelevant for the oracle",
		},
		Require: []string{"graft_cases", "merge_cases", "insert_cases", "insert1_cases", "insert_zero_branch", "insert_nonzero_branch", "insert_absent_branch",
			"rsn_cases", "rsn_chain_upper-present+lower-absent", "rsn_chain_upper-present+lower-present", "rsn_chain_upper-absent+lower-present", "rsn_chain_upper-absent+lower-absent",
			"subtree_cases", "subtree_rerooted_cases", "clone_cases", "clone_cases_with_branch_comment",
			"indep_clone_edit_copy", "indep_clone_edit_source", "indep_subtree_edit_copy", "indep_subtree_edit_source", "indep_effective_sequences"},
		Run: func(c *Ctx) {
			c15enumLocal(c)
			c15enumLarge(c)
			if c15part("indep") {
				c15enumIndep(c)
			}
			c.Max("ticks_of_terminating_executions", c15maxTicks)
			if c15maxTicks*1000 > c15fuel {
				c.EngineError(fmt.Sprintf("fuel %d is less than 1000 x the longest terminating execution (%d ticks)", c15fuel, c15maxTicks))
			}
		},
		Replay: func(c *Ctx, raw json.RawMessage) {
			var cs c15case
			if err := json.Unmarshal(raw, &cs); err != nil {
				fmt.Println("cannot read case:", err)
				return
			}
			k, w := c15run(cs)
			fmt.Printf("case: %s\nresult: %s %s\n", raw, k, w)
			if k != "" {
				c.Violate(k, w, cs)
			}
		},
	})
}

package main

import (
	"encoding/json"
	"fmt"
	"os"
	"regexp"
	"strings"

	"github.com/evolbioinfo/gotree/mcrt"
)

// C18: results are a deterministic function of input, options and seed.
// Environment-answer enumeration: every `range` over a map in gotree is a choice
// point (default: sorted key order; alternatives: other permutations), so is
// time.Now; each command line of the driver table is re-executed under every
// choice sequence within a deviation bound and must write byte-identical output.

type c18case struct {
	Name    string   `json:"entry"`
	Args    []string `json:"args"`
	Bound   int      `json:"bound"`
	Choices []int    `json:"choices,omitempty"`
}

var c18siteRe = regexp.MustCompile(`@([A-Za-z0-9_/.\-]+\.go):\d+`)

func c18site(label string) string {
	if m := c18siteRe.FindStringSubmatch(label); m != nil {
		return m[1]
	}
	return "?"
}

func c18hasFlag(args []string, name string) bool {
	for _, a := range args {
		if a == name || strings.HasPrefix(a, name+"=") {
			return true
		}
	}
	return false
}

func c18args(e cliEntry, seed int) []string {
	a := append([]string{}, e.Args...)
	if !c18hasFlag(a, "--seed") {
		a = append(a, "--seed", fmt.Sprint(seed))
	} else if seed != 1 {
		for i := range a {
			if a[i] == "--seed" && i+1 < len(a) {
				a[i+1] = fmt.Sprint(seed + 10)
			}
		}
	}
	return a
}

type c18stats struct {
	execs, points int64
	mapSites      map[string]int
	unordered     map[string]int
	mapPoints     int
	clockPoints   int
	complete      bool
	ref           string
}

// c18explore runs one command line under every choice sequence within the bound.
func c18explore(c *Ctx, e cliEntry, args []string, bound int, maxExecs int64) (st c18stats, key, what string, choices []int) {
	var res cliRun
	body := cliBody(args, e.Stdin, e.Files, e.Out, &res)
	st.mapSites = map[string]int{}
	st.unordered = map[string]int{}
	first := true
	opts := mcrt.ExploreOpts{
		Base:     mcrt.Config{NoSched: true, MapMode: mcrt.MapSorted, ClockAlt: true, RandMode: mcrt.RandSeeded, Fuel: 100_000_000},
		Bound:    bound,
		MaxExecs: maxExecs,
		Deadline: c.Deadline,
	}
	cmdPath := "gotree"
	if cc, _ := c19resolve(e.Args); cc != nil {
		cmdPath = cc.CommandPath()
	}
	s := mcrt.Explore(opts, body, func(r *mcrt.Result, ch []int) bool {
		out := verdictStr(*r) + " " + res.String()
		if r.Verdict == mcrt.VDiverged {
			key, what = "C18/engine/diverged", fmt.Sprintf("%s: replay diverged: %s", e.Name, r.Detail)
			return false
		}
		if first {
			first = false
			st.ref = out
			for k, v := range r.MapSites {
				if strings.HasPrefix(k, "unordered:") {
					st.unordered[strings.TrimPrefix(k, "unordered:")] = v
				} else if v >= 2 {
					st.mapSites[k] = v
				}
			}
			for _, p := range r.Points {
				switch p.Kind {
				case mcrt.KMap:
					st.mapPoints++
				case mcrt.KClock:
					st.clockPoints++
				}
			}
			return true
		}
		if out != st.ref {
			// name the deviating choice points
			var devs []string
			site, kind := "?", "?"
			for _, p := range r.Points {
				if p.Choice != 0 {
					devs = append(devs, fmt.Sprintf("%s -> alternative %d of %d", p.Label, p.Choice, p.N))
					site, kind = c18site(p.Label), p.Kind.String()
				}
			}
			key = fmt.Sprintf("C18/%s/%s-dependent@%s", cmdPath, kind, site)
			what = fmt.Sprintf("`gotree %s` writes different output when %s:\n   default: %.400s\n   now:     %.400s", strings.Join(args, " "), strings.Join(devs, "; "), st.ref, out)
			choices = append([]int{}, ch...)
			return false
		}
		return true
	})
	st.execs, st.points, st.complete = s.Execs, s.Points, s.Exhaustive || key != ""
	return
}

// c18native: the same command line with Go's native (randomised) map order and the real clock replaced by T0, three times.
func c18native(e cliEntry, args []string, ref string) (string, string) {
	for i := 0; i < 3; i++ {
		res, r := cliExec(mcrt.Config{MapMode: mcrt.MapNative, RandMode: mcrt.RandSeeded}, args, e.Stdin, e.Files, e.Out)
		out := verdictStr(r) + " " + res.String()
		if out != ref {
			cc, _ := c19resolve(e.Args)
			return fmt.Sprintf("C18/%s/native-map-order", cc.CommandPath()), fmt.Sprintf("`gotree %s`: run with native map order differs from the sorted-order run:\n   sorted: %.400s\n   native: %.400s", strings.Join(args, " "), ref, out)
		}
	}
	return "", ""
}

var c18binary string

// c18freshProcesses: the plain (uninstrumented) binary, two fresh processes, same output.
func c18freshProcesses(e cliEntry, args []string) (string, string, string) {
	run := func(tag string) (string, error) { return cliFreshRun(c18binary, e, args) }
	o1, err := run("a")
	if err != nil {
		return "C18/engine/tmpdir", err.Error(), ""
	}
	for i := 0; i < 4; i++ {
		o2, _ := run("b")
		if o1 != o2 {
			cc, _ := c19resolve(e.Args)
			return fmt.Sprintf("C18/%s/fresh-processes", cc.CommandPath()), fmt.Sprintf("`gotree %s`: two fresh processes of the plain binary disagree:\n   1: %.400s\n   2: %.400s", strings.Join(args, " "), o1, o2), o1
		}
	}
	return "", "", o1
}

func c18skip(e cliEntry) bool {
	// svg/text drawing and version are deterministic text too; nothing is skipped except the multi-thread line whose record order is C11's business
	// no seed given: the clock is the seed, outside "once a seed is given"
	return e.Name == "compare-trees-threads" || strings.HasSuffix(e.Name, "-noseed")
}

func init() {
	register(&Prop{
		ID: "C18",
		Rule: "per command line of the driver table (every command of the CLI that needs no network, tiny inputs, --seed given): the real command is re-executed in-process under EVERY sequence of environment answers within a deviation bound " +
			"(each `range` over a map in gotree: default sorted key order, alternatives all k! permutations for k<=4, else reverse/rotations/transpositions; time.Now: T0 or T0+1h+1ns; cost 1 per non-default answer; bound 1 quick / 2 thorough); " +
			"oracle: stdout, output files, error and exit status byte-identical to the default execution; plus 3 runs with Go's native map order; plus the plain (uninstrumented) binary in 5 fresh processes agrees with itself and with the in-process run; non-trivial = command line on whose path a map with >= 2 keys is iterated",
		Assumptions: []string{"only gotree's own sources are instrumented: map iterations inside third-party packages (goalign, cobra, encoding/*) keep their native order and are covered by the native-order and fresh-process runs only",
			"maps keyed by pointers have no canonical order: they are visited in native order (listed in the evidence as unordered sites)"},
		Require: []string{"map_choice_points", "clock_choice_points", "entries"},
		Run: func(c *Ctx) {
			defer cliCleanup()
			bound := 1
			seeds := []int{1}
			maxExecs := int64(4000)
			if !c.Quick() {
				bound = 2
				seeds = []int{1, 2}
				maxExecs = 60000
			}
			if c18binary == "" {
				c18binary = os.Getenv("VERIF_GOTREE_BIN")
			}
			for _, e := range cliTable() {
				if c18skip(e) {
					continue
				}
				for _, seed := range seeds {
					if c.TimeUp() {
						return
					}
					if !c.Mine() {
						continue
					}
					e := e
					args := c18args(e, seed)
					var st c18stats
					cs := c18case{Name: e.Name, Args: args, Bound: bound}
					c.Check(&cs, func() (string, string) {
						var k, w string
						var ch []int
						st, k, w, ch = c18explore(c, e, args, bound, maxExecs)
						cs.Choices = ch
						if k != "" {
							return k, w
						}
						if k, w = c18native(e, args, st.ref); k != "" {
							return k, w
						}
						if c18binary != "" {
							var fresh string
							k, w, fresh = c18freshProcesses(e, args)
							if k == "" {
								// same process vs. new process: the plain binary writes what the in-process run wrote
								inproc := strings.SplitN(st.ref, " err=", 2)[0]
								if i := strings.Index(inproc, "stdout="); i >= 0 {
									inproc = inproc[i:]
								}
								fr := strings.SplitN(fresh, " exit=", 2)[0]
								c.Count("fresh_process_runs", 5)
								// a command that returns an error: main() prints the error on standard output before exiting,
								// the in-process driver calls the command without main(): only the status is compared then
								failed := !strings.Contains(st.ref, ` err=""`)
								if failed != !strings.HasSuffix(strings.SplitN(fresh, " exit=", 2)[1][:5], "<nil>") {
									cc, _ := c19resolve(e.Args)
									return fmt.Sprintf("C18/%s/in-process-vs-fresh-process", cc.CommandPath()), fmt.Sprintf("`gotree %s`: in-process run fails=%v, fresh process: %.300s", strings.Join(args, " "), failed, fresh)
								}
								if !failed && inproc != fr {
									cc, _ := c19resolve(e.Args)
									return fmt.Sprintf("C18/%s/in-process-vs-fresh-process", cc.CommandPath()), fmt.Sprintf("`gotree %s`: standard output of a fresh process differs from the in-process run:\n   in-process: %.300s\n   fresh:      %.300s", strings.Join(args, " "), inproc, fr)
								}
							}
						}
						return k, w
					})
					c.States++
					c.Count("entries", 1)
					c.Transitions += st.points
					c.Execs += st.execs
					c.Count("environment_answer_sequences", st.execs)
					c.Count("map_choice_points", int64(st.mapPoints))
					c.Count("clock_choice_points", int64(st.clockPoints))
					c.Max("executions_per_entry", st.execs)
					if !st.complete {
						c.Exhaustive = false
						c.Count("capped_entries", 1)
					}
					if len(st.mapSites) > 0 {
						c.Nontrivial(e.Name)
					}
					for s := range st.unordered {
						c.Note("unordered_map_site:"+s, "pointer-keyed map iterated in native order")
					}
					c.Outcome(st.ref)
					c.Sample(map[string]any{"args": args, "executions": st.execs, "map_iteration_sites_with_2+_keys": len(st.mapSites), "map_choice_points": st.mapPoints})
				}
			}
		},
		Replay: func(c *Ctx, raw json.RawMessage) {
			defer cliCleanup()
			var cs c18case
			json.Unmarshal(raw, &cs)
			for _, e := range cliTable() {
				if e.Name != cs.Name {
					continue
				}
				_, k, w, _ := c18explore(c, e, cs.Args, cs.Bound, 100000)
				fmt.Println(k, w)
				if k != "" {
					c.Violate(k, w, cs)
				}
			}
		},
	})
}

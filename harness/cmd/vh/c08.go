package main

import (
	"encoding/json"
	"fmt"
	"math"
	"runtime/debug"
	"sort"
	"strings"

	"github.com/evolbioinfo/gotree/mcrt"
	"github.com/evolbioinfo/gotree/tree"

	"verif/harness/enum"
	rm "verif/harness/refmodel"
)

// C08: tree comparison counts are exact set differences of splits.
//
// Real code: tree.Compare, tree.CompareWeighted (1 worker, default schedule, under the controlled
// runtime), Tree.CommonEdges; RF / weighted RF / KF recomputed from the reported terms with the
// formulas of cmd/comparetrees.go.
// Reference: naive split sets (sets of tip names below a branch, canonical side = the one without the
// smallest name) of the model trees and plain set algebra on them.

// ---------------------------------------------------------------------------
// reference side

type c08br struct {
	len float64
	tip bool
}

type c08model struct {
	taxa   []string // sorted
	splits map[string]c08br
	keys   []string // sorted keys of splits
	bad    string   // non-empty: outside the quantifier (rooted, single-child node, duplicate names)
}

func c08modelOf(t *rm.Tree) *c08model {
	m := &c08model{splits: map[string]c08br{}}
	m.taxa = append([]string(nil), t.TipNames()...)
	sort.Strings(m.taxa)
	for i := 1; i < len(m.taxa); i++ {
		if m.taxa[i] == m.taxa[i-1] {
			m.bad = "duplicate tip name"
			return m
		}
	}
	if len(t.Root.Children) < 3 {
		m.bad = "root of degree < 3"
		return m
	}
	n := len(m.taxa)
	var rec func(nd *rm.Node, root bool) []string
	rec = func(nd *rm.Node, root bool) []string {
		var below []string
		if nd.IsTip() {
			below = []string{nd.Name}
		}
		if len(nd.Children) == 1 {
			m.bad = "single-child node"
		}
		for _, ch := range nd.Children {
			below = append(below, rec(ch, false)...)
		}
		if !root {
			side := append([]string(nil), below...)
			sort.Strings(side)
			has := false
			for _, s := range side {
				if s == m.taxa[0] {
					has = true
				}
			}
			if has { // complement
				in := map[string]bool{}
				for _, s := range side {
					in[s] = true
				}
				side = side[:0:0]
				for _, s := range m.taxa {
					if !in[s] {
						side = append(side, s)
					}
				}
			}
			k := strings.Join(side, ",")
			if _, dup := m.splits[k]; dup {
				m.bad = "two branches define the same split"
			}
			l := 0.0
			if nd.HasLen {
				l = nd.Len
			}
			m.splits[k] = c08br{len: l, tip: len(side) == 1 || len(side) == n-1}
		}
		return below
	}
	rec(t.Root, true)
	for k := range m.splits {
		m.keys = append(m.keys, k)
	}
	sort.Strings(m.keys)
	return m
}

var c08cache = map[string]*c08model{}

func c08modelText(s string) (*c08model, error) {
	if m, ok := c08cache[s]; ok {
		return m, nil
	}
	t, err := rm.ParseNewick(s)
	if err != nil {
		return nil, err
	}
	if len(c08cache) > 200000 {
		c08cache = map[string]*c08model{}
	}
	m := c08modelOf(t)
	c08cache[s] = m
	return m, nil
}

// c08exp is what the definitions say about (reference, compared).
type c08exp struct {
	sameTaxa   bool
	taxaRel    string // renamed | compared-subset | compared-superset | other (when !sameTaxa)
	r1, cm, r2 int    // reference-only, common, compared-only (with the tips flag applied)
	w1, w2, wc []float64
	wrf, kf    float64
	same       bool   // both "only" sets empty
	sameLen    bool   // all shared splits have equal lengths
	rel        string // equal | compared-is-contraction | compared-is-refinement | incomparable
}

func c08expect(a, b *c08model, tips bool) c08exp {
	var e c08exp
	e.sameTaxa = strings.Join(a.taxa, "\x00") == strings.Join(b.taxa, "\x00")
	if !e.sameTaxa {
		inA := map[string]bool{}
		for _, s := range a.taxa {
			inA[s] = true
		}
		nb := 0
		for _, s := range b.taxa {
			if inA[s] {
				nb++
			}
		}
		switch {
		case len(a.taxa) == len(b.taxa):
			e.taxaRel = "renamed"
		case nb == len(b.taxa):
			e.taxaRel = "compared-subset"
		case nb == len(a.taxa):
			e.taxaRel = "compared-superset"
		default:
			e.taxaRel = "other"
		}
		return e
	}
	e.sameLen = true
	kf2 := 0.0
	i1, i2 := 0, 0 // internal only counts, for the relation
	for _, k := range a.keys {
		ba := a.splits[k]
		bb, shared := b.splits[k]
		if !tips && ba.tip {
			continue
		}
		if shared {
			e.cm++
			d := math.Abs(ba.len - bb.len)
			e.wc = append(e.wc, d)
			e.wrf += d
			kf2 += d * d
			if d != 0 {
				e.sameLen = false
			}
		} else {
			e.r1++
			e.w1 = append(e.w1, ba.len)
			e.wrf += math.Abs(ba.len)
			kf2 += ba.len * ba.len
			if !ba.tip {
				i1++
			}
		}
	}
	for _, k := range b.keys {
		bb := b.splits[k]
		if !tips && bb.tip {
			continue
		}
		if _, shared := a.splits[k]; !shared {
			e.r2++
			e.w2 = append(e.w2, bb.len)
			e.wrf += math.Abs(bb.len)
			kf2 += bb.len * bb.len
			if !bb.tip {
				i2++
			}
		}
	}
	e.kf = math.Sqrt(kf2)
	sort.Float64s(e.w1)
	sort.Float64s(e.w2)
	sort.Float64s(e.wc)
	e.same = e.r1 == 0 && e.r2 == 0
	switch {
	case i1 == 0 && i2 == 0:
		e.rel = "equal"
	case i2 == 0:
		e.rel = "compared-is-contraction"
	case i1 == 0:
		e.rel = "compared-is-refinement"
	default:
		e.rel = "incomparable"
	}
	return e
}

// ---------------------------------------------------------------------------
// presentations of one unrooted tree, computed on the model (no gotree code involved)

type c08un struct {
	name string
	nb   []*c08un
	br   []*rm.Node // carrier of the branch attributes towards nb[i]
}

// c08reroot returns the tree re-rooted at its k-th inner node (pre-order); k = 0 is the tree itself.
func c08reroot(t *rm.Tree, k int) *rm.Tree {
	un := map[*rm.Node]*c08un{}
	var inner []*c08un
	t.Walk(func(n, p *rm.Node) {
		u := &c08un{name: n.Name}
		un[n] = u
		if !n.IsTip() {
			inner = append(inner, u)
		}
	})
	t.Walk(func(n, p *rm.Node) {
		for _, ch := range n.Children {
			un[n].nb = append(un[n].nb, un[ch])
			un[n].br = append(un[n].br, ch)
		}
		if p != nil {
			un[n].nb = append(un[n].nb, un[p])
			un[n].br = append(un[n].br, n)
		}
	})
	if k >= len(inner) {
		return nil
	}
	var rec func(v, from *c08un, carrier *rm.Node) *rm.Node
	rec = func(v, from *c08un, carrier *rm.Node) *rm.Node {
		nd := &rm.Node{Name: v.name}
		if carrier != nil {
			nd.HasLen, nd.Len = carrier.HasLen, carrier.Len
		}
		start := 0
		for i, w := range v.nb {
			if w == from {
				start = i + 1
			}
		}
		for j := 0; j < len(v.nb); j++ {
			i := (start + j) % len(v.nb)
			if v.nb[i] == from {
				continue
			}
			nd.Children = append(nd.Children, rec(v.nb[i], v, v.br[i]))
		}
		return nd
	}
	return &rm.Tree{Root: rec(inner[k], nil, nil)}
}

func c08reverse(t *rm.Tree) *rm.Tree {
	c := t.Clone()
	c.Walk(func(n, _ *rm.Node) {
		for i, j := 0, len(n.Children)-1; i < j; i, j = i+1, j-1 {
			n.Children[i], n.Children[j] = n.Children[j], n.Children[i]
		}
	})
	return c
}

// c08presentations: the tree itself first, then every other rooting and the mirror image of each.
func c08presentations(t *rm.Tree) (texts []string, kinds []string) {
	seen := map[string]bool{}
	add := func(x *rm.Tree, kind string) {
		s := x.Newick()
		if !seen[s] {
			seen[s] = true
			texts = append(texts, s)
			kinds = append(kinds, kind)
		}
	}
	add(t, "base")
	for k := 0; ; k++ {
		r := c08reroot(t, k)
		if r == nil {
			break
		}
		if k > 0 {
			add(r, "reroot")
		}
		add(c08reverse(r), "reorder")
	}
	return
}

// lengths: scheme "a" is a function of the split (equal topologies get equal lengths),
// scheme "b" a function of the position (shared splits mostly get different lengths). All dyadic.
func c08lengths(t *rm.Tree, scheme string) *rm.Tree {
	c := t.Clone()
	names := append([]string(nil), c.TipNames()...)
	sort.Strings(names)
	idx := map[string]int{}
	for i, s := range names {
		idx[s] = i
	}
	full := 1<<uint(len(names)) - 1
	i := 0
	var rec func(n *rm.Node, root bool) int
	rec = func(n *rm.Node, root bool) int {
		pos := i
		i++
		mask := 0
		if n.IsTip() {
			mask = 1 << uint(idx[n.Name])
		}
		for _, ch := range n.Children {
			mask |= rec(ch, false)
		}
		if !root {
			cm := mask
			if cm&1 != 0 {
				cm = full &^ cm
			}
			n.HasLen = true
			if scheme == "a" {
				n.Len = float64(1+(cm*5)%13) / 8
			} else {
				n.Len = float64(1+pos%5) / 4
			}
		}
		return mask
	}
	rec(c.Root, true)
	return c
}

// ---------------------------------------------------------------------------
// implementation side

type c08rec struct {
	n          int // number of records received with this id
	err        string
	t1, cm, t2 int
	w1, w2, wc []float64 // sorted; wc = |difference|
	same       bool
}

func (r c08rec) String(op string, ident bool) string {
	if r.err != "" {
		return "error"
	}
	if ident {
		return fmt.Sprintf("same=%v", r.same)
	}
	switch op {
	case "weighted":
		return fmt.Sprintf("ref-only=%v common=%v compared-only=%v same=%v", r.w1, r.wc, r.w2, r.same)
	case "commonedges":
		return fmt.Sprintf("ref-only=%d common=%d", r.t1, r.cm)
	}
	return fmt.Sprintf("ref-only=%d common=%d compared-only=%d same=%v", r.t1, r.cm, r.t2, r.same)
}

func c08abs(v []float64) []float64 {
	o := make([]float64, len(v))
	for i, x := range v {
		o[i] = math.Abs(x)
	}
	sort.Float64s(o)
	return o
}

func c08sorted(v []float64) []float64 {
	o := append([]float64(nil), v...)
	sort.Float64s(o)
	return o
}

// c08exec runs one call of the real code: reference tree, a channel of compared trees.
func c08exec(op, ref string, comps []string, tips, ident bool) (recs []c08rec, callErr string, res mcrt.Result) {
	recs = make([]c08rec, len(comps))
	stray := 0
	res = mcrt.Run(mcrt.Config{NoSched: true, Fuel: 2_000_000 + 1_000_000*int64(len(comps))}, func() {
		refT := gtMustParse(ref)
		ts := make([]*tree.Tree, len(comps))
		for i, s := range comps {
			ts[i] = gtMustParse(s)
		}
		put := func(id int, r c08rec) {
			if id < 0 || id >= len(recs) {
				stray++
				return
			}
			r.n = recs[id].n + 1
			recs[id] = r
		}
		switch op {
		case "compare":
			st, err := tree.Compare(refT, feed(ts), tips, ident, 1)
			if err != nil {
				callErr = err.Error()
				return
			}
			for {
				r, ok := mcrt.Recv2(st)
				if !ok {
					break
				}
				o := c08rec{t1: r.Tree1, cm: r.Common, t2: r.Tree2, same: r.Sametree}
				if r.Err != nil {
					o.err = "error: " + r.Err.Error()
				}
				put(r.Id, o)
			}
		case "weighted":
			st, err := tree.CompareWeighted(refT, feed(ts), tips, ident, 1)
			if err != nil {
				callErr = err.Error()
				return
			}
			for {
				r, ok := mcrt.Recv2(st)
				if !ok {
					break
				}
				o := c08rec{w1: c08sorted(r.Tree1), w2: c08sorted(r.Tree2), wc: c08abs(r.Common), same: r.Sametree}
				o.t1, o.t2, o.cm = len(o.w1), len(o.w2), len(o.wc)
				if r.Err != nil {
					o.err = "error: " + r.Err.Error()
				}
				put(r.Id, o)
			}
		case "commonedges":
			// documented precondition: tip index and bitsets of both trees are up to date
			if err := refT.ReinitIndexes(); err != nil {
				callErr = err.Error()
				return
			}
			for i, t := range ts {
				if err := t.ReinitIndexes(); err != nil {
					put(i, c08rec{err: "error: " + err.Error()})
					continue
				}
				t1, cm, err := refT.CommonEdges(t, tips)
				o := c08rec{t1: t1, cm: cm}
				if err != nil {
					o.err = "error: " + err.Error()
				}
				put(i, o)
			}
		}
	})
	if stray > 0 && callErr == "" {
		callErr = fmt.Sprintf("%d records with an id that was never sent", stray)
	}
	return
}

func c08eqf(a, b []float64) bool {
	if len(a) != len(b) {
		return false
	}
	for i := range a {
		if a[i] != b[i] {
			return false
		}
	}
	return true
}

// c08judge decides one record of a same-taxa comparison. "" = held.
func c08judge(op string, r c08rec, e c08exp, ident bool) (clause, what string) {
	if r.n != 1 {
		return "records", fmt.Sprintf("%d result records for one compared tree", r.n)
	}
	if r.err != "" {
		return "unexpected-error", "trees on the same taxa: " + r.err
	}
	if op == "commonedges" {
		if r.t1 != e.r1 {
			return "count-reference-only", fmt.Sprintf("reference-only branches: reported %d, by definition %d", r.t1, e.r1)
		}
		if r.cm != e.cm {
			return "count-common", fmt.Sprintf("common branches: reported %d, by definition %d", r.cm, e.cm)
		}
		return "", ""
	}
	if !ident {
		if op == "compare" {
			if r.t1 != e.r1 {
				return "count-reference-only", fmt.Sprintf("reference-only branches: reported %d, by definition %d", r.t1, e.r1)
			}
			if r.cm != e.cm {
				return "count-common", fmt.Sprintf("common branches: reported %d, by definition %d", r.cm, e.cm)
			}
			if r.t2 != e.r2 {
				return "count-compared-only", fmt.Sprintf("compared-only branches: reported %d, by definition %d", r.t2, e.r2)
			}
		} else {
			if !c08eqf(r.w1, e.w1) {
				return "terms-reference-only", fmt.Sprintf("lengths of reference-only branches: reported %v, by definition %v", r.w1, e.w1)
			}
			if !c08eqf(r.wc, e.wc) {
				return "terms-common", fmt.Sprintf("|length differences| of shared branches: reported %v, by definition %v", r.wc, e.wc)
			}
			if !c08eqf(r.w2, e.w2) {
				return "terms-compared-only", fmt.Sprintf("lengths of compared-only branches: reported %v, by definition %v", r.w2, e.w2)
			}
			// what cmd/comparetrees.go prints from these terms
			wrf, kf := 0.0, 0.0
			for _, d := range r.wc {
				wrf += math.Abs(d)
				kf += math.Pow(d, 2.0)
			}
			for _, l := range append(append([]float64(nil), r.w1...), r.w2...) {
				wrf += l
				kf += math.Pow(l, 2.0)
			}
			if wrf != e.wrf || math.Sqrt(kf) != e.kf {
				return "distance", fmt.Sprintf("weighted RF %v / KF %v from the reported terms, by definition %v / %v", wrf, math.Sqrt(kf), e.wrf, e.kf)
			}
		}
	}
	// identity verdict
	if op == "compare" {
		if r.same != e.same {
			return "sametree/" + e.rel, fmt.Sprintf("Sametree=%v reported, but reference-only=%d compared-only=%d by definition (%s)", r.same, e.r1, e.r2, r.String(op, ident))
		}
	} else {
		// weighted: "identical" is documented as topology and branch lengths; with equal topology and
		// different lengths either answer is accepted (the property is silent)
		if r.same && !e.same {
			return "sametree/" + e.rel, fmt.Sprintf("Sametree=true reported, but reference-only=%d compared-only=%d by definition (%s)", e.r1, e.r2, r.String(op, ident))
		}
		if !r.same && e.same && e.sameLen {
			return "sametree/" + e.rel, fmt.Sprintf("Sametree=false reported for equal split sets with equal lengths (%s)", r.String(op, ident))
		}
	}
	return "", ""
}

// ---------------------------------------------------------------------------
// cases

type c08case struct {
	Kind     string   `json:"kind"` // pair | swap | batch | reject
	Op       string   `json:"op"`   // compare | weighted | commonedges
	Tips     bool     `json:"tips"`
	Ident    bool     `json:"identical_only"`
	Ref      string   `json:"reference"`
	RefAlts  []string `json:"reference_presentations,omitempty"`
	RefKind  []string `json:"reference_presentation_kinds,omitempty"`
	Comps    []string `json:"compared"`
	CompKind []string `json:"compared_presentation_kinds,omitempty"`
	Full     bool     `json:"full_product,omitempty"` // every reference presentation against every compared presentation
}

// c08run executes one case on the real code and judges it. c != nil: first execution, count coverage.
func c08run(c *Ctx, cs c08case) (key, what string) {
	pre := "C08/" + cs.Op + "/"
	refM, err := c08modelText(cs.Ref)
	if err != nil || refM.bad != "" {
		panic(fmt.Sprintf("harness: C08 case outside the quantifier: %q %v", cs.Ref, err))
	}
	comps := make([]*c08model, len(cs.Comps))
	for i, s := range cs.Comps {
		m, err := c08modelText(s)
		if err != nil || m.bad != "" {
			panic(fmt.Sprintf("harness: C08 case outside the quantifier: %q %v", s, err))
		}
		comps[i] = m
	}
	desc := func(ref string, j int) string {
		return fmt.Sprintf("%s(ref=%s, compared=%s, tips=%v, identical-only=%v)", cs.Op, ref, cs.Comps[j], cs.Tips, cs.Ident)
	}
	crash := func(ref string, res mcrt.Result, reject bool) (string, string) {
		k := "crash/"
		if reject {
			k = "different-taxa-crash/"
		}
		return pre + k + crashSite(res), fmt.Sprintf("%s(ref=%s, %d compared trees first=%s, tips=%v, identical-only=%v): %s", cs.Op, ref, len(cs.Comps), cs.Comps[0], cs.Tips, cs.Ident, verdictStr(res))
	}

	switch cs.Kind {
	case "reject":
		recs, callErr, res := c08exec(cs.Op, cs.Ref, cs.Comps, cs.Tips, cs.Ident)
		if c != nil {
			c.Transitions += int64(len(cs.Comps))
		}
		if crashed(res) {
			return crash(cs.Ref, res, true)
		}
		if callErr != "" {
			return pre + "call-error", fmt.Sprintf("%s: %s", desc(cs.Ref, 0), callErr)
		}
		for j, r := range recs {
			e := c08expect(refM, comps[j], cs.Tips)
			if e.sameTaxa {
				continue
			}
			if c != nil {
				c.Count("reject_checked", 1)
				c.Count("reject_"+e.taxaRel, 1)
				c.Outcome(cs.Op + " reject " + e.taxaRel + " " + r.String(cs.Op, cs.Ident))
			}
			if r.n != 1 {
				return pre + "records", fmt.Sprintf("%s: %d result records", desc(cs.Ref, j), r.n)
			}
			if r.err == "" {
				return pre + "different-taxa-accepted/" + e.taxaRel, fmt.Sprintf("%s: no error although the taxon sets differ (%v vs %v); reported %s", desc(cs.Ref, j), refM.taxa, comps[j].taxa, r.String(cs.Op, cs.Ident))
			}
		}
		return "", ""

	case "swap":
		// Comps[0] against Ref and Ref against Comps[0]: the answer must be the mirror image
		ra, ea, resa := c08exec(cs.Op, cs.Ref, cs.Comps[:1], cs.Tips, cs.Ident)
		rb, eb, resb := c08exec(cs.Op, cs.Comps[0], []string{cs.Ref}, cs.Tips, cs.Ident)
		if c != nil {
			c.Transitions += 2
			c.Count("swap_checked", 1)
		}
		if crashed(resa) {
			return crash(cs.Ref, resa, false)
		}
		if crashed(resb) {
			return crash(cs.Comps[0], resb, false)
		}
		if ea != "" || eb != "" || ra[0].n != 1 || rb[0].n != 1 || ra[0].err != "" || rb[0].err != "" {
			return pre + "swap", fmt.Sprintf("%s and its mirror image: call errors %q %q, records %d %d, errors %q %q", desc(cs.Ref, 0), ea, eb, ra[0].n, rb[0].n, ra[0].err, rb[0].err)
		}
		a, b := ra[0], rb[0]
		ok := a.same == b.same
		if !cs.Ident {
			switch cs.Op {
			case "compare":
				ok = ok && a.t1 == b.t2 && a.t2 == b.t1 && a.cm == b.cm
			case "weighted":
				ok = ok && c08eqf(a.w1, b.w2) && c08eqf(a.w2, b.w1) && c08eqf(a.wc, b.wc)
			case "commonedges":
				// only reference-only and common are returned: |ref| - |comp| must be explained by them
				ma, mb := refM, comps[0]
				na, nb := 0, 0
				for _, k := range ma.keys {
					if cs.Tips || !ma.splits[k].tip {
						na++
					}
				}
				for _, k := range mb.keys {
					if cs.Tips || !mb.splits[k].tip {
						nb++
					}
				}
				ok = a.cm == b.cm && a.t1+a.cm == na && b.t1+b.cm == nb
			}
		}
		if !ok {
			return pre + "swap", fmt.Sprintf("%s reports {%s}, with the two trees swapped {%s}: not mirror images", desc(cs.Ref, 0), a.String(cs.Op, cs.Ident), b.String(cs.Op, cs.Ident))
		}
		return "", ""
	}

	// pair / batch: reference (and its presentations) against the compared trees
	refs := append([]string{cs.Ref}, cs.RefAlts...)
	var base c08rec
	for ri, ref := range refs {
		cl := cs.Comps
		if ri > 0 && !cs.Full {
			cl = cs.Comps[:1]
		}
		rM, err := c08modelText(ref)
		if err != nil || rM.bad != "" {
			panic(fmt.Sprintf("harness: C08 case outside the quantifier: %q %v", ref, err))
		}
		recs, callErr, res := c08exec(cs.Op, ref, cl, cs.Tips, cs.Ident)
		if c != nil {
			c.Transitions += int64(len(cl))
			c.Count("comparisons", int64(len(cl)))
		}
		if crashed(res) {
			return crash(ref, res, false)
		}
		if callErr != "" {
			return pre + "call-error", fmt.Sprintf("%s: %s", desc(ref, 0), callErr)
		}
		for j, r := range recs {
			e := c08expect(rM, comps[j], cs.Tips)
			if !e.sameTaxa {
				panic("harness: C08 pair case on different taxa")
			}
			clause, w := c08judge(cs.Op, r, e, cs.Ident)
			isBase := ri == 0 && (j == 0 || cs.Kind == "batch")
			if c != nil {
				c.Outcome(cs.Op + " " + r.String(cs.Op, cs.Ident))
				if isBase {
					c.Count("rel_"+e.rel, 1)
					if r.same {
						c.Count("sametree_true", 1)
					} else {
						c.Count("sametree_false", 1)
					}
					if cs.Op == "weighted" && !cs.Ident {
						c.Count("weighted_terms", int64(len(r.w1)+len(r.w2)+len(r.wc)))
						if e.same && !e.sameLen {
							c.Count("weighted_same_topology_other_lengths", 1)
						}
					}
				} else {
					k := ""
					if ri > 0 {
						k = "ref_" + cs.RefKind[ri-1]
					}
					if j > 0 {
						k += "comp_" + cs.CompKind[j]
					}
					c.Count("presentation_"+k, 1)
				}
			}
			if clause == "" {
				if isBase && j == 0 {
					base = r
				}
				continue
			}
			if isBase {
				return pre + clause, desc(ref, j) + ": " + w
			}
			// the base presentation held: the answer depends on the presentation
			side := "compared"
			if ri > 0 && j == 0 {
				side = "reference"
			} else if ri > 0 {
				side = "both"
			}
			return pre + "presentation-dependence/" + side, fmt.Sprintf("%s: %s; the same two trees presented as ref=%s compared=%s gave {%s}", desc(ref, j), w, cs.Ref, cs.Comps[0], base.String(cs.Op, cs.Ident))
		}
	}
	return "", ""
}

// c08do executes a case; a failing multi-tree case is narrowed to a single compared tree when that reproduces.
func c08do(c *Ctx, cs c08case) {
	k, _ := c08run(c, cs)
	if k == "" {
		c.Execs++
		return
	}
	if (cs.Kind == "batch" || cs.Kind == "reject") && len(cs.Comps) > 1 {
		for j := range cs.Comps {
			one := cs
			one.Comps = cs.Comps[j : j+1]
			if k1, _ := c08run(nil, one); k1 != "" {
				cs = one
				break
			}
		}
	}
	c.Check(cs, func() (string, string) { return c08run(nil, cs) })
}

type c08tree struct {
	a, b  []string // presentations with length scheme a / b (index 0 = the tree as enumerated)
	kinds []string
	canon string
}

func c08prepare(trees []*rm.Tree) []c08tree {
	out := make([]c08tree, len(trees))
	for i, t := range trees {
		out[i].a, out[i].kinds = c08presentations(c08lengths(t, "a"))
		out[i].b, _ = c08presentations(c08lengths(t, "b"))
		out[i].canon = t.CanonUnrooted()
	}
	return out
}

var c08configs = [][2]bool{{false, false}, {true, false}, {false, true}, {true, true}} // tips, identical-only

func c08count(c *Ctx, tips, ident bool) {
	if tips {
		c.Count("tips_on", 1)
	} else {
		c.Count("tips_off", 1)
	}
	if ident {
		c.Count("identical_only_on", 1)
	} else {
		c.Count("identical_only_off", 1)
	}
}

// c08pair: both directions of one unordered pair, every operation and flag combination, presentations, swap.
func c08pair(c *Ctx, x, y *c08tree, full, presentations bool) {
	dirs := [][2]*c08tree{{x, y}}
	if x != y {
		dirs = append(dirs, [2]*c08tree{y, x})
	}
	for _, d := range dirs {
		r, q := d[0], d[1]
		for _, op := range []string{"compare", "weighted", "commonedges"} {
			schemes := []string{"a"}
			if op == "weighted" {
				schemes = []string{"a", "b"}
			}
			for _, sch := range schemes {
				qt := q.a
				if sch == "b" {
					qt = q.b
				}
				for _, cf := range c08configs {
					if op == "commonedges" && cf[1] {
						continue
					}
					cs := c08case{Kind: "pair", Op: op, Tips: cf[0], Ident: cf[1], Ref: r.a[0], Comps: qt[:1], CompKind: q.kinds[:1], Full: full}
					if presentations {
						cs.RefAlts, cs.RefKind = r.a[1:], r.kinds[1:]
						cs.Comps, cs.CompKind = qt, q.kinds
					}
					c08count(c, cf[0], cf[1])
					c.Count("op_"+op, 1)
					c08do(c, cs)
				}
			}
		}
	}
	// swap symmetry, observed directly on the two answers
	for _, op := range []string{"compare", "weighted", "commonedges"} {
		for _, cf := range c08configs {
			if op == "commonedges" && cf[1] {
				continue
			}
			comp := y.a[0]
			if op == "weighted" {
				comp = y.b[0]
			}
			c08do(c, c08case{Kind: "swap", Op: op, Tips: cf[0], Ident: cf[1], Ref: x.a[0], Comps: []string{comp}})
		}
	}
}

// c08caterpillar: a caterpillar on n taxa whose labels at distance shift are swapped in every third position.
func c08caterpillar(n, shift int) *rm.Tree {
	perm := make([]int, n)
	for j := range perm {
		perm[j] = j
	}
	for j := 0; j+shift < n; j += 3 {
		perm[j], perm[j+shift] = perm[j+shift], perm[j]
	}
	lab := func(j int) *rm.Node { return &rm.Node{Name: fmt.Sprintf("t%02d", perm[j])} }
	cur := &rm.Node{Children: []*rm.Node{lab(0), lab(1)}}
	for j := 2; j < n-1; j++ {
		cur = &rm.Node{Children: []*rm.Node{cur, lab(j)}}
	}
	cur.Children = append(cur.Children, lab(n-1))
	return &rm.Tree{Root: cur}
}

// c08foreign: trees whose taxon set differs from labels.
func c08foreign(labels []string, withLarger bool) []string {
	var out []string
	n := len(labels)
	for _, t := range enum.Unrooted(labels, false) {
		for k := 0; k < n; k++ {
			for _, nn := range []string{"Q", "0"} {
				cl := c08lengths(t, "a")
				for _, tp := range cl.Tips() {
					if tp.Name == labels[k] {
						tp.Name = nn
					}
				}
				out = append(out, cl.Newick())
			}
		}
	}
	if n-1 >= 3 {
		for _, t := range enum.Unrooted(labels[:n-1], false) {
			out = append(out, c08lengths(t, "a").Newick())
		}
		for _, t := range enum.Unrooted(labels[1:], false) {
			out = append(out, c08lengths(t, "a").Newick())
		}
	}
	if withLarger {
		more := append(append([]string(nil), labels...), "Q")
		for _, t := range enum.Unrooted(more, false) {
			out = append(out, c08lengths(t, "a").Newick())
		}
	}
	return out
}

func c08selftest(c *Ctx) {
	// the model side itself: presentations keep the split -> length map, lengths are dyadic, trees are in the quantifier
	for _, t := range enum.Unrooted(enum.Labels(6, ""), false) {
		for _, sch := range []string{"a", "b"} {
			texts, _ := c08presentations(c08lengths(t, sch))
			m0, err := c08modelText(texts[0])
			if err != nil || m0.bad != "" {
				c.EngineError(fmt.Sprintf("model self-test: %q: %v %v", texts[0], err, m0))
				return
			}
			for _, s := range texts[1:] {
				m, err := c08modelText(s)
				if err != nil || m.bad != "" || len(m.keys) != len(m0.keys) {
					c.EngineError(fmt.Sprintf("model self-test: presentation %q of %q", s, texts[0]))
					return
				}
				for _, k := range m.keys {
					if m.splits[k] != m0.splits[k] {
						c.EngineError(fmt.Sprintf("model self-test: presentation %q of %q changes split %s", s, texts[0], k))
						return
					}
				}
			}
		}
	}
}

type c08cfg struct {
	op, scheme  string
	tips, ident bool
}

func c08allcfgs() []c08cfg {
	var out []c08cfg
	for _, op := range []string{"compare", "weighted", "commonedges"} {
		schemes := []string{"a"}
		if op == "weighted" {
			schemes = []string{"a", "b"}
		}
		for _, sch := range schemes {
			for _, cf := range c08configs {
				if op == "commonedges" && cf[1] {
					continue
				}
				out = append(out, c08cfg{op, sch, cf[0], cf[1]})
			}
		}
	}
	return out
}

// c08batch: every ordered pair of trees on n taxa in the presentation of the enumerator; one call of the
// real code compares a reference with a block of compared trees sent through one channel.
func c08batch(c *Ctx, n int, cfgs []c08cfg, blk int) {
	trees := enum.Unrooted(enum.Labels(n, ""), false)
	ta := make([]string, len(trees))
	tb := make([]string, len(trees))
	canon := make([]string, len(trees))
	for i, t := range trees {
		ta[i] = c08lengths(t, "a").Newick()
		tb[i] = c08lengths(t, "b").Newick()
		canon[i] = t.CanonUnrooted()
	}
	for i := range trees {
		for b := 0; b < len(trees); b += blk {
			if c.TimeUp() {
				return
			}
			if !c.Mine() {
				continue
			}
			e := b + blk
			if e > len(trees) {
				e = len(trees)
			}
			c.States += int64(e - b)
			for j := b; j < e; j++ {
				if j != i {
					c.Nontrivial(canon[i] + "|" + canon[j])
				}
			}
			c.Pin(func() string { return fmt.Sprintf("n=%d %s block %d", n, ta[i], b) })
			for _, cf := range cfgs {
				cl := ta[b:e]
				if cf.scheme == "b" {
					cl = tb[b:e]
				}
				c08count(c, cf.tips, cf.ident)
				c.Count("op_"+cf.op, 1)
				c08do(c, c08case{Kind: "batch", Op: cf.op, Tips: cf.tips, Ident: cf.ident, Ref: ta[i], Comps: cl})
			}
		}
	}
}

func init() {
	register(&Prop{
		ID: "C08",
		Rule: "every unordered pair {X,Y} of labelled unrooted trees (root degree >= 3, all multifurcations, so every contraction/refinement pair occurs) on the same n taxa, both directions (X reference / Y reference), " +
			"x {Compare, CompareWeighted with two length assignments (by split: equal topologies get equal lengths; by position: shared splits differ), Tree.CommonEdges} x tips on/off x identical-only on/off; " +
			"the compared tree additionally in every re-rooted and mirrored presentation (computed on the model) and the reference in every presentation (n=5: full product of presentations); " +
			"the two answers of a swapped pair compared directly; quick: n=4,5 in this way plus all ordered pairs for n=6 in the enumerator's presentation (blocks of compared trees through one channel; Compare plain and tips+identical-only, CompareWeighted tips / identical-only, CommonEdges with and without tips); thorough: n=4,5,6 in this way plus all ordered pairs for n=7 (Compare without tips, CompareWeighted with tips); " +
			"rejection: every reference tree x {every tree with one taxon renamed to a name sorting after/before all others, every tree on n-1 of the taxa, every tree on n+1 taxa}; " +
			"oracle = set algebra on the model's split sets (tip-name sets below branches); non-trivial = distinct (reference, compared) pairs with different split sets",
		Assumptions: []string{
			"Compare/CompareWeighted are driven with one worker and the default schedule (other schedules are C11's subject)",
			"lengths are dyadic (k/8, k/4) so that differences, sums and squares are exact in float64",
			"weighted Sametree for equal topologies with different lengths is not demanded either way (documented as 'identical in topology and branch lengths' by the command, property silent)",
			"reference Newick reader/writer of the model",
		},
		Require: []string{"rel_equal", "rel_compared-is-contraction", "rel_compared-is-refinement", "rel_incomparable", "tips_on", "tips_off", "identical_only_on", "identical_only_off",
			"op_compare", "op_weighted", "op_commonedges", "weighted_terms", "sametree_true", "sametree_false", "swap_checked",
			"presentation_ref_reroot", "presentation_ref_reorder", "presentation_comp_reroot", "presentation_comp_reorder",
			"pairs_on_case_twin_names", "reject_checked", "reject_renamed", "reject_compared-subset", "reject_compared-superset"},
		Run: func(c *Ctx) {
			// gotree allocates 16 kB scratch slices in every Edges()/Tips() call: with the tiny live heap of a
			// worker the collector would run every few hundred comparisons
			debug.SetGCPercent(3200)
			if c.Shard == 0 {
				c08selftest(c)
			}
			pairSizes := []int{4, 5}
			if !c.Quick() {
				pairSizes = []int{4, 5, 6}
			}
			type labelling struct {
				n      int
				labels []string
			}
			var labellings []labelling
			for _, n := range pairSizes {
				labellings = append(labellings, labelling{n, enum.Labels(n, "")})
			}
			// taxa whose names differ only by case, or of which one is a prefix of another, are different taxa
			labellings = append(labellings, labelling{4, []string{"a1", "A1", "b", "B"}}, labelling{5, []string{"Ab", "aB", "AB", "ab", "a"}})
			for _, lb := range labellings {
				n, labels := lb.n, lb.labels
				if labels[0] != "A" {
					c.Count("pairs_on_case_twin_names", 1)
				}
				ts := c08prepare(enum.Unrooted(labels, false))
				for i := range ts {
					for j := i; j < len(ts); j++ {
						if c.TimeUp() {
							return
						}
						if !c.Mine() {
							continue
						}
						c.States++
						if i != j {
							c.Nontrivial(ts[i].canon + "|" + ts[j].canon)
						}
						c.Sample(ts[i].a[0] + " vs " + ts[j].b[0])
						c.Pin(func() string { return ts[i].a[0] + " vs " + ts[j].a[0] })
						c08pair(c, &ts[i], &ts[j], n <= 5, true)
					}
				}
			}
			// a few larger pairs (plain executions, not exhaustive): label-shifted caterpillars on 12 and 40 taxa,
			// every unordered pair, every operation and flag combination; rooted presentations for 12 taxa only
			if c.Shard == 0 {
				for _, n := range []int{12, 40} {
					var big []*rm.Tree
					for _, shift := range []int{0, 1, 2, 5} {
						big = append(big, c08caterpillar(n, shift))
					}
					ts := c08prepare(big)
					for i := range ts {
						for j := i; j < len(ts); j++ {
							if c.TimeUp() {
								return
							}
							c.States++
							c.Count("large_pairs", 1)
							c.Pin(func() string { return ts[i].a[0] + " vs " + ts[j].a[0] })
							c08pair(c, &ts[i], &ts[j], false, n <= 12)
						}
					}
				}
			}
			// rejection clause
			rejSizes := []int{4, 5}
			if !c.Quick() {
				rejSizes = []int{4, 5, 6}
			}
			for _, n := range rejSizes {
				labels := enum.Labels(n, "")
				foreign := c08foreign(labels, n <= 5)
				cfgs := c08allcfgs()
				if n > 5 {
					cfgs = []c08cfg{{"compare", "a", false, false}, {"weighted", "a", true, true}, {"commonedges", "a", false, false}}
				}
				const blk = 64
				for _, t := range enum.Unrooted(labels, false) {
					ref := c08lengths(t, "a").Newick()
					for b := 0; b < len(foreign); b += blk {
						if c.TimeUp() {
							return
						}
						if !c.Mine() {
							continue
						}
						e := b + blk
						if e > len(foreign) {
							e = len(foreign)
						}
						c.States++
						c.Pin(func() string { return "reject " + ref + " block " + fmt.Sprint(b) })
						for _, cf := range cfgs {
							if cf.scheme == "b" {
								continue
							}
							c08do(c, c08case{Kind: "reject", Op: cf.op, Tips: cf.tips, Ident: cf.ident, Ref: ref, Comps: foreign[b:e]})
						}
					}
				}
			}
			// all ordered pairs, base presentation, many compared trees through one channel
			if c.Quick() {
				c08batch(c, 6, []c08cfg{{"compare", "a", false, false}, {"compare", "a", true, true}, {"weighted", "b", true, false}, {"weighted", "a", false, true},
					{"commonedges", "a", false, false}, {"commonedges", "a", true, false}}, 59)
			} else {
				c08batch(c, 7, []c08cfg{{"compare", "a", false, false}, {"weighted", "b", true, false}}, 172)
			}
		},
		Replay: func(c *Ctx, raw json.RawMessage) {
			var cs c08case
			if err := json.Unmarshal(raw, &cs); err != nil {
				fmt.Println("cannot read case:", err)
				return
			}
			k, w := c08run(nil, cs)
			fmt.Printf("case: %s %s tips=%v identical-only=%v ref=%s compared=%v\nresult: %s %s\n", cs.Kind, cs.Op, cs.Tips, cs.Ident, cs.Ref, cs.Comps, k, w)
			if k != "" {
				c.Violate(k, w, cs)
			}
		},
	})
}

package main

import (
	"encoding/json"
	"fmt"
	"math"
	"regexp"
	"strings"

	"github.com/evolbioinfo/gotree/io/utils"
	"github.com/evolbioinfo/gotree/mcrt"

	"verif/harness/enum"
	rm "verif/harness/refmodel"
)

// C01: Newick write/parse round trip.

var c01Floats = []float64{1, 0, math.Copysign(0, -1), 0.1 + 0.2, 1e-7, 1e21, 5e-324, 1.7976931348623157e308, 123456789.12345679, -2.5, 0.000001, 1e-300}
var c01TipNames = []string{"1", "1e5", "a b", "é", "-0.5", "TREE", "x/y", "0x1p-2", "Inf", "a'b", "1/2", "1 b", "a 1", "1 2", "'Akepa", "GC_50%d", "t1"} // ("t1": the default name of the first tip - two tips with one name)
var c01InnerNames = []string{"n", "in ner", "'q d'", "BEGIN", "é1", "1x", "a/b", "1/x", "x 1", "2009/H1N1"}
var c01Comments = [][]string{{"c"}, {""}, {"a b"}, {"x;y"}, {"(:,"}, {"&k={a,b}"}, {"c1", "c2"}, {"c1", "c2", "c3"}, {"["}, {" lead"}, {"1.5"}, {"0.99 "}, {" 1"}, {"a 1 ,b"}, {"&hpd=(0.25 , 0.75 )"}, {"1 2"}, {"trail "}, {"  two"}, {"\ttab"}, {"a,  b"}, {"x(\t y"}, {"l1\nl2"}, {"&note:'87 isolate"}, {"x,'y"}, {"&conf=100%s"}}

type c01slot struct {
	n     int // menu size incl. default 0
	apply func(alt int)
}

// c01slots builds the decoration slots of a (cloned) model tree.
func c01slots(t *rm.Tree) []c01slot {
	var slots []c01slot
	t.Walk(func(n, p *rm.Node) {
		root := p == nil
		if n.IsTip() {
			slots = append(slots, c01slot{1 + len(c01TipNames), func(a int) { n.Name = c01TipNames[a-1] }})
		} else {
			// label: name | support | support/pvalue
			if root {
				slots = append(slots, c01slot{1 + len(c01InnerNames), func(a int) { n.Name = c01InnerNames[a-1] }})
			} else {
				ns := len(c01InnerNames)
				nf := len(c01Floats)
				slots = append(slots, c01slot{1 + ns + nf + 4, func(a int) {
					a--
					switch {
					case a < ns:
						n.Name = c01InnerNames[a]
					case a < ns+nf:
						n.HasSup, n.Sup = true, c01Floats[a-ns]
					default:
						k := a - ns - nf
						n.HasSup, n.HasPv = true, true
						n.Sup = []float64{0.5, 1, 0, 95}[k]
						n.Pv = []float64{0.01, 0, 1e-300, math.Copysign(0, -1)}[k]
					}
				}})
			}
		}
		if !root {
			nf := len(c01Floats)
			nc := 6
			slots = append(slots, c01slot{1 + nf + nc, func(a int) {
				a--
				if a < nf {
					n.HasLen, n.Len = true, c01Floats[a]
				} else {
					n.HasLen, n.Len = true, 0.5
					n.BrCom = c01Comments[[]int{0, 3, 4, 1, 11, 14}[a-nf]][:1]
				}
			}})
		}
		slots = append(slots, c01slot{1 + len(c01Comments), func(a int) { n.NodeCom = c01Comments[a-1] }})
	})
	return slots
}

type c01case struct {
	Model string `json:"model_newick"`
	Fmt   int    `json:"format_variant,omitempty"`
}

// text-first formatting variants the writer never emits
var c01tipLabelRe = regexp.MustCompile(`([(,])([^(),:;\[\]]+)`)

func c01variant(s string, v int) string {
	switch v {
	case 1:
		if strings.ContainsAny(strings.Trim(s, "();,"), "") && (strings.Count(s, "[") > 0) {
			return s // comments may contain the characters replaced below
		}
		r := strings.NewReplacer("(", "( ", ",", ",\n ", ")", ")\t", ":", ": ")
		return r.Replace(s)
	case 2:
		return "\n\t " + s + "  \n"
	case 3:
		// a text folded across lines: the break falls right after a label or a number
		if strings.Count(s, "[") > 0 {
			return s
		}
		// only after TIP labels (a label that follows "(" or ","): the reader strips blanks around tip names
		return c01tipLabelRe.ReplaceAllString(s, "$1$2\n")
	}
	return s
}

func c01check(m *rm.Tree, variant int) (string, string) {
	var key, what string
	r := guard(func() {
		if variant > 0 {
			// text first: the model's own rendering, reformatted
			txt := c01variant(m.Newick(), variant)
			t, err := gtParse(txt)
			if err != nil {
				key, what = "C01/parser-variant/error", fmt.Sprintf("parser rejects %q: %v", txt, err)
				return
			}
			o, err := observe(t)
			if err != nil {
				key, what = "C01/parser-variant/malformed", err.Error()
				return
			}
			if d := sameModel(m, o, variant != 1); d != "" {
				key, what = "C01/parser-variant/"+strings.Fields(d)[1], fmt.Sprintf("text %q parsed differently from the model: %s", txt, d)
			}
			return
		}
		t := build(m)
		w1 := t.Newick()
		m1, err := rm.ParseNewick(w1)
		if err != nil {
			key, what = "C01/writer/unreadable", fmt.Sprintf("writer output %q is not readable by the reference reader: %v (model %q)", w1, err, m.Newick())
			return
		}
		if d := sameModel(m, m1, true); d != "" {
			key, what = "C01/writer/"+strings.Fields(d)[1], fmt.Sprintf("writer output %q differs from the tree written: %s", w1, d)
			return
		}
		t2, err := gtParse(w1)
		if err != nil {
			key, what = "C01/parser/error", fmt.Sprintf("parser rejects the writer's own output %q: %v", w1, err)
			return
		}
		o, err := observe(t2)
		if err != nil {
			key, what = "C01/parser/malformed", fmt.Sprintf("%q: %v", w1, err)
			return
		}
		if d := sameModel(m, o, true); d != "" {
			key, what = "C01/parser/"+strings.Fields(d)[1], fmt.Sprintf("tree parsed from %q differs from the tree written: %s", w1, d)
			return
		}
		if w2 := t2.Newick(); w2 != w1 {
			key, what = "C01/rewrite", fmt.Sprintf("second write %q differs from first write %q", w2, w1)
			return
		}
		// a tree with a history: written, edited through the public setters, written again -
		// the second text describes the tree as it is now
		for step := 0; step < 2; step++ {
			if step == 0 {
				if tips := t2.Tips(); len(tips) > 0 {
					tips[len(tips)-1].SetName("zz9")
				}
				if es := t2.Edges(); len(es) > 0 {
					es[0].SetLength(2.5)
					for _, e := range es {
						if !e.Right().Tip() && e.Right().Name() == "" { // a support is written in the label slot of the unnamed inner node below the branch
							e.SetSupport(0.25)
							break
						}
					}
				}
			} else {
				t2.ScaleLengths(2, true, true)
				t2.ClearSupports()
			}
			o2, err := observe(t2)
			if err != nil {
				key, what = "C01/history/malformed", err.Error()
				return
			}
			w3 := t2.Newick()
			m3, err := rm.ParseNewick(w3)
			if err != nil {
				key, what = "C01/history/unreadable", fmt.Sprintf("text %q written after an edit is not readable: %v", w3, err)
				return
			}
			if d := sameModel(o2, m3, true); d != "" {
				key, what = "C01/history/"+strings.Fields(d)[1], fmt.Sprintf("tree first written as %q, then edited through setters (step %d): the text written now, %q, differs from the tree in memory: %s", w1, step, w3, d)
				return
			}
		}
	})
	if crashed(r) {
		return "C01/crash/" + crashSite(r), fmt.Sprintf("model %q: %s", m.Newick(), verdictStr(r))
	}
	return key, what
}

func init() {
	register(&Prop{
		ID: "C01",
		Rule: "every plane rooted multifurcating shape with n tips (root >= 2 children) x every decoration with <= d deviations from the default " +
			"(per tip: name menu incl. numeric-looking names; per inner node: name | support | support/p-value; per branch: length from a float menu with boundary values, optional branch comment; per node and root: 0-3 comments); " +
			"plus text-first reformatted renderings; executed: build via public constructors, write, reference reader == model, gotree parser == model (public API walk), second write byte-identical; " +
			"non-trivial = distinct written text",
		Assumptions: []string{"strconv.ParseFloat/FormatFloat are exact inverses (Go standard library)", "reference Newick reader (refmodel) implements the writer's grammar"},
		Run: func(c *Ctx) {
			type plan struct{ n, dev int }
			plans := []plan{{2, 3}, {3, 3}, {4, 2}, {5, 1}}
			if !c.Quick() {
				plans = []plan{{2, 4}, {3, 3}, {4, 3}, {5, 2}, {6, 2}, {7, 1}}
			}
			for _, pl := range plans {
				shapes := enum.Shapes(pl.n, "t")
				for _, sh := range shapes {
					if c.TimeUp() {
						return
					}
					probe := sh.Clone()
					slots := c01slots(probe)
					menu := make([]int, len(slots))
					for i, s := range slots {
						menu[i] = s.n
					}
					enum.Deviations(menu, pl.dev, func(assign []int) {
						if !c.Mine() {
							return
						}
						m := sh.Clone()
						sl := c01slots(m)
						ndev := 0
						for i, a := range assign {
							if a != 0 {
								sl[i].apply(a)
								ndev++
							}
						}
						// (two tips may bear the same name: Newick has no notion of taxon, the round trip is positional)
						txt := m.Newick()
						c.Nontrivial(txt)
						c.States++
						c.Sample(txt)
						c.Check(c01case{Model: txt}, func() (string, string) { return c01check(m, 0) })
						c.Transitions += 3
						if ndev <= 1 {
							for v := 1; v <= 3; v++ {
								c.Check(c01case{Model: txt, Fmt: v}, func() (string, string) { return c01check(m, v) })
								c.Transitions++
							}
						}
					})
				}
			}
			// inner nodes with a single child (sampled ancestors; what RemoveSingleNodes exists for) are trees too
			if c.Shard == 0 {
				for _, txt := range []string{"((a)x,b,c);", "((a:1)x:2,b:1,c:1);", "(((a,b))y,c,d);", "((a:1):2,b:1,c:1);", "(((a:1,b:2)0.5:1)0.25:3,c:1,(d:1)e:2);"} {
					m := rm.MustParse(txt)
					c.Count("trees_with_single_child_nodes", 1)
					c.Check(c01case{Model: txt}, func() (string, string) { return c01check(m, 0) })
				}
			}
			// whatever the size: large structured instances (plain executions, not exhaustive)
			if c.Shard == 0 {
				for _, n := range []int{64, 1000} {
					cat := &rm.Node{Name: "t0", HasLen: true, Len: 0.1}
					for i := 1; i < n; i++ {
						cat = &rm.Node{Children: []*rm.Node{cat, {Name: fmt.Sprintf("t x%d", i), HasLen: true, Len: float64(i) / 8}}, HasLen: true, Len: 1.0 / float64(i), HasSup: true, Sup: 0.5}
					}
					cat.HasLen, cat.HasSup = false, false
					star := &rm.Node{}
					for i := 0; i < n; i++ {
						star.Children = append(star.Children, &rm.Node{Name: fmt.Sprintf("s%d", i), HasLen: true, Len: float64(i) * 0.1})
					}
					// names / comments whose inner runs of blanks lie across the 4096-byte boundaries of buffered readers
					wide := &rm.Node{}
					for i := 0; i < 5; i++ {
						pad := 4096*(i+1) - 20 - len((&rm.Tree{Root: wide}).Newick())
						if pad < 1 {
							pad = 1
						}
						wide.Children = append(wide.Children, &rm.Node{Name: "p" + strings.Repeat("x", pad) + strings.Repeat(" ", 64) + "q" + fmt.Sprint(i), HasLen: true, Len: 1,
							NodeCom: []string{"c" + strings.Repeat(" ", 4096) + "d"}})
					}
					for _, m := range []*rm.Tree{{Root: cat}, {Root: star}, {Root: wide}} {
						m := m
						c.Count("large_instances", 1)
						c.Check(c01case{Model: "large"}, func() (string, string) { return c01check(m, 0) })
						// the same text through the reader the commands use (line splitting, 4096-byte read buffer)
						c.Check(c01case{Model: "large-through-ReadMultiTrees"}, func() (string, string) { return c01multi(m) })
					}
				}
			}
		},
		Replay: func(c *Ctx, raw json.RawMessage) {
			var cs c01case
			json.Unmarshal(raw, &cs)
			m, err := rm.ParseNewick(cs.Model)
			if err != nil {
				fmt.Println("cannot re-read model:", err)
				return
			}
			k, w := c01check(m, cs.Fmt)
			fmt.Printf("model: %s\nresult: %s %s\n", cs.Model, k, w)
			if k != "" {
				c.Violate(k, w, cs)
			}
		},
	})
}

// c01multi: the written text read back through utils.ReadMultiTrees (what every command does) gives the model.
func c01multi(m *rm.Tree) (string, string) {
	var key, what string
	r := guard(func() {
		t := build(m)
		w1 := t.Newick()
		ch := utils.ReadMultiTrees(bufReader(w1+"\n"), utils.FORMAT_NEWICK)
		n := 0
		for {
			tr, ok := mcrt.Recv2(ch)
			if !ok {
				break
			}
			n++
			if tr.Err != nil {
				key, what = "C01/multi-reader/error", fmt.Sprintf("ReadMultiTrees rejects the writer's own output (%d bytes): %v", len(w1), tr.Err)
				return
			}
			o, err := observe(tr.Tree)
			if err != nil {
				key, what = "C01/multi-reader/malformed", err.Error()
				return
			}
			if d := sameModel(m, o, true); d != "" {
				key, what = "C01/multi-reader/"+strings.Fields(d)[1], fmt.Sprintf("tree read by ReadMultiTrees from the writer's output (%d bytes) differs from the tree written: %s", len(w1), d)
				return
			}
		}
		if n != 1 {
			key, what = "C01/multi-reader/count", fmt.Sprintf("%d records for one tree", n)
		}
	})
	if crashed(r) {
		return "C01/crash/" + crashSite(r), verdictStr(r)
	}
	return key, what
}

package main

import (
	"encoding/json"
	"errors"
	"fmt"
	"math"
	"math/big"
	"runtime/debug"
	"sort"
	"strconv"
	"strings"

	"github.com/evolbioinfo/gotree/mcrt"
	"github.com/evolbioinfo/gotree/tree"

	"verif/harness/enum"
	rm "verif/harness/refmodel"
)

// C09: the consensus of a collection of trees contains exactly the sufficiently frequent splits.
//
// Reference side (independent of gotree): every fed tree is read by the model's own Newick reader, its
// bipartitions are the tip sets below its branches (refmodel.SplitMap: the two branches of a bifurcating root
// are ONE bipartition whose length is their sum); a naive frequency table over these maps gives, per
// bipartition, the number of trees containing it and the sum of its lengths. The result of tree.Consensus is
// observed through its Newick text, re-read by the model reader, and compared as a split -> (support, length)
// map, never as text.

// ---------------------------------------------------------------------------------------------------------
// presentations of one unrooted labelled tree (model side)

type c09arc struct {
	to  int
	len float64
}

// c09graph is the undirected view of a model tree: node ids in pre-order, ordered neighbour lists
// (non-root nodes: parent first, then the children in order).
type c09graph struct {
	name []string
	adj  [][]c09arc
}

func c09graphOf(t *rm.Tree) *c09graph {
	g := &c09graph{}
	var rec func(n *rm.Node, parent int) int
	rec = func(n *rm.Node, parent int) int {
		id := len(g.name)
		g.name = append(g.name, n.Name)
		g.adj = append(g.adj, nil)
		if parent >= 0 {
			g.adj[id] = append(g.adj[id], c09arc{parent, n.Len})
		}
		for _, ch := range n.Children {
			cid := rec(ch, id)
			g.adj[id] = append(g.adj[id], c09arc{cid, ch.Len})
		}
		return id
	}
	rec(t.Root, -1)
	return g
}

// c09sub rebuilds the subtree hanging at node v when coming from node from (-1: v is the root);
// the cyclic neighbour order is kept, starting after from.
func (g *c09graph) c09sub(v, from int, l float64, hasLen bool) *rm.Node {
	n := &rm.Node{Name: g.name[v], HasLen: hasLen, Len: l}
	a := g.adj[v]
	start := 0
	for i, x := range a {
		if x.to == from {
			start = i + 1
		}
	}
	for i := 0; i < len(a); i++ {
		x := a[(start+i)%len(a)]
		if x.to == from {
			continue
		}
		n.Children = append(n.Children, g.c09sub(x.to, v, x.len, true))
	}
	return n
}

type c09pres struct {
	kind string // canon | rooting | child-order
	txt  string
	m    *rm.Tree
}

func c09permute(n *rm.Node, p []int) {
	old := append([]*rm.Node(nil), n.Children...)
	for i, j := range p {
		n.Children[i] = old[j]
	}
}

// c09presentations lists the ways one unrooted tree (root with >= 3 children, lengths on every branch) is
// written: [0] as given; re-rooted at every other inner node; rooted on every branch (length l split into
// l/4 + 3l/4, either side first); child order reversed everywhere; every non-identical permutation of the
// children of one inner node (nodes with > 4 children: rotations only).
func c09presentations(t *rm.Tree) []c09pres {
	var out []c09pres
	add := func(kind string, m *rm.Tree) { out = append(out, c09pres{kind, m.Newick(), m}) }
	add("canon", t.Clone())
	g := c09graphOf(t)
	for v := 1; v < len(g.name); v++ {
		if len(g.adj[v]) >= 3 {
			add("rooting", &rm.Tree{Root: g.c09sub(v, -1, 0, false)})
		}
	}
	for v := 1; v < len(g.name); v++ {
		p := g.adj[v][0] // parent arc
		lo, hi := p.len/4, p.len-p.len/4
		a := g.c09sub(v, p.to, lo, true)
		b := g.c09sub(p.to, v, hi, true)
		add("rooting", &rm.Tree{Root: &rm.Node{Children: []*rm.Node{a, b}}})
		add("rooting", &rm.Tree{Root: &rm.Node{Children: []*rm.Node{b.Clone(), a.Clone()}}})
	}
	rev := t.Clone()
	rev.Walk(func(n, _ *rm.Node) {
		for i, j := 0, len(n.Children)-1; i < j; i, j = i+1, j-1 {
			n.Children[i], n.Children[j] = n.Children[j], n.Children[i]
		}
	})
	add("child-order", rev)
	// one node at a time
	var inner []int
	idx := 0
	t.Walk(func(n, _ *rm.Node) {
		if !n.IsTip() {
			inner = append(inner, idx)
		}
		idx++
	})
	for _, target := range inner {
		nc := len(g.adj[target])
		if target != 0 {
			nc--
		}
		apply := func(p []int) {
			c := t.Clone()
			i := 0
			c.Walk(func(n, _ *rm.Node) {
				if i == target {
					c09permute(n, p)
				}
				i++
			})
			add("child-order", c)
		}
		if nc <= 4 {
			first := true
			enum.Permutations(nc, func(p []int) {
				if first { // identity
					first = false
					return
				}
				apply(append([]int(nil), p...))
			})
		} else {
			for r := 1; r < nc; r++ {
				p := make([]int, nc)
				for i := range p {
					p[i] = (i + r) % nc
				}
				apply(p)
			}
		}
	}
	return out
}

// c09lengths gives every branch of the canonical tree a dyadic length that depends on its position and on the
// slot of the collection (so that copies of one topology in different slots have different lengths).
func c09lengths(t *rm.Tree, slot int) *rm.Tree {
	c := t.Clone()
	p := 0
	c.Walk(func(n, parent *rm.Node) {
		if parent != nil {
			n.HasLen, n.Len = true, float64(1+(3*p+5*slot)%7)/8
		}
		p++
	})
	return c
}

// ---------------------------------------------------------------------------------------------------------
// execution on the real code

type c09obs struct {
	crash string // verdict if the execution did not complete
	site  string
	err   string // error returned by Consensus
	bad   string // output not usable
	txt   string
	names []string
	sm    map[rm.Split]rm.BranchInfo
}

// c09exec feeds the texts (errPos > 0: an error record is put in front of tree errPos-1, errPos == len+1: at the end).
func c09exec(texts []string, cutoff float64, errPos int) *c09obs {
	o := &c09obs{}
	r := guard(func() {
		ch := make(chan tree.Trees, len(texts)+2)
		id := 0
		for i, s := range texts {
			if errPos == i+1 {
				mcrt.Send(ch, tree.Trees{Id: id, Err: errors.New("c09: erroneous tree record")})
				id++
			}
			mcrt.Send(ch, tree.Trees{Tree: gtMustParse(s), Id: id})
			id++
		}
		if errPos == len(texts)+1 {
			mcrt.Send(ch, tree.Trees{Id: id, Err: errors.New("c09: erroneous tree record")})
		}
		mcrt.Close(ch)
		res, err := tree.Consensus(ch, cutoff)
		if err != nil {
			o.err = err.Error()
			if o.err == "" {
				o.err = "(empty error text)"
			}
			return
		}
		if res == nil {
			o.bad = "nil tree and nil error"
			return
		}
		m, txt, perr := modelOf(res)
		o.txt = txt
		if perr != nil {
			o.bad = "result not readable: " + perr.Error()
			return
		}
		if sc := m.SingleChildNodes(); sc > 0 {
			o.bad = fmt.Sprintf("%d inner nodes with a single child", sc)
			return
		}
		seen := map[string]bool{}
		for _, tp := range m.Tips() {
			if seen[tp.Name] {
				o.bad = "tip name twice: " + tp.Name
				return
			}
			seen[tp.Name] = true
		}
		o.sm, o.names = m.SplitMap()
	})
	if crashed(r) {
		o.crash, o.site = verdictStr(r), crashSite(r)
	}
	return o
}

// ---------------------------------------------------------------------------------------------------------
// reference: naive frequency table

type c09agg struct {
	count  int     // trees containing the bipartition
	sum    float64 // sum of its lengths in these trees
	rootOf int     // rooted inputs in which it is the bipartition at the root
}

type c09ref struct {
	names   []string
	tab     map[rm.Split]*c09agg
	rooted  int // rooted inputs
	sameTax bool
	nonbin  int
}

func c09table(models []*rm.Tree) *c09ref {
	r := &c09ref{tab: map[rm.Split]*c09agg{}, sameTax: true}
	for i, m := range models {
		sm, names := m.SplitMap()
		if i == 0 {
			r.names = names
		} else if strings.Join(names, "\x00") != strings.Join(r.names, "\x00") {
			r.sameTax = false
			return r
		}
		if m.Rooted() {
			r.rooted++
		}
		if len(sm) < 2*len(names)-3 {
			r.nonbin++
		}
		for s, bi := range sm {
			a := r.tab[s]
			if a == nil {
				a = &c09agg{}
				r.tab[s] = a
			}
			a.count++
			a.sum += bi.Len
			if bi.Root {
				a.rootOf++
			}
		}
	}
	return r
}

func c09close(a, b float64) bool {
	return a == b || math.Abs(a-b) <= 1e-12*math.Max(1, math.Max(math.Abs(a), math.Abs(b)))
}

func c09sortedSplits(a map[rm.Split]*c09agg, b map[rm.Split]rm.BranchInfo) []rm.Split {
	set := map[rm.Split]bool{}
	for s := range a {
		set[s] = true
	}
	for s := range b {
		set[s] = true
	}
	out := make([]rm.Split, 0, len(set))
	for s := range set {
		out = append(out, s)
	}
	sort.Slice(out, func(i, j int) bool { return out[i] < out[j] })
	return out
}

// c09side names the smaller side of a bipartition.
func c09side(s rm.Split, names []string) string {
	n := len(names)
	if 2*s.Count() > n {
		s = (rm.Split(1)<<uint(n) - 1) &^ s
	}
	return strings.Join(s.Names(names), ",")
}

func c09cnt(c *Ctx, name string) {
	if c != nil {
		c.Count(name, 1)
	}
}

// c09judge compares the observed consensus with the frequency table. Counters are only touched when count is set.
func c09judge(ref *c09ref, k int, cutoff float64, o *c09obs, c *Ctx) (string, string) {
	n := len(ref.names)
	input := "unrooted-input"
	if ref.rooted > 0 {
		input = "rooted-input"
	}
	if o.err != "" {
		return "C09/consensus/unexpected-error/" + input, "Consensus returned the error " + strconv.Quote(o.err)
	}
	if o.bad != "" {
		return "C09/consensus/malformed-output/" + input, o.bad + " in " + o.txt
	}
	if strings.Join(o.names, "\x00") != strings.Join(ref.names, "\x00") {
		return "C09/consensus/taxa-changed/" + input, fmt.Sprintf("result %s has the tips %v, the inputs %v", o.txt, o.names, ref.names)
	}
	rcut := new(big.Rat).SetFloat64(cutoff)
	for _, s := range c09sortedSplits(ref.tab, o.sm) {
		a := ref.tab[s]
		if a == nil {
			a = &c09agg{}
		}
		bi, present := o.sm[s]
		feat := input
		if a.rootOf > 0 {
			feat += "/root-split"
		}
		side := c09side(s, ref.names)
		if s.Trivial(n) {
			want := a.sum / float64(k)
			if !present || !bi.HasLen || !c09close(bi.Len, want) {
				return "C09/consensus/tip-length/" + feat, fmt.Sprintf("tip branch %s: length %v (present %v) in %s, mean over the %d trees is %v", side, bi.Len, bi.HasLen, o.txt, k, want)
			}
			c09cnt(c, "clause_tip_mean_length")
			continue
		}
		cmp := -1
		if a.count > 0 {
			cmp = big.NewRat(int64(a.count), int64(k)).Cmp(rcut)
		}
		freq := "freq<threshold"
		switch {
		case a.count == 0:
			freq = "freq=0"
		case a.count == k:
			freq = "freq=all"
		case cmp > 0:
			freq = "freq>threshold"
		case cmp == 0:
			freq = "freq=threshold"
		}
		must := a.count == k || cmp > 0
		// the cutoff is a float64: when the correctly rounded quotient count/k IS the cutoff although the exact
		// quotient is larger (0.6 vs 3/5, 0.666.. vs 2/3), "equal to the threshold" and "greater" are both defensible
		amb := a.count != k && cmp > 0 && float64(a.count)/float64(k) == cutoff
		switch {
		case amb:
			if present {
				c09cnt(c, "float_tie_kept")
			} else {
				c09cnt(c, "float_tie_dropped")
			}
		case must && !present:
			return "C09/consensus/missing-split/" + feat + "/" + freq, fmt.Sprintf("bipartition %s|rest is in %d of %d trees (cutoff %v) but not in the consensus %s", side, a.count, k, cutoff, o.txt)
		case !must && present:
			return "C09/consensus/extra-split/" + feat + "/" + freq, fmt.Sprintf("bipartition %s|rest is in %d of %d trees (cutoff %v) but in the consensus %s", side, a.count, k, cutoff, o.txt)
		case must && a.count == k && cmp <= 0:
			c09cnt(c, "clause_kept_in_every_tree_not_above_threshold")
		case must && a.count == k:
			c09cnt(c, "clause_kept_in_every_tree")
		case must:
			c09cnt(c, "clause_kept_above_threshold")
		case cmp == 0:
			c09cnt(c, "clause_dropped_equal_to_threshold")
		case a.count > 0:
			c09cnt(c, "clause_dropped_below_threshold")
		}
		if !present {
			continue
		}
		if bi.N != 1 && !bi.Root {
			return "C09/consensus/malformed-output/" + input, fmt.Sprintf("bipartition %s|rest is defined by %d branches of %s", side, bi.N, o.txt)
		}
		wantSup := float64(a.count) / float64(k)
		if !bi.HasSup || !c09close(bi.Sup, wantSup) {
			return "C09/consensus/wrong-support/" + feat + "/" + freq, fmt.Sprintf("bipartition %s|rest: support %v (present %v) in %s, it is in %d of %d trees", side, bi.Sup, bi.HasSup, o.txt, a.count, k)
		}
		c09cnt(c, "clause_support_is_frequency")
		wantLen := a.sum / float64(a.count)
		if !bi.HasLen || !c09close(bi.Len, wantLen) {
			return "C09/consensus/wrong-length/" + feat + "/" + freq, fmt.Sprintf("bipartition %s|rest: length %v (present %v) in %s, mean over the %d trees containing it is %v", side, bi.Len, bi.HasLen, o.txt, a.count, wantLen)
		}
		c09cnt(c, "clause_mean_length")
	}
	return "", ""
}

// c09same compares two observed results as split maps (invariance oracle).
func c09same(a, b *c09obs) (string, string) {
	if strings.Join(a.names, "\x00") != strings.Join(b.names, "\x00") {
		return "taxa", fmt.Sprintf("tips %v vs %v", a.names, b.names)
	}
	tmp := map[rm.Split]*c09agg{}
	for s := range a.sm {
		tmp[s] = nil
	}
	for _, s := range c09sortedSplits(tmp, b.sm) {
		x, okx := a.sm[s]
		y, oky := b.sm[s]
		side := c09side(s, a.names)
		if okx != oky {
			return "split-set", fmt.Sprintf("bipartition %s|rest present %v vs %v", side, okx, oky)
		}
		if x.HasSup != y.HasSup || (x.HasSup && !c09close(x.Sup, y.Sup)) {
			return "support", fmt.Sprintf("bipartition %s|rest support %v vs %v", side, x.Sup, y.Sup)
		}
		if x.HasLen != y.HasLen || (x.HasLen && !c09close(x.Len, y.Len)) {
			return "length", fmt.Sprintf("bipartition %s|rest length %v vs %v", side, x.Len, y.Len)
		}
	}
	return "", ""
}

// ---------------------------------------------------------------------------------------------------------
// cases

type c09case struct {
	Kind   string   `json:"kind"` // base | order | rooting | child-order | reject-threshold | reject-taxa | error-record | large
	Trees  []string `json:"trees"`
	Cutoff string   `json:"cutoff"`
	Base   []string `json:"base,omitempty"`    // the same collection in its base presentation (invariance oracle)
	ErrPos int      `json:"err_pos,omitempty"` // error record in front of tree ErrPos-1
	OddPos int      `json:"odd_pos,omitempty"` // reject-taxa: 1-based position of the tree on other taxa
}

func c09fmt(f float64) string { return strconv.FormatFloat(f, 'g', -1, 64) }

func c09models(texts []string) ([]*rm.Tree, error) {
	out := make([]*rm.Tree, len(texts))
	for i, s := range texts {
		m, err := rm.ParseNewick(s)
		if err != nil {
			return nil, err
		}
		out[i] = m
	}
	return out, nil
}

// c09check decides one case. baseObs (optional) is the already observed result of cs.Base with the same cutoff.
func c09check(cs c09case, c *Ctx, baseObs *c09obs) (string, string) {
	cutoff, err := strconv.ParseFloat(cs.Cutoff, 64)
	if err != nil {
		return "C09/harness/cutoff", err.Error()
	}
	models, err := c09models(cs.Trees)
	if err != nil {
		return "C09/harness/model", err.Error()
	}
	ref := c09table(models)
	o := c09exec(cs.Trees, cutoff, cs.ErrPos)
	desc := fmt.Sprintf("trees %v cutoff %s: ", cs.Trees, cs.Cutoff)
	if o.crash != "" {
		return "C09/crash/" + cs.Kind + "/" + o.site, desc + o.crash
	}
	switch cs.Kind {
	case "reject-threshold":
		if o.err == "" {
			side := "above-1"
			if cutoff < 0.5 {
				side = "below-0.5"
			}
			return "C09/reject/threshold-accepted/" + side, desc + "no error, result " + o.txt
		}
		c09cnt(c, "clause_threshold_rejected")
		return "", ""
	case "reject-taxa":
		if ref.sameTax {
			return "C09/harness/reject-taxa", "the collection has equal taxa"
		}
		if o.err == "" {
			how := "same-number"
			for _, m := range models {
				if len(m.Tips()) != len(models[0].Tips()) {
					how = "other-number"
				}
			}
			pos := "later"
			if cs.OddPos == 1 {
				pos = "first"
			}
			return "C09/reject/differing-taxa-accepted/" + how + "/odd-" + pos, desc + "no error, result " + o.txt
		}
		c09cnt(c, "clause_differing_taxa_rejected")
		return "", ""
	case "error-record":
		// the statement is silent about error records in the stream: only crash / hang (handled above) is demanded not to happen
		if o.err != "" {
			c09cnt(c, "error_record_reported")
		} else {
			c09cnt(c, "error_record_ignored")
		}
		return "", ""
	}
	if !ref.sameTax {
		return "C09/harness/taxa", "main case with differing taxa"
	}
	if k, w := c09judge(ref, len(models), cutoff, o, c); k != "" {
		return k, desc + w
	}
	if cs.Base != nil {
		if baseObs == nil {
			baseObs = c09exec(cs.Base, cutoff, 0)
		}
		if baseObs.crash == "" && baseObs.err == "" && baseObs.bad == "" {
			if k, w := c09same(baseObs, o); k != "" {
				return "C09/invariance/" + cs.Kind + "/" + k, desc + "result " + o.txt + " but for the base presentation " + fmt.Sprint(cs.Base) + " the result is " + baseObs.txt + ": " + w
			}
			c09cnt(c, "clause_invariant_"+cs.Kind)
		}
	}
	return "", ""
}

func c09outcome(o *c09obs) string {
	if o.err != "" {
		return "error"
	}
	var ss []uint64
	for s := range o.sm {
		ss = append(ss, uint64(s))
	}
	sort.Slice(ss, func(i, j int) bool { return ss[i] < ss[j] })
	return fmt.Sprint(len(o.names), ss)
}

// thresholds inside [0.5,1]: the cut points of every frequency c/k with k <= 5, values between them, and the
// float64 neighbours of the dyadic cut points
var c09cutoffs = []float64{0.5, math.Nextafter(0.5, 1), 0.6, 2.0 / 3, 0.7, math.Nextafter(0.75, 0), 0.75, 0.8, math.Nextafter(1, 0), 1}
var c09cutoffsOut = []float64{0.49, math.Nextafter(0.5, 0), 0, -1, math.Nextafter(1, 2), 1.01, 2, math.Inf(1), math.Inf(-1)}

// distinct permutations of a sequence with repetitions (first = identity)
func c09orders(seq []int, all bool) [][]int {
	var out [][]int
	seen := map[string]bool{}
	try := func(p []int) {
		key := ""
		for _, i := range p {
			key += fmt.Sprint(seq[i], ",")
		}
		if !seen[key] {
			seen[key] = true
			out = append(out, append([]int(nil), p...))
		}
	}
	k := len(seq)
	if all {
		// identity first
		id := make([]int, k)
		for i := range id {
			id[i] = i
		}
		try(id)
		enum.Permutations(k, try)
	} else {
		for r := 0; r < k; r++ {
			p := make([]int, k)
			for i := range p {
				p[i] = (i + r) % k
			}
			try(p)
		}
		p := make([]int, k)
		for i := range p {
			p[i] = k - 1 - i
		}
		try(p)
	}
	return out[1:]
}

type c09plan struct {
	n, maxSize int
	singles    int // collections up to this size: every single tree in every other presentation
	dev2       int // collections of size 3..dev2: two trees rooted at once (every pair of rooted presentations)
	allRooted  int // collections up to this size: every combination of rooted presentations of all trees
	diag       int // otherwise: this many diagonals through the rooted presentations (-1: all)
	orders     int // 0: none; 1: rotations and reversal of the order, one threshold per class; 2: every other order (<= 4 trees), whole menu
	cutoffs    []float64
}

// c09classes keeps, for collections of k trees, the first threshold of each behaviour class of the reference
// (same verdict for every count 1..k-1); used for the presentations other than base and order, which run the whole menu.
func c09classes(cut []float64, k int) []float64 {
	var out []float64
	seen := map[string]bool{}
	for _, f := range cut {
		r := new(big.Rat).SetFloat64(f)
		sig := ""
		for cnt := 1; cnt < k; cnt++ {
			cmp := big.NewRat(int64(cnt), int64(k)).Cmp(r)
			sig += fmt.Sprint(cmp, float64(cnt)/float64(k) == f, ";")
		}
		if !seen[sig] {
			seen[sig] = true
			out = append(out, f)
		}
	}
	return out
}

func init() {
	register(&Prop{
		ID: "C09",
		Rule: "collections = every multiset of size 1..m over ALL labelled unrooted trees on n taxa (multifurcating ones and the star included; 4, 26, 236 trees for n = 4, 5, 6), " +
			"every branch with a dyadic length depending on its position and on the slot, x every threshold of a menu inside [0.5,1] (all cut points c/k, values between them, float64 neighbours of 0.5, 0.75, 1); " +
			"each collection is fed in its base presentation, in every other order of its trees, with one tree (or two, or all) written differently: re-rooted at every other inner node, ROOTED on every branch (either side first), " +
			"children reversed / permuted at one node; oracle: naive frequency table over the model's bipartitions (exact rational comparison count/k > cutoff, == k always kept), support = count/k, length = mean over the containing trees, " +
			"tip branches mean length, result of every presentation == result of the base presentation (split -> value maps); rejection: thresholds outside [0.5,1] and collections with a renamed / extra / missing taxon must give an error; " +
			"non-trivial = the table has a bipartition that is in some but not all trees",
		Assumptions: []string{
			"gotree's Newick parser/writer (property C01) carry the inputs and the result",
			"a bipartition whose correctly rounded frequency count/k equals the float64 threshold while the exact quotient is larger (0.6 vs 3/5, 0.66.. vs 2/3) may be kept or dropped, but identically in every presentation",
			"NaN is not a threshold (not exercised)",
		},
		Require: []string{
			"clause_kept_above_threshold", "clause_kept_in_every_tree", "clause_kept_in_every_tree_not_above_threshold", "clause_dropped_equal_to_threshold", "clause_dropped_below_threshold",
			"clause_support_is_frequency", "clause_mean_length", "clause_tip_mean_length",
			"clause_invariant_order", "clause_invariant_rooting", "clause_invariant_child-order",
			"clause_threshold_rejected", "clause_differing_taxa_rejected",
			"rooted_inputs", "nonbinary_inputs", "one_tree_collections",
		},
		Run:    c09run,
		Replay: c09replay,
	})
}

func c09replay(c *Ctx, raw json.RawMessage) {
	var cs c09case
	if err := json.Unmarshal(raw, &cs); err != nil {
		fmt.Println("cannot read the case:", err)
		return
	}
	k, w := c09check(cs, nil, nil)
	fmt.Printf("case: %s\nresult: %s %s\n", raw, k, w)
	if k != "" {
		c.Violate(k, w, cs)
	}
}

func c09run(c *Ctx) {
	defer debug.SetGCPercent(debug.SetGCPercent(400)) // gotree allocates ~1.5 MB per Consensus call
	some := []float64{0.5, 0.75, 1}
	plans := []c09plan{
		{n: 4, maxSize: 5, singles: 5, dev2: 3, allRooted: 2, diag: -1, orders: 2, cutoffs: c09cutoffs},
		{n: 5, maxSize: 2, singles: 2, allRooted: 0, diag: -1, orders: 2, cutoffs: c09cutoffs},
		{n: 5, maxSize: 3, singles: 0, allRooted: 0, diag: 4, orders: 1, cutoffs: c09cutoffs},
		{n: 6, maxSize: 1, singles: 1, cutoffs: some},
		{n: 6, maxSize: 2, singles: 0, diag: 1, orders: 0, cutoffs: []float64{0.5, 1}},
	}
	if !c.Quick() {
		plans = []c09plan{
			{n: 4, maxSize: 6, singles: 6, dev2: 4, allRooted: 3, diag: -1, orders: 2, cutoffs: c09cutoffs},
			{n: 5, maxSize: 3, singles: 3, allRooted: 2, diag: -1, orders: 2, cutoffs: c09cutoffs},
			{n: 5, maxSize: 4, singles: 0, allRooted: 0, diag: -1, orders: 2, cutoffs: c09cutoffs},
			{n: 6, maxSize: 1, singles: 1, cutoffs: some},
			{n: 6, maxSize: 2, singles: 0, diag: -1, orders: 2, cutoffs: some},
		}
	}
	var bounds []string
	for _, pl := range plans {
		bounds = append(bounds, fmt.Sprintf("n=%d: collections up to %d trees, %d thresholds; every single re-presentation up to %d trees, all rooted combinations up to %d, two rooted of 3..%d, rooted diagonals %d, orders %v",
			pl.n, pl.maxSize, len(pl.cutoffs), pl.singles, pl.allRooted, pl.dev2, pl.diag, pl.orders))
	}
	c.Note("bounds", strings.Join(bounds, " | "))
	stop := false
	for pi, pl := range plans {
		labels := enum.Labels(pl.n, "")
		topos := enum.Unrooted(labels, false)
		// presentations per (topology, slot), built on demand
		cache := map[[2]int][]c09pres{}
		pres := func(ti, slot int) []c09pres {
			k := [2]int{ti, slot}
			if v, ok := cache[k]; ok {
				return v
			}
			v := c09presentations(c09lengths(topos[ti], slot))
			cache[k] = v
			return v
		}
		minSize := 1
		for _, q := range plans[:pi] {
			if q.n == pl.n && q.maxSize >= minSize {
				minSize = q.maxSize + 1
			}
		}
		for size := minSize; size <= pl.maxSize && !stop; size++ {
			enum.Multisets(len(topos), size, func(seq []int) {
				if stop {
					return
				}
				if c.TimeUp() {
					stop = true
					return
				}
				if !c.Mine() {
					return
				}
				c09collection(c, pl, seq, pres)
			})
		}
	}
	if !stop {
		c09rejections(c)
	}
	if !stop && c.Shard == 0 {
		c09large(c)
	}
}

// c09large: a few larger collections (plain executions, not exhaustive): caterpillars on 12, 25 and 40 taxa whose
// labels are shifted, rooted and unrooted, against the same frequency table.
func c09large(c *Ctx) {
	for _, n := range []int{12, 25, 40} {
		for _, rooted := range []int{0, 1, 2} { // no tree rooted, every other tree rooted, every tree rooted
			var texts []string
			for i, shift := range []int{0, 0, 0, 1, 2, 5} {
				// caterpillar over a permutation of the labels: position j carries label perm[j]
				perm := make([]int, n)
				for j := range perm {
					perm[j] = j
				}
				for j := 0; j+shift < n; j += 3 { // swap labels at distance shift in every third position
					perm[j], perm[j+shift] = perm[j+shift], perm[j]
				}
				lab := func(j int) *rm.Node {
					return &rm.Node{Name: fmt.Sprintf("t%02d", perm[j]), HasLen: true, Len: float64(1+(j+i)%7) / 8}
				}
				cur := &rm.Node{Children: []*rm.Node{lab(0), lab(1)}}
				for j := 2; j < n-1; j++ {
					cur.HasLen, cur.Len = true, float64(1+(2*j+3*i)%7)/8
					cur = &rm.Node{Children: []*rm.Node{cur, lab(j)}}
				}
				if rooted == 2 || (rooted == 1 && i%2 == 0) {
					cur.HasLen, cur.Len = true, 0.25
					cur = &rm.Node{Children: []*rm.Node{cur, lab(n - 1)}}
				} else {
					cur.Children = append(cur.Children, lab(n-1))
				}
				texts = append(texts, (&rm.Tree{Root: cur}).Newick())
			}
			for _, cutoff := range []float64{0.5, 0.6, 2.0 / 3, 0.75, 1} {
				cs := c09case{Kind: "large", Trees: texts, Cutoff: c09fmt(cutoff)}
				c.Count("large_instances", 1)
				c.Check(cs, func() (string, string) { return c09check(cs, c, nil) })
			}
		}
	}
}

// c09collection runs one collection (multiset of topologies) with all its thresholds and presentations.
func c09collection(c *Ctx, pl c09plan, seq []int, pres func(ti, slot int) []c09pres) {
	k := len(seq)
	ps := make([][]c09pres, k)
	base := make([]string, k)
	for i, ti := range seq {
		ps[i] = pres(ti, i)
		base[i] = ps[i][0].txt
	}
	if k == 1 {
		c.Count("one_tree_collections", 1)
	}
	rootedOf := func(i int) []int {
		var out []int
		for j, p := range ps[i] {
			if p.kind == "rooting" && p.m.Rooted() {
				out = append(out, j)
			}
		}
		return out
	}
	// non-trivial: some bipartition in some but not all trees
	{
		ms := make([]*rm.Tree, k)
		for i := range ms {
			ms[i] = ps[i][0].m
		}
		ref := c09table(ms)
		for _, a := range ref.tab {
			if a.count > 0 && a.count < k {
				c.Nontrivial(strings.Join(base, ""))
				break
			}
		}
		if ref.nonbin > 0 {
			c.Count("nonbinary_inputs", 1)
		}
	}
	inClass := map[float64]bool{}
	for _, f := range c09classes(pl.cutoffs, k) {
		inClass[f] = true
	}
	for _, cutoff := range pl.cutoffs {
		cf := c09fmt(cutoff)
		var baseObs *c09obs
		run := func(kind string, texts []string, nrooted int) {
			cs := c09case{Kind: kind, Trees: texts, Cutoff: cf}
			if kind != "base" {
				cs.Base = base
			}
			c.States++
			c.Transitions += int64(len(texts)) + 1
			c.Count(fmt.Sprintf("executions_n%d_k%d_%s", pl.n, k, kind), 1)
			if nrooted > 0 {
				c.Count("rooted_inputs", 1)
			}
			c.Check(cs, func() (string, string) { return c09check(cs, c, baseObs) })
		}
		// base (also produces the observation the other presentations are compared with)
		{
			cs := c09case{Kind: "base", Trees: base, Cutoff: cf}
			c.Count(fmt.Sprintf("executions_n%d_k%d_base", pl.n, k), 1)
			c.States++
			c.Transitions += int64(k) + 1
			c.Sample(cs)
			baseObs = c09exec(base, cutoff, 0)
			c.Outcome(c09outcome(baseObs))
			c.Check(cs, func() (string, string) { return c09check(cs, c, nil) })
		}
		// every other order of the trees
		for _, p := range c09orders(seq, k <= 4 && pl.orders == 2) {
			if pl.orders == 0 || (pl.orders == 1 && !inClass[cutoff]) {
				break
			}
			texts := make([]string, k)
			for i, j := range p {
				texts[i] = base[j]
			}
			run("order", texts, 0)
		}
		if !inClass[cutoff] {
			continue
		}
		// one tree written differently
		for i := 0; i < k && k <= pl.singles; i++ {
			for j := 1; j < len(ps[i]); j++ {
				texts := append([]string(nil), base...)
				texts[i] = ps[i][j].txt
				nr := 0
				if ps[i][j].m.Rooted() {
					nr = 1
				}
				run(ps[i][j].kind, texts, nr)
			}
		}
		// all trees rooted: a diagonal through the rooted presentations, or every combination
		if k >= 2 {
			ro := make([][]int, k)
			maxr := 0
			for i := range ro {
				ro[i] = rootedOf(i)
				if len(ro[i]) > maxr {
					maxr = len(ro[i])
				}
			}
			if k <= pl.allRooted {
				sel := make([]int, k)
				var rec func(i int)
				rec = func(i int) {
					if i == k {
						texts := make([]string, k)
						for x := range texts {
							texts[x] = ps[x][sel[x]].txt
						}
						run("rooting", texts, k)
						return
					}
					for _, j := range ro[i] {
						sel[i] = j
						rec(i + 1)
					}
				}
				rec(0)
			} else {
				nd := maxr
				if pl.diag >= 0 && pl.diag < nd {
					nd = pl.diag
				}
				for d := 0; d < nd; d++ {
					texts := make([]string, k)
					for x := range texts {
						texts[x] = ps[x][ro[x][(d+3*x)%len(ro[x])]].txt
					}
					run("rooting", texts, k)
				}
			}
			// two trees rooted, the others as they are
			if k >= 3 && k <= pl.dev2 {
				for a := 0; a < k; a++ {
					for b := a + 1; b < k; b++ {
						for _, ja := range ro[a] {
							for _, jb := range ro[b] {
								texts := append([]string(nil), base...)
								texts[a], texts[b] = ps[a][ja].txt, ps[b][jb].txt
								run("rooting", texts, 2)
							}
						}
					}
				}
			}
		}
	}
}

// c09rejections: thresholds outside [0.5,1], differing taxa, error records.
func c09rejections(c *Ctx) {
	for _, n := range []int{4, 5} {
		labels := enum.Labels(n, "")
		topos := enum.Unrooted(labels, false)
		var good [][]c09pres
		for ti, t := range topos {
			good = append(good, c09presentations(c09lengths(t, ti%3)))
		}
		rootedFirst := func(p []c09pres) string {
			for _, x := range p {
				if x.m.Rooted() {
					return x.txt
				}
			}
			return p[0].txt
		}
		// thresholds outside: every collection of size 1..2, unrooted and rooted
		for size := 1; size <= 2; size++ {
			enum.Multisets(len(topos), size, func(seq []int) {
				for _, cutoff := range c09cutoffsOut {
					for v := 0; v < 2; v++ {
						if !c.Mine() {
							continue
						}
						texts := make([]string, len(seq))
						for i, ti := range seq {
							texts[i] = good[ti][0].txt
							if v == 1 {
								texts[i] = rootedFirst(good[ti])
							}
						}
						cs := c09case{Kind: "reject-threshold", Trees: texts, Cutoff: c09fmt(cutoff)}
						c.States++
						c.Transitions += int64(len(texts)) + 1
						c.Check(cs, func() (string, string) { return c09check(cs, c, nil) })
					}
				}
			})
		}
		// differing taxa: the odd tree is a tree of the same set with one taxon renamed, a tree with one taxon more, one less
		var odd []string
		for ti, t := range topos {
			for x := 0; x < n; x++ {
				m := c09lengths(t, 1)
				for _, tp := range m.Tips() {
					if tp.Name == labels[x] {
						tp.Name = "Z"
					}
				}
				odd = append(odd, m.Newick())
				if ti%5 == 0 && x == 0 {
					ps := c09presentations(m)
					odd = append(odd, rootedFirst(ps))
				}
				// one taxon replaced by a second copy of another one (same number of tips, one taxon missing), unrooted and rooted
				if ti%3 == 0 {
					d := c09lengths(t, 1)
					for _, tp := range d.Tips() {
						if tp.Name == labels[x] {
							tp.Name = labels[(x+1)%n]
						}
					}
					odd = append(odd, d.Newick())
					if x%2 == 0 {
						odd = append(odd, rootedFirst(c09presentations(d)))
					}
				}
			}
		}
		for _, t := range enum.Unrooted(enum.Labels(n+1, ""), false) {
			odd = append(odd, c09lengths(t, 2).Newick())
		}
		if n > 4 {
			for _, t := range enum.Unrooted(enum.Labels(n-1, ""), false) {
				odd = append(odd, c09lengths(t, 2).Newick())
			}
		} else {
			odd = append(odd, "(A:1,B:1,C:1);", "(A:1,B:1,D:1);")
		}
		for gsize := 1; gsize <= 2; gsize++ {
			enum.Multisets(len(topos), gsize, func(seq []int) {
				for oi, o := range odd {
					if gsize == 2 && (oi+seq[0]+seq[1])%11 != 0 { // pairs of good trees: every 11th odd tree
						continue
					}
					for pos := 0; pos <= gsize; pos++ {
						if !c.Mine() {
							continue
						}
						var texts []string
						for i, ti := range seq {
							if i == pos {
								texts = append(texts, o)
							}
							texts = append(texts, good[ti][0].txt)
						}
						if pos == gsize {
							texts = append(texts, o)
						}
						cutoff := []float64{0.5, 0.75, 1}[(oi+pos)%3]
						cs := c09case{Kind: "reject-taxa", Trees: texts, Cutoff: c09fmt(cutoff), OddPos: pos + 1}
						c.States++
						c.Transitions += int64(len(texts)) + 1
						c.Check(cs, func() (string, string) { return c09check(cs, c, nil) })
					}
				}
			})
		}
		// error record in the stream at every position
		for size := 0; size <= 2; size++ {
			enum.Multisets(len(topos), size, func(seq []int) {
				for pos := 1; pos <= size+1; pos++ {
					if !c.Mine() {
						continue
					}
					texts := make([]string, len(seq))
					for i, ti := range seq {
						texts[i] = good[ti][0].txt
					}
					cs := c09case{Kind: "error-record", Trees: texts, Cutoff: "0.5", ErrPos: pos}
					c.States++
					c.Check(cs, func() (string, string) { return c09check(cs, c, nil) })
				}
			})
		}
	}
}

package main

import (
	"encoding/json"
	"fmt"
	"runtime/debug"
	"sort"
	"strings"

	"github.com/evolbioinfo/gotree/tree"

	"verif/harness/enum"
	rm "verif/harness/refmodel"
)

// C06: pruning (tree.RemoveTips, revert false/true) yields exactly the induced subtree.
//
// Reference side (never looks at gotree): the expected tip set is computed from the
// argument list by set operations; the expected splits are the restrictions of the tip
// sets below every branch of the model tree; the expected distances are the model's own
// path sums. The result of gotree is observed twice, by walking the public API and by
// reading its Newick text with the model's reader.

const c06Absent = "zz" // a name that is never a tip of an enumerated tree

type c06case struct {
	Tree   string   `json:"tree"`
	Names  []string `json:"names"`
	Revert bool     `json:"revert"`
	Index  int      `json:"index_mode"` // 0 never indexed (as parsed), 1 UpdateTipIndex before, 2 ReinitIndexes before
	Build  bool     `json:"via_constructors,omitempty"`
}

type c06sup struct {
	has bool
	v   float64
}

// c06ref is what the reference model expects after pruning.
type c06ref struct {
	names  []string // sorted tip names of the original tree
	keep   []string // sorted expected tip set
	inKeep map[string]bool
	splits map[rm.Split]int    // non-trivial restricted split -> number of original branches restricting to it
	sup    map[rm.Split]c06sup // support of the single source branch (only meaningful where splits[s]==1)
	dist   [][]float64         // expected tip-to-tip path sums, rows follow keep
}

// c06keepSet: the tip set requested by (names, revert). Names that are no tip of the tree are ignored.
func c06keepSet(m *rm.Tree, names []string, revert bool) map[string]bool {
	listed := map[string]bool{}
	for _, n := range names {
		listed[n] = true
	}
	keep := map[string]bool{}
	for _, tp := range m.Tips() {
		if listed[tp.Name] == revert {
			keep[tp.Name] = true
		}
	}
	return keep
}

// c06expect computes the induced subtree's observable content by definition.
func c06expect(m *rm.Tree, keep map[string]bool) *c06ref {
	r := &c06ref{names: m.TipNames(), inKeep: keep, splits: map[rm.Split]int{}, sup: map[rm.Split]c06sup{}}
	idx := rm.TipIndex(r.names)
	pos := make([]int, len(r.names))
	for i, nm := range r.names {
		pos[i] = -1
		if keep[nm] {
			pos[i] = len(r.keep)
			r.keep = append(r.keep, nm)
		}
	}
	nk := len(r.keep)
	below := m.Below(idx)
	m.Walk(func(nd, p *rm.Node) {
		if p == nil {
			return
		}
		var rs rm.Split
		for i := range r.names {
			if below[nd]&(1<<uint(i)) != 0 && pos[i] >= 0 {
				rs |= 1 << uint(pos[i])
			}
		}
		if rs == 0 || rs.Count() == nk {
			return
		}
		cs := rs.Canon(nk)
		if cs.Trivial(nk) {
			return
		}
		r.splits[cs]++
		r.sup[cs] = c06sup{nd.HasSup, nd.Sup}
	})
	d0, _ := m.DistMatrix(rm.MetricLen)
	r.dist = make([][]float64, nk)
	for i := range r.names {
		if pos[i] < 0 {
			continue
		}
		r.dist[pos[i]] = make([]float64, nk)
		for j := range r.names {
			if pos[j] >= 0 {
				r.dist[pos[i]][pos[j]] = d0[i][j]
			}
		}
	}
	return r
}

func c06splitStr(s rm.Split, names []string) string {
	return "{" + strings.Join(s.Names(names), ",") + "}"
}

// c06judge decides the structural clauses on one observation of the pruned tree.
func c06judge(ref *c06ref, r *rm.Tree) (clause, what string) {
	got := r.TipNames()
	if strings.Join(got, "\x00") != strings.Join(ref.keep, "\x00") {
		return "tipset", fmt.Sprintf("tips %q, requested %q", got, ref.keep)
	}
	single := ""
	r.Walk(func(n, p *rm.Node) {
		if len(n.Children) == 1 && single == "" {
			single = fmt.Sprintf("an inner node (root=%v) with the single child %q is left behind", p == nil, (&rm.Tree{Root: n.Children[0]}).Newick())
		}
	})
	if single != "" {
		return "single-child-node", single
	}
	nk := len(ref.keep)
	rsm, _ := r.SplitMap()
	var gotS, wantS []uint64
	for s := range rsm {
		if !s.Trivial(nk) {
			gotS = append(gotS, uint64(s))
		}
	}
	for s := range ref.splits {
		wantS = append(wantS, uint64(s))
	}
	sort.Slice(gotS, func(i, j int) bool { return gotS[i] < gotS[j] })
	sort.Slice(wantS, func(i, j int) bool { return wantS[i] < wantS[j] })
	for _, s := range wantS {
		if _, ok := rsm[rm.Split(s)]; !ok {
			return "splits", fmt.Sprintf("restricted split %s of the original is missing", c06splitStr(rm.Split(s), ref.keep))
		}
	}
	for _, s := range gotS {
		if ref.splits[rm.Split(s)] == 0 {
			return "splits", fmt.Sprintf("split %s is no restriction of a split of the original", c06splitStr(rm.Split(s), ref.keep))
		}
	}
	d, _ := r.DistMatrix(rm.MetricLen)
	for i := 0; i < nk; i++ {
		for j := i + 1; j < nk; j++ {
			if d[i][j] != ref.dist[i][j] {
				return "pathlength", fmt.Sprintf("path %s..%s has length %v, was %v", ref.keep[i], ref.keep[j], d[i][j], ref.dist[i][j])
			}
		}
	}
	// supports: only on branches that are the image of exactly one original branch (nothing merged)
	for _, s := range wantS {
		sp := rm.Split(s)
		bi := rsm[sp]
		if ref.splits[sp] != 1 || bi.N != 1 {
			continue
		}
		w := ref.sup[sp]
		if w.has != bi.HasSup || (w.has && !rm.SameFloat(w.v, bi.Sup)) {
			return "support-unmerged", fmt.Sprintf("branch %s, not merged with any other, had support %v/%v and now has %v/%v", c06splitStr(sp, ref.keep), w.has, w.v, bi.HasSup, bi.Sup)
		}
	}
	return "", ""
}

// c06lookups decides the clause "look-ups of tips by name reflect the new tip set".
func c06lookups(t *tree.Tree, tips []*tree.Node, ref *c06ref) (clause, what string) {
	universe := append(append([]string(nil), ref.names...), c06Absent)
	posK := map[string]int{}
	for i, nm := range ref.keep {
		posK[nm] = i
	}
	for _, nm := range universe {
		ok, err := t.ExistsTip(nm)
		if err != nil {
			return "lookup/ExistsTip", fmt.Sprintf("ExistsTip(%q) fails: %v", nm, err)
		}
		if ok != ref.inKeep[nm] {
			return "lookup/ExistsTip", fmt.Sprintf("ExistsTip(%q) = %v, tip set is %q", nm, ok, ref.keep)
		}
	}
	for _, nm := range universe {
		nd, err := t.TipNode(nm)
		if !ref.inKeep[nm] {
			if err == nil {
				return "lookup/TipNode", fmt.Sprintf("TipNode(%q) succeeds, tip set is %q", nm, ref.keep)
			}
			continue
		}
		if err != nil || nd == nil {
			return "lookup/TipNode", fmt.Sprintf("TipNode(%q) fails (%v), tip set is %q", nm, err, ref.keep)
		}
		in := false
		for _, tp := range tips {
			in = in || tp == nd
		}
		if nd.Name() != nm || !nd.Tip() || !in {
			return "lookup/TipNode", fmt.Sprintf("TipNode(%q) returns node %q (tip=%v, part of the tree=%v)", nm, nd.Name(), nd.Tip(), in)
		}
	}
	for _, nm := range universe {
		i, err := t.TipIndex(nm)
		if !ref.inKeep[nm] {
			if err == nil {
				return "lookup/TipIndex", fmt.Sprintf("TipIndex(%q) succeeds (%d), tip set is %q", nm, i, ref.keep)
			}
			continue
		}
		if err != nil {
			return "lookup/TipIndex", fmt.Sprintf("TipIndex(%q) fails (%v), tip set is %q", nm, err, ref.keep)
		}
		if i != posK[nm] {
			return "lookup/TipIndex", fmt.Sprintf("TipIndex(%q) = %d, position in the sorted tip names %q is %d", nm, i, ref.keep, posK[nm])
		}
	}
	n, err := t.NbTips()
	if err != nil || n != len(ref.keep) {
		return "lookup/NbTips", fmt.Sprintf("NbTips() = %d (%v), tree has %d tips", n, err, len(ref.keep))
	}
	return "", ""
}

// c06reindexed: after a following ReinitIndexes every branch's bitset / tip counts describe the tips below it.
func c06reindexed(t *tree.Tree, tips []*tree.Node, ref *c06ref) string {
	if err := t.ReinitIndexes(); err != nil {
		return "ReinitIndexes after pruning fails: " + err.Error()
	}
	nk := len(ref.keep)
	for _, e := range t.Edges() {
		var below []string
		var rec func(n, p *tree.Node)
		rec = func(n, p *tree.Node) {
			if n.Tip() {
				below = append(below, n.Name())
			}
			for _, nb := range n.Neigh() {
				if nb != p {
					rec(nb, n)
				}
			}
		}
		rec(e.Right(), e.Left())
		sort.Strings(below)
		bs := e.Bitset()
		if bs == nil || int(bs.Len()) != nk {
			return fmt.Sprintf("bitset missing or of width != %d after ReinitIndexes", nk)
		}
		var set []string
		for i, nm := range ref.keep {
			if bs.Test(uint(i)) {
				set = append(set, nm)
			}
		}
		if strings.Join(set, ",") != strings.Join(below, ",") || e.NumTipsRight() != len(below) || e.NumTipsLeft() != nk-len(below) {
			return fmt.Sprintf("branch above %q: bitset %q, %d/%d tips right/left after ReinitIndexes", below, set, e.NumTipsRight(), e.NumTipsLeft())
		}
	}
	if cl, what := c06lookups(t, tips, ref); cl != "" {
		return what
	}
	return ""
}

func c06op(revert bool) string {
	if revert {
		return "keep"
	}
	return "remove"
}

type c06info struct {
	result      string
	staleBitset bool
}

// c06exec runs one case on the real code and decides every clause.
func c06exec(m *rm.Tree, ref *c06ref, cs c06case, info *c06info) (key, what string) {
	op := "C06/" + c06op(cs.Revert) + "/"
	ctx := fmt.Sprintf("tree %s, RemoveTips(%v, %q), index mode %d: ", cs.Tree, cs.Revert, cs.Names, cs.Index)
	fail := func(clause, w string) { key, what = op+clause, ctx+w }
	r := guard(func() {
		var t *tree.Tree
		if cs.Build {
			t = build(m)
		} else {
			var err error
			if t, err = gtParse(cs.Tree); err != nil {
				fail("harness/parse", err.Error())
				return
			}
		}
		var err error
		switch cs.Index {
		case 1:
			err = t.UpdateTipIndex()
		case 2:
			err = t.ReinitIndexes()
		case 3:
			// every index built while the tips still had their old names, then each tip renamed through Node.SetName
			// (which refreshes no index): the tree IS a tree on the new names, the index a stale cache
			if err = t.ReinitIndexes(); err == nil {
				for _, tp := range t.Tips() {
					tp.SetName(strings.TrimPrefix(tp.Name(), "old_"))
				}
			}
		}
		if err != nil {
			fail("harness/index", err.Error())
			return
		}
		if err = t.RemoveTips(cs.Revert, cs.Names...); err != nil {
			fail("error", "returns the error "+err.Error())
			return
		}
		// (1) the public API walk
		o, err := observe(t)
		if err != nil {
			fail("malformed", "result cannot be walked: "+err.Error())
			return
		}
		if cl, w := c06judge(ref, o); cl != "" {
			fail(cl, w+" (result "+o.Newick()+")")
			return
		}
		// tip listings of the API
		tips := t.Tips()
		for li, l := range [][]string{c06names(tips), t.AllTipNames(), c06names(t.SortedTips())} {
			if li < 2 {
				sort.Strings(l)
			}
			if strings.Join(l, "\x00") != strings.Join(ref.keep, "\x00") {
				fail("tipset", fmt.Sprintf("%s gives %q, requested %q", []string{"Tips()", "AllTipNames()", "SortedTips()"}[li], l, ref.keep))
				return
			}
		}
		// (2) the Newick text
		m2, txt, err := modelOf(t)
		if err != nil {
			fail("unreadable-newick", fmt.Sprintf("%q: %v", txt, err))
			return
		}
		if info != nil {
			info.result = txt
		}
		if cl, w := c06judge(ref, m2); cl != "" {
			fail(cl+"/newick-text", w+" (text "+txt+")")
			return
		}
		// (3) look-ups, on trees whose name index existed before pruning
		if cs.Index > 0 {
			if cl, w := c06lookups(t, tips, ref); cl != "" {
				fail(cl, w)
				return
			}
			if info != nil && cs.Index == 2 {
				for _, e := range t.Edges() {
					if bs := e.Bitset(); bs != nil && int(bs.Len()) != len(ref.keep) {
						info.staleBitset = true
					}
				}
			}
		}
		// (4) a following ReinitIndexes gives indexes of the pruned tree
		if w := c06reindexed(t, tips, ref); w != "" {
			fail("reindex-after-prune", w)
			return
		}
	})
	if crashed(r) {
		return op + "crash/" + crashSite(r), ctx + verdictStr(r)
	}
	return key, what
}

func c06names(ns []*tree.Node) []string {
	out := make([]string, len(ns))
	for i, n := range ns {
		out[i] = n.Name()
	}
	return out
}

// ---- enumeration -------------------------------------------------------------

// c06decorate calls f with every decoration of the shape:
// profile 0 "weighted": branch i (pre-order) has length 2^i/8 (all path sums distinct), inner branch j support (j+1)/16;
// deviations: length absent | 0, support absent. profile 1 "bare": no lengths, no supports; deviation: length 1.
func c06decorate(sh *rm.Tree, maxDev int, f func(profile int, assign []int, mk func() *rm.Tree)) {
	for profile := 0; profile < 2; profile++ {
		profile := profile
		slots := func(t *rm.Tree) (menu []int, apply []func(a int)) {
			bi, ii := 0, 0
			t.Walk(func(n, p *rm.Node) {
				if p == nil {
					return
				}
				if profile == 0 {
					n.HasLen, n.Len = true, float64(uint64(1)<<uint(bi))/8
					menu = append(menu, 3)
					apply = append(apply, func(a int) {
						if a == 1 {
							n.HasLen, n.Len = false, 0
						} else {
							n.Len = 0
						}
					})
					if !n.IsTip() {
						n.HasSup, n.Sup = true, float64(ii+1)/16
						menu = append(menu, 2)
						apply = append(apply, func(a int) { n.HasSup, n.Sup = false, 0 })
						ii++
					}
				} else {
					menu = append(menu, 2)
					apply = append(apply, func(a int) { n.HasLen, n.Len = true, 1 })
				}
				bi++
			})
			return
		}
		menu, _ := slots(sh.Clone())
		enum.Deviations(menu, maxDev, func(assign []int) {
			f(profile, assign, func() *rm.Tree {
				m := sh.Clone()
				_, ap := slots(m)
				for i, a := range assign {
					if a != 0 {
						ap[i](a)
					}
				}
				return m
			})
		})
	}
}

type c06feat struct {
	rootTip, wholeClade, cherryBoth, rootedLosesChild, rootDissolved, merged, mergeAbsentPresent, multif, polytomyShrinks, splitBecomesTrivial bool
}

func c06features(m *rm.Tree, keep map[string]bool) c06feat {
	var f c06feat
	kept := map[*rm.Node]int{}
	var cnt func(n *rm.Node) int
	cnt = func(n *rm.Node) int {
		c := 0
		if n.IsTip() && keep[n.Name] {
			c = 1
		}
		for _, ch := range n.Children {
			c += cnt(ch)
		}
		kept[n] = c
		return c
	}
	total := cnt(m.Root)
	m.Walk(func(n, p *rm.Node) {
		if n.IsTip() {
			if p == m.Root && !keep[n.Name] {
				f.rootTip = true
			}
			return
		}
		surv := 0
		var last *rm.Node
		for _, ch := range n.Children {
			if kept[ch] > 0 {
				surv++
				last = ch
			}
		}
		if p != nil && kept[n] == 0 {
			f.wholeClade = true
		}
		if len(n.Children) == 2 && n.Children[0].IsTip() && n.Children[1].IsTip() && kept[n] == 0 {
			f.cherryBoth = true
		}
		if p == nil {
			if len(n.Children) == 2 && surv == 1 {
				f.rootedLosesChild = true
			}
			if len(n.Children) >= 3 && surv == 2 {
				f.rootDissolved = true
			}
			if len(n.Children) >= 4 {
				f.multif = true
			}
		} else {
			if len(n.Children) >= 3 {
				f.multif = true
				if surv >= 2 && surv < len(n.Children) {
					f.polytomyShrinks = true
				}
			}
			if surv == 1 {
				f.merged = true
				if n.HasLen != last.HasLen {
					f.mergeAbsentPresent = true
				}
			}
			if kept[n] >= 1 && (kept[n] == 1 || kept[n] == total-1 || kept[n] == total) {
				f.splitBecomesTrivial = true
			}
		}
	})
	return f
}

func c06count(c *Ctx, f c06feat, n int64) {
	for _, x := range []struct {
		b    bool
		name string
	}{{f.rootTip, "tip_attached_to_root_removed"}, {f.wholeClade, "whole_clade_removed"}, {f.cherryBoth, "both_children_of_cherry_removed"},
		{f.rootedLosesChild, "rooted_root_loses_child"}, {f.rootDissolved, "unrooted_root_left_with_two_children"}, {f.merged, "single_child_node_to_suppress"},
		{f.mergeAbsentPresent, "merge_absent_with_present_length"}, {f.multif, "multifurcating_tree"}, {f.polytomyShrinks, "polytomy_shrinks"},
		{f.splitBecomesTrivial, "inner_split_becomes_trivial"}} {
		if x.b {
			c.Count(x.name, n)
		}
	}
}

// c06lists: the argument lists for one (tree, kept set, op): exact; padded with an absent name; absent name first + reversed order.
func c06lists(tipsInOrder []string, keep map[string]bool, revert bool, variants int) [][]string {
	var base []string
	for _, nm := range tipsInOrder {
		if keep[nm] == revert {
			base = append(base, nm)
		}
	}
	out := [][]string{base}
	if variants >= 2 {
		out = append(out, append(append([]string(nil), base...), c06Absent))
	}
	if variants >= 3 {
		l := []string{c06Absent}
		for i := len(base) - 1; i >= 0; i-- {
			l = append(l, base[i])
		}
		out = append(out, l)
	}
	return out
}

// c06tree runs every kept set x op x index mode x list variant on one model tree.
func c06tree(c *Ctx, m *rm.Tree, idxModes []int, variants int, alsoBuild bool) {
	txt := m.Newick()
	c.Sample(txt)
	oldTxt := func() string {
		r := m.Clone()
		for _, tp := range r.Tips() {
			tp.Name = "old_" + tp.Name
		}
		return r.Newick()
	}()
	var order []string
	for _, tp := range m.Tips() {
		order = append(order, tp.Name)
	}
	n := len(order)
	hasSup := false
	m.Walk(func(nd, _ *rm.Node) { hasSup = hasSup || nd.HasSup })
	enum.Subsets(n, 3, n, func(mask uint64) {
		keep := map[string]bool{}
		for i, nm := range order {
			if mask&(1<<uint(i)) != 0 {
				keep[nm] = true
			}
		}
		ref := c06expect(m, keep)
		feat := c06features(m, keep)
		nremoved := n - len(ref.keep)
		for _, revert := range []bool{false, true} {
			c.States++
			lists := c06lists(order, keep, revert, variants)
			for _, im := range idxModes {
				baseHeld := true
				for vi, l := range lists {
					if !baseHeld {
						break // the padded variants would only repeat the finding
					}
					for b := 0; b < 2; b++ {
						if b == 1 && (!alsoBuild || vi > 0) {
							continue
						}
						cs := c06case{Tree: txt, Names: l, Revert: revert, Index: im, Build: b == 1}
						if im == 3 {
							if b == 1 {
								continue
							}
							cs.Tree = oldTxt
							c.Count("prune_after_setname_with_stale_index", 1)
						}
						var info c06info
						held := c.Check(cs, func() (string, string) {
							k, w := c06exec(m, ref, cs, &info)
							if k != "" && vi > 0 {
								k += "/with-absent-name"
							}
							return k, w
						})
						if vi == 0 && b == 0 && !held {
							baseHeld = false
						}
						c.Transitions++
						c06count(c, feat, 1)
						c.Count(c06op(revert)+"_executions", 1)
						c.Count(fmt.Sprintf("executions_%d_tips", n), 1)
						c.Count("tipset_checked", 1)
						c.Count("dist_pairs_checked", int64(len(ref.keep)*(len(ref.keep)-1)/2))
						c.Count("restricted_splits_checked", int64(len(ref.splits)))
						if hasSup {
							for s, k := range ref.splits {
								if k == 1 && s != 0 {
									c.Count("unmerged_supports_checked", 1)
								}
							}
						}
						if vi > 0 {
							c.Count("absent_name_in_list", 1)
						}
						if im > 0 {
							c.Count("lookups_after_indexed_prune", 1)
							if nremoved > 0 {
								c.Count("lookups_of_removed_tips", int64(nremoved))
							}
						} else {
							c.Count("never_indexed_prune", 1)
						}
						if info.staleBitset {
							c.Count("info:bitsets_keep_old_width_after_prune", 1)
						}
						if nremoved > 0 {
							c.Nontrivial(txt + "|" + strings.Join(ref.keep, ",") + "|" + c06op(revert))
						} else {
							c.Count("nothing_to_remove", 1)
						}
						c.Outcome(info.result)
					}
				}
			}
		}
	})
}

func c06relabel(m *rm.Tree) *rm.Tree {
	r := m.Clone()
	tips := r.Tips()
	for i, tp := range tips {
		tp.Name = fmt.Sprintf("t%d", len(tips)-i)
	}
	return r
}

// c06large: structured 64-tip instances (plain executions, not exhaustive).
func c06large(c *Ctx) {
	const n = 64
	name := func(i int) string { return fmt.Sprintf("s%02d", i) }
	cat := &rm.Node{Name: name(0), HasLen: true, Len: 0.5}
	for i := 1; i < n; i++ {
		cat = &rm.Node{Children: []*rm.Node{cat, {Name: name(i), HasLen: true, Len: float64(i%7+1) / 8}}, HasLen: true, Len: float64(i%5+1) / 4, HasSup: true, Sup: float64(i%8) / 8}
	}
	cat.HasLen, cat.HasSup = false, false
	var bal func(lo, hi int) *rm.Node
	bal = func(lo, hi int) *rm.Node {
		if hi-lo == 1 {
			return &rm.Node{Name: name(lo), HasLen: true, Len: float64(lo%4+1) / 8}
		}
		mid := (lo + hi) / 2
		return &rm.Node{Children: []*rm.Node{bal(lo, mid), bal(mid, hi)}, HasLen: true, Len: float64((hi-lo)%5+1) / 4, HasSup: true, Sup: 0.75}
	}
	b := bal(0, n)
	b.HasLen, b.HasSup = false, false
	star := &rm.Node{}
	for i := 0; i < n; i++ {
		star.Children = append(star.Children, &rm.Node{Name: name(i), HasLen: true, Len: float64(i) / 8})
	}
	for _, root := range []*rm.Node{cat, b, star} {
		m := &rm.Tree{Root: root}
		txt := m.Newick()
		var order []string
		for _, tp := range m.Tips() {
			order = append(order, tp.Name)
		}
		sels := []func(i int) bool{
			func(i int) bool { return i%2 == 0 },  // every other tip
			func(i int) bool { return i >= n/2 },  // one half (a whole clade of the balanced tree)
			func(i int) bool { return i < 3 },     // all but three
			func(i int) bool { return i%16 != 5 }, // a few scattered tips removed
			func(i int) bool { return i > 0 },     // the deepest / first tip only
		}
		for _, sel := range sels {
			keep := map[string]bool{}
			for i, nm := range order {
				if sel(i) {
					keep[nm] = true
				}
			}
			ref := c06expect(m, keep)
			for _, revert := range []bool{false, true} {
				for _, im := range []int{0, 2} {
					cs := c06case{Tree: txt, Names: c06lists(order, keep, revert, 1)[0], Revert: revert, Index: im}
					c.Count("large_instances", 1)
					c.Check(cs, func() (string, string) { return c06exec(m, ref, cs, nil) })
				}
			}
		}
	}
}

func init() {
	register(&Prop{
		ID: "C06",
		Rule: "every plane rooted multifurcating shape with n tips (root with 2 children = rooted, >= 3 = unrooted) x decorations " +
			"(profile 'weighted': branch i has length 2^i/8 so that all path sums differ, inner branch j has support (j+1)/16, with <= d deviations {length absent, length 0, support absent}; " +
			"profile 'bare': no lengths/supports, with <= d deviations {length 1}; plus the reversed tip labelling of the undeviated trees) " +
			"x every set of tips to keep of size >= 3 (= every removable subset incl. the empty one) x {RemoveTips(false, complement), RemoveTips(true, set)} " +
			"x name index {never built, UpdateTipIndex before, ReinitIndexes before} x argument list {exact, + absent name appended, absent name first + reversed order}; " +
			"bounds (n, d): quick (3,2) (4,2) full product, (5,2) without the reversed list, (6,1) index {never, ReinitIndexes} without the reversed list; " +
			"thorough (3,3) (4,3) (5,2) full product, (6,2) without the reversed list, (7,1) index {never, ReinitIndexes} without the reversed list; " +
			"trees parsed from Newick (and built through the public constructors for the undeviated ones); oracle on the API walk and on the Newick text: tip set, " +
			"split set = non-trivial restrictions, all pairwise path sums (exact, dyadic), no single-child node, support of unmerged branches, look-ups ExistsTip/TipNode/TipIndex/NbTips, ReinitIndexes afterwards; " +
			"non-trivial = at least one tip removed (distinct tree x kept set x operation); plus 64-tip caterpillar/balanced/star instances (not exhaustive); " +
			"plus the command `gotree prune` in-process on two-tree files for every shape with 4-5 (thorough 6) tips x every kept set x {tips on the command line, -r, tip file, comma-separated tip file -r, compared tree, compared tree -r}, each output line judged by the same oracle",
		Assumptions: []string{
			"reference Newick reader (refmodel) implements the writer's grammar (C01)",
			"lengths are dyadic (k/8, <= 2^11/8) so that every path sum is exact in float64; an absent length counts as 0 in path sums",
			"the look-up clause is only demanded when the name index had been built before pruning (DESIGN section 4)",
		},
		Require: []string{"remove_executions", "keep_executions", "tipset_checked", "dist_pairs_checked", "restricted_splits_checked", "unmerged_supports_checked",
			"absent_name_in_list", "prune_after_setname_with_stale_index", "lookups_after_indexed_prune", "lookups_of_removed_tips", "never_indexed_prune",
			"tip_attached_to_root_removed", "whole_clade_removed", "both_children_of_cherry_removed", "rooted_root_loses_child", "unrooted_root_left_with_two_children",
			"single_child_node_to_suppress", "merge_absent_with_present_length", "multifurcating_tree", "polytomy_shrinks", "inner_split_becomes_trivial", "large_instances", "cli_prune_args", "cli_prune_args-revert", "cli_prune_tipfile", "cli_prune_tipfile-commas-revert", "cli_prune_comp", "cli_prune_comp-revert", "cli_prune_tipfile-long-line-crlf"},
		Run: func(c *Ctx) {
			// gotree's Tips()/Edges()/Nodes() allocate 16 kB per call: collect less often (garbage is short-lived)
			defer debug.SetGCPercent(debug.SetGCPercent(1000))
			type plan struct {
				n, dev   int
				idxModes []int
				variants int
			}
			all := []int{0, 1, 2}
			plans := []plan{{3, 2, all, 3}, {4, 2, all, 3}, {5, 2, all, 2}, {6, 1, []int{0, 2}, 2}}
			if !c.Quick() {
				plans = []plan{{3, 3, all, 3}, {4, 3, all, 3}, {5, 2, all, 3}, {6, 2, all, 2}, {7, 1, []int{0, 2}, 2}}
			}
			for _, pl := range plans {
				for _, sh := range enum.Shapes(pl.n, "t") {
					if c.TimeUp() {
						return
					}
					c06decorate(sh, pl.dev, func(profile int, assign []int, mk func() *rm.Tree) {
						if !c.Mine() {
							return
						}
						ndev := 0
						for _, a := range assign {
							if a != 0 {
								ndev++
							}
						}
						m := mk()
						modes := pl.idxModes
						if ndev == 0 {
							modes = append(append([]int{}, modes...), 3)
						}
						c06tree(c, m, modes, pl.variants, ndev == 0)
						if ndev == 0 {
							c06tree(c, c06relabel(m), pl.idxModes, 1, false)
						}
					})
				}
			}
			if c.Shard == 0 {
				c06large(c)
			}
			// the command: `gotree prune` with tips on the command line, a tip file, a compared tree, --revert
			c06cli(c)
		},
		Replay: func(c *Ctx, raw json.RawMessage) {
			var cs c06case
			if err := json.Unmarshal(raw, &cs); err != nil {
				fmt.Println("bad replay data:", err)
				return
			}
			m, err := rm.ParseNewick(cs.Tree)
			if err != nil {
				fmt.Println("cannot re-read model:", err)
				return
			}
			if cs.Index == 3 {
				for _, tp := range m.Tips() {
					tp.Name = strings.TrimPrefix(tp.Name, "old_")
				}
			}
			ref := c06expect(m, c06keepSet(m, cs.Names, cs.Revert))
			var info c06info
			k, w := c06exec(m, ref, cs, &info)
			fmt.Printf("tree: %s\nRemoveTips(%v, %q) index mode %d\nexpected tips: %q\nresult: %s\nverdict: %s %s\n", cs.Tree, cs.Revert, cs.Names, cs.Index, ref.keep, info.result, k, w)
			if k != "" {
				c.Violate(k, w, cs)
			}
		},
	})
}

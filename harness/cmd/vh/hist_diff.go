package main

import (
	"fmt"
	"sort"
	"strings"

	"github.com/evolbioinfo/gotree/mcrt"
	"github.com/evolbioinfo/gotree/support"
	"github.com/evolbioinfo/gotree/tree"

	rm "verif/harness/refmodel"
)

// Trees with a history as INPUT of the collection functions: a tree whose indexes were built and whose tips were then
// renamed so that the alphabetical ranks change (Rename only refreshes the name index) is still a tree on those taxa.
// Compare / CompareWeighted / Consensus / FBP / TBE must give, on such an object, what they give on a fresh parse of its
// own Newick text (the fresh-parse behaviour is what the main families of C08, C09, C10 decide against the model).

type histCase struct {
	Marker string   `json:"history_diff"`
	Kind   int      `json:"history_kind"`
	Trees  []string `json:"trees"`
	Param  string   `json:"call"`
}

// histKind selects the history given to a tree before it is used:
//
//	0: parse, build every index, swap the names of the alphabetically first and last tips (Rename refreshes the name index only)
//	1: parse, build every index, re-root on the last inner node (branch ids no longer follow the traversal order)
//	2: parse the tree with two more tips, build every index on those seven taxa, remove the two tips again
var histKind = 0

var histKindNames = []string{"indexed then tips renamed", "indexed then re-rooted", "indexed on seven taxa then pruned to five"}

func histTree(txt string) *tree.Tree {
	switch histKind {
	case 1:
		t := gtMustParse(txt)
		if err := t.ReinitIndexes(); err != nil {
			panic(err)
		}
		var last *tree.Node
		for _, n := range t.Nodes() {
			if !n.Tip() && n != t.Root() {
				last = n
			}
		}
		if last != nil {
			if err := t.Reroot(last); err != nil {
				panic(err)
			}
		}
		return t
	case 2:
		t := gtMustParse("(" + strings.TrimSuffix(strings.TrimSpace(txt), ";") + ":0.5,Y1:1,Y2:2);")
		if err := t.ReinitIndexes(); err != nil {
			panic(err)
		}
		if err := t.RemoveTips(false, "Y1", "Y2"); err != nil {
			panic(err)
		}
		return t
	}
	t := gtMustParse(txt)
	if err := t.ReinitIndexes(); err != nil {
		panic(err)
	}
	names := t.AllTipNames()
	sort.Strings(names)
	a, z := names[0], names[len(names)-1]
	if err := t.Rename(map[string]string{a: z, z: a}); err != nil {
		panic(err)
	}
	return t
}

func histNote(what string) string {
	if what == "" {
		return ""
	}
	return "[history: " + histKindNames[histKind] + "] " + what
}

// histKinds runs a family once per kind of history.
func histKinds(f func(c *Ctx)) func(c *Ctx) {
	return func(c *Ctx) {
		for k := range histKindNames {
			histKind = k
			f(c)
			c.Count(fmt.Sprintf("history_kind_%d", k), 1)
		}
		histKind = 0
	}
}

func histSplitDesc(txt string) string {
	m, err := rm.ParseNewick(strings.TrimSpace(txt))
	if err != nil {
		return "unreadable:" + txt
	}
	sm, names := m.SplitMap()
	var ks []string
	for s, bi := range sm {
		ks = append(ks, fmt.Sprintf("%v len=%v/%v sup=%v/%v", s.Names(names), bi.HasLen, bi.Len, bi.HasSup, bi.Sup))
	}
	sort.Strings(ks)
	return strings.Join(ks, ";")
}

func histRunC08(c *Ctx) {
	pool := cliDiffPool5()
	step := 5
	if !c.Quick() {
		step = 2
	}
	for i := 0; i < len(pool); i += step {
		for j := 1; j < len(pool); j += step + 1 {
			for _, tips := range []bool{false, true} {
				if c.TimeUp() {
					return
				}
				if !c.Mine() {
					continue
				}
				ri, cj, tips := pool[i], pool[j], tips
				c.Check(histCase{Kind: histKind, Marker: "compare", Trees: []string{ri, cj}, Param: fmt.Sprintf("Compare/CompareWeighted(ref indexed then renamed, tips=%v)", tips)}, func() (string, string) {
					var key, what string
					r := mcrt.Run(mcrt.Config{NoSched: true, Fuel: 50_000_000}, func() {
						run := func(ref *tree.Tree) (string, string) {
							st, err := tree.Compare(ref, feed([]*tree.Tree{gtMustParse(cj), gtMustParse(ri)}), tips, false, 1)
							if err != nil {
								return "error", ""
							}
							var a []string
							for {
								s, ok := mcrt.Recv2(st)
								if !ok {
									break
								}
								a = append(a, fmt.Sprintf("%d:%d/%d/%d/%v/%v", s.Id, s.Tree1, s.Common, s.Tree2, s.Sametree, s.Err != nil))
							}
							wt, err := tree.CompareWeighted(ref, feed([]*tree.Tree{gtMustParse(cj), gtMustParse(ri)}), tips, false, 1)
							if err != nil {
								return strings.Join(a, " "), "error"
							}
							var b []string
							for {
								s, ok := mcrt.Recv2(wt)
								if !ok {
									break
								}
								x := append([]float64{}, s.Tree1...)
								y := append([]float64{}, s.Tree2...)
								z := append([]float64{}, s.Common...)
								sort.Float64s(x)
								sort.Float64s(y)
								sort.Float64s(z)
								b = append(b, fmt.Sprintf("%d:%v/%v/%v/%v/%v", s.Id, x, y, z, s.Sametree, s.Err != nil))
							}
							return strings.Join(a, " "), strings.Join(b, " ")
						}
						h := histTree(ri)
						text := h.Newick()
						hc, hw := run(h)
						fc, fw := run(gtMustParse(text))
						if hc != fc {
							key, what = "C08/history/compare-after-rename", fmt.Sprintf("reference %s (indexed, then tips renamed) vs [%s, %s]: Compare gives %s, on a fresh parse of the same text %s", text, cj, ri, hc, fc)
						} else if hw != fw {
							key, what = "C08/history/weighted-after-rename", fmt.Sprintf("reference %s (indexed, then tips renamed): CompareWeighted gives %s, on a fresh parse %s", text, hw, fw)
						}
					})
					if crashed(r) {
						return "C08/history/crash/" + crashSite(r), verdictStr(r)
					}
					return key, histNote(what)
				})
				c.States++
				c.Count("history_compare_cases", 1)
			}
		}
	}
}

func histRunC09(c *Ctx) {
	pool := cliDiffPool5()
	step := 5
	if !c.Quick() {
		step = 2
	}
	for i := 0; i < len(pool); i += step {
		for j := 1; j < len(pool); j += step + 2 {
			for _, f := range []float64{0.5, 1} {
				if c.TimeUp() {
					return
				}
				if !c.Mine() {
					continue
				}
				a, b, f := pool[i], pool[j], f
				c.Check(histCase{Kind: histKind, Marker: "consensus", Trees: []string{a, b}, Param: fmt.Sprintf("Consensus(indexed-then-renamed trees, %v)", f)}, func() (string, string) {
					var key, what string
					r := mcrt.Run(mcrt.Config{NoSched: true, Fuel: 50_000_000}, func() {
						// the renamed tree comes second: the first tree fixes the taxa, the second must be re-indexed
						h1, h2, h3 := gtMustParse(b), histTree(a), histTree(a)
						texts := []string{h1.Newick(), h2.Newick(), h3.Newick()}
						ch, eh := tree.Consensus(feed([]*tree.Tree{h1, h2, h3}), f)
						cf, ef := tree.Consensus(feed([]*tree.Tree{gtMustParse(texts[0]), gtMustParse(texts[1]), gtMustParse(texts[2])}), f)
						if (eh != nil) != (ef != nil) {
							key, what = "C09/history/consensus-after-rename/error", fmt.Sprintf("trees %q: error with the history %v, on fresh parses %v", texts, eh, ef)
							return
						}
						if eh == nil && histSplitDesc(ch.Newick()) != histSplitDesc(cf.Newick()) {
							key, what = "C09/history/consensus-after-rename", fmt.Sprintf("trees %q (second and third indexed, then tips renamed): consensus %s, on fresh parses of the same texts %s", texts, ch.Newick(), cf.Newick())
						}
					})
					if crashed(r) {
						return "C09/history/crash/" + crashSite(r), verdictStr(r)
					}
					return key, histNote(what)
				})
				c.States++
				c.Count("history_consensus_cases", 1)
			}
		}
	}
}

// histRunC10: supports with a reference tree that has a history, bootstrap trees that have one, and a Supporter object
// that already served an earlier computation.
func histRunC10(c *Ctx) {
	pool := cliDiffPool5()
	step := 5
	if !c.Quick() {
		step = 2
	}
	for i := 0; i < len(pool); i += step {
		for j := 1; j < len(pool); j += step + 2 {
			if c.TimeUp() {
				return
			}
			if !c.Mine() {
				continue
			}
			a, b := pool[i], pool[j]
			c.Check(histCase{Kind: histKind, Marker: "support", Trees: []string{a, b}, Param: "FBP then TBE with one Supporter; reference / bootstrap trees indexed then renamed"}, func() (string, string) {
				var key, what string
				r := mcrt.Run(mcrt.Config{NoSched: true, Fuel: 50_000_000, NumCPU: 1}, func() {
					boots := func(hist bool) []*tree.Tree {
						if hist {
							return []*tree.Tree{gtMustParse(histTree(b).Newick()), histTree(a), gtMustParse(b)}
						}
						return []*tree.Tree{gtMustParse(histTree(b).Newick()), gtMustParse(histTree(a).Newick()), gtMustParse(b)}
					}
					refText := histTree(a).Newick()
					// (1) everything fresh, no Supporter
					r1 := gtMustParse(refText)
					e1 := support.FBP(r1, feed(boots(false)), 1, nil)
					r2 := gtMustParse(refText)
					r2.ReinitIndexes()
					_, e2 := support.TBE(r2, feed(boots(false)), 1, false, false, false, 0.3, nil, nil)
					// (1b) bootstrap records that all carry the identifier 0 (a channel filled by hand): the supports are the same
					r0 := gtMustParse(refText)
					ch0 := make(chan tree.Trees, 4)
					for _, bt := range boots(false) {
						mcrt.Send(ch0, tree.Trees{Tree: bt})
					}
					mcrt.Close(ch0)
					if e0 := support.FBP(r0, ch0, 1, nil); (e0 != nil) != (e1 != nil) || (e0 == nil && histSplitDesc(r0.Newick()) != histSplitDesc(r1.Newick())) {
						key, what = "C10/history/fbp-records-without-identifiers", fmt.Sprintf("FBP with bootstrap records numbered 0,1,2: %s (%v); with records that all carry the identifier 0: %s (%v)", r1.Newick(), e1, r0.Newick(), e0)
						return
					}
					// (2) histories, one Supporter used twice
					sup := support.NewSupporter()
					h1 := histTree(a)
					f1 := support.FBP(h1, feed(boots(true)), 1, sup)
					h2 := histTree(a)
					h2.ReinitIndexes()
					_, f2 := support.TBE(h2, feed(boots(true)), 1, false, false, false, 0.3, nil, sup)
					if (e1 != nil) != (f1 != nil) || (e2 != nil) != (f2 != nil) {
						key, what = "C10/history/error", fmt.Sprintf("ref %s: errors fresh %v/%v, with history and reused Supporter %v/%v", refText, e1, e2, f1, f2)
						return
					}
					if e1 == nil && histSplitDesc(r1.Newick()) != histSplitDesc(h1.Newick()) {
						key, what = "C10/history/fbp", fmt.Sprintf("FBP: fresh %s, with history %s", r1.Newick(), h1.Newick())
						return
					}
					if e2 == nil && histSplitDesc(r2.Newick()) != histSplitDesc(h2.Newick()) {
						key, what = "C10/history/tbe-reused-supporter", fmt.Sprintf("TBE: fresh objects and no Supporter %s; trees with a history and the Supporter of the previous FBP run %s", r2.Newick(), h2.Newick())
					}
				})
				if crashed(r) {
					return "C10/history/crash/" + crashSite(r), verdictStr(r)
				}
				return key, histNote(what)
			})
			c.States++
			c.Count("history_support_cases", 1)
		}
	}
}

func init() {
	addExtra("C08", histKinds(histRunC08))
	addExtra("C09", histKinds(histRunC09))
	addExtra("C10", histKinds(histRunC10))
	extraRequire["C08"] = append(extraRequire["C08"], "history_compare_cases")
	extraRequire["C09"] = append(extraRequire["C09"], "history_consensus_cases")
	extraRequire["C10"] = append(extraRequire["C10"], "history_support_cases")
}

package main

import (
	"encoding/json"
	"fmt"
	"math/big"
	realrand "math/rand"
	"os"
	"runtime/debug"
	"sort"
	"strings"
	"time"

	"github.com/evolbioinfo/gotree/mcrt"
	"github.com/evolbioinfo/gotree/tree"

	"verif/harness/enum"
	rm "verif/harness/refmodel"
)

// C16: tree generators return valid trees of the requested size and shape.
//
// "All seeds" is decided by enumerating ALL answer sequences of rand.Intn (every
// topology-deciding draw) and, for rand.Float64 (branch lengths through
// gostats.Exp), the default 0.5 plus every single deviation to the extremes 0 and
// 1-2^-53. Every execution of the real generator is judged by an oracle that
// knows nothing of gotree: definitions on the reference model of the tree
// obtained by walking the public API (and, for the command line, by the model's
// own reader on the printed text).

type c16case struct {
	Kind    string `json:"kind"` // lib | cli | topo | topo-cli | big | selftest
	Gen     string `json:"gen"`  // uniform | yule | caterpillar | balanced | star | topologies
	N       int    `json:"n"`    // requested number of tips (depth for balanced)
	Rooted  bool   `json:"rooted"`
	Named   bool   `json:"named,omitempty"`  // topologies: explicit tip names
	NTrees  int    `json:"ntrees,omitempty"` // cli: -n
	Out     bool   `json:"out,omitempty"`    // cli: -o file instead of the standard output
	Bound   int    `json:"float_deviations"`
	Sub     int    `json:"sub"`
	NSub    int    `json:"nsub"`
	Choices []int  `json:"choices,omitempty"` // replay: the failing answer sequence
}

var c16ballast []byte

var c16floatMenu = []float64{0.5, 0, 1 - 1.0/(1<<53)}

const c16splitAt = 14

// ---- domain -------------------------------------------------------------------

// c16domain classifies a requested size against the documented minimum of the generator:
// "below" (an error is demanded), "degenerate" (the documented minimum itself where no
// binary tree of that size and rootedness exists: a tree or an error, no crash) or "valid".
func c16domain(gen string, n int, rooted bool) string {
	switch gen {
	case "uniform", "yule", "caterpillar":
		// "Cannot create an unrooted random binary tree with less than 2 tips" / "a rooted ... with less than 3 tips"
		if n < 2 || (rooted && n < 3) {
			return "below"
		}
		if n == 2 {
			return "degenerate" // an unrooted binary tree has >= 3 tips
		}
	case "balanced":
		// "Cannot create an random binary tree of depth < 1"
		if n < 1 {
			return "below"
		}
		if n == 1 && !rooted {
			return "degenerate" // 2 tips, unrooted
		}
	case "star", "starnames", "starfrom":
		// "Cannot create a star tree with less than 2 tips"
		if n < 2 {
			return "below"
		}
	case "topologies":
		// "... non rooted topologies with less than 3 tips" / "... rooted topologies with less than 2 tips"
		if (rooted && n < 2) || (!rooted && n < 3) {
			return "below"
		}
	}
	return "valid"
}

func c16tips(gen string, n int) int {
	if gen == "balanced" {
		if n < 0 {
			return 0
		}
		return 1 << uint(n)
	}
	return n
}

func c16isStarGen(gen string) bool { return gen == "star" || gen == "starnames" || gen == "starfrom" }

// names handed to StarTreeFromName / AllTopologies: not in alphabetical order, one with a blank
var c16namePool = []string{"b", "a", "d", "c", "z", "Tip1", "e", "x y", "f", "g", "h", "B", "k", "j", "i"}

func c16rootedStr(r bool) string {
	if r {
		return "rooted"
	}
	return "unrooted"
}

func c16key(cs c16case, clause string) string {
	g := cs.Gen
	if cs.Kind == "cli" || cs.Kind == "topo-cli" {
		g += "-cli"
	}
	k := "C16/" + g + "/" + clause
	if !c16isStarGen(cs.Gen) {
		k += "/" + c16rootedStr(cs.Rooted)
	}
	return k
}

func c16desc(cs c16case) string {
	s := fmt.Sprintf("%s(%d", cs.Gen, cs.N)
	if !c16isStarGen(cs.Gen) {
		s += fmt.Sprintf(",rooted=%v", cs.Rooted)
	}
	s += ")"
	if cs.Kind == "cli" || cs.Kind == "topo-cli" {
		s = "gotree " + strings.Join(c16cliArgs(cs), " ")
	}
	if len(cs.Choices) > 0 {
		s += fmt.Sprintf(" rng answers %v", cs.Choices)
	}
	return s
}

// ---- oracle on the model ------------------------------------------------------

// c16judgeModel decides every clause that speaks about the tree itself. lengths: demand a
// length >= 0 on every branch (random generators); it returns the violated clause or "".
func c16judgeModel(m *rm.Tree, gen string, n int, rooted bool, lengths bool) (string, string) {
	want := c16tips(gen, n)
	tips := m.Tips()
	if len(tips) != want {
		return "tips/count", fmt.Sprintf("%d tips, %d requested", len(tips), want)
	}
	seen := map[string]bool{}
	for _, tp := range tips {
		if tp.Name == "" {
			return "tips/unnamed", "a tip has no name"
		}
		if seen[tp.Name] {
			return "tips/duplicate-name", fmt.Sprintf("two tips are named %q", tp.Name)
		}
		seen[tp.Name] = true
	}
	if c16isStarGen(gen) {
		if len(m.Root.Children) != want {
			return "shape/star", fmt.Sprintf("the root has %d children, %d tips requested", len(m.Root.Children), want)
		}
		for _, c := range m.Root.Children {
			if !c.IsTip() {
				return "shape/star", "more than one inner node"
			}
		}
	} else {
		wantRoot := 3
		if rooted {
			wantRoot = 2
		}
		if len(m.Root.Children) != wantRoot {
			return "rootedness", fmt.Sprintf("the root has %d children, a %s binary tree has %d", len(m.Root.Children), c16rootedStr(rooted), wantRoot)
		}
		bad := ""
		m.Walk(func(nd, p *rm.Node) {
			if p != nil && !nd.IsTip() && len(nd.Children) != 2 && bad == "" {
				bad = fmt.Sprintf("an inner node has %d children", len(nd.Children))
			}
		})
		if bad != "" {
			return "binary", bad
		}
	}
	if lengths {
		clause, what := "", ""
		m.Walk(func(nd, p *rm.Node) {
			if p == nil || clause != "" {
				return
			}
			if !nd.HasLen {
				clause, what = "length/absent", fmt.Sprintf("the branch above %q has no length", c16label(nd))
			} else if !(nd.Len >= 0) {
				clause, what = "length/negative", fmt.Sprintf("the branch above %q has length %v", c16label(nd), nd.Len)
			}
		})
		if clause != "" {
			return clause, what
		}
	}
	switch gen {
	case "caterpillar":
		if !c16isCaterpillar(m, rooted) {
			return "shape/caterpillar", "the inner nodes do not form a single path (rooted: starting at the root)"
		}
	case "balanced":
		if !c16isBalanced(m, n, rooted) {
			return "shape/balanced", fmt.Sprintf("not the perfect binary tree of depth %d (unrooted: with its root suppressed)", n)
		}
	}
	return "", ""
}

func c16label(n *rm.Node) string {
	if n.IsTip() {
		return n.Name
	}
	var names []string
	(&rm.Tree{Root: n}).Walk(func(x, _ *rm.Node) {
		if x.IsTip() {
			names = append(names, x.Name)
		}
	})
	sort.Strings(names)
	if len(names) > 6 {
		names = append(names[:6], "...")
	}
	return "{" + strings.Join(names, ",") + "}"
}

// caterpillar: all inner nodes lie on one path; rooted (comb): that path starts at the root,
// i.e. every inner node has at most one inner child.
func c16isCaterpillar(m *rm.Tree, rooted bool) bool {
	ok := true
	m.Walk(func(nd, p *rm.Node) {
		if nd.IsTip() {
			return
		}
		inner := 0
		for _, c := range nd.Children {
			if !c.IsTip() {
				inner++
			}
		}
		if rooted {
			if inner > 1 {
				ok = false
			}
		} else {
			if p != nil {
				inner++
			}
			if inner > 2 {
				ok = false
			}
		}
	})
	return ok
}

// balanced: rooted = every tip at depth d below a root, every inner node two children;
// unrooted = some branch cuts the tree into two perfect binary trees of depth d-1 (brute force over the branches).
func c16isBalanced(m *rm.Tree, d int, rooted bool) bool {
	parent := map[*rm.Node]*rm.Node{}
	var nodes []*rm.Node
	m.Walk(func(nd, p *rm.Node) {
		parent[nd] = p
		nodes = append(nodes, nd)
	})
	var perfect func(x, from *rm.Node, d int) bool
	perfect = func(x, from *rm.Node, d int) bool {
		var others []*rm.Node
		for _, c := range x.Children {
			if c != from {
				others = append(others, c)
			}
		}
		if p := parent[x]; p != nil && p != from {
			others = append(others, p)
		}
		if d == 0 {
			return len(others) == 0
		}
		if len(others) != 2 {
			return false
		}
		return perfect(others[0], x, d-1) && perfect(others[1], x, d-1)
	}
	if rooted {
		return perfect(m.Root, nil, d)
	}
	for _, nd := range nodes {
		if p := parent[nd]; p != nil && perfect(nd, p, d-1) && perfect(p, nd, d-1) {
			return true
		}
	}
	return false
}

// ---- oracle on the gotree object ----------------------------------------------

// c16structure: the object is a tree as gotree defines it, through the public API only.
func c16structure(t *tree.Tree) (string, string) {
	root := t.Root()
	if root == nil {
		return "malformed/nil-root", "Root() is nil"
	}
	visited := map[*tree.Node]bool{}
	ntips := 0
	clause, what := "", ""
	fail := func(c, w string) {
		if clause == "" {
			clause, what = c, w
		}
	}
	var rec func(n, p *tree.Node, pe *tree.Edge)
	rec = func(n, p *tree.Node, pe *tree.Edge) {
		if visited[n] {
			fail("malformed/cycle", "a node is reached twice")
			return
		}
		visited[n] = true
		neigh, edges := n.Neigh(), n.Edges()
		if len(neigh) != len(edges) {
			fail("malformed/neigh-edges", fmt.Sprintf("node %q: %d neighbours, %d branches", n.Name(), len(neigh), len(edges)))
			return
		}
		if len(neigh) == 1 {
			ntips++
		}
		up := 0
		for i, nb := range neigh {
			e := edges[i]
			if e == nil || nb == nil {
				fail("malformed/nil", fmt.Sprintf("node %q has a nil neighbour or branch", n.Name()))
				return
			}
			if nb == p {
				up++
				if e != pe {
					fail("malformed/edge-identity", fmt.Sprintf("the branch between %q and its parent is not the same object at both ends", n.Name()))
				}
				continue
			}
			if e.Left() != n || e.Right() != nb {
				fail("malformed/orientation", fmt.Sprintf("branch %d of node %q: Left() is not the end nearer the root / Right() not the neighbour", i, n.Name()))
				return
			}
			rec(nb, n, e)
		}
		if p != nil && up != 1 {
			fail("malformed/parent", fmt.Sprintf("node %q lists its parent %d times", n.Name(), up))
		}
	}
	rec(root, nil, nil)
	if clause != "" {
		return clause, what
	}
	if k := len(t.Nodes()); k != len(visited) {
		return "malformed/nodes", fmt.Sprintf("Nodes() has %d entries, the walk %d", k, len(visited))
	}
	if k := len(t.Edges()); k != len(visited)-1 {
		return "malformed/edges", fmt.Sprintf("Edges() has %d entries, %d nodes", k, len(visited))
	}
	if k := len(t.Tips()); k != ntips {
		return "malformed/tips", fmt.Sprintf("Tips() has %d entries, %d nodes have one neighbour", k, ntips)
	}
	if k := len(t.TipEdges()); k != ntips {
		return "malformed/tipedges", fmt.Sprintf("TipEdges() has %d entries, %d tips", k, ntips)
	}
	return "", ""
}

type c16pair struct {
	e  *tree.Edge
	gn *tree.Node // lower end
	mn *rm.Node   // the same node in the model
}

// c16pairs walks the object in the order observe() does and pairs every branch with its model node.
func c16pairs(t *tree.Tree, m *rm.Tree) []c16pair {
	var out []c16pair
	var rec func(n, p *tree.Node, mn *rm.Node)
	rec = func(n, p *tree.Node, mn *rm.Node) {
		k := 0
		edges := n.Edges()
		for i, nb := range n.Neigh() {
			if nb == p {
				continue
			}
			c := mn.Children[k]
			k++
			out = append(out, c16pair{edges[i], nb, c})
			rec(nb, n, c)
		}
	}
	rec(t.Root(), nil, m.Root)
	return out
}

// c16indexDump: everything ReinitIndexes is documented to (re)build, as one string.
func c16indexDump(t *tree.Tree, pairs []c16pair) string {
	var sb strings.Builder
	d, err := t.Root().Depth()
	fmt.Fprintf(&sb, "root:%d,%v;", d, err != nil)
	for _, p := range pairs {
		td, terr := p.e.TopoDepth()
		d, derr := p.gn.Depth()
		fmt.Fprintf(&sb, "%s|%d|%d|%d,%v|%x|%d,%v", p.e.DumpBitSet(), p.e.NumTipsLeft(), p.e.NumTipsRight(), td, terr != nil, p.e.HashCode(), d, derr != nil)
		if p.gn.Tip() {
			i, ierr := t.TipIndex(p.gn.Name())
			fmt.Fprintf(&sb, "|%d,%v|%d", i, ierr != nil, p.gn.TipIndex())
		}
		sb.WriteByte(';')
	}
	return sb.String()
}

// c16indexes: "indexes ready for use". The answers right after generation equal the model's
// splits, and an explicit ReinitIndexes changes nothing.
func c16indexes(t *tree.Tree, m *rm.Tree, unrootedDepths bool) (string, string) {
	names := m.TipNames() // sorted: bit i = i-th tip name in alphabetical order (documented)
	n := len(names)
	rank := map[string]int{}
	for i, s := range names {
		rank[s] = i
	}
	below := map[*rm.Node]*big.Int{}
	down := map[*rm.Node]int{}
	var rec func(nd *rm.Node) *big.Int
	rec = func(nd *rm.Node) *big.Int {
		s := new(big.Int)
		if nd.IsTip() {
			s.SetBit(s, rank[nd.Name], 1)
			down[nd] = 0
		} else {
			best := -1
			for _, c := range nd.Children {
				s.Or(s, rec(c))
				if best < 0 || down[c]+1 < best {
					best = down[c] + 1
				}
			}
			down[nd] = best
		}
		below[nd] = s
		return s
	}
	rec(m.Root)
	pairs := c16pairs(t, m)
	before := c16indexDump(t, pairs)
	for _, p := range pairs {
		if p.mn.IsTip() {
			i, err := t.TipIndex(p.mn.Name)
			if err != nil {
				return "index/tip-index-missing", fmt.Sprintf("TipIndex(%q): %v", p.mn.Name, err)
			}
			if i != rank[p.mn.Name] {
				return "index/tip-index-wrong", fmt.Sprintf("TipIndex(%q) = %d, its rank among the sorted tip names is %d", p.mn.Name, i, rank[p.mn.Name])
			}
		}
	}
	// distance to the closest tip, any direction (documented definition of Depth; compared on unrooted trees)
	depth := map[*rm.Node]int{m.Root: down[m.Root]}
	m.Walk(func(nd, p *rm.Node) {
		if p != nil {
			depth[nd] = down[nd]
			if depth[p]+1 < depth[nd] {
				depth[nd] = depth[p] + 1
			}
		}
	})
	for _, p := range pairs {
		bs := p.e.Bitset()
		if bs == nil {
			return "index/bitset-nil", fmt.Sprintf("the branch above %s has no bitset", c16label(p.mn))
		}
		if int(bs.Len()) != n {
			return "index/bitset-length", fmt.Sprintf("the bitset of the branch above %s has %d bits, %d tips", c16label(p.mn), bs.Len(), n)
		}
		got := new(big.Int)
		for i := 0; i < n; i++ {
			if bs.Test(uint(i)) {
				got.SetBit(got, i, 1)
			}
		}
		want := below[p.mn]
		if got.Cmp(want) != 0 {
			return "index/bitset-wrong", fmt.Sprintf("the bitset of the branch above %s is %s, the tips below it are %s (bit i = i-th sorted tip name)", c16label(p.mn), got.Text(2), want.Text(2))
		}
		k := 0
		for i := 0; i < n; i++ {
			k += int(want.Bit(i))
		}
		if p.e.NumTipsRight() != k || p.e.NumTipsLeft() != n-k {
			return "index/numtips", fmt.Sprintf("branch above %s: NumTipsLeft/Right = %d/%d, model %d/%d", c16label(p.mn), p.e.NumTipsLeft(), p.e.NumTipsRight(), n-k, k)
		}
		td, err := p.e.TopoDepth()
		if err != nil || td != min(k, n-k) {
			return "index/topodepth", fmt.Sprintf("branch above %s: TopoDepth = %d (%v), model %d", c16label(p.mn), td, err, min(k, n-k))
		}
		if unrootedDepths {
			d, err := p.gn.Depth()
			if err != nil || d != depth[p.mn] {
				return "index/node-depth", fmt.Sprintf("node %s: Depth = %d (%v), its closest tip is %d branches away", c16label(p.mn), d, err, depth[p.mn])
			}
		}
	}
	if err := t.ReinitIndexes(); err != nil {
		return "index/reinit-error", "ReinitIndexes: " + err.Error()
	}
	after := c16indexDump(t, pairs)
	if before != after {
		return "index/stale", fmt.Sprintf("the index answers change with an explicit ReinitIndexes: %s  ->  %s", c16firstDiff(before, after), c16firstDiff(after, before))
	}
	return "", ""
}

func c16firstDiff(a, b string) string {
	as, bs := strings.Split(a, ";"), strings.Split(b, ";")
	for i := range as {
		if i >= len(bs) || as[i] != bs[i] {
			return fmt.Sprintf("#%d %s", i, as[i])
		}
	}
	return ""
}

// c16judgeTree: the complete oracle on a returned object (valid size). Runs under guard.
func c16judgeTree(t *tree.Tree, cs c16case) (clause, what, canon string) {
	if clause, what = c16structure(t); clause != "" {
		return
	}
	m, err := observe(t)
	if err != nil {
		return "malformed/walk", err.Error(), ""
	}
	if clause, what = c16judgeModel(m, cs.Gen, cs.N, cs.Rooted, true); clause != "" {
		return
	}
	if cs.Gen == "starnames" {
		want := append([]string(nil), c16namePool[:cs.N]...)
		sort.Strings(want)
		if got := m.TipNames(); fmt.Sprint(got) != fmt.Sprint(want) {
			return "tips/names", fmt.Sprintf("tips %q, names given %q", got, want), ""
		}
	}
	if !c16isStarGen(cs.Gen) && t.Rooted() != cs.Rooted {
		return "rootedness", fmt.Sprintf("Rooted() = %v", t.Rooted()), ""
	}
	// the text gotree writes for the object is the object
	m2, txt, err := modelOf(t)
	if err != nil {
		return "malformed/newick", fmt.Sprintf("the written text %q is not Newick: %v", txt, err), ""
	}
	if d := sameModel(m, m2, false); d != "" {
		return "malformed/newick", fmt.Sprintf("the written text %q differs from the object: %s", txt, d), ""
	}
	if clause, what = c16indexes(t, m, !t.Rooted()); clause != "" {
		return
	}
	if cs.Rooted {
		canon = m.CanonRooted()
	} else {
		canon = c16canonUnrooted(m)
	}
	return
}

// canonical form of the unrooted topology for any number of tips: sorted list of the sorted smaller sides
func c16canonUnrooted(m *rm.Tree) string {
	if len(m.Tips()) <= 60 {
		return m.CanonUnrooted()
	}
	return m.CanonRooted() // large instances: only used as a label
}

// ---- executing the library generators -------------------------------------------

func c16gen(gen string, n int, rooted bool) (*tree.Tree, error) {
	switch gen {
	case "uniform":
		return tree.RandomUniformBinaryTree(n, rooted)
	case "yule":
		return tree.RandomYuleBinaryTree(n, rooted)
	case "caterpillar":
		return tree.RandomCaterpillarBinaryTree(n, rooted)
	case "balanced":
		return tree.RandomBalancedBinaryTree(n, rooted)
	case "star":
		return tree.StarTree(n)
	case "starnames":
		if n < 0 {
			n = 0
		}
		return tree.StarTreeFromName(c16namePool[:n]...)
	}
	panic("c16: unknown generator " + gen)
}

type c16verdict struct {
	clause, what string
	outcome      string // error | tree | tree+error
	canon        string
}

// c16judgeLib judges one finished execution of a library generator.
func c16judgeLib(cs c16case, r *mcrt.Result, t *tree.Tree, err error) c16verdict {
	dom := c16domain(cs.Gen, cs.N, cs.Rooted)
	var v c16verdict
	if crashed(*r) {
		v.clause, v.what = "crash/"+dom+"/"+crashSite(*r), verdictStr(*r)
		return v
	}
	switch {
	case err != nil && t != nil:
		v.outcome = "tree+error"
	case err != nil:
		v.outcome = "error"
	case t != nil:
		v.outcome = "tree"
	default:
		v.outcome = "nothing"
	}
	switch dom {
	case "below":
		if err == nil {
			v.clause, v.what = "below-minimum/accepted", "no error for a size below the documented minimum"
		}
	case "degenerate":
		// a tree or an error, no crash
		if err == nil && t == nil {
			v.clause, v.what = "minimum/nothing", "neither a tree nor an error"
		}
	default:
		if err != nil || t == nil {
			v.clause, v.what = "valid-size/error", fmt.Sprintf("a valid size is refused: %v", err)
			return v
		}
		r2 := guard(func() { v.clause, v.what, v.canon = c16judgeTree(t, cs) })
		if crashed(r2) {
			v.clause, v.what = "crash-on-use/"+crashSite(r2), "using the returned tree: "+verdictStr(r2)
		}
	}
	return v
}

// ---- exploration with subtree sharding -------------------------------------------

type c16stats struct {
	execs, runs, points int64
	complete            bool
	maxTicks            int64
}

// c16owner: which sub-case owns an execution, a function of its first splitAt choice points only
// (mixed radix number of the uniform draws among them, round robin).
func c16owner(points []mcrt.Point, alt, at, splitAt, nsub int) int {
	idx, w := 0, 1
	for i := 0; i < len(points) && i < splitAt; i++ {
		if points[i].Kind == mcrt.KRand {
			c := points[i].Choice
			if i == at {
				c = alt
			}
			idx += c * w
			w *= points[i].N
		}
	}
	return idx % nsub
}

// c16explore is mcrt.Explore (stateless depth-first search by re-execution, deviations of total cost <= bound)
// restricted to the executions owned by sub-case sub of nsub: a subtree whose first splitAt choices are fixed
// is entered by its owner only, the top of the choice tree is re-executed by everybody and visited by the owner.
func c16explore(base mcrt.Config, bound, sub, nsub int, deadline time.Time, body func(), visit func(r *mcrt.Result, choices []int) bool) c16stats {
	st := c16stats{complete: true}
	stack := [][]int{{}}
	for len(stack) > 0 {
		if st.runs%64 == 0 && !deadline.IsZero() && time.Now().After(deadline) {
			st.complete = false
			break
		}
		prefix := stack[len(stack)-1]
		stack = stack[:len(stack)-1]
		cfg := base
		cfg.Prefix = prefix
		r := mcrt.Run(cfg, body)
		st.runs++
		choices := make([]int, len(r.Points))
		for i, p := range r.Points {
			choices[i] = p.Choice
		}
		if r.Verdict == mcrt.VDiverged {
			visit(&r, choices)
			st.complete = false
			return st
		}
		own := nsub <= 1 || c16owner(r.Points, 0, -1, c16splitAt, nsub) == sub
		cost := 0
		for i := 0; i < len(prefix) && i < len(r.Points); i++ {
			if r.Points[i].Choice != 0 {
				cost += r.Points[i].Cost
			}
		}
		var children [][]int
		for i := len(prefix); i < len(r.Points); i++ {
			p := r.Points[i]
			if cost+p.Cost <= bound {
				for alt := 1; alt < p.N; alt++ {
					if nsub > 1 && i+1 >= c16splitAt {
						// every execution below this child has the same first splitAt choices
						if i >= c16splitAt {
							if !own {
								continue
							}
						} else if c16owner(r.Points, alt, i, c16splitAt, nsub) != sub {
							continue
						}
					}
					child := make([]int, i+1)
					copy(child, choices[:i])
					child[i] = alt
					children = append(children, child)
				}
			}
			if p.Choice != 0 {
				cost += p.Cost
			}
		}
		for i := len(children) - 1; i >= 0; i-- {
			stack = append(stack, children[i])
		}
		if !own {
			continue
		}
		st.execs++
		st.points += int64(len(r.Points))
		if r.Ticks > st.maxTicks {
			st.maxTicks = r.Ticks
		}
		if !visit(&r, choices) {
			st.complete = false
			break
		}
	}
	return st
}

func c16config() mcrt.Config {
	return mcrt.Config{NoSched: true, RandMode: mcrt.RandEnumerate, Fuel: 20_000_000, FloatMenu: c16floatMenu}
}

// c16runLib explores one library case; violations are confirmed by two re-executions of the same answer sequence.
func c16runLib(c *Ctx, cs c16case) {
	var t *tree.Tree
	var err error
	body := func() {
		t, err = nil, nil
		t, err = c16gen(cs.Gen, cs.N, cs.Rooted)
	}
	dom := c16domain(cs.Gen, cs.N, cs.Rooted)
	reported := map[string]bool{}
	st := c16explore(c16config(), cs.Bound, cs.Sub, cs.NSub, c.Deadline, body, func(r *mcrt.Result, choices []int) bool {
		if r.Verdict == mcrt.VDiverged {
			c.EngineError(fmt.Sprintf("C16 %s: %s", c16desc(cs), verdictStr(*r)))
			return false
		}
		v := c16judgeLib(cs, r, t, err)
		dev := mcrt.DeviationCost(r.Points) > 0
		c.Execs++
		c.States++
		c.Count("lib_executions", 1)
		if dev {
			c.Count("float_extreme_executions", 1)
		} else {
			c.Count("rng_answer_sequences", 1)
		}
		c.Outcome(cs.Gen + "/" + c16rootedStr(cs.Rooted) + "/" + dom + "/" + v.outcome)
		switch dom {
		case "below":
			if v.clause == "" {
				c.Count("below_minimum_rejected", 1)
			}
		case "degenerate":
			if v.clause == "" {
				c.Count("degenerate_minimum_no_crash", 1)
				c.Count("degenerate_minimum_"+v.outcome, 1)
			}
		default:
			if v.clause == "" {
				c.Count("valid_trees_judged", 1)
				c.Count("index_checks", 1)
				c.Count("trees_"+c16rootedStr(cs.Rooted), 1)
				if cs.Gen == "caterpillar" || cs.Gen == "balanced" || cs.Gen == "star" {
					c.Count("shape_"+cs.Gen, 1)
				}
				if cs.Gen == "starnames" {
					c.Count("shape_star", 1)
				}
				if !dev {
					c.Nontrivial(fmt.Sprintf("%s/%v/%s", cs.Gen, cs.Rooted, v.canon))
				}
			}
		}
		if v.clause != "" {
			key := c16key(cs, v.clause)
			bad := cs
			bad.Choices = append([]int(nil), choices...)
			if !reported[key] {
				reported[key] = true
				for i := 0; i < 2; i++ {
					if k2, _ := c16replayLib(bad); k2 != key {
						c.EngineError(fmt.Sprintf("non-reproducible violation %q (then %q) on %s", key, k2, c16desc(bad)))
						return true
					}
				}
			}
			c.Violate(key, c16desc(bad)+": "+v.what, bad)
		}
		return true
	})
	c.Transitions += st.points
	c.Max("ticks_per_execution", st.maxTicks)
	c.Max("choice_tree_size_per_subcase", st.execs)
	c.Count("reexecutions_for_sharding", st.runs-st.execs)
	if !st.complete {
		c.Exhaustive = false
		c.Count("capped_cases", 1)
	}
}

// c16replayLib re-executes one answer sequence of a library case.
func c16replayLib(cs c16case) (string, string) {
	var t *tree.Tree
	var err error
	cfg := c16config()
	cfg.Prefix = cs.Choices
	r := mcrt.Run(cfg, func() { t, err = c16gen(cs.Gen, cs.N, cs.Rooted) })
	if r.Verdict == mcrt.VDiverged {
		return "C16/engine/diverged", verdictStr(r)
	}
	v := c16judgeLib(cs, &r, t, err)
	if v.clause == "" {
		return "", ""
	}
	return c16key(cs, v.clause), c16desc(cs) + ": " + v.what
}

// ---- large structured instances (plain executions, not exhaustive) -----------------

func c16runBig(c *Ctx, cs c16case) {
	c.Check(cs, func() (string, string) {
		var t *tree.Tree
		var err error
		r := guard(func() {
			realrand.Seed(20260930 + int64(cs.N)) // seeded run: the same draws in every (re-)execution
			t, err = c16gen(cs.Gen, cs.N, cs.Rooted)
		})
		v := c16judgeLib(cs, &r, t, err)
		if v.clause == "" {
			return "", ""
		}
		return c16key(cs, v.clause), c16desc(cs) + " (seeded run): " + v.what
	})
	c.States++
	c.Count("big_instances", 1)
}

// ---- StarTreeFromTree ----------------------------------------------------------------

// c16runStarFrom: StarTreeFromTree on every labelled tree with n tips (multifurcating ones included, unrooted and
// rooted): a star with the same tips and the same tip branch lengths.
func c16runStarFrom(c *Ctx, cs c16case) {
	labels := enum.Labels(cs.N, "")
	var inputs []*rm.Tree
	if cs.N >= 3 {
		inputs = append(inputs, enum.Unrooted(labels, false)...)
	}
	inputs = append(inputs, enum.RootedTrees(labels, false)...)
	for i, in := range inputs {
		k := 0
		in.Walk(func(nd, p *rm.Node) {
			if p != nil {
				k++
				nd.HasLen, nd.Len = true, float64(k)/8
			}
		})
		idx := i
		c.Check(map[string]any{"kind": "starfrom", "gen": "starfrom", "n": cs.N, "input": in.Newick()}, func() (string, string) {
			var st *tree.Tree
			var err error
			var clause, what string
			r := guard(func() {
				src := build(in)
				st, err = tree.StarTreeFromTree(src)
				if err != nil || st == nil {
					clause, what = "valid-size/error", fmt.Sprintf("%v", err)
					return
				}
				if clause, what, _ = c16judgeTree(st, cs); clause != "" {
					return
				}
				m, _ := observe(st)
				want := map[string]float64{}
				for _, tp := range in.Tips() {
					want[tp.Name] = tp.Len
				}
				for _, tp := range m.Tips() {
					l, ok := want[tp.Name]
					if !ok {
						clause, what = "tips/names", fmt.Sprintf("tip %q is not a tip of the input", tp.Name)
						return
					}
					if !rm.SameFloat(l, tp.Len) {
						clause, what = "length/not-copied", fmt.Sprintf("tip %q: length %v, %v in the input", tp.Name, tp.Len, l)
						return
					}
				}
			})
			if crashed(r) {
				clause, what = "crash/valid/"+crashSite(r), verdictStr(r)
			}
			if clause == "" {
				return "", ""
			}
			return c16key(cs, clause), fmt.Sprintf("StarTreeFromTree(%s) [input #%d]: %s", in.Newick(), idx, what)
		})
		c.States++
		c.Count("shape_star", 1)
		c.Count("starfrom_inputs", 1)
	}
}

// ---- AllTopologies -----------------------------------------------------------------

// c16bigGuard is guard() with a fuel budget fit for the enumeration of 10^5 trees in one call
// (fuel only serves to turn an endless loop into a verdict; the ticks actually used are recorded).
func c16bigGuard(f func()) mcrt.Result {
	r := mcrt.Run(mcrt.Config{NoSched: true, Fuel: 20_000_000_000}, f)
	if r.Ticks > c16topoTicks {
		c16topoTicks = r.Ticks
	}
	return r
}

var c16topoTicks int64

func c16doubleFact(k int) int64 {
	r := int64(1)
	for ; k > 1; k -= 2 {
		r *= int64(k)
	}
	return r
}

func c16topoNames(cs c16case) []string {
	if !cs.Named {
		if cs.N < 0 {
			return nil
		}
		return enum.Labels(cs.N, "Tip") // Tip1..Tipn: the default names
	}
	// explicit names, not in alphabetical order
	if cs.N < 0 || cs.N > len(c16namePool) {
		return nil
	}
	return c16namePool[:cs.N]
}

// c16topoJudgeTexts: the texts are each of the labelled binary topologies exactly once.
func c16topoJudgeTexts(cs c16case, models []*rm.Tree) (string, string) {
	names := c16topoNames(cs)
	want := c16doubleFact(2*cs.N - 5)
	if cs.Rooted {
		want = c16doubleFact(2*cs.N - 3)
	}
	if int64(len(models)) != want {
		return "count", fmt.Sprintf("%d trees, (2n-%d)!! = %d", len(models), map[bool]int{false: 5, true: 3}[cs.Rooted], want)
	}
	var ref []*rm.Tree
	if cs.Rooted {
		ref = enum.Hierarchies(names, true)
	} else {
		ref = enum.Unrooted(names, true)
	}
	canon := func(m *rm.Tree) string {
		if cs.Rooted {
			return m.CanonRooted()
		}
		return m.CanonUnrooted()
	}
	space := map[string]bool{}
	for _, m := range ref {
		space[canon(m)] = true
	}
	if int64(len(space)) != want {
		return "C16/engine", fmt.Sprintf("the model enumerates %d topologies, formula %d", len(space), want)
	}
	seen := map[string]int{}
	for i, m := range models {
		if cl, what := c16judgeModel(m, "topologies", cs.N, cs.Rooted, false); cl != "" {
			return "text/" + cl, fmt.Sprintf("tree #%d %s: %s", i, m.Newick(), what)
		}
		k := canon(m)
		if !space[k] {
			return "not-a-topology", fmt.Sprintf("tree #%d %s is not a binary topology on %v", i, m.Newick(), names)
		}
		if j, dup := seen[k]; dup {
			return "duplicate", fmt.Sprintf("trees #%d and #%d are the same topology %s", j, i, m.Newick())
		}
		seen[k] = i
	}
	for _, m := range ref {
		if _, ok := seen[canon(m)]; !ok {
			return "missing", fmt.Sprintf("topology %s is never returned", m.Newick())
		}
	}
	return "", ""
}

func c16runTopo(c *Ctx, cs c16case) {
	var ntrees int
	c.Check(cs, func() (string, string) {
		ntrees = 0
		var ts []*tree.Tree
		var err error
		names := c16topoNames(cs)
		r := c16bigGuard(func() {
			if cs.Named {
				ts, err = tree.AllTopologies(cs.N, cs.Rooted, names...)
			} else {
				ts, err = tree.AllTopologies(cs.N, cs.Rooted)
			}
		})
		dom := c16domain("topologies", cs.N, cs.Rooted)
		if crashed(r) {
			return c16key(cs, "crash/"+dom+"/"+crashSite(r)), c16desc(cs) + ": " + verdictStr(r)
		}
		if dom == "below" {
			if err == nil {
				return c16key(cs, "below-minimum/accepted"), c16desc(cs) + ": no error for a size below the documented minimum"
			}
			return "", ""
		}
		if err != nil {
			return c16key(cs, "valid-size/error"), c16desc(cs) + ": " + err.Error()
		}
		ntrees = len(ts)
		// (a) the written texts
		texts := make([]*rm.Tree, len(ts))
		var clause, what string
		r = c16bigGuard(func() {
			for i, t := range ts {
				m, txt, e := modelOf(t)
				if e != nil {
					clause, what = "malformed/newick", fmt.Sprintf("tree #%d: the written text %q is not Newick: %v", i, txt, e)
					return
				}
				texts[i] = m
			}
		})
		if crashed(r) {
			return c16key(cs, "crash-on-use/"+crashSite(r)), c16desc(cs) + ": " + verdictStr(r)
		}
		if clause == "" {
			clause, what = c16topoJudgeTexts(cs, texts)
		}
		if clause == "C16/engine" {
			return clause, what
		}
		if clause != "" {
			return c16key(cs, clause), c16desc(cs) + ": " + what
		}
		// (b) the returned objects are these trees (not only their texts)
		r = c16bigGuard(func() {
			for i, t := range ts {
				m, e := observe(t)
				if e != nil {
					clause, what = "malformed/walk", fmt.Sprintf("tree #%d: %v", i, e)
					return
				}
				if cl, w := c16judgeModel(m, "topologies", cs.N, cs.Rooted, false); cl != "" {
					clause, what = "object/"+cl, fmt.Sprintf("tree #%d, written as %s: walking the object from Root(): %s (Rooted() = %v, len(Tips()) = %d)", i, t.Newick(), w, t.Rooted(), len(t.Tips()))
					return
				}
				if clause, what = c16structure(t); clause != "" {
					what = fmt.Sprintf("tree #%d %s: %s", i, t.Newick(), what)
					return
				}
				if t.Rooted() != cs.Rooted {
					clause, what = "object/rootedness", fmt.Sprintf("tree #%d %s: Rooted() = %v", i, t.Newick(), t.Rooted())
					return
				}
				if d := sameModel(m, texts[i], false); d != "" {
					clause, what = "object/text", fmt.Sprintf("tree #%d: the object differs from its text %s: %s", i, t.Newick(), d)
					return
				}
				// the tip name index the object carries must be the one of its own tips (a tree is handed out, not a tree plus
				// the leftovers of the enumeration): every tip is known under its rank, no name that is not a tip is known
				tn := m.TipNames()
				for rk, nm := range tn {
					if ix, e := t.TipIndex(nm); e != nil || ix != rk {
						clause, what = "object/tip-index", fmt.Sprintf("tree #%d %s: TipIndex(%q) = %d (%v), its rank among the sorted tip names is %d", i, t.Newick(), nm, ix, e, rk)
						return
					}
				}
				for _, absent := range []string{"", "zz-not-a-tip"} {
					if ok, _ := t.ExistsTip(absent); ok {
						clause, what = "object/tip-index", fmt.Sprintf("tree #%d %s: ExistsTip(%q) is true", i, t.Newick(), absent)
						return
					}
				}
			}
		})
		if crashed(r) {
			return c16key(cs, "crash-on-use/"+crashSite(r)), c16desc(cs) + ": " + verdictStr(r)
		}
		if clause != "" {
			return c16key(cs, clause), c16desc(cs) + ": " + what
		}
		return "", ""
	})
	c.States++
	c.Transitions += int64(ntrees)
	c.Count("topologies_enumerations", 1)
	c.Max("ticks_per_topologies_call", c16topoTicks)
	c.Count("topologies_trees", int64(ntrees))
	if ntrees > 0 {
		c.Count("topologies_"+c16rootedStr(cs.Rooted), 1)
	} else {
		c.Count("topologies_below_minimum", 1)
	}
	if ntrees >= 2 {
		c.Nontrivial(fmt.Sprintf("topo/%d/%v/%v", cs.N, cs.Rooted, cs.Named))
	}
	c.Outcome(fmt.Sprintf("topologies/%v/%d", cs.Rooted, ntrees))
}

// ---- command line ---------------------------------------------------------------------

func c16cliArgs(cs c16case) []string {
	sub := map[string]string{"uniform": "uniformtree", "yule": "yuletree", "caterpillar": "caterpillartree", "balanced": "balancedtree", "star": "startree", "topologies": "topologies"}[cs.Gen]
	args := []string{"generate", sub, "--seed", "1"}
	if cs.Gen == "balanced" {
		args = append(args, "-d", fmt.Sprint(cs.N))
	} else if !(cs.Gen == "topologies" && cs.Named) {
		args = append(args, "-l", fmt.Sprint(cs.N))
	}
	if cs.Gen == "topologies" && cs.Named {
		args = append(args, "-i", "@/names.nw")
	}
	if cs.NTrees > 0 {
		args = append(args, "-n", fmt.Sprint(cs.NTrees))
	}
	if cs.Rooted {
		args = append(args, "-r")
	}
	if cs.Out {
		args = append(args, "-o", "@/out.nw")
	}
	return args
}

func c16cliOut(cs c16case) []string {
	if cs.Out {
		return []string{"@/out.nw"}
	}
	return nil
}

func c16cliFiles(cs c16case) map[string]string {
	if cs.Gen == "topologies" && cs.Named {
		// a caterpillar carrying the names
		names := c16topoNames(cs)
		s := names[0]
		for _, nm := range names[1:] {
			s = "(" + s + "," + nm + ")"
		}
		return map[string]string{"names.nw": s + ";\n"}
	}
	return nil
}

func c16cliLines(out string) []string {
	var lines []string
	for _, l := range strings.Split(out, "\n") {
		if strings.TrimSpace(l) != "" {
			lines = append(lines, l)
		}
	}
	return lines
}

// c16judgeCLI judges one finished command-line execution.
func c16judgeCLI(cs c16case, r *mcrt.Result, res cliRun) (clause, what, outcome string, trees int) {
	dom := c16domain(cs.Gen, cs.N, cs.Rooted)
	exited := r.Verdict == mcrt.VExit // os.Exit through io.ExitWithMessage: an error report, not a crash
	if crashed(*r) && !exited {
		return "crash/" + dom + "/" + crashSite(*r), verdictStr(*r), "crash", 0
	}
	signalled := exited || res.Err != "" || strings.Contains(res.Stderr, "[Error]")
	text := res.Stdout
	if cs.Out {
		text = res.Files["@/out.nw"]
		if strings.TrimSpace(res.Stdout) != "" {
			return "text/stdout-with-o", fmt.Sprintf("-o given and the standard output holds %q", res.Stdout), "", 0
		}
	}
	lines := c16cliLines(text)
	outcome = fmt.Sprintf("error=%v,lines>0=%v", signalled, len(lines) > 0)
	switch dom {
	case "below":
		if !signalled || len(lines) > 0 {
			return "below-minimum/accepted", fmt.Sprintf("no error (or a tree all the same) for a size below the documented minimum: %s", res), outcome, 0
		}
		return
	case "degenerate":
		return
	}
	if signalled {
		return "valid-size/error", "a valid size is refused: " + res.String() + " stderr=" + res.Stderr, outcome, 0
	}
	if cs.Gen == "topologies" {
		models := make([]*rm.Tree, len(lines))
		for i, l := range lines {
			m, err := rm.ParseNewick(l)
			if err != nil {
				return "text/unparsable", fmt.Sprintf("line %d %q: %v", i+1, l, err), outcome, 0
			}
			models[i] = m
		}
		clause, what = c16topoJudgeTexts(cs, models)
		return clause, what, outcome, len(lines)
	}
	want := cs.NTrees
	if want == 0 {
		want = 1
	}
	if len(lines) != want {
		return "text/tree-count", fmt.Sprintf("%d lines printed, %d trees requested", len(lines), want), outcome, 0
	}
	for i, l := range lines {
		m, err := rm.ParseNewick(l)
		if err != nil {
			return "text/unparsable", fmt.Sprintf("line %d %q: %v", i+1, l, err), outcome, 0
		}
		if cl, w := c16judgeModel(m, cs.Gen, cs.N, cs.Rooted, true); cl != "" {
			return "text/" + cl, fmt.Sprintf("line %d %q: %s", i+1, l, w), outcome, 0
		}
	}
	return "", "", outcome, len(lines)
}

func c16runCLI(c *Ctx, cs c16case) {
	var res cliRun
	body := cliBody(c16cliArgs(cs), "", c16cliFiles(cs), c16cliOut(cs), &res)
	cfg := c16config()
	cfg.Fuel = 50_000_000
	dom := c16domain(cs.Gen, cs.N, cs.Rooted)
	reported := map[string]bool{}
	st := c16explore(cfg, cs.Bound, 0, 1, c.Deadline, body, func(r *mcrt.Result, choices []int) bool {
		if r.Verdict == mcrt.VDiverged {
			c.EngineError(fmt.Sprintf("C16 %s: %s", c16desc(cs), verdictStr(*r)))
			return false
		}
		clause, what, outcome, trees := c16judgeCLI(cs, r, res)
		c.Execs++
		c.States++
		c.Count("cli_runs", 1)
		c.Outcome("cli/" + cs.Gen + "/" + c16rootedStr(cs.Rooted) + "/" + dom + "/" + outcome)
		if clause == "" {
			switch dom {
			case "below":
				c.Count("cli_below_minimum_rejected", 1)
			case "degenerate":
				c.Count("cli_degenerate_minimum_no_crash", 1)
			default:
				c.Count("cli_trees_judged", int64(trees))
				if cs.Gen == "topologies" {
					c.Count("cli_topologies_enumerations", 1)
				}
			}
			return true
		}
		if clause == "C16/engine" {
			c.EngineError(what)
			return false
		}
		key := c16key(cs, clause)
		bad := cs
		bad.Choices = append([]int(nil), choices...)
		if !reported[key] {
			reported[key] = true
			for i := 0; i < 2; i++ {
				if k2, _ := c16replayCLI(bad); k2 != key {
					c.EngineError(fmt.Sprintf("non-reproducible violation %q (then %q) on %s", key, k2, c16desc(bad)))
					return true
				}
			}
		}
		c.Violate(key, c16desc(bad)+": "+what, bad)
		return true
	})
	c.Transitions += st.points
	if !st.complete {
		c.Exhaustive = false
		c.Count("capped_cases", 1)
	}
}

func c16replayCLI(cs c16case) (string, string) {
	var res cliRun
	cfg := c16config()
	cfg.Fuel = 50_000_000
	cfg.Prefix = cs.Choices
	r := mcrt.Run(cfg, cliBody(c16cliArgs(cs), "", c16cliFiles(cs), c16cliOut(cs), &res))
	if r.Verdict == mcrt.VDiverged {
		return "C16/engine/diverged", verdictStr(r)
	}
	clause, what, _, _ := c16judgeCLI(cs, &r, res)
	if clause == "" {
		return "", ""
	}
	return c16key(cs, clause), c16desc(cs) + ": " + what
}

// ---- self test of the sharded exploration ------------------------------------------------

// c16selftest: the union of the sub-cases is the unsharded exploration, every answer sequence exactly once.
func c16selftest(c *Ctx) {
	for _, cs := range []c16case{{Gen: "uniform", N: 6, Rooted: true, Bound: 0}, {Gen: "uniform", N: 5, Rooted: true, Bound: 1}, {Gen: "yule", N: 6, Rooted: false, Bound: 1}} {
		body := func() { c16gen(cs.Gen, cs.N, cs.Rooted) }
		collect := func(sub, nsub int) []string {
			var out []string
			c16explore(c16config(), cs.Bound, sub, nsub, time.Time{}, body, func(r *mcrt.Result, ch []int) bool {
				out = append(out, fmt.Sprint(ch))
				return true
			})
			return out
		}
		all := collect(0, 1)
		var union []string
		for s := 0; s < 16; s++ {
			union = append(union, collect(s, 16)...)
		}
		sort.Strings(all)
		sort.Strings(union)
		if len(all) != len(union) || strings.Join(all, ";") != strings.Join(union, ";") {
			c.EngineError(fmt.Sprintf("C16 self test: sharded exploration of %s visits %d answer sequences, unsharded %d (or different ones)", c16desc(cs), len(union), len(all)))
		}
		for i := 1; i < len(all); i++ {
			if all[i] == all[i-1] {
				c.EngineError("C16 self test: an answer sequence is visited twice: " + all[i])
				break
			}
		}
		c.Count("selftest_sequences", int64(len(all)))
	}
}

// ---- the case list -----------------------------------------------------------------------

func c16cases(quick bool) []c16case {
	var cs []c16case
	add := func(k c16case, big bool) {
		if big {
			k.NSub = 16
			for s := 0; s < 16; s++ {
				k.Sub = s
				cs = append(cs, k)
			}
		} else {
			k.NSub = 1
			cs = append(cs, k)
		}
	}
	cs = append(cs, c16case{Kind: "selftest"})
	// library generators: every size from below the documented minimum upwards x rooted/unrooted x all rng answers
	type lim struct{ all, extremes int } // largest size with all Intn answers / additionally with one extreme Float64 answer
	limits := map[string]map[bool]lim{
		"uniform":     {false: {8, 8}, true: {7, 6}},
		"yule":        {false: {8, 8}, true: {8, 7}},
		"caterpillar": {false: {12, 12}, true: {12, 12}},
		"balanced":    {false: {5, 5}, true: {5, 5}},
		"star":        {false: {12, 12}},
		"starnames":   {false: {12, 12}},
	}
	if !quick {
		limits = map[string]map[bool]lim{
			"uniform":     {false: {9, 9}, true: {8, 7}},
			"yule":        {false: {10, 9}, true: {10, 9}},
			"caterpillar": {false: {40, 40}, true: {40, 40}},
			"balanced":    {false: {7, 7}, true: {7, 7}},
			"star":        {false: {40, 40}},
			"starnames":   {false: {15, 15}},
		}
	}
	for _, gen := range []string{"uniform", "yule", "caterpillar", "balanced", "star", "starnames"} {
		for _, rooted := range []bool{false, true} {
			l, ok := limits[gen][rooted]
			if !ok {
				continue
			}
			for n := -1; n <= l.all; n++ {
				k := c16case{Kind: "lib", Gen: gen, N: n, Rooted: rooted}
				if n <= l.extremes {
					k.Bound = 1
				}
				big := (gen == "uniform" || gen == "yule") && n >= 7
				add(k, big)
			}
		}
	}
	for n := 2; n <= 5; n++ {
		if n <= 4 || !quick {
			add(c16case{Kind: "starfrom", Gen: "starfrom", N: n}, false)
		}
	}
	// AllTopologies
	maxU, maxR := 8, 7
	if !quick {
		maxU, maxR = 9, 8
	}
	for _, rooted := range []bool{false, true} {
		for _, named := range []bool{false, true} {
			mx := maxU
			if rooted {
				mx = maxR
			}
			if named {
				mx--
			}
			for n := -1; n <= mx; n++ {
				add(c16case{Kind: "topo", Gen: "topologies", N: n, Rooted: rooted, Named: named}, false)
			}
		}
	}
	// command line wrappers
	for _, gen := range []string{"uniform", "yule", "caterpillar", "star"} {
		for _, rooted := range []bool{false, true} {
			if gen == "star" && rooted {
				continue
			}
			for _, n := range []int{0, 1, 2, 3, 5} {
				add(c16case{Kind: "cli", Gen: gen, N: n, Rooted: rooted, Bound: 1}, false)
			}
			add(c16case{Kind: "cli", Gen: gen, N: 6, Rooted: rooted}, false)
			add(c16case{Kind: "cli", Gen: gen, N: 4, Rooted: rooted, NTrees: 2}, false)
			add(c16case{Kind: "cli", Gen: gen, N: 4, Rooted: rooted, Out: true}, false)
			add(c16case{Kind: "cli", Gen: gen, N: 1, Rooted: rooted, Out: true}, false)
		}
	}
	for _, rooted := range []bool{false, true} {
		for _, d := range []int{-1, 0, 1, 2, 3} {
			add(c16case{Kind: "cli", Gen: "balanced", N: d, Rooted: rooted, Bound: 1}, false)
		}
		add(c16case{Kind: "cli", Gen: "balanced", N: 2, Rooted: rooted, NTrees: 2}, false)
		for _, n := range []int{1, 2, 3, 5} {
			add(c16case{Kind: "topo-cli", Gen: "topologies", N: n, Rooted: rooted}, false)
		}
		add(c16case{Kind: "topo-cli", Gen: "topologies", N: 4, Rooted: rooted, Named: true}, false)
		add(c16case{Kind: "topo-cli", Gen: "topologies", N: 4, Rooted: rooted, Out: true}, false)
		add(c16case{Kind: "cli", Gen: "balanced", N: 2, Rooted: rooted, Out: true}, false)
	}
	// whatever the size: large structured instances (plain seeded executions, not exhaustive)
	for _, rooted := range []bool{false, true} {
		cs = append(cs, c16case{Kind: "big", Gen: "caterpillar", N: 1000, Rooted: rooted, NSub: 1},
			c16case{Kind: "big", Gen: "balanced", N: 10, Rooted: rooted, NSub: 1},
			c16case{Kind: "big", Gen: "uniform", N: 300, Rooted: rooted, NSub: 1},
			c16case{Kind: "big", Gen: "yule", N: 300, Rooted: rooted, NSub: 1})
	}
	cs = append(cs, c16case{Kind: "big", Gen: "star", N: 1000, NSub: 1})
	return cs
}

func c16run(c *Ctx, cs c16case) {
	switch cs.Kind {
	case "selftest":
		c16selftest(c)
	case "lib":
		c16runLib(c, cs)
	case "big":
		c16runBig(c, cs)
	case "topo":
		c16runTopo(c, cs)
	case "starfrom":
		c16runStarFrom(c, cs)
	case "cli", "topo-cli":
		c16runCLI(c, cs)
	}
}

func init() {
	register(&Prop{
		ID: "C16",
		Rule: "library: every generator (RandomUniform/Yule/Caterpillar/BalancedBinaryTree, StarTree, StarTreeFromName) x every size from -1 (below the documented minimum) up to the tier's bound x rooted/unrooted x ALL answer sequences of rand.Intn " +
			"(stateless DFS by re-execution; a big case is split into 16 sub-cases by its first draws) x rand.Float64 at its default 0.5 or with one draw at an extreme (0, 1-2^-53); " +
			"oracle per execution: error below the minimum, no crash at the minimum, otherwise public-API walk = tree, n uniquely named tips, binary, root degree 2/3 as requested, every length >= 0, " +
			"bitset/NumTips/TopoDepth/TipIndex(/Depth) right after generation = model splits = answers after an explicit ReinitIndexes, caterpillar/balanced/star shape by definition; " +
			"StarTreeFromTree on every labelled (multifurcating, rooted and unrooted) tree with 2..5 tips: star with the same tips and tip lengths; " +
			"AllTopologies(n, rooted[, names]) for every n up to the bound: count (2n-5)!!/(2n-3)!!, pairwise distinct, equal as a set to the model's own enumeration, objects = texts; " +
			"`gotree generate uniformtree|yuletree|caterpillartree|balancedtree|startree|topologies` in-process for sizes below, at and above the minimum, -n 2, -o file, -i names (texts judged by the same oracle, all rng answers); large instances (300-1024 tips) as plain seeded executions (not exhaustive); " +
			"non-trivial = distinct (generator, rootedness, topology) produced",
		Assumptions: []string{
			"math/rand itself is ideal: every answer of Intn(n) in 0..n-1 is possible, Float64 lies in [0,1); rand.Float64 is explored at 0.5, 0 and 1-2^-53 with at most one non-default draw per execution",
			"documented minimum = the bound stated by the generator's own error message (2 tips unrooted / 3 rooted, depth 1, 2 tips for the star, 3 unrooted / 2 rooted for the enumerator)",
			"a length of -0 (rand.Float64() == 0) counts as non-negative",
		},
		Require: []string{"valid_trees_judged", "below_minimum_rejected", "degenerate_minimum_no_crash", "trees_rooted", "trees_unrooted", "float_extreme_executions", "rng_answer_sequences",
			"index_checks", "shape_caterpillar", "shape_balanced", "shape_star", "topologies_enumerations", "topologies_rooted", "topologies_unrooted", "topologies_below_minimum",
			"cli_trees_judged", "cli_below_minimum_rejected", "cli_topologies_enumerations", "big_instances", "starfrom_inputs", "selftest_sequences"},
		Run: func(c *Ctx) {
			defer cliCleanup()
			// the executions are tiny and allocate a lot (gotree sizes its work lists for 2000 elements): without
			// head room the collector runs every few executions and dominates the run time
			c16ballast = make([]byte, 32<<20)
			debug.SetGCPercent(400)
			for _, cs := range c16cases(c.Quick()) {
				if c.TimeUp() {
					return
				}
				// development aids: C16_ONLY=<substring of kind:gen:n:rooted:bound> restricts the case list (the vacuity guards
				// then fail by design), C16_TIME=1 prints the time per case on the worker's stderr
				if f := os.Getenv("C16_ONLY"); f != "" && !strings.Contains(fmt.Sprintf("%s:%s:%d:%v:%d", cs.Kind, cs.Gen, cs.N, cs.Rooted, cs.Bound), f) {
					continue
				}
				if !c.Mine() {
					continue
				}
				c.Pin(func() string { return c16desc(cs) })
				t0 := time.Now()
				e0 := c.Execs
				c16run(c, cs)
				if os.Getenv("C16_TIME") != "" {
					fmt.Fprintf(os.Stderr, "C16_TIME %-60s sub=%d execs=%d %.2fs\n", c16desc(cs), cs.Sub, c.Execs-e0, time.Since(t0).Seconds())
				}
				if cs.Kind != "selftest" && cs.Sub == 0 {
					c.Sample(map[string]any{"case": c16desc(cs), "kind": cs.Kind, "float_deviations": cs.Bound})
				}
			}
		},
		Replay: func(c *Ctx, raw json.RawMessage) {
			defer cliCleanup()
			var cs c16case
			if err := json.Unmarshal(raw, &cs); err != nil {
				c.EngineError(err.Error())
				return
			}
			fmt.Printf("case %s\n", c16desc(cs))
			switch cs.Kind {
			case "lib":
				if k, w := c16replayLib(cs); k != "" {
					c.Violate(k, w, cs)
				}
			case "cli", "topo-cli":
				if k, w := c16replayCLI(cs); k != "" {
					c.Violate(k, w, cs)
				}
			default:
				c16run(c, cs)
			}
		},
	})
}

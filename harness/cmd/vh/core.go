package main

import (
	"bufio"
	"crypto/sha1"
	"encoding/hex"
	"encoding/json"
	"flag"
	"fmt"
	"hash/fnv"
	"os"
	"os/exec"
	"path/filepath"
	"runtime"
	"sort"
	"strings"
	"sync"
	"syscall"
	"time"
)

// A Prop is one property check. Run is executed in every worker process; it
// enumerates the whole case space and executes the cases for which c.Mine() is true.
type Prop struct {
	ID          string
	Run         func(c *Ctx)
	Rule        string                            // how cases are enumerated and what makes one non-trivial
	Assumptions []string                          // trusted base
	Replay      func(c *Ctx, raw json.RawMessage) // re-executes one recorded case
	Serial      bool                              // run in a single worker (the property shards itself or is tiny)
	Require     []string                          // counters that must be > 0 after aggregation (vacuity guards); violated = engine error
}

var props = map[string]*Prop{}

func register(p *Prop) { props[p.ID] = p }

// Violation as reported by a worker.
type Violation struct {
	Key    string          `json:"key"`  // known-findings signature: clause + discriminating features of the case
	What   string          `json:"what"` // one line: model vs. implementation
	Replay json.RawMessage `json:"replay"`
}

// Ctx is the per-process context of a check.
type Ctx struct {
	Prop     *Prop
	Tier     string
	Seed     int64
	Shard    int
	NShards  int
	Deadline time.Time

	caseIdx     int64
	Evals       int64 // cases executed by this worker
	States      int64
	Transitions int64
	Execs       int64 // executions of the real code
	nontrivial  map[uint64]struct{}
	nontrivCnt  int64
	dedupeCap   bool
	outcomes    map[uint64]struct{}
	Samples     []any
	Counters    map[string]int64
	Notes       map[string]string
	viols       map[string]*Violation
	violCount   int64
	Exhaustive  bool
	out         *bufio.Writer
	lastCase    string
	pin         bool
	EngineErrs  []string
}

func (c *Ctx) Quick() bool { return c.Tier == "quick" }

// Mine advances the global case counter and reports whether this worker owns the case.
func (c *Ctx) Mine() bool {
	i := c.caseIdx
	c.caseIdx++
	mine := c.NShards <= 1 || int(i%int64(c.NShards)) == c.Shard
	if mine {
		c.Evals++
	}
	return mine
}

// TimeUp reports whether the internal deadline of the tier has passed
// (the run then ends with exhaustive:false, never with a violation).
func (c *Ctx) TimeUp() bool {
	if time.Now().After(c.Deadline) {
		c.Exhaustive = false
		return true
	}
	return false
}

func hash64(s string) uint64 {
	h := fnv.New64a()
	h.Write([]byte(s))
	return h.Sum64()
}

// Nontrivial records a distinct non-trivial case (by key).
func (c *Ctx) Nontrivial(key string) {
	if len(c.nontrivial) >= 1_000_000 {
		c.dedupeCap = true
		c.nontrivCnt++
		return
	}
	h := hash64(key)
	if _, ok := c.nontrivial[h]; !ok {
		c.nontrivial[h] = struct{}{}
		c.nontrivCnt++
	}
}

// Outcome records a distinct observed outcome.
func (c *Ctx) Outcome(s string) {
	if len(c.outcomes) < 1_000_000 {
		c.outcomes[hash64(s)] = struct{}{}
	}
}

func (c *Ctx) Count(name string, n int64) { c.Counters[name] += n }

// Max keeps the maximum of a counter.
func (c *Ctx) Max(name string, n int64) {
	if n > c.Counters["max:"+name] {
		c.Counters["max:"+name] = n
	}
}

func (c *Ctx) Note(k, v string) { c.Notes[k] = v }

func (c *Ctx) Sample(v any) {
	if len(c.Samples) < 4 {
		c.Samples = append(c.Samples, v)
	}
}

// Pin announces the case about to be executed (only in pin mode, used to
// identify the case that kills a worker).
func (c *Ctx) Pin(desc func() string) {
	if c.pin {
		fmt.Fprintf(c.out, "{\"t\":\"pin\",\"case\":%q}\n", desc())
		c.out.Flush()
	}
}

// EngineError reports a failure of the machinery itself (exit 2, never a violation).
func (c *Ctx) EngineError(msg string) {
	if len(c.EngineErrs) < 20 {
		c.EngineErrs = append(c.EngineErrs, msg)
	}
}

// Check runs one case: f returns "" if the property held, otherwise key and
// description. A violation is re-executed twice and must reproduce identically.
func (c *Ctx) Check(replay any, f func() (key, what string)) bool {
	c.Execs++
	key, what := f()
	if key == "" {
		return true
	}
	for i := 0; i < 2; i++ {
		k2, _ := f()
		if k2 != key {
			rb, _ := json.Marshal(replay)
			c.EngineError(fmt.Sprintf("non-reproducible violation %q (then %q) on case %s", key, k2, rb))
			return false
		}
	}
	c.Violate(key, what, replay)
	return false
}

// Violate records a violation. key identifies the finding class; the first
// violation per key is kept with its replay data.
func (c *Ctx) Violate(key, what string, replay any) {
	c.violCount++
	if _, ok := c.viols[key]; ok {
		return
	}
	if len(c.viols) >= 200 {
		return
	}
	rb, err := json.Marshal(replay)
	if err != nil {
		rb, _ = json.Marshal(fmt.Sprint(replay))
	}
	c.viols[key] = &Violation{Key: key, What: what, Replay: rb}
}

type workerDone struct {
	T           string            `json:"t"`
	Evals       int64             `json:"evals"`
	Cases       int64             `json:"cases"`
	States      int64             `json:"states"`
	Transitions int64             `json:"transitions"`
	Execs       int64             `json:"execs"`
	Nontrivial  int64             `json:"nontrivial"`
	DedupeCap   bool              `json:"dedupe_cap"`
	Outcomes    []uint64          `json:"outcomes"`
	Samples     []any             `json:"samples"`
	Counters    map[string]int64  `json:"counters"`
	Notes       map[string]string `json:"notes"`
	Viols       []*Violation      `json:"viols"`
	ViolCount   int64             `json:"viol_count"`
	Exhaustive  bool              `json:"exhaustive"`
	EngineErrs  []string          `json:"engine_errs"`
}

func newCtx(p *Prop, tier string, seed int64, shard, n int) *Ctx {
	return &Ctx{Prop: p, Tier: tier, Seed: seed, Shard: shard, NShards: n,
		nontrivial: map[uint64]struct{}{}, outcomes: map[uint64]struct{}{}, Counters: map[string]int64{}, Notes: map[string]string{},
		viols: map[string]*Violation{}, Exhaustive: true, out: bufio.NewWriter(os.Stdout)}
}

func runWorker(p *Prop, tier string, seed int64, shard, n int, budget time.Duration, pin bool) {
	c := newCtx(p, tier, seed, shard, n)
	c.Deadline = time.Now().Add(budget)
	c.pin = pin
	p.Run(c)
	for _, f := range extras[p.ID] {
		if c.TimeUp() {
			break
		}
		f(c)
	}
	d := workerDone{T: "done", Evals: c.Evals, Cases: c.caseIdx, States: c.States, Transitions: c.Transitions, Execs: c.Execs,
		Nontrivial: c.nontrivCnt, DedupeCap: c.dedupeCap, Samples: c.Samples, Counters: c.Counters, Notes: c.Notes, ViolCount: c.violCount, Exhaustive: c.Exhaustive, EngineErrs: c.EngineErrs}
	for h := range c.outcomes {
		d.Outcomes = append(d.Outcomes, h)
		if len(d.Outcomes) >= 200000 {
			break
		}
	}
	keys := make([]string, 0, len(c.viols))
	for k := range c.viols {
		keys = append(keys, k)
	}
	sort.Strings(keys)
	for _, k := range keys {
		d.Viols = append(d.Viols, c.viols[k])
	}
	b, _ := json.Marshal(d)
	c.out.Write(b)
	c.out.WriteByte('\n')
	c.out.Flush()
}

// ---- known findings ---------------------------------------------------------

type Finding struct {
	Property string `json:"property"`
	Key      string `json:"key"`
	What     string `json:"what"`
	Status   string `json:"status"` // "known" | "fixed"
	Commit   string `json:"commit,omitempty"`
}

func loadFindings() map[string]Finding {
	out := map[string]Finding{}
	b, err := os.ReadFile(filepath.Join(verifDir(), "known_findings.json"))
	if err != nil {
		return out
	}
	var fs []Finding
	if err := json.Unmarshal(b, &fs); err != nil {
		fmt.Fprintf(os.Stderr, "known_findings.json: %v\n", err)
		os.Exit(2)
	}
	for _, f := range fs {
		out[f.Property+"|"+f.Key] = f
	}
	return out
}

func verifDir() string {
	if d := os.Getenv("VERIF_DIR"); d != "" {
		return d
	}
	return "/verif"
}

// ---- parent -------------------------------------------------------------------

type workerResult struct {
	shard  int
	done   *workerDone
	err    error
	stderr string
	pin    string
}

func spawnWorker(id, tier string, seed int64, shard, n int, budget time.Duration, pin bool) workerResult {
	args := []string{"-worker", "-prop", id, "-tier", tier, "-seed", fmt.Sprint(seed), "-shard", fmt.Sprint(shard), "-n", fmt.Sprint(n), "-budget", budget.String()}
	if pin {
		args = append(args, "-pin")
	}
	cmd := exec.Command(os.Args[0], args...)
	cmd.Env = append(os.Environ(), "GOMAXPROCS=2", "GOTRACEBACK=single")
	var errb strings.Builder
	cmd.Stderr = &limitedWriter{w: &errb, n: 1 << 16}
	so, _ := cmd.StdoutPipe()
	res := workerResult{shard: shard}
	if err := cmd.Start(); err != nil {
		res.err = err
		return res
	}
	sc := bufio.NewScanner(so)
	sc.Buffer(make([]byte, 1<<20), 1<<30)
	for sc.Scan() {
		line := sc.Bytes()
		if len(line) == 0 || line[0] != '{' {
			continue
		}
		var probe struct {
			T    string `json:"t"`
			Case string `json:"case"`
		}
		if json.Unmarshal(line, &probe) != nil {
			continue
		}
		switch probe.T {
		case "pin":
			res.pin = probe.Case
		case "done":
			var d workerDone
			if err := json.Unmarshal(line, &d); err == nil {
				res.done = &d
			}
		}
	}
	res.err = cmd.Wait()
	res.stderr = errb.String()
	return res
}

type limitedWriter struct {
	w *strings.Builder
	n int
}

func (l *limitedWriter) Write(p []byte) (int, error) {
	if l.w.Len() < l.n {
		k := l.n - l.w.Len()
		if k > len(p) {
			k = len(p)
		}
		l.w.Write(p[:k])
	}
	return len(p), nil
}

func runParent(p *Prop, tier string, seed int64, nworkers int, budget time.Duration) int {
	start := time.Now()
	if p.Serial {
		nworkers = 1
	}
	results := make([]workerResult, nworkers)
	var wg sync.WaitGroup
	for i := 0; i < nworkers; i++ {
		wg.Add(1)
		go func(i int) {
			defer wg.Done()
			results[i] = spawnWorker(p.ID, tier, seed, i, nworkers, budget, false)
		}(i)
	}
	wg.Wait()
	agg := workerDone{Counters: map[string]int64{}, Notes: map[string]string{}, Exhaustive: true}
	outcomes := map[uint64]struct{}{}
	viols := map[string]*Violation{}
	engineErr := false
	for _, r := range results {
		if r.done == nil {
			// the worker died: engine error, unless the property turns worker deaths into violations itself (C02 does so in-process via pin mode)
			fmt.Fprintf(os.Stderr, "worker %d of %s died: %v\n%s\n", r.shard, p.ID, r.err, tail(r.stderr, 3000))
			// pin the case down by re-running the shard in pin mode
			pr := spawnWorker(p.ID, tier, seed, r.shard, nworkers, budget, true)
			if pr.done == nil && pr.pin != "" {
				key := "worker-death/" + pr.pin
				rb, _ := json.Marshal(map[string]string{"case": pr.pin, "stderr": tail(pr.stderr, 2000)})
				viols[key] = &Violation{Key: key, What: "worker process died while executing case " + pr.pin + ": " + firstLine(pr.stderr), Replay: rb}
				agg.ViolCount++
				agg.Exhaustive = false
				continue
			}
			engineErr = true
			continue
		}
		d := r.done
		for _, e := range d.EngineErrs {
			fmt.Fprintf(os.Stderr, "ENGINE-ERROR property=%s: %s\n", p.ID, e)
			engineErr = true
		}
		agg.Evals += d.Evals
		if d.Cases > agg.Cases {
			agg.Cases = d.Cases
		}
		agg.States += d.States
		agg.Transitions += d.Transitions
		agg.Execs += d.Execs
		agg.Nontrivial += d.Nontrivial
		agg.DedupeCap = agg.DedupeCap || d.DedupeCap
		agg.ViolCount += d.ViolCount
		agg.Exhaustive = agg.Exhaustive && d.Exhaustive
		for _, h := range d.Outcomes {
			outcomes[h] = struct{}{}
		}
		for _, s := range d.Samples {
			if len(agg.Samples) < 6 {
				agg.Samples = append(agg.Samples, s)
			}
		}
		for k, v := range d.Counters {
			if strings.HasPrefix(k, "max:") {
				if v > agg.Counters[k] {
					agg.Counters[k] = v
				}
			} else {
				agg.Counters[k] += v
			}
		}
		for k, v := range d.Notes {
			agg.Notes[k] = v
		}
		for _, v := range d.Viols {
			if _, ok := viols[v.Key]; !ok {
				viols[v.Key] = v
			}
		}
	}
	if engineErr && len(viols) == 0 {
		fmt.Fprintf(os.Stderr, "ENGINE-ERROR property=%s: engine errors above (or a worker died and the case could not be pinned)\n", p.ID)
		return 2
	}
	// classify violations
	known := loadFindings()
	keys := make([]string, 0, len(viols))
	for k := range viols {
		keys = append(keys, k)
	}
	sort.Strings(keys)
	nNew, nKnown := 0, 0
	var knownLines []string
	os.MkdirAll(filepath.Join(verifDir(), "replays"), 0o755)
	for _, k := range keys {
		v := viols[k]
		if f, ok := known[p.ID+"|"+k]; ok && f.Status == "known" {
			nKnown++
			line := fmt.Sprintf("KNOWN-FINDING: property=%s %s [%s]", p.ID, f.What, k)
			knownLines = append(knownLines, line)
			fmt.Println(line)
			continue
		}
		nNew++
		sum := sha1.Sum([]byte(k))
		path := filepath.Join(verifDir(), "replays", fmt.Sprintf("%s-%s.json", p.ID, hex.EncodeToString(sum[:6])))
		rb, _ := json.MarshalIndent(map[string]any{"property": p.ID, "key": k, "what": v.What, "tier": tier, "case": v.Replay}, "", " ")
		os.WriteFile(path, rb, 0o644)
		if nNew <= 25 {
			fmt.Printf("VIOLATION property=%s replay=%s\n  key:  %s\n  what: %s\n", p.ID, path, k, v.What)
		}
	}
	if nNew > 25 {
		fmt.Printf("... %d more distinct violation keys\n", nNew-25)
	}
	// evidence
	for _, rq := range append(append([]string{}, p.Require...), extraRequire[p.ID]...) {
		if agg.Counters[rq] <= 0 && nNew == 0 && agg.Exhaustive {
			fmt.Fprintf(os.Stderr, "ENGINE-ERROR property=%s: vacuity guard: counter %q is 0\n", p.ID, rq)
			return 2
		}
	}
	if len(agg.Samples) == 0 && nNew == 0 {
		fmt.Fprintf(os.Stderr, "ENGINE-ERROR property=%s: the check recorded no sample case\n", p.ID)
		return 2
	}
	if agg.Samples == nil {
		agg.Samples = []any{}
	}
	if agg.Nontrivial < 2 && nNew == 0 {
		fmt.Fprintf(os.Stderr, "ENGINE-ERROR property=%s: vacuous run (distinct non-trivial cases = %d)\n", p.ID, agg.Nontrivial)
		return 2
	}
	states := agg.States
	if states == 0 {
		states = agg.Evals
	}
	trans := agg.Transitions
	if trans == 0 {
		trans = agg.Execs
	}
	cov := map[string]any{
		"states":                        states,
		"transitions":                   trans,
		"traces_validated_against_impl": agg.Execs,
		"evaluations":                   agg.Evals,
		"distinct_nontrivial":           agg.Nontrivial,
		"distinct_outcomes":             len(outcomes),
		"rule":                          p.Rule,
		"samples":                       agg.Samples,
		"exhaustive":                    agg.Exhaustive,
		"counters":                      agg.Counters,
		"notes":                         agg.Notes,
		"known_findings_seen":           knownLines,
		"violation_instances":           agg.ViolCount,
		"workers":                       nworkers,
	}
	if agg.DedupeCap {
		cov["dedupe_note"] = "more than 10^6 non-trivial cases in one worker: beyond that cases are counted without de-duplication (the enumeration itself is duplicate free)"
	}
	ev := map[string]any{
		"property_id": p.ID,
		"tier":        tier,
		"seed":        seed,
		"level":       "model_checking",
		"coverage":    cov,
		"assumptions": p.Assumptions,
		"wall_s":      time.Since(start).Seconds(),
		"violations":  nNew,
	}
	eb, _ := json.MarshalIndent(ev, "", " ")
	os.MkdirAll(filepath.Join(verifDir(), "evidence"), 0o755)
	if err := os.WriteFile(filepath.Join(verifDir(), "evidence", p.ID+".json"), eb, 0o644); err != nil {
		fmt.Fprintln(os.Stderr, err)
		return 2
	}
	fmt.Printf("%s %s: cases=%d executions=%d states=%d transitions=%d nontrivial=%d outcomes=%d exhaustive=%v known=%d new=%d wall=%.1fs\n",
		p.ID, tier, agg.Evals, agg.Execs, states, trans, agg.Nontrivial, len(outcomes), agg.Exhaustive, nKnown, nNew, time.Since(start).Seconds())
	if nNew > 0 {
		return 1
	}
	if engineErr {
		fmt.Fprintf(os.Stderr, "ENGINE-ERROR property=%s: engine errors above\n", p.ID)
		return 2
	}
	return 0
}

func tail(s string, n int) string {
	if len(s) > n {
		return s[len(s)-n:]
	}
	return s
}

func firstLine(s string) string {
	for _, l := range strings.Split(s, "\n") {
		if strings.TrimSpace(l) != "" {
			if len(l) > 300 {
				l = l[:300]
			}
			return l
		}
	}
	return ""
}

// decoyEnv: the process environment of every run of gotree code (in-process and fresh processes) holds unusual values for
// the variables programs commonly consult, so that a default taken from the environment differs from the documented one.
var decoyEnv = []string{"COLUMNS=97", "LINES=43", "TERM=dumb", "NO_COLOR=1", "GOTREE_VERIF_ENV=1"}

func main() {
	if os.Getenv("GOTREE_VERIF_ENV") == "" {
		// package initialisation (cobra option registration) has already happened: start again in the decoy environment
		if self, err := os.Executable(); err == nil {
			syscall.Exec(self, os.Args, append(os.Environ(), decoyEnv...))
		}
	}
	var (
		worker = flag.Bool("worker", false, "worker mode")
		prop   = flag.String("prop", "", "property id")
		tier   = flag.String("tier", "quick", "quick|thorough")
		seed   = flag.Int64("seed", 0, "seed (rotates shard assignment only)")
		shard  = flag.Int("shard", 0, "shard")
		n      = flag.Int("n", 0, "number of shards/workers")
		budget = flag.Duration("budget", 0, "internal time budget")
		pin    = flag.Bool("pin", false, "announce each case before executing it")
		replay = flag.String("replay", "", "replay file")
		list   = flag.Bool("list", false, "list properties")
		race   = flag.Bool("c11race", false, "free-running race pass of C11 (race build only)")
		dumpf  = flag.Bool("dumpflags", false, "list every command and flag with documented and actual default")
		clitab = flag.Bool("clitable", false, "run every command line of the driver table once and print its outcome")
	)
	flag.Parse()
	if *race {
		c11raceMain()
		return
	}
	if *dumpf {
		for _, f := range c19flags() {
			fmt.Printf("%-40s --%-22s %-12s def=%q actual=%q addr=%x\n", f.Cmd, f.Flag, f.Type, f.Def, f.Actual, f.addr)
		}
		return
	}
	if *clitab {
		cliTableDump()
		return
	}
	if *list {
		var ids []string
		for id := range props {
			ids = append(ids, id)
		}
		sort.Strings(ids)
		fmt.Println(strings.Join(ids, " "))
		return
	}
	if *replay != "" {
		os.Exit(doReplay(*replay))
	}
	p := props[*prop]
	if p == nil {
		fmt.Fprintf(os.Stderr, "unknown property %q\n", *prop)
		os.Exit(2)
	}
	if s := os.Getenv("VERIF_SEED"); s != "" && *seed == 0 {
		fmt.Sscan(s, seed)
	}
	if t := os.Getenv("VERIF_TIER"); t != "" && !flagSet("tier") {
		*tier = t
	}
	if *budget == 0 {
		if *tier == "quick" {
			*budget = 4 * time.Minute
		} else {
			*budget = 40 * time.Minute
		}
	}
	if *worker {
		runWorker(p, *tier, *seed, *shard, *n, *budget, *pin)
		return
	}
	nw := *n
	if w := os.Getenv("VERIF_WORKERS"); w != "" && nw == 0 {
		fmt.Sscan(w, &nw)
	}
	if nw == 0 {
		nw = runtime.NumCPU()
		if nw > 16 {
			nw = 16
		}
	}
	os.Exit(runParent(p, *tier, *seed, nw, *budget))
}

func flagSet(name string) bool {
	set := false
	flag.Visit(func(f *flag.Flag) {
		if f.Name == name {
			set = true
		}
	})
	return set
}

// extraReplays: replay functions of the added families; each returns false when the recorded case is not one of its own.
var extraReplays []func(c *Ctx, raw json.RawMessage) bool

func doReplay(path string) int {
	b, err := os.ReadFile(path)
	if err != nil {
		fmt.Fprintln(os.Stderr, err)
		return 2
	}
	var r struct {
		Property string          `json:"property"`
		Key      string          `json:"key"`
		What     string          `json:"what"`
		Tier     string          `json:"tier"`
		Case     json.RawMessage `json:"case"`
	}
	if err := json.Unmarshal(b, &r); err != nil {
		fmt.Fprintln(os.Stderr, err)
		return 2
	}
	p := props[r.Property]
	if p == nil || p.Replay == nil {
		fmt.Fprintf(os.Stderr, "no replay function for %s\n", r.Property)
		return 2
	}
	c := newCtx(p, r.Tier, 0, 0, 1)
	c.Deadline = time.Now().Add(time.Hour)
	fmt.Printf("replaying %s key=%s\nrecorded: %s\n", r.Property, r.Key, r.What)
	handled := cliDiffReplay(c, r.Case)
	for _, f := range extraReplays {
		if !handled {
			handled = f(c, r.Case)
		}
	}
	if !handled {
		p.Replay(c, r.Case)
	}
	if len(c.viols) == 0 {
		fmt.Println("replay: no violation reproduced")
		return 0
	}
	for k, v := range c.viols {
		fmt.Printf("VIOLATION property=%s replay=%s\n  key:  %s\n  what: %s\n", r.Property, path, k, v.What)
	}
	return 1
}

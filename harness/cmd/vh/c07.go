package main

import (
	"encoding/json"
	"fmt"
	"math/big"
	"os"
	"runtime/debug"
	"sort"
	"strings"

	"github.com/evolbioinfo/gotree/mcrt"
	"github.com/evolbioinfo/gotree/tree"

	"verif/harness/enum"
	rm "verif/harness/refmodel"
)

// C07: Collapse removes exactly the targeted branches; resolve only refines.
//
// Real code executed: Tree.CollapseShortBranches, CollapseLowSupport, CollapseTopoDepth, RemoveEdges, Resolve.
// Reference side: definitions on rm.Tree only (tip sets below branches, canonical bipartitions, path sums).

// ---------------------------------------------------------------------------
// case description (also the replay record)

type c07case struct {
	Tree string   `json:"tree"`
	Op   string   `json:"op"` // length | support | depth | edges | resolve
	L    float64  `json:"length_threshold,omitempty"`
	S    float64  `json:"support_threshold,omitempty"`
	Min  int      `json:"min_depth,omitempty"`
	Max  int      `json:"max_depth,omitempty"`
	Root bool     `json:"remove_root,omitempty"`
	Tips bool     `json:"remove_tips,omitempty"`
	Sel  []uint64 `json:"edges,omitempty"` // RemoveEdges: branches in call order, each named by the tip set below it (bit i = i-th sorted tip name)
	Prep int      `json:"prep"`            // 0 parsed, 1 parsed+ReinitIndexes, 2 built by constructors, 3 built+ReinitIndexes
}

func (cs *c07case) String() string {
	fl := ""
	if cs.Root {
		fl += " removeRoot"
	}
	if cs.Tips {
		fl += " removeTips"
	}
	prep := []string{"parsed", "parsed+ReinitIndexes", "built", "built+ReinitIndexes"}[cs.Prep]
	switch cs.Op {
	case "length":
		return fmt.Sprintf("CollapseShortBranches(%v%s) on %s [%s]", cs.L, fl, cs.Tree, prep)
	case "support":
		return fmt.Sprintf("CollapseLowSupport(%v%s) on %s [%s]", cs.S, fl, cs.Tree, prep)
	case "depth":
		return fmt.Sprintf("CollapseTopoDepth(%d,%d%s) on %s [%s]", cs.Min, cs.Max, fl, cs.Tree, prep)
	case "edges":
		return fmt.Sprintf("RemoveEdges(%v%s) on %s [%s]", cs.Sel, fl, cs.Tree, prep)
	}
	return fmt.Sprintf("Resolve() on %s [%s]", cs.Tree, prep)
}

// ---------------------------------------------------------------------------
// reference view of a tree: one record per branch (= per non-root node)

type c07br struct {
	below   rm.Split // tips below the branch in the rooted presentation
	canon   rm.Split // the bipartition, canonical side
	tip     bool
	rootAdj bool // one of the two branches at the root of a rooted tree
	hasLen  bool
	len     float64
	hasSup  bool
	sup     float64
	name    string
	nchild  int
}

type c07view struct {
	n        int
	rooted   bool
	rootName string
	rootDeg  int
	brs      []c07br // pre-order
	byCanon  map[rm.Split][]int
	byBelow  map[rm.Split]int
}

// c07tipNames returns the sorted tip names and whether they are usable as an index (non-empty, distinct).
func c07tipNames(t *rm.Tree) ([]string, bool) {
	names := t.TipNames()
	for i, s := range names {
		if s == "" || (i > 0 && names[i-1] == s) {
			return names, false
		}
	}
	return names, true
}

func c07viewOf(t *rm.Tree, idx map[string]int, n int) *c07view {
	v := &c07view{n: n, rooted: len(t.Root.Children) == 2, rootName: t.Root.Name, rootDeg: len(t.Root.Children),
		byCanon: map[rm.Split][]int{}, byBelow: map[rm.Split]int{}}
	var rec func(nd, p *rm.Node) rm.Split
	rec = func(nd, p *rm.Node) rm.Split {
		pos := -1
		if p != nil {
			pos = len(v.brs)
			v.brs = append(v.brs, c07br{tip: nd.IsTip(), rootAdj: p == t.Root && v.rooted, hasLen: nd.HasLen, len: nd.Len,
				hasSup: nd.HasSup, sup: nd.Sup, name: nd.Name, nchild: len(nd.Children)})
		}
		var m rm.Split
		if nd.IsTip() {
			m = 1 << uint(idx[nd.Name])
		}
		for _, c := range nd.Children {
			m |= rec(c, nd)
		}
		if pos >= 0 {
			v.brs[pos].below = m
			v.brs[pos].canon = m.Canon(n)
		}
		return m
	}
	rec(t.Root, nil)
	for i := range v.brs {
		k := v.brs[i].canon
		v.byCanon[k] = append(v.byCanon[k], i)
		if _, ok := v.byBelow[v.brs[i].below]; !ok {
			v.byBelow[v.brs[i].below] = i
		}
	}
	return v
}

// rootSplit: the bipartition defined by both root branches of a rooted tree.
func (v *c07view) rootSplit() (rm.Split, bool) {
	for i := range v.brs {
		if v.brs[i].rootAdj {
			return v.brs[i].canon, true
		}
	}
	return 0, false
}

// merged length/support of a bipartition (several branches only for the root branches of a rooted tree): lengths add, absent = 0
func (v *c07view) merged(k rm.Split) (hasLen bool, l float64, hasSup bool, s float64) {
	for _, i := range v.byCanon[k] {
		b := &v.brs[i]
		if b.hasLen {
			hasLen = true
			l += b.len
		}
		if b.hasSup && (!hasSup || b.sup > s) {
			hasSup, s = true, b.sup
		}
	}
	return
}

func c07fl(has bool, v float64) string {
	if !has {
		return "absent"
	}
	return rm.FormatFloat(v)
}

func c07tipset(v *c07view, names []string, s rm.Split) string {
	return "{" + strings.Join(s.Names(names), ",") + "}"
}

// ---------------------------------------------------------------------------
// documented criteria (tri-state: an absent length is don't-care for "length <= l")

const (
	c07No = iota
	c07Yes
	c07Any
)

// c07crit returns the verdict of the documented criterion for a branch and a tag describing boundary situations (for the vacuity counters).
func c07crit(cs *c07case, b *c07br, n int) (int, string) {
	switch cs.Op {
	case "length":
		if !b.hasLen {
			return c07Any, "absent"
		}
		if b.len <= cs.L {
			switch {
			case b.len == cs.L:
				return c07Yes, "eq"
			case b.len == 0:
				return c07Yes, "zero"
			}
			return c07Yes, ""
		}
		return c07No, ""
	case "support":
		if !b.hasSup {
			return c07No, "absent"
		}
		if b.sup < cs.S {
			return c07Yes, ""
		}
		if b.sup == cs.S {
			return c07No, "eq"
		}
		return c07No, ""
	case "depth":
		d := b.below.Count()
		if n-d < d {
			d = n - d
		}
		if cs.Min <= d && d <= cs.Max {
			switch d {
			case cs.Min:
				return c07Yes, "eqmin"
			case cs.Max:
				return c07Yes, "eqmax"
			}
			return c07Yes, ""
		}
		if d == cs.Min-1 || d == cs.Max+1 {
			return c07No, "adjacent"
		}
		return c07No, ""
	case "edges":
		for _, s := range cs.Sel {
			if rm.Split(s) == b.below {
				return c07Yes, ""
			}
		}
		return c07No, ""
	}
	return c07No, ""
}

// ---------------------------------------------------------------------------
// oracles

type c07counts map[string]int64

func (k c07counts) add(name string) {
	if k != nil {
		k[name]++
	}
}

// c07collapseOracle decides every clause of the collapse half of the property on one (before, after) pair.
// Returns clause ("" = held) and a description.
func c07collapseOracle(cs *c07case, b, a *c07view, names []string, cnt c07counts) (string, string) {
	if a.rootName != b.rootName {
		return "root-name-changed", fmt.Sprintf("root name %q became %q", b.rootName, a.rootName)
	}
	for i := range a.brs {
		if a.brs[i].nchild == 1 {
			return "malformed", fmt.Sprintf("result has a single-child node above %s", c07tipset(a, names, a.brs[i].below))
		}
	}
	R, hasR := b.rootSplit()
	op := cs.Op
	if hasR {
		// The two root branches of a rooted tree are outside the exact-set claim. Only this much is demanded of them:
		// when neither of them satisfies the criterion (under any reading: separately or merged) the root bipartition is
		// one of the "other splits" and keeps its (merged) length and support.
		untargeted := true
		for i := range b.brs {
			if br := &b.brs[i]; br.rootAdj {
				v, _ := c07crit(cs, br, b.n)
				if br.tip && !cs.Tips {
					v = c07No // without removeTips a tip branch is never concerned
				}
				if v != c07No {
					untargeted = false
				}
			}
		}
		if untargeted {
			if len(a.byCanon[R]) == 0 {
				return "root-split-removed", fmt.Sprintf("neither root branch satisfies the criterion but the root bipartition %s disappeared", c07tipset(b, names, R))
			}
			hl, l, hs, sp := b.merged(R)
			hl2, l2, hs2, sp2 := a.merged(R)
			if hl != hl2 || (hl && !rm.SameFloat(l, l2)) {
				return "root-split-length-changed", fmt.Sprintf("root bipartition %s (no root branch satisfies the criterion): length %s became %s", c07tipset(b, names, R), c07fl(hl, l), c07fl(hl2, l2))
			}
			if hs != hs2 || (hs && !rm.SameFloat(sp, sp2)) {
				return "root-split-support-changed", fmt.Sprintf("root bipartition %s (no root branch satisfies the criterion): support %s became %s", c07tipset(b, names, R), c07fl(hs, sp), c07fl(hs2, sp2))
			}
			cnt.add("rootsplit_untargeted_kept")
		}
	}
	for i := range b.brs {
		br := &b.brs[i]
		if hasR && br.canon == R {
			cnt.add("rootadj_ignored")
			// the node itself, if still there, keeps its name
			if j, ok := a.byBelow[br.below]; ok && !br.tip {
				if a.brs[j].name != br.name {
					return "name-changed", fmt.Sprintf("node above %s: name %q became %q", c07tipset(b, names, br.below), br.name, a.brs[j].name)
				}
			}
			continue
		}
		list := a.byCanon[br.canon]
		if len(list) > 1 {
			return "malformed", fmt.Sprintf("bipartition %s is defined by %d branches of the result", c07tipset(b, names, br.below), len(list))
		}
		verdict, tag := c07crit(cs, br, b.n)
		if br.tip {
			if len(list) == 0 {
				return "tip-removed", fmt.Sprintf("tip branch %s disappeared", c07tipset(b, names, br.below))
			}
			x := &a.brs[list[0]]
			if !x.tip {
				return "malformed", fmt.Sprintf("tip branch %s is not a tip branch in the result", c07tipset(b, names, br.below))
			}
			if x.hasSup != br.hasSup || (x.hasSup && !rm.SameFloat(x.sup, br.sup)) {
				return "tip-support-changed", fmt.Sprintf("tip branch %s: support %s became %s", c07tipset(b, names, br.below), c07fl(br.hasSup, br.sup), c07fl(x.hasSup, x.sup))
			}
			if x.hasLen == br.hasLen && (!x.hasLen || rm.SameFloat(x.len, br.len)) {
				cnt.add("tips_unchanged")
				if cs.Tips && verdict != c07No && x.hasLen && x.len == 0 {
					cnt.add("tips_zero_after")
				}
				continue
			}
			// documented with removeTips: a tip branch meeting the criterion becomes 0.0 (accepted, not demanded)
			if cs.Tips && verdict != c07No && x.hasLen && x.len == 0 {
				cnt.add("tips_zeroed")
				continue
			}
			feat := "without-removeTips"
			if cs.Tips {
				feat = "criterion-not-met"
			}
			return "tip-length-changed/" + feat, fmt.Sprintf("tip branch %s: length %s became %s", c07tipset(b, names, br.below), c07fl(br.hasLen, br.len), c07fl(x.hasLen, x.len))
		}
		// inner, non-root branch
		if len(list) == 0 {
			if verdict == c07No {
				return "removed-nontarget", fmt.Sprintf("inner branch %s (length %s, support %s) does not satisfy the criterion but was removed",
					c07tipset(b, names, br.below), c07fl(br.hasLen, br.len), c07fl(br.hasSup, br.sup))
			}
			if verdict == c07Yes {
				cnt.add(op + "_removed")
				if tag != "" {
					cnt.add(op + "_removed_" + tag)
				}
			} else {
				cnt.add(op + "_any_" + tag)
			}
			continue
		}
		if verdict == c07Yes {
			return "not-removed", fmt.Sprintf("inner branch %s (length %s, support %s) satisfies the criterion but is still there",
				c07tipset(b, names, br.below), c07fl(br.hasLen, br.len), c07fl(br.hasSup, br.sup))
		}
		if verdict == c07No {
			cnt.add(op + "_kept")
			if tag != "" {
				cnt.add(op + "_kept_" + tag)
			}
		} else {
			cnt.add(op + "_any_" + tag)
		}
		x := &a.brs[list[0]]
		if x.tip {
			return "malformed", fmt.Sprintf("inner branch %s is a tip branch in the result", c07tipset(b, names, br.below))
		}
		if x.hasLen != br.hasLen || (x.hasLen && !rm.SameFloat(x.len, br.len)) {
			return "length-changed", fmt.Sprintf("surviving branch %s: length %s became %s", c07tipset(b, names, br.below), c07fl(br.hasLen, br.len), c07fl(x.hasLen, x.len))
		}
		if x.hasSup != br.hasSup || (x.hasSup && !rm.SameFloat(x.sup, br.sup)) {
			return "support-changed", fmt.Sprintf("surviving branch %s: support %s became %s", c07tipset(b, names, br.below), c07fl(br.hasSup, br.sup), c07fl(x.hasSup, x.sup))
		}
		cnt.add("values_compared")
		if x.below == br.below {
			if x.name != br.name {
				return "name-changed", fmt.Sprintf("node above %s: name %q became %q", c07tipset(b, names, br.below), br.name, x.name)
			}
			if br.name != "" {
				cnt.add("names_compared")
			}
		}
	}
	for j := range a.brs {
		x := &a.brs[j]
		if hasR && x.canon == R {
			continue
		}
		if len(b.byCanon[x.canon]) == 0 {
			return "new-split", fmt.Sprintf("result has a branch %s that the input did not have", c07tipset(a, names, x.below))
		}
	}
	return "", ""
}

// c07resolveOracle decides the resolve half on one (before, after) pair.
func c07resolveOracle(bt, at *rm.Tree, b, a *c07view, names []string, cnt c07counts) (string, string) {
	if a.rootName != b.rootName {
		return "root-name-changed", fmt.Sprintf("root name %q became %q", b.rootName, a.rootName)
	}
	// fully binary: every inner node 3 neighbours, the root 2 or 3
	if a.rootDeg != 2 && a.rootDeg != 3 {
		return "not-binary", fmt.Sprintf("root of the result has %d neighbours", a.rootDeg)
	}
	for i := range a.brs {
		x := &a.brs[i]
		if !x.tip && x.nchild != 2 {
			return "not-binary", fmt.Sprintf("node above %s has %d neighbours", c07tipset(a, names, x.below), x.nchild+1)
		}
	}
	// every original split is kept, with its length and support
	seen := map[rm.Split]bool{}
	for i := range b.brs {
		k := b.brs[i].canon
		if seen[k] {
			continue
		}
		seen[k] = true
		if len(a.byCanon[k]) == 0 {
			return "split-lost", fmt.Sprintf("bipartition %s of the input is not in the result", c07tipset(b, names, b.brs[i].below))
		}
		hl, l, hs, s := b.merged(k)
		hl2, l2, hs2, s2 := a.merged(k)
		if hl != hl2 || (hl && !rm.SameFloat(l, l2)) {
			return "length-changed", fmt.Sprintf("branch %s: length %s became %s", c07tipset(b, names, b.brs[i].below), c07fl(hl, l), c07fl(hl2, l2))
		}
		if hs != hs2 || (hs && !rm.SameFloat(s, s2)) {
			return "support-changed", fmt.Sprintf("branch %s: support %s became %s", c07tipset(b, names, b.brs[i].below), c07fl(hs, s), c07fl(hs2, s2))
		}
		cnt.add("resolve_kept_splits")
		if j, ok := a.byBelow[b.brs[i].below]; ok {
			if a.brs[j].name != b.brs[i].name {
				return "name-changed", fmt.Sprintf("node above %s: name %q became %q", c07tipset(b, names, b.brs[i].below), b.brs[i].name, a.brs[j].name)
			}
			if !b.brs[i].tip && b.brs[i].name != "" {
				cnt.add("resolve_names_compared")
			}
		}
	}
	// every added branch: inner, length 0, no support
	for j := range a.brs {
		x := &a.brs[j]
		if len(b.byCanon[x.canon]) > 0 {
			continue
		}
		if x.tip {
			return "malformed", fmt.Sprintf("new tip branch %s", c07tipset(a, names, x.below))
		}
		if len(a.byCanon[x.canon]) != 1 {
			return "malformed", fmt.Sprintf("new bipartition %s is defined by %d branches", c07tipset(a, names, x.below), len(a.byCanon[x.canon]))
		}
		if !x.hasLen || x.len != 0 {
			return "added-branch-length", fmt.Sprintf("added branch %s has length %s, not 0", c07tipset(a, names, x.below), c07fl(x.hasLen, x.len))
		}
		if x.hasSup {
			return "added-branch-support", fmt.Sprintf("added branch %s carries support %s", c07tipset(a, names, x.below), c07fl(x.hasSup, x.sup))
		}
		cnt.add("resolve_new_branches")
	}
	// every tip-to-tip distance (path sums, absent = 0; lengths are dyadic => exact)
	d1, _ := bt.DistMatrix(rm.MetricLen)
	d2, _ := at.DistMatrix(rm.MetricLen)
	for i := range d1 {
		for j := i + 1; j < len(d1); j++ {
			if d1[i][j] != d2[i][j] {
				return "distance-changed", fmt.Sprintf("distance %s-%s: %v became %v", names[i], names[j], d1[i][j], d2[i][j])
			}
			cnt.add("resolve_dist_pairs")
		}
	}
	return "", ""
}

// ---------------------------------------------------------------------------
// the real code

func c07prep(cs *c07case) (*tree.Tree, string) {
	var t *tree.Tree
	if cs.Prep >= 2 {
		m, err := rm.ParseNewick(cs.Tree)
		if err != nil {
			return nil, "reference reader: " + err.Error()
		}
		t = build(m)
	} else {
		var err error
		if t, err = gtParse(cs.Tree); err != nil {
			return nil, "gotree parser rejects the case: " + err.Error()
		}
	}
	if cs.Prep == 1 || cs.Prep == 3 {
		if err := t.ReinitIndexes(); err != nil {
			return nil, "ReinitIndexes: " + err.Error()
		}
	}
	return t, ""
}

// c07below: tip set below a branch, through the public API only.
func c07below(e *tree.Edge, idx map[string]int) rm.Split {
	var rec func(n, from *tree.Node) rm.Split
	rec = func(n, from *tree.Node) rm.Split {
		if n.Tip() {
			return 1 << uint(idx[n.Name()])
		}
		var m rm.Split
		for _, nb := range n.Neigh() {
			if nb != from {
				m |= rec(nb, n)
			}
		}
		return m
	}
	return rec(e.Right(), e.Left())
}

func c07apply(t *tree.Tree, cs *c07case, idx map[string]int) (string, error) {
	switch cs.Op {
	case "length":
		t.CollapseShortBranches(cs.L, cs.Root, cs.Tips)
	case "support":
		t.CollapseLowSupport(cs.S, cs.Root)
	case "depth":
		return "", t.CollapseTopoDepth(cs.Min, cs.Max, cs.Root, cs.Tips)
	case "edges":
		all := t.Edges()
		by := map[rm.Split]*tree.Edge{}
		for _, e := range all {
			by[c07below(e, idx)] = e
		}
		sel := make([]*tree.Edge, 0, len(cs.Sel))
		for _, s := range cs.Sel {
			e := by[rm.Split(s)]
			if e == nil {
				return fmt.Sprintf("no branch above tip set %b", s), nil
			}
			sel = append(sel, e)
		}
		t.RemoveEdges(cs.Root, cs.Tips, sel...)
	case "resolve":
		t.Resolve()
	}
	return "", nil
}

// c07edgeList: Edges() must list exactly the branches reached by walking Root/Neigh/Edges, each oriented parent -> child.
func c07edgeList(t *tree.Tree) string {
	walked := map[*tree.Edge]bool{}
	bad := ""
	n := 0
	var rec func(nd, from *tree.Node)
	rec = func(nd, from *tree.Node) {
		if n > 100000 {
			return
		}
		nb := nd.Neigh()
		es := nd.Edges()
		for i := range nb {
			if nb[i] == from || i >= len(es) {
				continue
			}
			n++
			e := es[i]
			if walked[e] {
				bad = "a branch is reached twice"
				return
			}
			walked[e] = true
			if e.Left() != nd || e.Right() != nb[i] {
				bad = fmt.Sprintf("branch between %q and %q is not oriented parent->child", nd.Name(), nb[i].Name())
			}
			rec(nb[i], nd)
		}
	}
	rec(t.Root(), nil)
	if bad != "" {
		return bad
	}
	es := t.Edges()
	if len(es) != len(walked) {
		return fmt.Sprintf("Edges() lists %d branches, the tree has %d", len(es), len(walked))
	}
	seen := map[*tree.Edge]bool{}
	for _, e := range es {
		if !walked[e] || seen[e] {
			return "Edges() lists a branch that is not (or twice) in the tree"
		}
		seen[e] = true
	}
	return ""
}

type c07obs struct {
	herr    string // harness / preparation problem (engine error)
	opErr   error
	api     *rm.Tree
	apiErr  string
	listErr string
	txt     string
	txtM    *rm.Tree
	txtErr  string
}

func c07execute(cs *c07case, idx map[string]int) c07obs {
	var o c07obs
	t, herr := c07prep(cs)
	if herr != "" {
		o.herr = herr
		return o
	}
	o.herr, o.opErr = c07apply(t, cs, idx)
	if o.herr != "" || o.opErr != nil {
		return o
	}
	var err error
	if o.api, err = observe(t); err != nil {
		o.apiErr = err.Error()
		return o
	}
	o.listErr = c07edgeList(t)
	if o.txtM, o.txt, err = modelOf(t); err != nil {
		o.txtErr = err.Error()
	}
	return o
}

func c07rootedness(b *c07view) string {
	if b.rooted {
		return "rooted"
	}
	return "unrooted"
}

// c07judge evaluates one completed execution; view "api" (public accessors) then "newick" (written text).
func c07judge(cs *c07case, o *c07obs, m *rm.Tree, bv *c07view, names []string, idx map[string]int, cnt c07counts) (string, string) {
	pre := "C07/" + cs.Op + "/"
	suf := "/" + c07rootedness(bv)
	if o.opErr != nil {
		cnt.add(cs.Op + "_errors")
		return "", "" // a failed operation creates no obligation
	}
	if o.apiErr != "" {
		return pre + "malformed" + suf, fmt.Sprintf("%s: result cannot be walked: %s", cs, o.apiErr)
	}
	if o.txtErr != "" {
		return pre + "malformed" + suf, fmt.Sprintf("%s: written result %q is unreadable: %s", cs, o.txt, o.txtErr)
	}
	for vi, at := range []*rm.Tree{o.api, o.txtM} {
		view := []string{"", "/newick-only"}[vi]
		an, _ := c07tipNames(at)
		if strings.Join(an, "\x00") != strings.Join(names, "\x00") {
			return pre + "tip-set-changed" + suf + view, fmt.Sprintf("%s: tips %q became %q (result %s)", cs, names, an, o.txt)
		}
		av := c07viewOf(at, idx, len(names))
		var clause, what string
		k := cnt
		if vi > 0 {
			k = nil
		}
		if cs.Op == "resolve" {
			clause, what = c07resolveOracle(m, at, bv, av, names, k)
		} else {
			clause, what = c07collapseOracle(cs, bv, av, names, k)
		}
		if clause != "" {
			return pre + clause + suf + view, fmt.Sprintf("%s: %s (result %s)", cs, what, o.txt)
		}
		if vi == 0 && o.listErr != "" {
			return pre + "edge-list" + suf, fmt.Sprintf("%s: %s (result %s)", cs, o.listErr, o.txt)
		}
	}
	return "", ""
}

type c07ctx struct {
	m     *rm.Tree
	bv    *c07view
	names []string
	idx   map[string]int
}

func c07context(m *rm.Tree) (*c07ctx, error) {
	names, ok := c07tipNames(m)
	if !ok {
		return nil, fmt.Errorf("tip names of the case are not distinct and non-empty")
	}
	idx := rm.TipIndex(names)
	return &c07ctx{m: m, names: names, idx: idx, bv: c07viewOf(m, idx, len(names))}, nil
}

// c07check runs one case on the real code and judges it. cnt may be nil.
func c07check(c *Ctx, cs *c07case, x *c07ctx, cnt c07counts) (string, string) {
	if cs.Op == "resolve" {
		return c07checkResolve(c, cs, x, cnt)
	}
	var o c07obs
	r := guard(func() { o = c07execute(cs, x.idx) })
	if crashed(r) {
		return "C07/" + cs.Op + "/crash/" + crashSite(r), fmt.Sprintf("%s: %s", cs, verdictStr(r))
	}
	if o.herr != "" {
		c.EngineError(fmt.Sprintf("C07 %s: %s", cs, o.herr))
		return "", ""
	}
	if cnt != nil {
		c.Outcome(o.txt)
	}
	return c07judge(cs, &o, x.m, x.bv, x.names, x.idx, cnt)
}

// c07checkResolve explores ALL answer sequences of the random draws of Resolve.
func c07checkResolve(c *Ctx, cs *c07case, x *c07ctx, cnt c07counts) (string, string) {
	var o c07obs
	var key, what string
	total := new(big.Rat)
	outcomes := map[string]bool{}
	body := func() { o = c07obs{}; o = c07execute(cs, x.idx) }
	st := mcrt.Explore(mcrt.ExploreOpts{Base: mcrt.Config{NoSched: true, RandMode: mcrt.RandEnumerate, Fuel: 20_000_000}, Bound: 0, Deadline: c.Deadline}, body,
		func(r *mcrt.Result, choices []int) bool {
			if r.Verdict == mcrt.VDiverged {
				c.EngineError(fmt.Sprintf("C07 %s: exploration diverged: %s", cs, r.Detail))
				return false
			}
			if r.Verdict != mcrt.VDone {
				key, what = "C07/resolve/crash/"+crashSite(*r), fmt.Sprintf("%s, random answers %v: %s", cs, choices, verdictStr(*r))
				return false
			}
			if o.herr != "" {
				c.EngineError(fmt.Sprintf("C07 %s: %s", cs, o.herr))
				return false
			}
			total.Add(total, mcrt.Weight(r.Points))
			k, w := c07judge(cs, &o, x.m, x.bv, x.names, x.idx, cnt)
			if k != "" {
				key, what = k, fmt.Sprintf("random answers %v: %s", choices, w)
				return false
			}
			outcomes[o.txt] = true
			if cnt != nil {
				c.Outcome(o.txt)
			}
			if cnt != nil {
				cnt["resolve_choice_sequences"]++
				cnt["resolve_choice_points"] += int64(len(choices))
			}
			return true
		})
	if key != "" {
		return key, what
	}
	if !st.Exhaustive {
		c.Exhaustive = false
		return "", ""
	}
	if total.Cmp(big.NewRat(1, 1)) != 0 {
		c.EngineError(fmt.Sprintf("C07 %s: probabilities of the explored answer sequences sum to %s", cs, total))
	}
	if cnt != nil {
		cnt["resolve_distinct_results"] += int64(len(outcomes))
		if len(outcomes) > 1 {
			cnt["resolve_multifurcations"]++
		}
		if int64(len(outcomes)) > cnt["max:resolve_results_per_tree"] {
			cnt["max:resolve_results_per_tree"] = int64(len(outcomes))
		}
		if st.Execs > cnt["max:resolve_sequences_per_tree"] {
			cnt["max:resolve_sequences_per_tree"] = st.Execs
		}
	}
	return "", ""
}

// ---------------------------------------------------------------------------
// decorations

type c07opt struct {
	has bool
	v   float64
}

var c07LenMenu = []c07opt{{false, 0}, {true, 0}, {true, 0.5}, {true, 1}}
var c07SupMenu = []c07opt{{false, 0}, {true, 0.5}, {true, 0.7}, {true, 0.9}}
var c07SupFull = []c07opt{{false, 0}, {true, 0}, {true, 0.5}, {true, 0.7}, {true, 0.9}, {true, -0.5}} // supports are arbitrary numbers (internode certainty lies in [-1,1]); -1 itself is the code's "absent"

// c07decorate clones sh and sets lengths/supports/names. tipLen / innerLen / innerSup give menu indexes per tip /
// inner non-root node in pre-order; nil = a rotating pattern driven by rot. Inner nodes without support get a name on
// every other node (a Newick label is either a name or a support).
func c07decorate(sh *rm.Tree, tipLen, innerLen, innerSup []int, supMenu []c07opt, rot int) *rm.Tree {
	m := sh.Clone()
	ti, ii := 0, 0
	m.Walk(func(n, p *rm.Node) {
		if p == nil {
			return
		}
		if n.IsTip() {
			code := (ti + rot) % len(c07LenMenu)
			if tipLen != nil {
				code = tipLen[ti]
			}
			n.HasLen, n.Len = c07LenMenu[code].has, c07LenMenu[code].v
			ti++
			return
		}
		code := (ii + rot + 2) % len(c07LenMenu)
		if innerLen != nil {
			code = innerLen[ii]
		}
		n.HasLen, n.Len = c07LenMenu[code].has, c07LenMenu[code].v
		sc := (ii + rot) % len(supMenu)
		if innerSup != nil {
			sc = innerSup[ii]
		}
		n.HasSup, n.Sup = supMenu[sc].has, supMenu[sc].v
		if !n.HasSup && (innerSup == nil || ii%2 == 0) {
			n.Name = fmt.Sprintf("n%d", ii)
		}
		ii++
	})
	if rot%2 == 1 {
		m.Root.Name = "r"
	}
	return m
}

func c07countNodes(sh *rm.Tree) (tips, inner int) {
	sh.Walk(func(n, p *rm.Node) {
		if p == nil {
			return
		}
		if n.IsTip() {
			tips++
		} else {
			inner++
		}
	})
	return
}

// thresholds: every distinct value present, each +-1/8, and 0
func c07thresholds(vals []float64) []float64 {
	set := map[float64]bool{0: true}
	for _, v := range vals {
		set[v] = true
		set[v-0.125] = true
		set[v+0.125] = true
	}
	out := make([]float64, 0, len(set))
	for v := range set {
		out = append(out, v)
	}
	sort.Float64s(out)
	return out
}

// ---------------------------------------------------------------------------
// families of cases on one decorated tree

var c07dry = os.Getenv("C07_DRY") != ""

type c07run struct {
	c     *Ctx
	cnt   c07counts
	preps []int
}

func (r *c07run) one(cs *c07case, x *c07ctx) {
	c := r.c
	if c07dry {
		r.cnt[fmt.Sprintf("dry_%s_n%d", cs.Op, x.bv.n)]++
		return
	}
	c.States++
	c.Transitions++
	c.Sample(cs)
	before := r.cnt[cs.Op+"_removed"] + r.cnt["tips_zeroed"] + r.cnt["resolve_new_branches"]
	cp := *cs
	cp.Sel = append([]uint64(nil), cs.Sel...)
	c.Check(&cp, func() (string, string) { return c07check(c, cs, x, r.cnt) })
	if r.cnt[cs.Op+"_removed"]+r.cnt["tips_zeroed"]+r.cnt["resolve_new_branches"] > before {
		c.Nontrivial(fmt.Sprint(cp.Tree, cp.Op, cp.L, cp.S, cp.Min, cp.Max, cp.Root, cp.Tips, cp.Sel))
	}
}

func (r *c07run) treeKind(x *c07ctx) {
	if x.bv.rooted {
		r.cnt.add("rooted_trees")
	} else {
		r.cnt.add("unrooted_trees")
	}
}

func (r *c07run) length(m *rm.Tree) {
	x, err := c07context(m)
	if err != nil {
		r.c.EngineError(err.Error())
		return
	}
	r.treeKind(x)
	var vals []float64
	for i := range x.bv.brs {
		if x.bv.brs[i].hasLen {
			vals = append(vals, x.bv.brs[i].len)
		}
	}
	txt := m.Newick()
	for _, l := range c07thresholds(vals) {
		for fl := 0; fl < 4; fl++ {
			for _, p := range r.preps {
				r.one(&c07case{Tree: txt, Op: "length", L: l, Root: fl&1 != 0, Tips: fl&2 != 0, Prep: p}, x)
			}
		}
	}
}

func (r *c07run) support(m *rm.Tree) {
	x, err := c07context(m)
	if err != nil {
		r.c.EngineError(err.Error())
		return
	}
	r.treeKind(x)
	var vals []float64
	for i := range x.bv.brs {
		if x.bv.brs[i].hasSup {
			vals = append(vals, x.bv.brs[i].sup)
		}
	}
	txt := m.Newick()
	for _, s := range c07thresholds(vals) {
		for fl := 0; fl < 2; fl++ {
			for _, p := range r.preps {
				r.one(&c07case{Tree: txt, Op: "support", S: s, Root: fl&1 != 0, Prep: p}, x)
			}
		}
	}
}

func (r *c07run) depth(m *rm.Tree) {
	x, err := c07context(m)
	if err != nil {
		r.c.EngineError(err.Error())
		return
	}
	r.treeKind(x)
	txt := m.Newick()
	hi := x.bv.n/2 + 1
	// TopoDepth is documented to need initialised indexes: the tree is always indexed first, as the command does
	var preps []int
	for _, p := range r.preps {
		if q := p | 1; len(preps) == 0 || preps[len(preps)-1] != q {
			preps = append(preps, q)
		}
	}
	for min := -1; min <= hi; min++ {
		for max := -1; max <= hi; max++ {
			for fl := 0; fl < 4; fl++ {
				for _, p := range preps {
					r.one(&c07case{Tree: txt, Op: "depth", Min: min, Max: max, Root: fl&1 != 0, Tips: fl&2 != 0, Prep: p}, x)
				}
			}
		}
	}
}

// edges: RemoveEdges with every ordered selection of inner branches (all subsets, all call orders), combined with
// no / every / every other tip branch interleaved.
func (r *c07run) edges(m *rm.Tree, maxOrdered int) {
	x, err := c07context(m)
	if err != nil {
		r.c.EngineError(err.Error())
		return
	}
	r.treeKind(x)
	txt := m.Newick()
	var inner, tips []uint64
	for i := range x.bv.brs {
		if x.bv.brs[i].tip {
			tips = append(tips, uint64(x.bv.brs[i].below))
		} else {
			inner = append(inner, uint64(x.bv.brs[i].below))
		}
	}
	emit := func(seq []uint64) {
		for tv := 0; tv < 3; tv++ {
			sel := append([]uint64(nil), seq...)
			switch tv {
			case 1: // all tips, after the inner branches
				sel = append(sel, tips...)
			case 2: // every other tip first
				var pre []uint64
				for i := 0; i < len(tips); i += 2 {
					pre = append(pre, tips[i])
				}
				sel = append(pre, sel...)
			}
			for fl := 0; fl < 4; fl++ {
				for _, p := range r.preps {
					r.one(&c07case{Tree: txt, Op: "edges", Sel: sel, Root: fl&1 != 0, Tips: fl&2 != 0, Prep: p}, x)
				}
			}
		}
	}
	enum.Subsets(len(inner), 0, len(inner), func(mask uint64) {
		var sub []uint64
		for i := range inner {
			if mask&(1<<uint(i)) != 0 {
				sub = append(sub, inner[i])
			}
		}
		if len(sub) <= maxOrdered {
			enum.Permutations(len(sub), func(p []int) {
				seq := make([]uint64, len(sub))
				for i, j := range p {
					seq[i] = sub[j]
				}
				emit(seq)
			})
			return
		}
		emit(sub)
		rev := make([]uint64, len(sub))
		for i := range sub {
			rev[len(sub)-1-i] = sub[i]
		}
		emit(rev)
	})
}

func (r *c07run) resolve(m *rm.Tree) {
	x, err := c07context(m)
	if err != nil {
		r.c.EngineError(err.Error())
		return
	}
	r.treeKind(x)
	txt := m.Newick()
	for _, p := range r.preps {
		r.one(&c07case{Tree: txt, Op: "resolve", Prep: p}, x)
	}
}

// ---------------------------------------------------------------------------

func c07product(menu, k int, f func(codes []int)) {
	if k == 0 {
		f(nil)
		return
	}
	enum.Sequences(menu, k, func(seq []int) { f(seq) })
}

func init() {
	register(&Prop{
		ID: "C07",
		Rule: "trees: every plane rooted multifurcating shape with n tips (root 2 children = rooted, >= 3 = unrooted) and every labelled unrooted/rooted tree on n taxa; " +
			"lengths {absent,0,1/2,1}, supports {absent,0,0.5,0.7,0.9}, inner names on support-less nodes. " +
			"length: full product of inner lengths x rotating tip-length/support patterns (full tip product for n<=4) x thresholds {each value present, +-1/8, 0} x removeRoot x removeTips; " +
			"support: full product of inner supports x length patterns x thresholds x removeRoot; depth: all (min,max) in [-1,n/2+1]^2 x flags; " +
			"RemoveEdges: every subset of inner branches in every call order x {no, all, every other} tip branches x flags; " +
			"Resolve: every answer sequence of rand.Perm (mcrt.Explore, RandEnumerate), probabilities must sum to 1. " +
			"Each on a parsed tree, a parsed+ReinitIndexes tree and a constructor-built tree. Oracle on the public-API walk and on the written Newick. " +
			"non-trivial = the operation removed / added a branch or zeroed a tip",
		Assumptions: []string{"reference Newick reader (refmodel) implements the writer's grammar (checked by C01)",
			"absent length is don't-care for 'length <= l' and counts 0 in path sums; root branches of rooted trees are outside the exact-set claim (DESIGN 4)",
			"with removeTips a tip branch meeting the criterion may become 0.0 (documented) or stay unchanged"},
		Require: []string{"length_removed", "length_removed_eq", "length_removed_zero", "length_kept", "length_any_absent",
			"support_removed", "support_kept", "support_kept_eq", "support_kept_absent",
			"depth_removed", "depth_removed_eqmin", "depth_removed_eqmax", "depth_kept", "depth_kept_adjacent",
			"edges_removed", "edges_kept", "tips_unchanged", "values_compared", "names_compared",
			"rooted_trees", "unrooted_trees", "rootadj_ignored", "rootsplit_untargeted_kept",
			"resolve_new_branches", "resolve_kept_splits", "resolve_dist_pairs", "resolve_choice_sequences", "resolve_multifurcations", "resolve_names_compared"},
		Run: func(c *Ctx) {
			cnt := c07counts{}
			// gotree allocates 16 KB work slices in Edges()/Tips()/Collapse*: with the default GC target the run is dominated by sweeping
			defer debug.SetGCPercent(debug.SetGCPercent(2000))
			defer func() {
				keys := make([]string, 0, len(cnt))
				for k := range cnt {
					keys = append(keys, k)
				}
				sort.Strings(keys)
				for _, k := range keys {
					if strings.HasPrefix(k, "max:") {
						c.Max(strings.TrimPrefix(k, "max:"), cnt[k])
					} else {
						c.Count(k, cnt[k])
					}
				}
			}()
			r := &c07run{c: c, cnt: cnt}
			quick := c.Quick()

			// (1) plane shapes
			type plan struct {
				n        int
				rotsLS   int   // decoration rotations for the length / support products
				rotsOth  int   // ... for depth
				rotsER   int   // ... for RemoveEdges and Resolve
				preps    []int // tree preparations on rotation 0 (later rotations alternate between parsed and indexed)
				fullTips bool  // length: full product of tip lengths too (rotation 0 only)
				lsSingle bool  // length / support products on one preparation per shape (alternating) instead of preps
			}
			all := []int{0, 1, 2, 3}
			plans := []plan{{3, 4, 4, 2, all, true, false}, {4, 4, 4, 2, all, true, false}, {5, 4, 4, 2, all, false, false}, {6, 1, 2, 2, []int{0, 1}, false, true}, {7, 0, 0, 1, []int{0}, false, false}}
			if !quick {
				plans = []plan{{3, 4, 4, 2, all, true, false}, {4, 4, 4, 2, all, true, false}, {5, 4, 4, 2, all, false, false}, {6, 4, 4, 2, []int{0, 1}, false, false}, {7, 1, 2, 2, []int{0, 1}, false, true}, {8, 0, 0, 1, []int{0}, false, false}}
			}
			for _, pl := range plans {
				n := pl.n
				shapes := enum.Shapes(n, "t")
				for si, sh := range shapes {
					if c.TimeUp() {
						return
					}
					ntips, ninner := c07countNodes(sh)
					for rot := 0; rot < 4; rot++ {
						r.preps = pl.preps
						if n >= 6 && (rot > 0 || len(pl.preps) == 1) {
							r.preps = []int{(si + rot) % 2} // alternate between parsed and indexed trees
						}
						if rot < pl.rotsLS {
							// length: full product of inner lengths (and of tip lengths for small trees)
							if pl.fullTips && rot == 0 {
								fi := 0
								c07product(len(c07LenMenu), ninner, func(il []int) {
									c07product(len(c07LenMenu), ntips, func(tl []int) {
										fi++
										if c.Mine() {
											if n >= 4 {
												r.preps = []int{fi % 4}
											}
											r.length(c07decorate(sh, tl, il, nil, c07SupMenu, fi%4))
										}
									})
								})
								r.preps = pl.preps
							}
							keep := r.preps
							if pl.lsSingle {
								r.preps = []int{si % 2}
							}
							c07product(len(c07LenMenu), ninner, func(il []int) {
								if c.Mine() {
									r.length(c07decorate(sh, nil, il, nil, c07SupMenu, rot))
								}
							})
							// support: full product of inner supports
							c07product(len(c07SupFull), ninner, func(is []int) {
								if c.Mine() {
									r.support(c07decorate(sh, nil, nil, is, c07SupFull, rot))
								}
							})
							r.preps = keep
						}
						m := c07decorate(sh, nil, nil, nil, c07SupMenu, rot)
						if rot < pl.rotsOth && c.Mine() {
							r.depth(m)
						}
						if rot < pl.rotsER {
							if pl.rotsOth > 0 && c.Mine() {
								r.edges(m, 4)
							}
							if c.Mine() {
								r.resolve(m)
							}
						}
					}
				}
			}

			// (2) labelled trees (Trees(n) of DESIGN 5): unrooted and rooted, pattern decorations
			maxL := 6
			if quick {
				maxL = 5
			}
			for n := 4; n <= maxL; n++ {
				labels := enum.Labels(n, "")
				var trees []*rm.Tree
				trees = append(trees, enum.Unrooted(labels, false)...)
				trees = append(trees, enum.RootedTrees(labels, false)...)
				for ti, t := range trees {
					if c.TimeUp() {
						return
					}
					if !c.Mine() {
						continue
					}
					c.Count("labelled_trees", 1)
					r.preps = []int{ti % 2}
					m := c07decorate(t, nil, nil, nil, c07SupMenu, ti%4)
					r.length(m)
					r.support(m)
					r.depth(m)
					r.edges(m, 3)
					r.resolve(m)
				}
			}

			// (3) whatever the size: large structured instances (plain executions with default random answers, not exhaustive)
			if c.Shard == 0 {
				r.preps = []int{1}
				for _, n := range []int{64} { // the model's tip sets are 64-bit masks
					cat := &rm.Node{Name: "t0", HasLen: true, Len: 0.5}
					for i := 1; i < n-1; i++ {
						in := &rm.Node{Children: []*rm.Node{cat, {Name: fmt.Sprintf("t%d", i), HasLen: true, Len: float64(i%4) / 8}}, HasLen: true, Len: float64(i%5) / 4}
						if i%3 != 0 {
							in.HasSup, in.Sup = true, float64(i%7)/8
						}
						cat = in
					}
					cat.HasLen, cat.HasSup = false, false
					cat.Children = append(cat.Children, &rm.Node{Name: "zz", HasLen: true, Len: 1})
					star := &rm.Node{}
					for i := 0; i < n; i++ {
						star.Children = append(star.Children, &rm.Node{Name: fmt.Sprintf("s%d", i), HasLen: true, Len: float64(i%8) / 8})
					}
					for _, m := range []*rm.Tree{{Root: cat}, {Root: star}} {
						x, err := c07context(m)
						if err != nil {
							c.EngineError(err.Error())
							continue
						}
						txt := m.Newick()
						c.Count("large_instances", 1)
						for _, cs := range []*c07case{
							{Tree: txt, Op: "length", L: 0.5, Tips: true, Prep: 1},
							{Tree: txt, Op: "support", S: 0.5, Prep: 1},
							{Tree: txt, Op: "depth", Min: 2, Max: 10, Prep: 1},
						} {
							c.Check(cs, func() (string, string) {
								k, w := c07check(c, cs, x, nil)
								if len(w) > 600 {
									w = w[:600]
								}
								return k, w
							})
						}
						cs := &c07case{Tree: txt, Op: "resolve", Prep: 0}
						c.Check(cs, func() (string, string) {
							var o c07obs
							res := guard(func() { o = c07execute(cs, x.idx) })
							if crashed(res) {
								return "C07/resolve/crash/" + crashSite(res), fmt.Sprintf("large instance with %d tips: %s", n, verdictStr(res))
							}
							k, w := c07judge(cs, &o, x.m, x.bv, x.names, x.idx, nil)
							if len(w) > 600 {
								w = w[:600]
							}
							return k, w
						})
					}
				}
			}
		},
		Replay: func(c *Ctx, raw json.RawMessage) {
			var cs c07case
			if err := json.Unmarshal(raw, &cs); err != nil {
				fmt.Println("cannot read the case:", err)
				return
			}
			m, err := rm.ParseNewick(cs.Tree)
			if err != nil {
				fmt.Println("cannot re-read the tree:", err)
				return
			}
			x, err := c07context(m)
			if err != nil {
				fmt.Println(err)
				return
			}
			k, w := c07check(c, &cs, x, nil)
			fmt.Printf("case: %s\nresult: %s %s\n", &cs, k, w)
			if k != "" {
				c.Violate(k, w, cs)
			}
		},
	})
}

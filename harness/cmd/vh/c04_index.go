package main

import (
	"fmt"
	"sort"

	"github.com/evolbioinfo/gotree/hashmap"
	"github.com/evolbioinfo/gotree/tree"

	rm "verif/harness/refmodel"
)

// C04 parts (b) branch equality/hash over all presentations, (c) EdgeIndex against a plain
// map, (h) the generic hashmap with harness keys whose hash codes force collisions.

// ---- presentation objects -------------------------------------------------------------

type c04spec struct {
	Newick string   `json:"newick"`
	Ops    []string `json:"ops,omitempty"`
}

type c04pobj struct {
	spec c04spec
	n    int
	tree int // index of the base tree (same unrooted topology)
	t    *tree.Tree
	st   *c04state
}

// c04specs lists the presentation specs for n taxa: every model re-rooting (+ mirrors) and,
// for the base presentation, every gotree-side Reroot.
func c04specs(n int, mirrors bool, perTree int) ([]c04spec, []int) {
	var specs []c04spec
	var owner []int
	for ti, b := range c04baseTrees(n) {
		ps := c04presentations(b, mirrors)
		if perTree > 0 && len(ps) > perTree {
			// base presentation + the last ones (rooted presentations)
			ps = append(ps[:1:1], ps[len(ps)-perTree+1:]...)
		}
		for _, p := range ps {
			specs = append(specs, c04spec{Newick: p.Newick()})
			owner = append(owner, ti)
		}
		if perTree == 0 {
			// node indexes in pre-order: found on the model
			i := 0
			base := ps[0].Newick()
			ps[0].Walk(func(nd, p *rm.Node) {
				if p != nil && !nd.IsTip() {
					specs = append(specs, c04spec{Newick: base, Ops: []string{fmt.Sprintf("reroot:%d", i)}})
					owner = append(owner, ti)
				}
				i++
			})
		}
	}
	return specs, owner
}

// c04make builds the gotree object of a spec (indexes computed). Must run under c04run.
func c04make(s c04spec) (*tree.Tree, *c04state, string) {
	t, err := gtParse(s.Newick)
	if err != nil {
		return nil, nil, "parse-error"
	}
	if err := t.ReinitIndexes(); err != nil {
		return nil, nil, "reinit-error"
	}
	st, skip := c04inspect(t)
	if skip != "" {
		return nil, nil, skip
	}
	for _, d := range s.Ops {
		var op *c04op
		list := c04ops(t, st)
		for i := range list {
			if list[i].desc == d {
				op = &list[i]
			}
		}
		if op == nil {
			return nil, nil, "no-such-op"
		}
		nt, err := op.apply()
		if err != nil {
			return nil, nil, "op-error"
		}
		t = nt
		if err := t.ReinitIndexes(); err != nil {
			return nil, nil, "reinit-error"
		}
		if st, skip = c04inspect(t); skip != "" {
			return nil, nil, skip
		}
	}
	return t, st, ""
}

func c04objects(n int, mirrors bool, perTree int) ([]*c04pobj, string) {
	specs, owner := c04specs(n, mirrors, perTree)
	objs := make([]*c04pobj, 0, len(specs))
	bad := ""
	r := c04run(2_000_000_000, 0, func() {
		for i, s := range specs {
			t, st, skip := c04make(s)
			if skip != "" {
				bad = fmt.Sprintf("cannot build presentation %v: %s", s, skip)
				return
			}
			objs = append(objs, &c04pobj{spec: s, n: n, tree: owner[i], t: t, st: st})
		}
	})
	if crashed(r) {
		bad = "building the presentations crashed: " + verdictStr(r)
	}
	return objs, bad
}

// ---- (b) all ordered branch pairs ------------------------------------------------------

type c04bstats struct {
	pairs, equal, equalOpp, equalCross, different, collisions int64
}

// c04pairsOf compares every branch of a with every branch of every object in bs.
func c04pairsOf(a *c04pobj, bs []*c04pobj, stats *c04bstats) (key, what string, with *c04pobj) {
	r := c04fast(func() {
		for _, b := range bs {
			for _, x := range a.st.recs {
				for _, y := range b.st.recs {
					if cl, w := c04pair(x.e, y.e, x.right, y.right, a.n); cl != "" {
						f := "same-tree"
						if a != b {
							f = "other-presentation"
						}
						if a.tree != b.tree {
							f = "other-tree"
						}
						key, what, with = "C04/branch-pairs/"+cl+"/"+f, fmt.Sprintf("%s [first branch from %v, second from %v]", w, a.spec, b.spec), b
						return
					}
					stats.pairs++
					if x.right.Canon(a.n) == y.right.Canon(a.n) {
						stats.equal++
						if x.right != y.right {
							stats.equalOpp++
						}
						if a.tree != b.tree {
							stats.equalCross++
						}
					} else {
						stats.different++
						if x.e.HashCode() == y.e.HashCode() {
							stats.collisions++
						}
					}
				}
			}
		}
	})
	if crashed(r) {
		return "C04/branch-pairs/crash/" + crashSite(r), fmt.Sprintf("comparing branches of %v: %s", a.spec, verdictStr(r)), nil
	}
	return
}

// ---- (c) EdgeIndex against a plain map ------------------------------------------------

var c04caps = []uint64{1, 2, 3, 4, 8, 128}
var c04lfs = []float64{0.5, 0.75, 1, 4}

type c04poolItem struct {
	e     *tree.Edge
	canon rm.Split
	spec  c04spec
	right rm.Split
}

// c04pool: 4 splits x 2 presentations (opposite orientations, different tree objects).
func c04pool(objs []*c04pobj) ([]c04poolItem, string) {
	n := objs[0].n
	full := rm.Split(1)<<uint(n) - 1
	var pool []c04poolItem
	for _, s := range []rm.Split{0b00001, 0b00011, 0b00101, 0b00111} {
		var first *c04pobj
		found := 0
		for _, want := range []rm.Split{s, full &^ s} {
		search:
			for _, o := range objs {
				if o == first {
					continue
				}
				for _, r := range o.st.recs {
					if r.right == want {
						pool = append(pool, c04poolItem{e: r.e, canon: r.right.Canon(n), spec: o.spec, right: r.right})
						first = o
						found++
						break search
					}
				}
			}
		}
		if found != 2 {
			return nil, fmt.Sprintf("no two presentations of split %s", c04bits(s, n))
		}
	}
	return pool, ""
}

type c04ent struct {
	keyObj int
	count  int
	length float64
}

var c04edgeRanges = [][2]int{{0, 1 << 30}, {1, 1}, {0, 1}, {1, 2}, {2, 1}, {10, 20}, {-1, 0}}

// c04observeIndex compares the index with the plain map through Value (all pool objects,
// i.e. both presentations of every split) and Edges (entry counts per count interval).
func c04observeIndex(idx *tree.EdgeIndex, model map[rm.Split]*c04ent, pool []c04poolItem) (string, string) {
	for k, p := range pool {
		v, ok := idx.Value(p.e)
		m, mok := model[p.canon]
		feat := "/absent-key"
		if mok {
			feat = "/same-object"
			if m.keyObj != k {
				feat = "/other-presentation"
			}
		}
		if ok != mok {
			if mok {
				return "value/missing" + feat, fmt.Sprintf("Value(pool[%d]) finds nothing, the map holds count %d", k, m.count)
			}
			return "value/phantom", fmt.Sprintf("Value(pool[%d]) finds an entry, the map holds none", k)
		}
		if ok && v == nil {
			return "value/nil", fmt.Sprintf("Value(pool[%d]) returns (nil, true)", k)
		}
		if ok && v.Count != m.count {
			return "value/count" + feat, fmt.Sprintf("Value(pool[%d]).Count=%d, the map holds %d", k, v.Count, m.count)
		}
		if ok && v.Len != m.length {
			return "value/length" + feat, fmt.Sprintf("Value(pool[%d]).Len=%v, the map holds %v", k, v.Len, m.length)
		}
	}
	for _, rg := range c04edgeRanges {
		want := 0
		for _, m := range model {
			if (m.count > rg[0] && m.count <= rg[1]) || m.count == rg[1] {
				want++
			}
		}
		if got := len(idx.Edges(rg[0], rg[1])); got != want {
			return "edges/count", fmt.Sprintf("Edges(%d,%d) returns %d entries, the map holds %d such entries", rg[0], rg[1], got, want)
		}
	}
	return "", ""
}

func c04applyIndexOp(idx *tree.EdgeIndex, model map[rm.Split]*c04ent, pool []c04poolItem, o, step int) (string, string) {
	np := len(pool)
	if o < np {
		p := pool[o]
		if err := idx.AddEdgeCount(p.e); err != nil {
			return "add/error", fmt.Sprintf("AddEdgeCount(pool[%d]): %v", o, err)
		}
		if m, ok := model[p.canon]; ok {
			m.count++
			m.length += p.e.Length()
		} else {
			model[p.canon] = &c04ent{keyObj: o, count: 1, length: p.e.Length()}
		}
		return "", ""
	}
	k := o - np
	p := pool[k]
	cnt, l := 10+step, float64(step)/8
	if err := idx.PutEdgeValue(p.e, cnt, l); err != nil {
		return "put/error", fmt.Sprintf("PutEdgeValue(pool[%d]): %v", k, err)
	}
	if m, ok := model[p.canon]; ok {
		m.count, m.length = cnt, l
	} else {
		model[p.canon] = &c04ent{keyObj: k, count: cnt, length: l}
	}
	return "", ""
}

type c04istats struct {
	seqs, ops, overwrites, crossHits, crossed int64
}

// c04indexSeq executes one operation sequence on a fresh index; observation after the last
// operation (each == true: after every operation).
var c04modelScratch = map[rm.Split]*c04ent{}

func c04indexSeq(pool []c04poolItem, capa uint64, lf float64, seq []int, each bool, stats *c04istats) (string, string) {
	idx := tree.NewEdgeIndex(capa, lf)
	model := c04modelScratch
	clear(model)
	for step, o := range seq {
		before := len(model)
		var prev *c04ent
		if o >= len(pool) {
			prev = model[pool[o-len(pool)].canon]
		} else {
			prev = model[pool[o].canon]
		}
		if cl, w := c04applyIndexOp(idx, model, pool, o, step); cl != "" {
			return cl, w
		}
		if stats != nil {
			stats.ops++
			if prev != nil {
				stats.overwrites++
				if prev.keyObj != o%len(pool) {
					stats.crossHits++
				}
			}
			if len(model) > before && float64(len(model)) >= float64(capa)*lf {
				stats.crossed++
			}
		}
		if each || step == len(seq)-1 {
			if cl, w := c04observeIndex(idx, model, pool); cl != "" {
				return cl, fmt.Sprintf("%s after step %d", w, step+1)
			}
		}
	}
	if stats != nil {
		stats.seqs++
	}
	return "", ""
}

func c04describeSeq(pool []c04poolItem, seq []int) string {
	s := ""
	for i, o := range seq {
		if i > 0 {
			s += " "
		}
		if o < len(pool) {
			s += fmt.Sprintf("Add(p%d)", o)
		} else {
			s += fmt.Sprintf("Put(p%d)", o-len(pool))
		}
	}
	return s
}

// c04indexBatch: all sequences that start with prefix, of total length len(prefix)..depth.
func c04indexBatch(pool []c04poolItem, capa uint64, lf float64, prefix []int, depth int, stats *c04istats) (key, what string, bad []int, badEach bool) {
	alpha := 2 * len(pool)
	r := c04fast(func() {
		seq := append([]int(nil), prefix...)
		var rec func() bool
		rec = func() bool {
			if cl, w := c04indexSeq(pool, capa, lf, seq, false, stats); cl != "" {
				key, what, bad = "C04/edgeindex/"+cl, w, append([]int(nil), seq...)
				return false
			}
			if len(seq) == depth-1 {
				if cl, w := c04indexSeq(pool, capa, lf, seq, true, nil); cl != "" {
					key, what, bad, badEach = "C04/edgeindex/"+cl+"/observed-every-step", w, append([]int(nil), seq...), true
					return false
				}
			}
			if len(seq) >= depth {
				return true
			}
			for o := 0; o < alpha; o++ {
				seq = append(seq, o)
				ok := rec()
				seq = seq[:len(seq)-1]
				if !ok {
					return false
				}
			}
			return true
		}
		rec()
	})
	if crashed(r) {
		return "C04/edgeindex/crash/" + crashSite(r), fmt.Sprintf("capacity %d load factor %v prefix %v: %s", capa, lf, prefix, verdictStr(r)), prefix, false
	}
	if key != "" {
		what = fmt.Sprintf("capacity %d, load factor %v, operations [%s]: %s", capa, lf, c04describeSeq(pool, bad), what)
	}
	return
}

// c04bulk: a long history (every branch of every object in turn, forward or backward) on one
// index, compared with the plain map after every insertion (the inserted key) and completely
// every 64 insertions and at the end. Many distinct keys => several resizes.
func c04bulk(objs []*c04pobj, capa uint64, lf float64, backward bool, stats *c04istats) (key, what string) {
	n := objs[0].n
	r := c04fast(func() {
		idx := tree.NewEdgeIndex(capa, lf)
		type ent struct {
			count  int
			length float64
		}
		model := map[rm.Split]*ent{}
		probe := map[rm.Split]*tree.Edge{} // one branch per oriented split
		var probeKeys []rm.Split
		for _, o := range objs {
			for _, rc := range o.st.recs {
				if probe[rc.right] == nil {
					probe[rc.right] = rc.e
					probeKeys = append(probeKeys, rc.right)
				}
			}
		}
		sort.Slice(probeKeys, func(i, j int) bool { return probeKeys[i] < probeKeys[j] })
		full := func(when string) bool {
			for _, s := range probeKeys {
				v, ok := idx.Value(probe[s])
				m, mok := model[s.Canon(n)]
				if ok != mok || (ok && (v == nil || v.Count != m.count || v.Len != m.length)) {
					key, what = "C04/edgeindex-bulk/value", fmt.Sprintf("capacity %d load factor %v %s: Value(split %s) found=%v, the map holds it=%v (or the counts/lengths differ)", capa, lf, when, c04bits(s, n), ok, mok)
					return false
				}
			}
			if got := len(idx.Edges(0, 1<<30)); got != len(model) {
				key, what = "C04/edgeindex-bulk/edges", fmt.Sprintf("capacity %d load factor %v %s: %d entries, the map holds %d", capa, lf, when, got, len(model))
				return false
			}
			return true
		}
		steps := 0
		for oi := range objs {
			o := objs[oi]
			if backward {
				o = objs[len(objs)-1-oi]
			}
			for _, rc := range o.st.recs {
				before := len(model)
				if steps%7 == 3 {
					if err := idx.PutEdgeValue(rc.e, steps, 0.5); err != nil {
						key, what = "C04/edgeindex-bulk/put-error", err.Error()
						return
					}
					model[rc.right.Canon(n)] = &ent{steps, 0.5}
				} else {
					if err := idx.AddEdgeCount(rc.e); err != nil {
						key, what = "C04/edgeindex-bulk/add-error", err.Error()
						return
					}
					if m := model[rc.right.Canon(n)]; m != nil {
						m.count++
						m.length += rc.e.Length()
						stats.overwrites++
						if probe[rc.right] != rc.e {
							stats.crossHits++
						}
					} else {
						model[rc.right.Canon(n)] = &ent{1, rc.e.Length()}
					}
				}
				steps++
				stats.ops++
				if len(model) > before && float64(len(model)) >= float64(capa)*lf {
					stats.crossed++
				}
				v, ok := idx.Value(rc.e)
				m := model[rc.right.Canon(n)]
				if !ok || v == nil || v.Count != m.count || v.Len != m.length {
					key, what = "C04/edgeindex-bulk/value-after-insert", fmt.Sprintf("capacity %d load factor %v after %d operations: Value of the branch just inserted: found=%v, the map holds %v", capa, lf, steps, ok, *m)
					return
				}
				if steps%64 == 0 && !full(fmt.Sprintf("after %d operations", steps)) {
					return
				}
			}
		}
		full("at the end")
		stats.seqs++
	})
	if crashed(r) {
		return "C04/edgeindex-bulk/crash/" + crashSite(r), fmt.Sprintf("capacity %d load factor %v: %s", capa, lf, verdictStr(r))
	}
	return
}

// ---- (h) generic hashmap with harness-defined keys ---------------------------------------

type c04hk struct {
	id    int
	code  uint64
	alias int
}

func (k *c04hk) HashCode() uint64 { return k.code }
func (k *c04hk) HashEquals(o hashmap.Hasher) bool {
	ok, is := o.(*c04hk)
	return is && ok.id == k.id
}

// c04codeMenu: hash codes that share / do not share a bucket before and after a doubling.
func c04codeMenu(capa uint64) []uint64 {
	var out []uint64
	for _, c := range []uint64{0, capa, 1, capa - 1, 2*capa - 1, capa + 1, 1 << 63} {
		dup := false
		for _, o := range out {
			dup = dup || o == c
		}
		if !dup {
			out = append(out, c)
		}
	}
	return out
}

type c04hstats struct {
	seqs, ops, collisions, overwrites, crossed int64
}

// c04observeMap compares the hashmap with the plain map: Value through both aliases of every
// id, Keys and KeyValues as sets.
func c04observeMap(h *hashmap.HashMap, model map[int]int, keys [][2]*c04hk) (string, string) {
	for id, pair := range keys {
		for a, k := range pair {
			v, ok := h.Value(k)
			m, mok := model[id]
			if ok != mok {
				if mok {
					return "value/missing", fmt.Sprintf("Value(id %d alias %d) finds nothing, the map holds %d", id, a, m)
				}
				return "value/phantom", fmt.Sprintf("Value(id %d alias %d) finds %v, the map holds nothing", id, a, v)
			}
			if ok {
				if iv, is := v.(int); !is || iv != m {
					return "value/stale", fmt.Sprintf("Value(id %d alias %d)=%v, the map holds %d", id, a, v, m)
				}
			}
		}
	}
	ks := h.Keys()
	if len(ks) != len(model) {
		return "keys/count", fmt.Sprintf("Keys() has %d entries, the map %d", len(ks), len(model))
	}
	seen := make([]bool, len(keys))
	for _, k := range ks {
		hk, is := k.(*c04hk)
		if k == nil || !is || hk == nil {
			return "keys/nil", "Keys() contains a nil entry"
		}
		if _, ok := model[hk.id]; !ok || hk.id >= len(seen) || seen[hk.id] {
			return "keys/content", fmt.Sprintf("Keys() contains id %d twice or without it being in the map", hk.id)
		}
		seen[hk.id] = true
	}
	kvs := h.KeyValues()
	if len(kvs) != len(model) {
		return "keyvalues/count", fmt.Sprintf("KeyValues() has %d entries, the map %d", len(kvs), len(model))
	}
	seen = make([]bool, len(keys))
	for _, kv := range kvs {
		if kv == nil || kv.Key == nil {
			return "keyvalues/nil", "KeyValues() contains a nil entry"
		}
		hk := kv.Key.(*c04hk)
		m, ok := model[hk.id]
		if !ok || seen[hk.id] {
			return "keyvalues/content", fmt.Sprintf("KeyValues() contains id %d twice or without it being in the map", hk.id)
		}
		seen[hk.id] = true
		if iv, is := kv.Value.(int); !is || iv != m {
			return "keyvalues/value", fmt.Sprintf("KeyValues() holds %v for id %d, the map %d", kv.Value, hk.id, m)
		}
	}
	return "", ""
}

var c04hmodelScratch = map[int]int{}

func c04mapKeys(codes []uint64) [][2]*c04hk {
	keys := make([][2]*c04hk, len(codes))
	for id, c := range codes {
		keys[id] = [2]*c04hk{{id: id, code: c, alias: 0}, {id: id, code: c, alias: 1}}
	}
	return keys
}

func c04mapSeq(capa uint64, lf float64, codes []uint64, keys [][2]*c04hk, seq []int, each bool, stats *c04hstats) (string, string) {
	h := hashmap.NewHashMap(capa, lf)
	model := c04hmodelScratch
	clear(model)
	for step, o := range seq {
		id, a := o/2, o%2
		_, had := model[id]
		before := len(model)
		h.PutValue(keys[id][a], step+1)
		model[id] = step + 1
		if stats != nil {
			stats.ops++
			if had {
				stats.overwrites++
			}
			if len(model) > before {
				for j, c := range codes {
					if _, in := model[j]; in && j != id && c == codes[id] {
						stats.collisions++
						break
					}
				}
				if float64(len(model)) >= float64(capa)*lf {
					stats.crossed++
				}
			}
		}
		if each || step == len(seq)-1 {
			if cl, w := c04observeMap(h, model, keys); cl != "" {
				return cl, fmt.Sprintf("%s after step %d", w, step+1)
			}
		}
	}
	if stats != nil {
		stats.seqs++
	}
	return "", ""
}

// c04mapBatch: all sequences of length 1..depth over Put(id, alias) for one configuration
// and one assignment of hash codes to the ids.
func c04mapBatch(capa uint64, lf float64, codes []uint64, depth int, stats *c04hstats) (key, what string, bad []int) {
	alpha := 2 * len(codes)
	keys := c04mapKeys(codes)
	r := c04fast(func() {
		var seq []int
		var rec func() bool
		rec = func() bool {
			if len(seq) > 0 {
				if cl, w := c04mapSeq(capa, lf, codes, keys, seq, len(seq) == depth-1, stats); cl != "" {
					key, what, bad = "C04/hashmap/"+cl, w, append([]int(nil), seq...)
					return false
				}
			}
			if len(seq) >= depth {
				return true
			}
			for o := 0; o < alpha; o++ {
				seq = append(seq, o)
				ok := rec()
				seq = seq[:len(seq)-1]
				if !ok {
					return false
				}
			}
			return true
		}
		rec()
	})
	if crashed(r) {
		return "C04/hashmap/crash/" + crashSite(r), fmt.Sprintf("capacity %d load factor %v hash codes %v: %s", capa, lf, codes, verdictStr(r)), nil
	}
	if key != "" {
		what = fmt.Sprintf("capacity %d, load factor %v, hash codes of ids %v, Put sequence (id*2+alias) %v: %s", capa, lf, codes, bad, what)
	}
	return
}

// c04mapBulk: nkeys keys whose hash codes follow a pattern, inserted in order, every key
// overwritten through its alias later; full comparison every 50 operations.
func c04mapBulk(capa uint64, lf float64, pattern int, nkeys int, stats *c04hstats) (key, what string) {
	code := func(i int) uint64 {
		switch pattern {
		case 0:
			return 7 // all equal
		case 1:
			return uint64(i)
		case 2:
			return uint64(i) * capa
		case 3:
			return uint64(i) << 58
		default:
			return uint64(i%5)*capa + uint64(i%3)
		}
	}
	r := c04fast(func() {
		keys := make([][2]*c04hk, nkeys)
		for i := range keys {
			keys[i] = [2]*c04hk{{id: i, code: code(i)}, {id: i, code: code(i), alias: 1}}
		}
		h := hashmap.NewHashMap(capa, lf)
		model := map[int]int{}
		step := 0
		put := func(i, a int) bool {
			step++
			before := len(model)
			h.PutValue(keys[i][a], step)
			model[i] = step
			stats.ops++
			if len(model) > before && float64(len(model)) >= float64(capa)*lf {
				stats.crossed++
			}
			if len(model) == before {
				stats.overwrites++
			}
			v, ok := h.Value(keys[i][1-a])
			if iv, is := v.(int); !ok || !is || iv != step {
				key, what = "C04/hashmap-bulk/value-after-put", fmt.Sprintf("capacity %d load factor %v pattern %d: after %d operations the key just put is read back as %v,%v through its other presentation", capa, lf, pattern, step, v, ok)
				return false
			}
			if step%50 == 0 {
				if cl, w := c04observeMap(h, model, keys); cl != "" {
					key, what = "C04/hashmap-bulk/"+cl, fmt.Sprintf("capacity %d load factor %v pattern %d after %d operations: %s", capa, lf, pattern, step, w)
					return false
				}
			}
			return true
		}
		for i := 0; i < nkeys; i++ {
			if !put(i, i%2) {
				return
			}
			if i%3 == 2 && !put(i/2, 1-(i/2)%2) {
				return
			}
		}
		if cl, w := c04observeMap(h, model, keys); cl != "" {
			key, what = "C04/hashmap-bulk/"+cl, fmt.Sprintf("capacity %d load factor %v pattern %d at the end: %s", capa, lf, pattern, w)
			return
		}
		stats.seqs++
	})
	if crashed(r) {
		return "C04/hashmap-bulk/crash/" + crashSite(r), fmt.Sprintf("capacity %d load factor %v pattern %d: %s", capa, lf, pattern, verdictStr(r))
	}
	return
}

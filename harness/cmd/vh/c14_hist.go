package main

import (
	"fmt"
	"sort"
	"strings"

	"github.com/evolbioinfo/gotree/tree"

	"verif/harness/enum"
	rm "verif/harness/refmodel"
)

// C14, family F9: the matrix and the cut of a tree that has a HISTORY - its indexes were built, then it was edited
// (tip renamed so that the name order changes, identical tip inserted, tip removed, re-rooted, grafted) - must still be
// those of the tree as it is now. The expectation is computed on the model of the edited tree's own Newick text.

type c14histCase struct {
	Op    string `json:"op"`
	Tree  string `json:"tree"`
	Index string `json:"index_built_by"`
	Edit  string `json:"edit"`
}

type c14edit struct {
	name string
	do   func(t *tree.Tree) error
}

func c14edits(m *rm.Tree) []c14edit {
	var out []c14edit
	for _, tp := range m.Tips() {
		nm := tp.Name
		for _, nn := range []string{"0first", "zzlast"} {
			nn := nn
			out = append(out, c14edit{fmt.Sprintf("SetName(%s->%s)", nm, nn), func(t *tree.Tree) error {
				for _, x := range t.Tips() {
					if x.Name() == nm {
						x.SetName(nn)
					}
				}
				return nil
			}})
		}
		out = append(out, c14edit{fmt.Sprintf("InsertIdenticalTips(%s,0ins)", nm), func(t *tree.Tree) error {
			return t.InsertIdenticalTips([][]string{{nm, "0ins"}})
		}})
		out = append(out, c14edit{fmt.Sprintf("GraftTreeOnTip(%s)", nm), func(t *tree.Tree) error {
			g := gtMustParse("(0g:0.25,zg:0.5);")
			return t.GraftTreeOnTip(nm, g)
		}})
		if len(m.Tips()) >= 4 {
			out = append(out, c14edit{fmt.Sprintf("RemoveTips(%s)", nm), func(t *tree.Tree) error { return t.RemoveTips(false, nm) }})
		}
	}
	ninner := 0
	m.Walk(func(n, p *rm.Node) {
		if !n.IsTip() {
			ninner++
		}
	})
	for i := 1; i < ninner; i++ {
		i := i
		out = append(out, c14edit{fmt.Sprintf("Reroot(inner #%d)", i), func(t *tree.Tree) error {
			k := 0
			for _, n := range t.Nodes() {
				if !n.Tip() {
					if k == i {
						return t.Reroot(n)
					}
					k++
				}
			}
			return nil
		}})
	}
	return out
}

func c14histRun(m *rm.Tree, indexBy string, ed c14edit) (key, what string, failed bool) {
	txt := m.Newick()
	r := guard(func() {
		t := gtMustParse(txt)
		var err error
		if indexBy == "ReinitIndexes" {
			err = t.ReinitIndexes()
		} else {
			err = t.UpdateTipIndex()
		}
		if err != nil {
			failed = true
			return
		}
		// the matrix is computed once before the edit (a cached tip order must not survive the edit)
		t.ToDistanceMatrix(tree.DISTANCE_METRIC_BRLEN)
		if err := ed.do(t); err != nil {
			failed = true // a refused edit creates no obligation
			return
		}
		m2, after, err := modelOf(t)
		if err != nil {
			failed = true
			return
		}
		ctx := fmt.Sprintf("tree %s, %s, then %s -> %s", txt, indexBy, ed.name, after)
		key, what = c14judgeTree(t, m2, "after-edit", ctx)
	})
	if crashed(r) {
		return "C14/matrix-after-edit/crash/" + crashSite(r), fmt.Sprintf("tree %s, %s, then %s, then matrix/cut: %s", txt, indexBy, ed.name, verdictStr(r)), false
	}
	return key, what, failed
}

func c14histFamily(c *Ctx) {
	maxN := 4
	if !c.Quick() {
		maxN = 5
	}
	for n := 3; n <= maxN; n++ {
		for _, sh := range enum.Shapes(n, "t") {
			if c.TimeUp() {
				return
			}
			m := sh.Clone()
			c14label(m, c14scramble(n)) // tips are not in name order
			c14default(m)
			for _, tp := range m.Tips() {
				tp.HasSup = false // text-first: tip supports cannot be written
			}
			for _, ed := range c14edits(m) {
				for _, ib := range []string{"ReinitIndexes", "UpdateTipIndex"} {
					if !c.Mine() {
						continue
					}
					ed, ib := ed, ib
					var failed bool
					c.Check(c14histCase{Op: "matrix-after-edit", Tree: m.Newick(), Index: ib, Edit: ed.name}, func() (string, string) {
						k, w, f := c14histRun(m, ib, ed)
						failed = f
						return k, w
					})
					c.States++
					c.Transitions += 5
					if failed {
						c.Count("history_edits_refused", 1)
					} else {
						c.Count("history_cases", 1)
						c.Nontrivial("hist " + m.Newick() + ib + ed.name)
					}
				}
			}
		}
	}
}

// c14judgeTree: matrix (3 metrics) and cuts (every threshold) of the gotree object t against the model m2 of the same tree.
func c14judgeTree(t *tree.Tree, m2 *rm.Tree, op, ctx string) (key, what string) {
	for metric := 0; metric < 3; metric++ {
		o := c14oracle(m2, metric)
		mat, tips := t.ToDistanceMatrix(c14gtMetric[metric])
		key, what = c14cmpMatrix("matrix-"+op, "path-sum/"+c14metricName[metric], mat, tips, o.d, o.absent, o.names, false,
			fmt.Sprintf("ToDistanceMatrix(%s) of %s", c14metricName[metric], ctx))
		if key != "" {
			return key, what
		}
	}
	thrs, _ := c14thresholds(m2)
	names := m2.TipNames()
	for _, thr := range thrs {
		exp := c14groups(m2, thr)
		bags, err := t.CutEdgesMaxLength(thr)
		if err != nil {
			key, what = "C14/cut-"+op+"/error", fmt.Sprintf("CutEdgesMaxLength(%v) of %s: %v", thr, ctx, err)
			return key, what
		}
		var got []string
		cnt := 0
		for _, b := range bags {
			var g []string
			for _, tp := range b.Tips() {
				g = append(g, tp.Name())
				cnt++
			}
			sort.Strings(g)
			got = append(got, strings.Join(g, ","))
		}
		sort.Strings(got)
		if cnt != len(names) || strings.Join(got, "|") != strings.Join(exp, "|") {
			key, what = "C14/cut-"+op+"/groups", fmt.Sprintf("CutEdgesMaxLength(%v) of %s: groups %q, reference model %q", thr, ctx, got, exp)
			return key, what
		}
	}
	return "", ""
}

// ---- family F10: a root with a single neighbour (the root itself is a named tip) ----------------------------

// c14stemModel: the model of "(X:l)R;" seen as the unrooted tree it is: X becomes the root, R one of its children.
func c14stemModel(sub *rm.Tree, l float64, hasLen bool) (*rm.Tree, string) {
	x := sub.Root.Clone()
	text := "(" + strings.TrimSuffix((&rm.Tree{Root: x}).Newick(), ";")
	if hasLen {
		text += ":" + rm.FormatFloat(l)
	}
	text += ")R;"
	m := &rm.Tree{Root: x.Clone()}
	m.Root.Children = append(m.Root.Children, &rm.Node{Name: "R", HasLen: hasLen, Len: l})
	return m, text
}

func c14stemFamily(c *Ctx) {
	maxN := 4
	if !c.Quick() {
		maxN = 5
	}
	for n := 2; n <= maxN; n++ {
		for _, sh := range enum.Shapes(n, "t") {
			if c.TimeUp() {
				return
			}
			for v, l := range []float64{2, 0.25, 0, -1} {
				if !c.Mine() {
					continue
				}
				sub := sh.Clone()
				c14label(sub, c14scramble(n))
				c14default(sub)
				for _, tp := range sub.Tips() {
					tp.HasSup = false
				}
				m2, text := c14stemModel(sub, l, v != 3)
				c.Check(c14histCase{Op: "stem", Tree: text}, func() (string, string) {
					var key, what string
					r := guard(func() {
						t := gtMustParse(text)
						key, what = c14judgeTree(t, m2, "single-neighbour-root", "tree "+text)
					})
					if crashed(r) {
						return "C14/matrix-single-neighbour-root/crash/" + crashSite(r), "tree " + text + ": " + verdictStr(r)
					}
					return key, what
				})
				c.States++
				c.Count("single_neighbour_root_cases", 1)
				c.Nontrivial("stem " + text)
			}
		}
	}
}

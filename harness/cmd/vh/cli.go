package main

import (
	"fmt"
	"log"
	"os"
	"os/exec"
	"path/filepath"
	"reflect"
	"sort"
	"strings"
	"unsafe"

	"github.com/evolbioinfo/gotree/cmd"
	"github.com/evolbioinfo/gotree/mcrt"
	"github.com/spf13/cobra"
	"github.com/spf13/pflag"
)

// In-process driver of the real command-line interface (package cmd, instrumented).
//
// Every run starts from the flag state a fresh process has after all init()
// functions ran: the value of every flag of every command is snapshotted once
// at start-up and restored (with Changed=false) before each run, so that "option
// omitted" means what it means in a new process.

type cliFlagSnap struct {
	f   *pflag.Flag
	val string
}

var cliSnap []cliFlagSnap
var cliDir string

func cliAllCommands() []*cobra.Command {
	var out []*cobra.Command
	var rec func(c *cobra.Command)
	rec = func(c *cobra.Command) {
		out = append(out, c)
		subs := append([]*cobra.Command(nil), c.Commands()...)
		sort.Slice(subs, func(i, j int) bool { return subs[i].Name() < subs[j].Name() })
		for _, s := range subs {
			rec(s)
		}
	}
	rec(cmd.RootCmd)
	return out
}

func cliPath(c *cobra.Command) string { return c.CommandPath() }

func cliInit() {
	if cliSnap != nil {
		return
	}
	seen := map[*pflag.Flag]bool{}
	for _, c := range cliAllCommands() {
		for _, fs := range []*pflag.FlagSet{c.Flags(), c.PersistentFlags()} {
			fs.VisitAll(func(f *pflag.Flag) {
				if !seen[f] {
					seen[f] = true
					cliSnap = append(cliSnap, cliFlagSnap{f, f.Value.String()})
				}
			})
		}
	}
	base := filepath.Join(verifDir(), "build", "tmp")
	os.MkdirAll(base, 0o755)
	d, err := os.MkdirTemp(base, "cli-")
	if err != nil {
		panic(err)
	}
	cliDir = d
}

func cliCleanup() {
	if cliDir != "" {
		os.RemoveAll(cliDir)
	}
}

func cliResetFlags() {
	for _, s := range cliSnap {
		if sv, ok := s.f.Value.(pflag.SliceValue); ok {
			v := strings.TrimSuffix(strings.TrimPrefix(s.val, "["), "]")
			if v == "" {
				sv.Replace([]string{})
			} else {
				sv.Replace(strings.Split(v, ","))
			}
		} else {
			s.f.Value.Set(s.val)
		}
		s.f.Changed = false
	}
	// flags cobra adds lazily (help) are not in the snapshot: reset them too; and each flag set forgets which flags
	// were given on earlier command lines (pflag keeps them in unexported maps: NFlag(), Visit() read those)
	for _, c := range cliAllCommands() {
		for _, fs := range cliFlagSets(c) {
			cliForget(fs)
		}
		if f := c.Flags().Lookup("help"); f != nil {
			f.Value.Set("false")
			f.Changed = false
		}
	}
}

// cliPreRun, when set, runs after the flag values were restored and before the command line is executed.
var cliPreRun func()

// cliFlagPanics: commands whose flag sets cannot be assembled (cobra panics when a persistent option of a parent
// collides with an option of the command); found once, reported by C19, and never touched again by the driver.
var cliFlagPanics = map[string]string{}
var cliFlagSetsDone = map[*cobra.Command][]*pflag.FlagSet{}

func cliFlagSets(c *cobra.Command) []*pflag.FlagSet {
	if fs, ok := cliFlagSetsDone[c]; ok {
		return fs
	}
	fs := []*pflag.FlagSet{c.Flags(), c.PersistentFlags()}
	func() {
		defer func() {
			if r := recover(); r != nil {
				cliFlagPanics[c.CommandPath()] = fmt.Sprint(r)
			}
		}()
		fs = append(fs, c.LocalFlags(), c.InheritedFlags())
	}()
	cliFlagSetsDone[c] = fs
	return fs
}

func cliForget(fs *pflag.FlagSet) {
	v := reflect.ValueOf(fs).Elem()
	for _, name := range []string{"actual", "orderedActual"} {
		f := v.FieldByName(name)
		if !f.IsValid() {
			panic("pflag.FlagSet has no field " + name)
		}
		reflect.NewAt(f.Type(), unsafe.Pointer(f.UnsafeAddr())).Elem().Set(reflect.Zero(f.Type()))
	}
}

// cliRun is the outcome of one command-line execution.
type cliRun struct {
	Stdout string
	Stderr string
	Files  map[string]string // output files (by name as given in outFiles)
	Err    string            // error returned by cobra's Execute ("" = none)
}

// cliBody returns a function that executes `gotree args...` once in-process. Input
// files (name -> content) are written into a private directory first; in args,
// the prefix "@/" is replaced by that directory. After the run the files named
// in outFiles (also "@/"-relative) are read. stdin is the standard input.
// The function must be called inside mcrt.Run / mcrt.Explore (os.Exit is a verdict there).
func cliBody(args []string, stdin string, files map[string]string, outFiles []string, res *cliRun) func() {
	cliInit()
	return func() {
		*res = cliRun{Files: map[string]string{}}
		dir := cliDir
		if err := os.MkdirAll(dir, 0o755); err != nil { // an earlier family of the same worker may have removed it
			panic(err)
		}
		// clean the directory
		ents, _ := os.ReadDir(dir)
		for _, e := range ents {
			os.Remove(filepath.Join(dir, e.Name()))
		}
		names := make([]string, 0, len(files))
		for n := range files {
			names = append(names, n)
		}
		sort.Strings(names)
		for _, n := range names {
			if err := os.WriteFile(filepath.Join(dir, n), []byte(files[n]), 0o644); err != nil {
				panic(err)
			}
		}
		os.WriteFile(filepath.Join(dir, ".stdin"), []byte(stdin), 0o644)
		fin, _ := os.Open(filepath.Join(dir, ".stdin"))
		fout, _ := os.Create(filepath.Join(dir, ".stdout"))
		ferr, _ := os.Create(filepath.Join(dir, ".stderr"))
		oin, oout, oerr := os.Stdin, os.Stdout, os.Stderr
		os.Stdin, os.Stdout, os.Stderr = fin, fout, ferr
		log.SetOutput(ferr)
		finish := func() {
			os.Stdin, os.Stdout, os.Stderr = oin, oout, oerr
			log.SetOutput(oerr)
			fin.Close()
			fout.Close()
			ferr.Close()
			b, _ := os.ReadFile(filepath.Join(dir, ".stdout"))
			res.Stdout = string(b)
			b, _ = os.ReadFile(filepath.Join(dir, ".stderr"))
			res.Stderr = string(b)
			for _, n := range outFiles {
				if b, err := os.ReadFile(filepath.Join(dir, strings.TrimPrefix(n, "@/"))); err == nil {
					res.Files[n] = cliScrubLog(string(b))
				}
			}
		}
		defer finish()
		a := make([]string, len(args))
		for i, s := range args {
			a[i] = strings.ReplaceAll(s, "@/", dir+"/")
		}
		cliResetFlags()
		if cliPreRun != nil {
			cliPreRun()
		}
		cmd.RootCmd.SetArgs(a)
		if err := cmd.RootCmd.Execute(); err != nil {
			res.Err = err.Error()
		}
	}
}

// cliExec runs one command line under the controlled runtime with default choices.
func cliExec(cfg mcrt.Config, args []string, stdin string, files map[string]string, outFiles []string) (cliRun, mcrt.Result) {
	var res cliRun
	if cfg.Fuel == 0 {
		cfg.Fuel = 50_000_000
	}
	cfg.NoSched = true
	r := mcrt.Run(cfg, cliBody(args, stdin, files, outFiles, &res))
	return res, r
}

// cliScrub removes the private directory from texts so that outputs are comparable across processes.
func cliScrub(s string) string {
	if cliDir == "" {
		return s
	}
	return strings.ReplaceAll(s, cliDir, "@")
}

func (r cliRun) String() string {
	var sb strings.Builder
	fmt.Fprintf(&sb, "stdout=%q err=%q", cliScrub(r.Stdout), cliScrub(r.Err))
	names := make([]string, 0, len(r.Files))
	for n := range r.Files {
		names = append(names, n)
	}
	sort.Strings(names)
	for _, n := range names {
		fmt.Fprintf(&sb, " %s=%q", n, cliScrub(r.Files[n]))
	}
	return sb.String()
}

func cliRoot() *cobra.Command { return cmd.RootCmd }

// cliTableDump runs every entry of the driver table once (development aid).
func cliTableDump() {
	defer cliCleanup()
	for _, e := range cliTable() {
		res, r := cliExec(mcrt.Config{}, e.Args, e.Stdin, e.Files, e.Out)
		out := cliScrub(res.Stdout)
		if len(out) > 160 {
			out = out[:160] + "..."
		}
		fmt.Printf("%-28s %s err=%q files=%d\n    stdout=%q\n", e.Name, verdictStr(r), cliScrub(res.Err), len(res.Files), out)
		if crashed(r) || res.Err != "" {
			fmt.Printf("    stderr=%q\n", cliScrub(res.Stderr))
		}
	}
}

// cliScrubLog blanks the time stamp of booster's log file ("Date        : 29 Feb 20 23:59 UTC"): a log's date line is
// a time stamp by design, not a result.
func cliScrubLog(s string) string {
	if !strings.HasPrefix(s, "BOOSTER Support\n") && !strings.Contains(s, "\nDate        : ") {
		return s
	}
	lines := strings.Split(s, "\n")
	for i, l := range lines {
		if strings.HasPrefix(l, "Date        : ") || strings.HasPrefix(l, "End         : ") {
			lines[i] = l[:14] + "<time stamp>"
		}
	}
	return strings.Join(lines, "\n")
}

// cliFreshRun executes the plain (uninstrumented) binary once in a fresh process on a private directory.
func cliFreshRun(bin string, e cliEntry, args []string) (string, error) {
	dir, err := os.MkdirTemp(filepath.Join(verifDir(), "build", "tmp"), "c18-")
	if err != nil {
		return "", err
	}
	defer os.RemoveAll(dir)
	for n, content := range e.Files {
		os.WriteFile(filepath.Join(dir, n), []byte(content), 0o644)
	}
	a := make([]string, len(args))
	for i, s := range args {
		a[i] = strings.ReplaceAll(s, "@/", dir+"/")
	}
	cmd := exec.Command(bin, a...)
	cmd.Stdin = strings.NewReader(e.Stdin)
	cmd.Dir = dir
	var so, se strings.Builder
	cmd.Stdout, cmd.Stderr = &so, &se
	err = cmd.Run()
	out := fmt.Sprintf("stdout=%q exit=%v", strings.ReplaceAll(so.String(), dir, "@"), err)
	for _, n := range e.Out {
		if b, err := os.ReadFile(filepath.Join(dir, strings.TrimPrefix(n, "@/"))); err == nil {
			out += fmt.Sprintf(" %s=%q", n, cliScrubLog(strings.ReplaceAll(string(b), dir, "@")))
		}
	}
	return out, nil
}

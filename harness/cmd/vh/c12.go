package main

import (
	"encoding/json"
	"fmt"
	"sort"
	"strings"

	"github.com/evolbioinfo/goalign/align"
	"github.com/evolbioinfo/gotree/acr"
	"github.com/evolbioinfo/gotree/asr"
	"github.com/evolbioinfo/gotree/mcrt"
	"github.com/evolbioinfo/gotree/tree"

	"verif/harness/enum"
	rm "verif/harness/refmodel"
)

// C12: parsimony reconstruction (acr.ParsimonyAcr, asr.ParsimonyAsr) is optimal.
//
// A case is (plane shape, block of consecutive columns). A column assigns one symbol of
// an alphabet to every tip. Three modes:
//   plain  symbols over ACGT: ParsimonyAcr per column and ParsimonyAsr on the block, all
//          clauses incl. site-by-site agreement;
//   acr    arbitrary state labels (more than four states): ParsimonyAcr only;
//   iupac  IUPAC codes and '-' at the tips: ParsimonyAsr, step counts only.
// Every case is also executed on every rooting of the underlying unrooted tree.

const (
	c12Foreign = uint32(1) << 30 // a reported label that is no state of the character
)

type c12algo struct {
	name     string
	acr, asr int
}

var c12algos = []c12algo{
	{"downpass", acr.ALGO_DOWNPASS, asr.ALGO_DOWNPASS},
	{"deltran", acr.ALGO_DELTRAN, asr.ALGO_DELTRAN},
	{"acctran", acr.ALGO_ACCTRAN, asr.ALGO_ACCTRAN},
}

// IUPAC nucleotide codes as sets over the universe "ACGT-" (bit i = i-th character). Written from the IUPAC table, not taken from goalign.
var c12iupac = map[byte]uint32{
	'A': 1, 'C': 2, 'G': 4, 'T': 8,
	'R': 1 | 4, 'Y': 2 | 8, 'S': 4 | 2, 'W': 1 | 8, 'K': 4 | 8, 'M': 1 | 2,
	'B': 2 | 4 | 8, 'D': 1 | 4 | 8, 'H': 1 | 2 | 8, 'V': 1 | 2 | 4, 'N': 15,
	'-': 16,
}

type c12case struct {
	Tree     string `json:"tree"`                  // plane shape, tips t1..tn from left to right
	Mode     string `json:"mode"`                  // plain | acr | iupac
	Codes    string `json:"codes"`                 // symbols a tip may carry
	From     int    `json:"first_column"`          // columns From .. From+Len-1 of the lexicographic enumeration of Codes^n (t1 most significant)
	Len      int    `json:"columns"`               //
	Rootings bool   `json:"rootings"`              // also execute every rooting of the underlying unrooted tree
	AllAlgos bool   `json:"all_algos_on_rootings"` // otherwise the algorithm rotates over the rootings
}

type c12stats struct {
	cnt     map[string]int64
	engine  []string
	states  int64
	trans   int64
	nontriv []string
	outcome map[string]struct{}
}

func c12newStats() *c12stats {
	return &c12stats{cnt: map[string]int64{}, outcome: map[string]struct{}{}}
}

func (s *c12stats) flush(c *Ctx) {
	keys := make([]string, 0, len(s.cnt))
	for k := range s.cnt {
		keys = append(keys, k)
	}
	sort.Strings(keys)
	for _, k := range keys {
		if strings.HasPrefix(k, "max:") {
			c.Max(k[4:], s.cnt[k])
		} else {
			c.Count(k, s.cnt[k])
		}
	}
	for _, e := range s.engine {
		c.EngineError(e)
	}
	c.States += s.states
	c.Transitions += s.trans
	for _, k := range s.nontriv {
		c.Nontrivial(k)
	}
	oc := make([]string, 0, len(s.outcome))
	for k := range s.outcome {
		oc = append(oc, k)
	}
	sort.Strings(oc)
	for _, k := range oc {
		c.Outcome(k)
	}
}

// one tree (the shape or one of its rootings) prepared for execution
type c12tree struct {
	nw      string
	model   *rm.Tree
	parse   bool // hand gotree a tree parsed from nw (the shape itself) or one built through the public constructors (rootings)
	tp      *rm.C12Topo
	tipNode []int // pre-order index of tip t(i+1)
	feature string
	rooted  bool
}

func c12prep(m *rm.Tree, nameInner bool) (*c12tree, error) {
	m = m.Clone()
	if nameInner {
		k := 0
		m.Walk(func(n, _ *rm.Node) {
			if !n.IsTip() {
				n.Name = fmt.Sprintf("i%d", k)
				k++
			}
		})
	}
	tr := &c12tree{nw: m.Newick(), model: m, parse: !nameInner, tp: rm.C12Flatten(m), rooted: m.Rooted()}
	ntips := 0
	for i := 0; i < tr.tp.N; i++ {
		if tr.tp.Tip[i] {
			ntips++
		}
	}
	tr.tipNode = make([]int, ntips)
	for i := range tr.tipNode {
		tr.tipNode[i] = -1
	}
	for i := 0; i < tr.tp.N; i++ {
		if tr.tp.Tip[i] {
			var k int
			if _, err := fmt.Sscanf(tr.tp.Name[i], "t%d", &k); err != nil || k < 1 || k > ntips || tr.tipNode[k-1] >= 0 {
				return nil, fmt.Errorf("unexpected tip name %q in %s", tr.tp.Name[i], tr.nw)
			}
			tr.tipNode[k-1] = i
		}
	}
	tr.feature = "binary"
	if tr.tp.Polytomy() {
		tr.feature = "polytomy"
	}
	return tr, nil
}

// column j of Codes^n as one symbol per tip t1..tn
func c12column(codes string, n, j int) []byte {
	col := make([]byte, n)
	b := len(codes)
	for i := n - 1; i >= 0; i-- {
		col[i] = codes[j%b]
		j /= b
	}
	return col
}

func c12pow(b, n int) int {
	r := 1
	for i := 0; i < n; i++ {
		r *= b
	}
	return r
}

func c12fmtSet(m uint32, universe string) string {
	var parts []string
	for i := 0; i < len(universe); i++ {
		if m&(1<<uint(i)) != 0 {
			parts = append(parts, universe[i:i+1])
		}
	}
	if m&c12Foreign != 0 {
		parts = append(parts, "?")
	}
	if len(parts) == 0 {
		return "{}"
	}
	return strings.Join(parts, "|")
}

func c12fmtSets(tp *rm.C12Topo, sets []uint32, universe string) string {
	var rec func(i int) string
	rec = func(i int) string {
		s := ""
		if len(tp.Children[i]) > 0 {
			var parts []string
			for _, c := range tp.Children[i] {
				parts = append(parts, rec(c))
			}
			s = "(" + strings.Join(parts, ",") + ")"
		}
		if tp.Tip[i] {
			s += tp.Name[i]
		}
		return s + "[" + c12fmtSet(sets[i], universe) + "]"
	}
	return rec(0) + ";"
}

func c12single(m uint32) bool { return m != 0 && m&(m-1) == 0 }

func c12bitIndex(m uint32) int {
	for i := 0; i < 32; i++ {
		if m&(1<<uint(i)) != 0 {
			return i
		}
	}
	return -1
}

// c12guard runs one call of the real code. Random draws are choice points (default
// answer 0) so that they are visible in the result.
func c12guard(fuel int64, f func()) mcrt.Result {
	return mcrt.Run(mcrt.Config{NoSched: true, Fuel: fuel, RandMode: mcrt.RandEnumerate}, f)
}

func c12randDraws(r mcrt.Result) int64 {
	n := int64(0)
	for _, p := range r.Points {
		if p.Kind == mcrt.KRand || p.Kind == mcrt.KFloat {
			n++
		}
	}
	return n
}

// c12walk visits the gotree tree (public API: Root, Neigh) in parallel with the flattened model.
func c12walk(t *tree.Tree, tp *rm.C12Topo, f func(gn *tree.Node, i int)) error {
	var rec func(gn, parent *tree.Node, i int) error
	rec = func(gn, parent *tree.Node, i int) error {
		var kids []*tree.Node
		for _, nb := range gn.Neigh() {
			if nb != parent {
				kids = append(kids, nb)
			}
		}
		if len(kids) != len(tp.Children[i]) {
			return fmt.Errorf("node %d: %d children in gotree, %d in the model", i, len(kids), len(tp.Children[i]))
		}
		if tp.Tip[i] && gn.Name() != tp.Name[i] {
			return fmt.Errorf("node %d: tip %q in gotree, %q in the model", i, gn.Name(), tp.Name[i])
		}
		f(gn, i)
		for k, ch := range kids {
			if err := rec(ch, gn, tp.Children[i][k]); err != nil {
				return err
			}
		}
		return nil
	}
	return rec(t.Root(), nil, 0)
}

// a fresh gotree tree for every call
func c12gotree(tr *c12tree) (*tree.Tree, string) {
	if !tr.parse {
		return build(tr.model), ""
	}
	t, err := gtParse(tr.nw)
	if err != nil {
		return nil, fmt.Sprintf("gotree cannot parse %q: %v", tr.nw, err)
	}
	return t, ""
}

// ---- ParsimonyAcr --------------------------------------------------------------

type c12acrObs struct {
	steps   int
	sets    []uint32 // from the node comments, per pre-order node
	mapSets []uint32 // from the returned map (inner nodes; tips = 0)
	bad     string   // output not readable as state sets
	err     error
}

func c12labelBit(lab, universe string, all uint32) uint32 {
	if lab == "*" { // documented: "all are possible"
		return all
	}
	if len(lab) == 1 {
		if i := strings.IndexByte(universe, lab[0]); i >= 0 {
			return 1 << uint(i)
		}
	}
	return c12Foreign
}

func c12acrRun(tr *c12tree, col []byte, universe string, algo int) (o c12acrObs, r mcrt.Result, harnessErr string) {
	tp := tr.tp
	var all uint32
	tips := make(map[string]string, len(col))
	for i, ch := range col {
		tips[fmt.Sprintf("t%d", i+1)] = string(ch)
		all |= 1 << uint(strings.IndexByte(universe, ch))
	}
	r = c12guard(20_000_000, func() {
		t, herr := c12gotree(tr)
		if herr != "" {
			harnessErr = herr
			return
		}
		m, steps, err := acr.ParsimonyAcr(t, tips, algo, false)
		if err != nil {
			o.err = err
			return
		}
		o.steps = steps
		o.sets = make([]uint32, tp.N)
		o.mapSets = make([]uint32, tp.N)
		werr := c12walk(t, tp, func(gn *tree.Node, i int) {
			cm := gn.Comments()
			if len(cm) != 1 {
				o.bad = fmt.Sprintf("node %d carries %d comments %q", i, len(cm), cm)
				return
			}
			for _, lab := range strings.Split(cm[0], "|") {
				o.sets[i] |= c12labelBit(lab, universe, all)
			}
			if !tp.Tip[i] {
				key := gn.Name()
				if key == "" {
					key = fmt.Sprint(gn.Id())
				}
				v, ok := m[key]
				if !ok {
					o.bad = fmt.Sprintf("returned map has no entry %q for inner node %d (map %v)", key, i, m)
					return
				}
				for _, lab := range strings.Split(v, ",") {
					o.mapSets[i] |= c12labelBit(lab, universe, all)
				}
			}
		})
		if werr != nil {
			harnessErr = werr.Error()
		}
	})
	return
}

// ---- ParsimonyAsr --------------------------------------------------------------

type c12asrObs struct {
	steps []int
	sets  [][]uint32 // [site][node] over the universe "ACGT-"
	bad   string
	err   error
}

func c12parseSeq(s string) ([]uint32, bool) {
	var out []uint32
	bit := func(ch byte) uint32 {
		if ch == '*' { // documented: "all are possible"
			return 31
		}
		if i := strings.IndexByte("ACGT-", ch); i >= 0 {
			return 1 << uint(i)
		}
		return c12Foreign
	}
	for i := 0; i < len(s); i++ {
		if s[i] == '{' {
			var m uint32
			j := i + 1
			for j < len(s) && s[j] != '}' {
				m |= bit(s[j])
				j++
			}
			if j >= len(s) {
				return nil, false
			}
			out = append(out, m)
			i = j
			continue
		}
		out = append(out, bit(s[i]))
	}
	return out, true
}

func c12asrRun(tr *c12tree, cols [][]byte, algo int) (o c12asrObs, r mcrt.Result, harnessErr string) {
	tp := tr.tp
	n := len(tr.tipNode)
	rows := make([][]byte, n)
	for i := range rows {
		rows[i] = make([]byte, len(cols))
		for j, col := range cols {
			rows[i][j] = col[i]
		}
	}
	r = c12guard(4_000_000_000, func() {
		t, herr := c12gotree(tr)
		if herr != "" {
			harnessErr = herr
			return
		}
		a := align.NewAlign(align.NUCLEOTIDS)
		for i := range rows {
			if err := a.AddSequence(fmt.Sprintf("t%d", i+1), string(rows[i]), ""); err != nil {
				harnessErr = fmt.Sprintf("goalign rejects the sequence: %v", err)
				return
			}
		}
		if a.Length() != len(cols) {
			harnessErr = fmt.Sprintf("goalign alignment length %d, expected %d", a.Length(), len(cols))
			return
		}
		steps, err := asr.ParsimonyAsr(t, a, algo, false)
		if err != nil {
			o.err = err
			return
		}
		o.steps = steps
		o.sets = make([][]uint32, len(cols))
		for j := range o.sets {
			o.sets[j] = make([]uint32, tp.N)
		}
		werr := c12walk(t, tp, func(gn *tree.Node, i int) {
			cm := gn.Comments()
			if len(cm) != 1 {
				o.bad = fmt.Sprintf("node %d carries %d comments %q", i, len(cm), cm)
				return
			}
			sites, ok := c12parseSeq(cm[0])
			if !ok || len(sites) != len(cols) {
				o.bad = fmt.Sprintf("node %d: sequence %q does not have %d sites", i, cm[0], len(cols))
				return
			}
			for j, m := range sites {
				o.sets[j][i] = m
			}
		})
		if werr != nil {
			harnessErr = werr.Error()
		}
	})
	return
}

// ---- the oracle's verdict on one reported reconstruction ------------------------

// c12judge decides the clauses about reported states. sets[i] = states reported at
// node i; tipSets[i] = the state given to tip i (single bit). withTips: the report
// covers the tips (node comments) or not (returned map).
func c12judge(tp *rm.C12Topo, tipSets []uint32, min int, opt []uint32, algo string, sets []uint32, withTips bool, st *c12stats) (clause, detail string) {
	unamb := true
	for i := 0; i < tp.N; i++ {
		if tp.Tip[i] {
			if withTips {
				st.cnt["clause_tip_unaltered"]++
				if sets[i] != tipSets[i] {
					return "tip-altered/" + algo, fmt.Sprintf("tip %s was given one state but is reported with another state set", tp.Name[i])
				}
			}
			continue
		}
		st.cnt["clause_reported_state_is_optimal"]++
		if sets[i] == 0 {
			return "no-state-reported/" + algo, fmt.Sprintf("inner node %d is reported without any state", i)
		}
		if sets[i]&^opt[i] != 0 {
			return "state-not-optimal/" + algo, fmt.Sprintf("inner node %d (pre-order) is reported with a state that it takes in no most-parsimonious reconstruction", i)
		}
		if algo == "downpass" {
			st.cnt["clause_downpass_reports_all"]++
			if !c12single(opt[i]) {
				st.cnt["downpass_nodes_with_several_optimal_states"]++
			}
			if sets[i] != opt[i] {
				return "optimal-state-missing/downpass", fmt.Sprintf("inner node %d (pre-order): the down-pass does not report every state the node takes in some most-parsimonious reconstruction", i)
			}
		}
		if !c12single(sets[i]) {
			unamb = false
		}
	}
	if unamb {
		state := make([]int, tp.N)
		for i := 0; i < tp.N; i++ {
			if tp.Tip[i] {
				state[i] = c12bitIndex(tipSets[i])
			} else {
				state[i] = c12bitIndex(sets[i])
			}
		}
		st.cnt["clause_unambiguous_output_is_optimal"]++
		cost := rm.C12Cost(tp, state)
		if cost > 0 {
			st.cnt["unambiguous_outputs_with_changes/"+algo]++
		}
		if cost != min {
			return "unambiguous-not-optimal/" + algo, fmt.Sprintf("the output is unambiguous at every node but needs %d changes, the minimum is %d", cost, min)
		}
	} else {
		st.cnt["ambiguous_outputs/"+algo]++
	}
	return "", ""
}

func c12crash(op, algo string, r mcrt.Result, ctx string) (string, string) {
	return "C12/" + op + "/crash/" + algo + "/" + crashSite(r), ctx + ": " + verdictStr(r)
}

// ---- one case -------------------------------------------------------------------

func c12run(cs c12case, st *c12stats) (key, what string) {
	base, err := rm.ParseNewick(cs.Tree)
	if err != nil {
		st.engine = append(st.engine, "C12: cannot re-read case tree: "+err.Error())
		return "", ""
	}
	var trees []*c12tree
	bt, err := c12prep(base, false)
	if err != nil {
		st.engine = append(st.engine, "C12: "+err.Error())
		return "", ""
	}
	trees = append(trees, bt)
	var rootings []*rm.Tree
	if cs.Rootings {
		rootings = rm.C12Rootings(base)
	}
	for _, rt := range rootings {
		t, err := c12prep(rt, true)
		if err != nil {
			st.engine = append(st.engine, "C12: "+err.Error())
			return "", ""
		}
		trees = append(trees, t)
	}
	n := len(bt.tipNode)
	universe := "ACGT"
	switch cs.Mode {
	case "acr":
		universe = cs.Codes
	case "iupac":
		universe = "ACGT-"
	}
	k := len(universe)
	cols := make([][]byte, cs.Len)
	for j := range cols {
		cols[j] = c12column(cs.Codes, n, cs.From+j)
	}
	st.states += int64(cs.Len)
	st.cnt["cases/"+cs.Mode]++
	st.cnt["columns/"+cs.Mode] += int64(cs.Len)
	st.cnt["max:block_length/"+cs.Mode] = int64(cs.Len)
	if cs.Len == 1 {
		st.cnt["blocks_of_length_1"]++
	}
	for j, col := range cols {
		distinct := map[byte]bool{}
		for _, ch := range col {
			distinct[ch] = true
		}
		if len(distinct) >= 2 {
			st.nontriv = append(st.nontriv, fmt.Sprintf("%s|%s|%s|%d", cs.Tree, cs.Mode, cs.Codes, cs.From+j))
		}
	}
	baseAcrSteps := make([]int, cs.Len)
	baseAsrSteps := make([]int, cs.Len)

	for ti, tr := range trees {
		tp := tr.tp
		algos := c12algos
		if ti > 0 && !cs.AllAlgos {
			algos = c12algos[(ti-1)%3 : (ti-1)%3+1]
		}
		if ti > 0 {
			st.cnt["rootings_executed"]++
			if tr.rooted {
				st.cnt["rootings_on_a_branch"]++
			} else {
				st.cnt["rootings_at_a_node"]++
			}
		}
		st.cnt["trees/"+tr.feature]++
		// oracle per column on this tree
		tipSets := make([][]uint32, cs.Len)
		mins := make([]int, cs.Len)
		opts := make([][]uint32, cs.Len)
		altMins := make([]int, cs.Len) // iupac: '-' read as missing data (any nucleotide)
		hasGap := make([]bool, cs.Len)
		for j, col := range cols {
			ts := make([]uint32, tp.N)
			for i, ch := range col {
				if cs.Mode == "iupac" {
					ts[tr.tipNode[i]] = c12iupac[ch]
				} else {
					ts[tr.tipNode[i]] = 1 << uint(strings.IndexByte(universe, ch))
				}
				if ch == '-' {
					hasGap[j] = true
				}
			}
			tipSets[j] = ts
			if cs.Mode == "iupac" {
				mins[j] = rm.C12Min(tp, k, ts)
				altMins[j] = mins[j]
				if hasGap[j] {
					ts2 := append([]uint32(nil), ts...)
					for i := range ts2 {
						if ts2[i] == 16 {
							ts2[i] = 15
						}
					}
					altMins[j] = rm.C12Min(tp, k, ts2)
				}
				if ti == 0 {
					_, opts[j] = rm.C12Sankoff(tp, k, ts)
				}
			} else {
				mins[j], opts[j] = rm.C12Sankoff(tp, k, ts)
			}
		}
		for _, al := range algos {
			ctxOf := func(j int) string {
				return fmt.Sprintf("tree %s, tips t1..t%d = %s, %s", tr.nw, n, cols[j], al.name)
			}
			// --- single characters ---
			var acrObs []c12acrObs
			if cs.Mode != "iupac" {
				acrObs = make([]c12acrObs, cs.Len)
				for j, col := range cols {
					o, r, herr := c12acrRun(tr, col, universe, al.acr)
					st.trans++
					st.cnt["calls_ParsimonyAcr"]++
					st.cnt["random_draws_observed"] += c12randDraws(r)
					if herr != "" {
						st.engine = append(st.engine, "C12: "+herr)
						return "", ""
					}
					if crashed(r) {
						return c12crash("acr", al.name, r, ctxOf(j))
					}
					if o.err != nil {
						return "C12/acr/error/" + al.name, fmt.Sprintf("%s: ParsimonyAcr returns the error %q", ctxOf(j), o.err)
					}
					if o.bad != "" {
						return "C12/acr/malformed-output/" + al.name, ctxOf(j) + ": " + o.bad
					}
					acrObs[j] = o
					st.cnt["clause_steps_minimum"]++
					if mins[j] > 0 {
						st.cnt["steps_minimum_positive"]++
					}
					if o.steps != mins[j] {
						return "C12/acr/steps-not-minimum/" + tr.feature, fmt.Sprintf("%s: %d steps reported, the minimum number of changes is %d", ctxOf(j), o.steps, mins[j])
					}
					if ti == 0 {
						if al.name == "downpass" {
							baseAcrSteps[j] = o.steps
							namb := 0
							for i := range o.sets {
								if !c12single(o.sets[i]) {
									namb++
								}
							}
							st.outcome[fmt.Sprintf("acr %d tips %d steps %d ambiguous", n, o.steps, namb)] = struct{}{}
						}
					} else {
						st.cnt["clause_rooting_independent"]++
						if o.steps != baseAcrSteps[j] {
							return "C12/acr/steps-depend-on-rooting", fmt.Sprintf("%s: %d steps, but %d on the same unrooted tree presented as %s", ctxOf(j), o.steps, baseAcrSteps[j], trees[0].nw)
						}
					}
					if cl, d := c12judge(tp, tipSets[j], mins[j], opts[j], al.name, o.sets, true, st); cl != "" {
						return "C12/acr/" + cl, fmt.Sprintf("%s: %s; reported %s, optimal state sets %s", ctxOf(j), d, c12fmtSets(tp, o.sets, universe), c12fmtSets(tp, opts[j], universe))
					}
					same := true
					for i := 0; i < tp.N; i++ {
						if !tp.Tip[i] && o.mapSets[i] != o.sets[i] {
							same = false
						}
					}
					st.cnt["returned_maps_read"]++
					if !same {
						st.cnt["returned_map_differs_from_comments"]++
						if cl, d := c12judge(tp, tipSets[j], mins[j], opts[j], al.name, o.mapSets, false, st); cl != "" {
							return "C12/acr/" + cl + "/returned-map", fmt.Sprintf("%s: %s; returned map gives %s, optimal state sets %s", ctxOf(j), d, c12fmtSets(tp, o.mapSets, universe), c12fmtSets(tp, opts[j], universe))
						}
					}
				}
			}
			if cs.Mode == "acr" {
				continue
			}
			// --- the block as an alignment ---
			o, r, herr := c12asrRun(tr, cols, al.asr)
			st.trans++
			st.cnt["calls_ParsimonyAsr"]++
			st.cnt["random_draws_observed"] += c12randDraws(r)
			blk := fmt.Sprintf("tree %s, alignment of %d sites = columns %d.. of %s^%d, %s", tr.nw, cs.Len, cs.From, cs.Codes, n, al.name)
			if herr != "" {
				st.engine = append(st.engine, "C12: "+herr)
				return "", ""
			}
			if crashed(r) {
				return c12crash("asr", al.name, r, blk)
			}
			if o.err != nil {
				return "C12/asr/error/" + al.name, fmt.Sprintf("%s: ParsimonyAsr returns the error %q", blk, o.err)
			}
			if o.bad != "" {
				return "C12/asr/malformed-output/" + al.name, blk + ": " + o.bad
			}
			if len(o.steps) < cs.Len {
				return "C12/asr/steps-missing", fmt.Sprintf("%s: %d step counts for %d sites", blk, len(o.steps), cs.Len)
			}
			for j := range cols {
				site := fmt.Sprintf("%s, site %d", ctxOf(j), j)
				if cs.Mode == "iupac" {
					kind := "iupac"
					if hasGap[j] {
						kind = "gap"
					}
					st.cnt["clause_steps_minimum_"+kind]++
					if mins[j] != altMins[j] {
						st.cnt["gap_columns_where_the_two_readings_differ"]++
					}
					if o.steps[j] != mins[j] && o.steps[j] != altMins[j] {
						exp := fmt.Sprint(mins[j])
						if altMins[j] != mins[j] {
							exp = fmt.Sprintf("%d ('-' a state of its own) or %d ('-' missing data)", mins[j], altMins[j])
						}
						return "C12/asr/steps-not-minimum/" + kind + "/" + tr.feature, fmt.Sprintf("%s: %d steps reported, the minimum number of changes is %s", site, o.steps[j], exp)
					}
					if ti == 0 {
						if al.name == "downpass" {
							baseAsrSteps[j] = o.steps[j]
							st.outcome[fmt.Sprintf("asr-iupac %d tips %d steps", n, o.steps[j])] = struct{}{}
							// outside the quantifier (IUPAC is quantified for the step counts only): informational
							if !hasGap[j] {
								for i := 0; i < tp.N; i++ {
									if !tp.Tip[i] {
										st.cnt["info_iupac_downpass_inner_sets_compared"]++
										if o.sets[j][i] != opts[j][i] {
											st.cnt["info_iupac_downpass_inner_set_differs_from_optimal"]++
										}
									}
								}
							}
						}
					} else {
						st.cnt["clause_rooting_independent_asr"]++
						if o.steps[j] != baseAsrSteps[j] {
							return "C12/asr/steps-depend-on-rooting/" + kind, fmt.Sprintf("%s: %d steps, but %d on the same unrooted tree presented as %s", site, o.steps[j], baseAsrSteps[j], trees[0].nw)
						}
					}
					continue
				}
				// plain: all clauses + agreement with the single-character reconstruction
				st.cnt["clause_steps_minimum_asr"]++
				if o.steps[j] != mins[j] {
					return "C12/asr/steps-not-minimum/unambiguous/" + tr.feature, fmt.Sprintf("%s: %d steps reported, the minimum number of changes is %d", site, o.steps[j], mins[j])
				}
				if ti == 0 {
					if al.name == "downpass" {
						baseAsrSteps[j] = o.steps[j]
					}
				} else {
					st.cnt["clause_rooting_independent_asr"]++
					if o.steps[j] != baseAsrSteps[j] {
						return "C12/asr/steps-depend-on-rooting/unambiguous", fmt.Sprintf("%s: %d steps, but %d on the same unrooted tree presented as %s", site, o.steps[j], baseAsrSteps[j], trees[0].nw)
					}
				}
				if cl, d := c12judge(tp, tipSets[j], mins[j], opts[j], al.name, o.sets[j], true, st); cl != "" {
					return "C12/asr/" + cl, fmt.Sprintf("%s: %s; reported %s, optimal state sets %s", site, d, c12fmtSets(tp, o.sets[j], "ACGT-"), c12fmtSets(tp, opts[j], universe))
				}
				st.cnt["clause_site_by_site_agreement"]++
				if o.steps[j] != acrObs[j].steps {
					return "C12/asr/disagrees-with-acr/steps/" + al.name, fmt.Sprintf("%s: ParsimonyAsr %d steps, ParsimonyAcr on the same column %d", site, o.steps[j], acrObs[j].steps)
				}
				for i := 0; i < tp.N; i++ {
					if o.sets[j][i] != acrObs[j].sets[i] {
						return "C12/asr/disagrees-with-acr/states/" + al.name, fmt.Sprintf("%s: ParsimonyAsr reports %s, ParsimonyAcr on the same column %s", site, c12fmtSets(tp, o.sets[j], "ACGT-"), c12fmtSets(tp, acrObs[j].sets, universe))
					}
				}
			}
		}
	}
	return "", ""
}

// ---- self-test of the reference side (failure = engine error) --------------------

func c12selftest(c *Ctx) {
	for n := 3; n <= 5; n++ {
		for _, sh := range enum.Shapes(n, "t") {
			tp := rm.C12Flatten(sh)
			roots := rm.C12Rootings(sh)
			inner, edges := 0, 0
			for i := 0; i < tp.N; i++ {
				if !tp.Tip[i] {
					inner++
				}
			}
			edges = tp.N - 1
			if sh.Rooted() {
				inner--
				edges--
			}
			if len(roots) != inner+edges {
				c.EngineError(fmt.Sprintf("C12 self-test: %d rootings of %s, expected %d", len(roots), sh.Newick(), inner+edges))
				return
			}
			canon := sh.CanonUnrooted()
			var rtp []*rm.C12Topo
			var rtips [][]int
			for _, rt := range roots {
				if rt.CanonUnrooted() != canon {
					c.EngineError(fmt.Sprintf("C12 self-test: rooting %s of %s is another unrooted tree", rt.Newick(), sh.Newick()))
					return
				}
				p, err := c12prep(rt, false)
				if err != nil {
					c.EngineError("C12 self-test: " + err.Error())
					return
				}
				rtp = append(rtp, p.tp)
				rtips = append(rtips, p.tipNode)
			}
			bp, _ := c12prep(sh, false)
			// set-valued tips over 3 states: every non-empty subset per tip for n <= 4, single states for n = 5
			nsets := 7
			if n == 5 {
				nsets = 3
			}
			single := []uint32{1, 2, 4}
			for j := 0; j < c12pow(nsets, n); j++ {
				ts := make([]uint32, tp.N)
				x := j
				per := make([]uint32, n)
				for i := 0; i < n; i++ {
					if nsets == 7 {
						per[i] = uint32(x%7 + 1)
					} else {
						per[i] = single[x%3]
					}
					x /= nsets
					ts[bp.tipNode[i]] = per[i]
				}
				m1, o1 := rm.C12Sankoff(tp, 3, ts)
				m2, o2 := rm.C12Brute(tp, 3, ts)
				if m1 != m2 || fmt.Sprint(o1) != fmt.Sprint(o2) {
					c.EngineError(fmt.Sprintf("C12 self-test: Sankoff %d %v != brute force %d %v on %s tip sets %v", m1, o1, m2, o2, sh.Newick(), per))
					return
				}
				for ri := range rtp {
					ts2 := make([]uint32, rtp[ri].N)
					for i := 0; i < n; i++ {
						ts2[rtips[ri][i]] = per[i]
					}
					if m := rm.C12Min(rtp[ri], 3, ts2); m != m1 {
						c.EngineError(fmt.Sprintf("C12 self-test: minimum %d on rooting %d, %d on %s", m, ri, m1, sh.Newick()))
						return
					}
				}
				c.Count("selftest_oracle_cases", 1)
			}
		}
	}
}

// ---- enumeration -----------------------------------------------------------------

type c12plan struct {
	n     int
	mode  string
	codes string
	root  int // 0: the shapes only; 1: every rooting, algorithm rotating; 2: every rooting x every algorithm
}

var c12blockLens = []int{1, 2, 3, 61, 189, 256, 512}

func c12plans(quick bool) []c12plan {
	if quick {
		return []c12plan{
			{3, "plain", "ACGT", 2}, {4, "plain", "ACGT", 2}, {5, "plain", "ACGT", 1}, {6, "plain", "AC", 0},
			{3, "iupac", "ACGTRYSWKMBDHVN-", 2}, {4, "iupac", "ACGTRMN-", 2}, {5, "iupac", "ACRN-", 1},
			{5, "acr", "VWXYZ", 0},
		}
	}
	return []c12plan{
		{3, "plain", "ACGT", 2}, {4, "plain", "ACGT", 2}, {5, "plain", "ACGT", 2}, {6, "plain", "ACG", 1}, {6, "plain", "ACGT", 0}, {7, "plain", "ACG", 0},
		{3, "iupac", "ACGTRYSWKMBDHVN-", 2}, {4, "iupac", "ACGTRYSWKMBDHVN-", 2}, {5, "iupac", "ACGTRMN-", 1}, {6, "iupac", "ACRN-", 1},
		{5, "acr", "VWXYZ", 1},
	}
}

func init() {
	register(&Prop{
		ID: "C12",
		Rule: "every plane rooted multifurcating shape with n tips (root with 2 children = rooted, >= 3 = unrooted) x every column (one symbol per tip) of an alphabet, in blocks of 1,2,3,61,189,256,512 consecutive columns; " +
			"plain mode (symbols ACGT; quick n<=5 with 4 states, n=6 with 2; thorough n<=6 with 4, n=7 with 3): acr.ParsimonyAcr per column x {DOWNPASS, DELTRAN, ACCTRAN} and asr.ParsimonyAsr on the block as a nucleotide alignment, " +
			"each compared with a Sankoff dynamic programme on the reference model (minimum; per node the states of some optimal reconstruction) and with each other site by site; " +
			"acr mode (n=5): 5 state labels, ParsimonyAcr only; iupac mode (all 15 IUPAC codes and '-' for n<=3 (quick) / n<=4 (thorough), 8 codes for the next n, 5 codes for the largest n): ParsimonyAsr step counts against the oracle with set-valued tips; " +
			"every case is re-executed on every rooting of the underlying unrooted tree (at each inner node and on each branch; inner nodes named there, unnamed on the shape itself) and must give the same step counts " +
			"(quick: n<=5, all three algorithms on every rooting for n<=4, one algorithm per rooting in rotation for n=5; thorough: all three for n<=5, rotation for n=6 with 3 states and for iupac n>=5; the largest n of each mode runs on the shapes only, which contain every rooting as a shape of their own); " +
			"randomResolve=false everywhere; non-trivial = column with at least two distinct symbols",
		Assumptions: []string{
			"every call gets a fresh tree: the shape itself parsed from its Newick text by gotree's parser, its rootings built through the public constructors (NewNode, ConnectNodes, SetRoot)",
			"'-' in an alignment: the property does not say whether a gap is a state of its own (gotree's reading) or missing data; the step count is accepted if it is the minimum under either reading, rooting independence is demanded strictly",
			"ParsimonyAsr returns one more step count than there are sites (always 0); only the first Length() entries are compared",
			"goalign's align.NewAlign/AddSequence store the sequences as given",
		},
		Require: []string{
			"clause_steps_minimum", "clause_steps_minimum_asr", "clause_steps_minimum_iupac", "clause_steps_minimum_gap",
			"clause_rooting_independent", "clause_rooting_independent_asr", "rootings_on_a_branch", "rootings_at_a_node",
			"clause_tip_unaltered", "clause_reported_state_is_optimal", "clause_downpass_reports_all", "downpass_nodes_with_several_optimal_states",
			"clause_unambiguous_output_is_optimal", "unambiguous_outputs_with_changes/downpass", "unambiguous_outputs_with_changes/deltran", "unambiguous_outputs_with_changes/acctran",
			"ambiguous_outputs/downpass", "ambiguous_outputs/deltran", "ambiguous_outputs/acctran",
			"clause_site_by_site_agreement", "trees/polytomy", "trees/binary", "returned_maps_read", "blocks_of_length_1", "selftest_oracle_cases",
		},
		Run: func(c *Ctx) {
			if c.Shard == 0 {
				c12selftest(c)
			}
			st := c12newStats()
			for _, pl := range c12plans(c.Quick()) {
				total := c12pow(len(pl.codes), pl.n)
				for _, sh := range enum.Shapes(pl.n, "t") {
					nw := sh.Newick()
					bi := 0
					for from := 0; from < total; bi++ {
						l := c12blockLens[bi%len(c12blockLens)]
						if l > total-from {
							l = total - from
						}
						cs := c12case{Tree: nw, Mode: pl.mode, Codes: pl.codes, From: from, Len: l, Rootings: pl.root > 0, AllAlgos: pl.root > 1}
						from += l
						if c.TimeUp() {
							return
						}
						if !c.Mine() {
							continue
						}
						c.Sample(cs)
						c.Pin(func() string { b, _ := json.Marshal(cs); return string(b) })
						c.Check(cs, func() (string, string) {
							*st = *c12newStats()
							return c12run(cs, st)
						})
						st.flush(c)
					}
				}
			}
		},
		Replay: func(c *Ctx, raw json.RawMessage) {
			var cs c12case
			if err := json.Unmarshal(raw, &cs); err != nil {
				fmt.Println("cannot read the case:", err)
				return
			}
			k, w := c12run(cs, c12newStats())
			fmt.Printf("case: %s\nresult: %s %s\n", raw, k, w)
			if k != "" {
				c.Violate(k, w, cs)
			}
		},
	})
}

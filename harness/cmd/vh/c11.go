package main

import (
	"encoding/json"
	"errors"
	"fmt"
	realrand "math/rand"
	"os"
	"os/exec"
	"path/filepath"
	"regexp"
	"sort"
	"strings"
	"time"

	"github.com/evolbioinfo/goalign/align"
	"github.com/evolbioinfo/gotree/acr"
	"github.com/evolbioinfo/gotree/asr"
	"github.com/evolbioinfo/gotree/hashmap"
	"github.com/evolbioinfo/gotree/io/utils"
	"github.com/evolbioinfo/gotree/mcrt"
	"github.com/evolbioinfo/gotree/support"
	"github.com/evolbioinfo/gotree/tree"
)

// C11: threaded computations under every explored goroutine schedule.

var c11pool = []string{
	"((A:1,B:1):1,(C:1,D:1):1,E:1);",   // 0 = reference topology
	"((A:2,C:1):2,(B:1,D:1):1,E:1);",   // 1 different
	"((A:3,B:1):3,C:1,D:1,E:1);",       // 2 multifurcating (contraction)
	"((A:1,B:1):1,(C:1,F:1):1,E:1);",   // 3 different taxa
	"((A:1,A:1):1,(C:1,D:1):1,E:1);",   // 4 duplicate tip
	"",                                 // 5 Trees{Err: e}
	"((A:1,E:2):0.5,(C:1,B:1):1,D:1);", // 6 different again
}

const c11ref = "((A:1,B:1):1,(C:1,D:1):1,E:1);"

// 7 taxa: transfer distances of 0, 1 and 2 occur, so that a corrupted scratch value changes a result
const c11ref7 = "((A:1,B:1):1,((C:1,D:1):1,(E:1,F:1):2):1,G:1);"

var c11pool7 = map[int]string{
	0: "((A:1,B:1):1,((C:1,D:1):1,(E:1,F:1):2):1,G:1);",
	1: "((A:2,C:1):2,((B:1,E:1):1,(D:1,F:1):1):1,G:1);",
	2: "((A:3,B:1):3,(C:1,D:1,E:1,F:2):1,G:1);",
	6: "(((A:1,E:2):0.5,F:1):1,((C:1,B:1):1,D:1):1,G:2);",
}

// 12 taxa: a caterpillar whose taxon A jumps to the other end in the bootstrap trees (a "rogue" taxon: every deep
// branch is at transfer distance 1 and it is always A that moves - the moved-taxa statistics need depth >= 5)
const c11ref12 = "((((((((((A:1,B:1):1,C:1):1,D:1):1,E:1):1,F:1):1,G:1):1,H:1):1,I:1):1,J:1):1,K:1,L:1);"

var c11pool12 = map[int]string{
	0: c11ref12,
	1: "((((((((((B:1,C:1):1,D:1):1,E:1):1,F:1):1,G:1):1,H:1):1,I:1):1,J:1):1,K:1):1,A:1,L:1);",
	2: "((((((((B:1,C:1):1,D:1):1,E:1):1,F:1,G:1):1,H:1):1,I:1):1,J:1):1,(K:1,A:1):1,L:1);",
	6: "((((((((((B:1,C:1):1,D:1):1,E:1):1,F:1):1,G:1):1,H:1):1,I:1):1,J:1):1,(A:1,K:1):1):1,L:1);",
}

func (s c11scn) ref() string {
	if s.Taxa12 {
		return c11ref12
	}
	if s.Taxa7 {
		return c11ref7
	}
	return c11ref
}

func (s c11scn) pool(i int) string {
	if s.Taxa12 {
		if t, ok := c11pool12[i]; ok {
			return t
		}
	}
	if s.Taxa7 {
		if t, ok := c11pool7[i]; ok {
			return t
		}
	}
	return c11pool[i]
}

type c11scn struct {
	Fam      string `json:"family"`
	Seq      []int  `json:"trees"` // indices into the pool
	Workers  int    `json:"workers"`
	Tips     bool   `json:"tips,omitempty"`
	Ident    bool   `json:"identical_only,omitempty"`
	Producer bool   `json:"producer_thread,omitempty"`
	NumCPU   int    `json:"numcpu,omitempty"`
	Bound    int    `json:"bound"`
	Switch   int    `json:"switch_cost"`
	Choices  []int  `json:"choices,omitempty"` // schedule of the failing execution
	Ops      []int  `json:"ops,omitempty"`     // hashmap family: operation codes per thread
	Taxa7    bool   `json:"seven_taxa,omitempty"`
	Taxa12   bool   `json:"twelve_taxa,omitempty"`
	Deep     bool   `json:"yield_at_every_call,omitempty"` // every function entry / loop iteration of the worker threads is a scheduling point
}

func (s c11scn) hasBad() bool {
	for _, i := range s.Seq {
		if i >= 3 && i <= 5 {
			return true
		}
	}
	return false
}

func (s c11scn) label() string {
	d := ""
	if s.Deep {
		d = " deep"
	}
	if s.Taxa7 {
		d += " 7taxa"
	}
	if s.Taxa12 {
		d += " 12taxa"
	}
	return fmt.Sprintf("%s seq=%v w=%d tips=%v ident=%v prod=%v%s", s.Fam, s.Seq, s.Workers, s.Tips, s.Ident, s.Producer, d)
}

// c11input builds the input channel (pre-filled and closed, or fed by a producer thread).
func c11input(s c11scn) chan tree.Trees {
	items := make([]tree.Trees, len(s.Seq))
	for i, pi := range s.Seq {
		if pi == 5 {
			items[i] = tree.Trees{Id: i, Err: errors.New("erroneous tree record")}
		} else {
			items[i] = tree.Trees{Id: i, Tree: gtMustParse(s.pool(pi))}
		}
	}
	if s.Producer {
		ch := make(chan tree.Trees, 1)
		mcrt.Go(func() {
			for _, it := range items {
				mcrt.Send(ch, it)
			}
			mcrt.Close(ch)
		})
		return ch
	}
	ch := make(chan tree.Trees, len(items)+1)
	for _, it := range items {
		mcrt.Send(ch, it)
	}
	mcrt.Close(ch)
	return ch
}

// c11body returns the closure executed under the scheduler; it stores its observation in *obs
// and whether the caller has received an error in *gotErr.
func c11body(s c11scn, obs *string, gotErr *bool) func() {
	return func() {
		*obs, *gotErr = "", false
		ref := gtMustParse(s.ref())
		switch s.Fam {
		case "compare":
			in := c11input(s)
			st, err := tree.Compare(ref, in, s.Tips, s.Ident, s.Workers)
			if err != nil {
				*obs, *gotErr = "error:"+err.Error(), true
				return
			}
			var recs []string
			for {
				r, ok := mcrt.Recv2(st)
				if !ok {
					break
				}
				if r.Err != nil {
					*gotErr = true
				}
				if s.Ident {
					recs = append(recs, fmt.Sprintf("id=%d same=%v err=%v", r.Id, r.Sametree, r.Err != nil))
				} else {
					recs = append(recs, fmt.Sprintf("id=%d t1=%d t2=%d common=%d same=%v err=%v", r.Id, r.Tree1, r.Tree2, r.Common, r.Sametree, r.Err != nil))
				}
			}
			sort.Strings(recs)
			*obs = strings.Join(recs, "|")
		case "wcompare":
			in := c11input(s)
			st, err := tree.CompareWeighted(ref, in, s.Tips, s.Ident, s.Workers)
			if err != nil {
				*obs, *gotErr = "error:"+err.Error(), true
				return
			}
			var recs []string
			for {
				r, ok := mcrt.Recv2(st)
				if !ok {
					break
				}
				if r.Err != nil {
					*gotErr = true
				}
				if s.Ident {
					recs = append(recs, fmt.Sprintf("id=%d same=%v err=%v", r.Id, r.Sametree, r.Err != nil))
				} else {
					recs = append(recs, fmt.Sprintf("id=%d t1=%v t2=%v common=%v same=%v err=%v", r.Id, r.Tree1, r.Tree2, r.Common, r.Sametree, r.Err != nil))
				}
			}
			sort.Strings(recs)
			*obs = strings.Join(recs, "|")
		case "fbp":
			in := c11input(s)
			err := support.FBP(ref, in, s.Workers, nil)
			*gotErr = err != nil
			if err != nil {
				*obs = "error" // the state of the reference tree after a failed call is not specified
			} else {
				*obs = ref.Newick()
			}
		case "tbe":
			in := c11input(s)
			if err := ref.ReinitIndexes(); err != nil { // the caller's side of TBE's contract (cmd/booster.go does the same)
				panic(err)
			}
			_, err := support.TBE(ref, in, s.Workers, false, false, false, 0.3, nil, nil)
			*gotErr = err != nil
			if err != nil {
				*obs = "error"
			} else {
				*obs = ref.Newick()
			}
		case "cli-compare", "cli-wcompare", "cli-binary", "cli-fbp", "cli-tbe":
			// the real command, in-process: file -> reader goroutine -> worker pool -> printing loop of the command
			var sb strings.Builder
			for _, pi := range s.Seq {
				if pi == 5 {
					sb.WriteString("((A:1,B:1):1,(C:1,D:1:1,E:1);\n") // malformed tree
				} else {
					sb.WriteString(s.pool(pi) + "\n")
				}
			}
			files := map[string]string{"ref.nw": s.ref() + "\n", "in.nw": sb.String()}
			var args []string
			switch s.Fam {
			case "cli-compare":
				args = []string{"compare", "trees", "-i", "@/ref.nw", "-c", "@/in.nw"}
			case "cli-wcompare":
				args = []string{"compare", "trees", "-i", "@/ref.nw", "-c", "@/in.nw", "--weighted"}
			case "cli-binary":
				args = []string{"compare", "trees", "-i", "@/ref.nw", "-c", "@/in.nw", "--binary"}
			case "cli-fbp":
				args = []string{"compute", "support", "fbp", "-i", "@/ref.nw", "-b", "@/in.nw", "--silent"}
			case "cli-tbe":
				args = []string{"compute", "support", "tbe", "-i", "@/ref.nw", "-b", "@/in.nw", "--silent"}
			}
			args = append(args, "-t", fmt.Sprint(s.Workers), "--seed", "1")
			var res cliRun
			cliBody(args, "", files, nil, &res)()
			lines := strings.Split(strings.TrimSpace(res.Stdout), "\n")
			sort.Strings(lines)
			*obs = strings.Join(lines, "|")
			if res.Err != "" {
				*gotErr = true
				*obs = "error"
			}
		case "tbetaxa":
			// TBE with the moved-taxa statistics (shared per-taxon and per-branch accumulators, written to the log file)
			in := c11input(s)
			if err := ref.ReinitIndexes(); err != nil {
				panic(err)
			}
			os.MkdirAll(filepath.Join(verifDir(), "build", "tmp"), 0o755)
			lf, err := os.CreateTemp(filepath.Join(verifDir(), "build", "tmp"), "c11log-")
			if err != nil {
				panic(err)
			}
			defer os.Remove(lf.Name())
			raw, err := support.TBE(ref, in, s.Workers, true, true, true, 0.3, lf, nil)
			lf.Close()
			*gotErr = err != nil
			if err != nil {
				*obs = "error"
			} else {
				b, _ := os.ReadFile(lf.Name())
				*obs = ref.Newick() + " raw=" + raw.Newick() + " log=" + string(b)
			}
		case "pipeline":
			// text -> ReadMultiTrees (reader goroutine) -> Compare
			var sb strings.Builder
			for _, pi := range s.Seq {
				if pi == 5 {
					sb.WriteString("((A:1,B:1):1,(C:1,D:1:1,E:1);\n") // malformed tree
				} else {
					sb.WriteString(s.pool(pi) + "\n")
				}
			}
			in := utils.ReadMultiTrees(bufReader(sb.String()), utils.FORMAT_NEWICK)
			st, err := tree.Compare(ref, in, s.Tips, s.Ident, s.Workers)
			if err != nil {
				*obs, *gotErr = "error:"+err.Error(), true
				return
			}
			var recs []string
			for {
				r, ok := mcrt.Recv2(st)
				if !ok {
					break
				}
				if r.Err != nil {
					*gotErr = true
				}
				recs = append(recs, fmt.Sprintf("id=%d t1=%d t2=%d common=%d same=%v err=%v", r.Id, r.Tree1, r.Tree2, r.Common, r.Sametree, r.Err != nil))
			}
			sort.Strings(recs)
			*obs = strings.Join(recs, "|")
		}
	}
}

// ---- hashmap family: linearizability against a plain map ------------------------

type c11key struct {
	h    uint64
	name string
}

func (k c11key) HashCode() uint64 { return k.h }
func (k c11key) HashEquals(o hashmap.Hasher) bool {
	ok, is := o.(c11key)
	return is && ok.name == k.name
}

type c11op struct {
	thread    int
	put       bool
	key       int
	val       int
	res       int // for gets: value or -1
	call, ret int
}

// ops codes: 0 = put(k0), 1 = put(k1), 2 = get(k0), 3 = get(k1), 4 = put(k2)
var c11keys = []c11key{{h: 0, name: "k0"}, {h: 2, name: "k1"}, {h: 1, name: "k2"}}

func c11hashBody(s c11scn, hist *[]c11op, final *string) func() {
	// s.Ops is the concatenation of per-thread op lists, s.Workers threads with len(Ops)/Workers ops each
	per := len(s.Ops) / s.Workers
	return func() {
		*hist = (*hist)[:0]
		clock := 0
		hm := hashmap.NewHashMap(1, 0.75)
		hm.PutValue(c11keys[0], 100) // one entry before the threads start
		var wgdone = make(chan int, s.Workers)
		for th := 0; th < s.Workers; th++ {
			th := th
			mcrt.Go(func() {
				for j := 0; j < per; j++ {
					code := s.Ops[th*per+j]
					op := c11op{thread: th}
					switch code {
					case 0, 1, 4:
						op.put = true
						op.key = map[int]int{0: 0, 1: 1, 4: 2}[code]
						op.val = th*10 + j + 1
						clock++
						op.call = clock
						hm.PutValue(c11keys[op.key], op.val)
						clock++
						op.ret = clock
					default:
						op.key = code - 2
						clock++
						op.call = clock
						v, ok := hm.Value(c11keys[op.key])
						clock++
						op.ret = clock
						op.res = -1
						if ok {
							op.res = v.(int)
						}
					}
					*hist = append(*hist, op)
				}
				mcrt.Send(wgdone, th)
			})
		}
		for th := 0; th < s.Workers; th++ {
			mcrt.Recv(wgdone)
		}
		// final content through the public API
		var parts []string
		for i, k := range c11keys {
			if v, ok := hm.Value(k); ok {
				parts = append(parts, fmt.Sprintf("k%d=%v", i, v))
			}
		}
		parts = append(parts, fmt.Sprintf("nkeys=%d", len(hm.Keys())))
		*final = strings.Join(parts, ",")
	}
}

// c11linearizable: is there a total order of the operations, consistent with real time
// (a.ret < b.call => a before b), that a plain map explains, ending in the observed final content?
func c11linearizable(hist []c11op, final string) bool {
	n := len(hist)
	used := make([]bool, n)
	var rec func(done int, m map[int]int) bool
	rec = func(done int, m map[int]int) bool {
		if done == n {
			var parts []string
			for i := 0; i < 3; i++ {
				if v, ok := m[i]; ok {
					parts = append(parts, fmt.Sprintf("k%d=%v", i, v))
				}
			}
			parts = append(parts, fmt.Sprintf("nkeys=%d", len(m)))
			return strings.Join(parts, ",") == final
		}
		for i := 0; i < n; i++ {
			if used[i] {
				continue
			}
			// minimal: no unused op returned before this one was called
			okMin := true
			for j := 0; j < n; j++ {
				if !used[j] && j != i && hist[j].ret < hist[i].call {
					okMin = false
					break
				}
			}
			if !okMin {
				continue
			}
			op := hist[i]
			if op.put {
				old, had := m[op.key]
				m[op.key] = op.val
				used[i] = true
				if rec(done+1, m) {
					return true
				}
				used[i] = false
				if had {
					m[op.key] = old
				} else {
					delete(m, op.key)
				}
			} else {
				v, had := m[op.key]
				if (!had && op.res == -1) || (had && v == op.res) {
					used[i] = true
					if rec(done+1, m) {
						return true
					}
					used[i] = false
				}
			}
		}
		return false
	}
	return rec(0, map[int]int{0: 100})
}

// ---- scenario list ----------------------------------------------------------------

func c11scenarios(quick bool) []c11scn {
	var out []c11scn
	add := func(s c11scn) { out = append(out, s) }
	seqs1 := [][]int{{0}, {1}, {3}, {4}, {5}}
	seqs2 := [][]int{{0, 1}, {1, 2}, {0, 5}, {5, 0}, {1, 3}, {3, 1}, {4, 1}, {1, 4}, {5, 5}}
	seqs3 := [][]int{{0, 1, 2}, {1, 6, 2}, {5, 0, 1}, {0, 5, 1}, {0, 1, 5}, {3, 0, 1}, {0, 3, 1}, {0, 1, 3}, {4, 0, 1}, {0, 4, 1}, {0, 1, 4}}
	for _, fam := range []string{"compare", "wcompare", "fbp", "tbe", "pipeline"} {
		for _, w := range []int{1, 2, 3} {
			var seqs [][]int
			seqs = append(seqs, seqs1...)
			seqs = append(seqs, seqs2...)
			if w <= 2 || !quick {
				seqs = append(seqs, seqs3...)
			}
			for _, sq := range seqs {
				if fam == "pipeline" {
					bad := false
					for _, i := range sq {
						if i == 3 || i == 4 {
							bad = true // only the malformed-text variant (5) is specific to the pipeline
						}
					}
					if bad {
						continue
					}
				}
				s := c11scn{Fam: fam, Seq: sq, Workers: w, Bound: 1, Switch: 1, NumCPU: 16}
				if fam == "tbe" {
					if w == 3 && quick {
						continue
					}
				}
				add(s)
				if fam == "compare" || fam == "wcompare" {
					if len(sq) >= 2 && w == 2 {
						t := s
						t.Tips, t.Ident = true, true
						add(t)
						p := s
						p.Producer = true
						add(p)
					}
				}
				if fam == "fbp" && w == 2 && len(sq) == 2 {
					p := s
					p.Producer = true
					add(p)
					q := s
					q.NumCPU = 1 // FBP caps the workers at NumCPU
					add(q)
				}
			}
		}
	}
	// more threads than trees and than branches of the reference tree (7), up to the number of cores
	for _, fam := range []string{"compare", "wcompare", "fbp", "tbe", "pipeline"} {
		add(c11scn{Fam: fam, Seq: []int{1, 2}, Workers: 8, Bound: 1, Switch: 1, NumCPU: 16})
		add(c11scn{Fam: fam, Seq: []int{2}, Workers: 16, Bound: 0, Switch: 1, NumCPU: 16})
		add(c11scn{Fam: fam, Seq: []int{0, 5}, Workers: 8, Bound: 0, Switch: 1, NumCPU: 16})
		if !quick {
			add(c11scn{Fam: fam, Seq: []int{1, 2}, Workers: 16, Bound: 1, Switch: 1, NumCPU: 16})
		}
	}
	// deeper bounds on one instance per family
	for _, fam := range []string{"compare", "wcompare", "fbp", "tbe", "pipeline"} {
		add(c11scn{Fam: fam, Seq: []int{1, 2}, Workers: 2, Bound: 2, Switch: 1, NumCPU: 16})
		add(c11scn{Fam: fam, Seq: []int{1, 2}, Workers: 2, Bound: 1, Switch: 0, NumCPU: 16})
		if !quick {
			add(c11scn{Fam: fam, Seq: []int{1, 6, 2}, Workers: 2, Bound: 2, Switch: 1, NumCPU: 16})
			add(c11scn{Fam: fam, Seq: []int{1, 6, 2}, Workers: 3, Bound: 2, Switch: 1, NumCPU: 16})
			add(c11scn{Fam: fam, Seq: []int{1, 2}, Workers: 2, Bound: 3, Switch: 1, NumCPU: 16})
			add(c11scn{Fam: fam, Seq: []int{0, 5, 1}, Workers: 2, Bound: 2, Switch: 1, NumCPU: 16})
			add(c11scn{Fam: fam, Seq: []int{1, 2}, Workers: 2, Bound: 2, Switch: 0, NumCPU: 16})
		}
	}
	// deep interleaving: a preemption is possible at every function entry and loop iteration of the workers, so that state
	// shared through callees (a hoisted scratch buffer, a package-level hasher) gives wrong RESULTS under some explored schedule
	for _, fam := range []string{"tbe", "wcompare", "fbp", "compare"} {
		add(c11scn{Fam: fam, Seq: []int{1, 6}, Workers: 2, Bound: 1, Switch: 1, NumCPU: 16, Deep: true})
		add(c11scn{Fam: fam, Seq: []int{1, 2}, Workers: 2, Bound: 1, Switch: 1, NumCPU: 16, Deep: true})
		add(c11scn{Fam: fam, Seq: []int{1, 6}, Workers: 2, Bound: 1, Switch: 1, NumCPU: 16, Deep: true, Taxa7: true})
		if quick && (fam == "compare" || fam == "fbp") {
			// three trees: two workers re-index different trees at the same time
			add(c11scn{Fam: fam, Seq: []int{6, 2, 1}, Workers: 2, Bound: 1, Switch: 1, NumCPU: 16, Deep: true, Taxa7: true})
		}
		if !quick {
			add(c11scn{Fam: fam, Seq: []int{6, 2, 1}, Workers: 2, Bound: 1, Switch: 1, NumCPU: 16, Deep: true, Taxa7: true})
			add(c11scn{Fam: fam, Seq: []int{0, 5, 1}, Workers: 2, Bound: 1, Switch: 1, NumCPU: 16, Deep: true})
			add(c11scn{Fam: fam, Seq: []int{1, 6, 2}, Workers: 3, Bound: 1, Switch: 1, NumCPU: 16, Deep: true})
			add(c11scn{Fam: fam, Seq: []int{1, 6}, Workers: 2, Bound: 2, Switch: 1, NumCPU: 16, Deep: true})
		}
	}
	// TBE with moved-taxa statistics: shared accumulators
	for _, w := range []int{2, 3} {
		add(c11scn{Fam: "tbetaxa", Seq: []int{1, 6}, Workers: w, Bound: 1, Switch: 1, NumCPU: 16, Taxa7: true})
		add(c11scn{Fam: "tbetaxa", Seq: []int{6, 2, 1}, Workers: w, Bound: 1, Switch: 1, NumCPU: 16, Taxa7: true})
	}
	add(c11scn{Fam: "tbetaxa", Seq: []int{1, 6}, Workers: 2, Bound: 1, Switch: 1, NumCPU: 16, Taxa7: true, Deep: true})
	add(c11scn{Fam: "tbetaxa", Seq: []int{0, 5, 1}, Workers: 2, Bound: 1, Switch: 1, NumCPU: 16, Taxa7: true})
	add(c11scn{Fam: "tbetaxa", Seq: []int{1, 6, 2}, Workers: 2, Bound: 1, Switch: 1, NumCPU: 16, Taxa12: true})
	add(c11scn{Fam: "tbetaxa", Seq: []int{1, 1, 6}, Workers: 3, Bound: 1, Switch: 1, NumCPU: 16, Taxa12: true})
	// the commands themselves (in-process CLI): an erroneous tree at each position of the compared / bootstrap file
	for _, fam := range []string{"cli-compare", "cli-wcompare", "cli-binary", "cli-fbp", "cli-tbe"} {
		for _, w := range []int{1, 2} {
			for _, sq := range [][]int{{1, 2}, {5, 0}, {0, 5}, {0, 5, 1}, {3, 0}, {0, 3}, {4}} {
				b := 0
				if w == 2 && len(sq) == 2 && !quick {
					b = 1
				}
				add(c11scn{Fam: fam, Seq: sq, Workers: w, Bound: b, Switch: 1, NumCPU: 16})
			}
		}
	}
	// hashmap: 2-3 threads x 1-2 operations on keys forced to collide in a capacity-1 map
	opsMenu := []int{0, 1, 2, 3, 4}
	var hm func(workers, per int, bound int)
	hm = func(workers, per, bound int) {
		total := workers * per
		seq := make([]int, total)
		var rec func(i int)
		rec = func(i int) {
			if i == total {
				// at least one put, and skip thread-symmetric duplicates (per-thread lists non-decreasing lexicographically)
				hasPut := false
				for _, c := range seq {
					if c == 0 || c == 1 || c == 4 {
						hasPut = true
					}
				}
				if !hasPut {
					return
				}
				for t := 0; t+1 < workers; t++ {
					a, b := seq[t*per:(t+1)*per], seq[(t+1)*per:(t+2)*per]
					if fmt.Sprint(a) > fmt.Sprint(b) {
						return
					}
				}
				add(c11scn{Fam: "hashmap", Workers: workers, Ops: append([]int(nil), seq...), Bound: bound, Switch: 1})
				return
			}
			for _, c := range opsMenu {
				seq[i] = c
				rec(i + 1)
			}
		}
		rec(0)
	}
	hm(2, 1, 2)
	hm(2, 2, 2)
	if !quick {
		hm(3, 1, 2)
		hm(2, 2, 3)
	}
	return out
}

func c11verdictKey(r *mcrt.Result) string {
	switch r.Verdict {
	case mcrt.VDeadlock, mcrt.VLeak:
		// blocked operations without thread ids: stable signature
		var ops []string
		for _, f := range strings.Fields(r.Detail) {
			if i := strings.Index(f, "@"); i >= 0 {
				op := f[i+1:]
				if j := strings.Index(op, "("); j >= 0 {
					op = op[:j]
				}
				ops = append(ops, op)
			}
		}
		sort.Strings(ops)
		return r.Verdict.String() + "/" + strings.Join(ops, "+")
	case mcrt.VPanic:
		return "panic/" + crashSite(*r)
	}
	return r.Verdict.String()
}

func c11badKind(s c11scn) string {
	k := map[int]string{3: "taxon-mismatch", 4: "duplicate-tip", 5: "error-record"}
	seen := map[string]bool{}
	var out []string
	for _, i := range s.Seq {
		if n, ok := k[i]; ok && !seen[n] {
			seen[n] = true
			out = append(out, n)
		}
	}
	sort.Strings(out)
	if len(out) == 0 {
		return "valid-input"
	}
	return strings.Join(out, "+")
}

// c11explore explores one scenario; returns number of executions.
func c11explore(c *Ctx, s c11scn) {
	cfg := mcrt.Config{NumCPU: s.NumCPU, SwitchCost: s.Switch, Fuel: 5_000_000, YieldTicks: s.Deep, YieldPkg: s.Deep}
	if s.Fam == "hashmap" {
		cfg.YieldPkg = true
		var hist []c11op
		var final string
		body := c11hashBody(s, &hist, &final)
		outcomes := map[string]bool{}
		st := mcrt.Explore(mcrt.ExploreOpts{Base: cfg, Bound: s.Bound, Deadline: c.Deadline}, body, func(r *mcrt.Result, choices []int) bool {
			c.Execs++
			c.Transitions += int64(len(r.Points))
			if r.Verdict != mcrt.VDone {
				if r.Verdict == mcrt.VDiverged {
					c.EngineError("replay diverged: " + r.Detail)
					return false
				}
				v := s
				v.Choices = choices
				c.Violate("C11/hashmap/"+c11verdictKey(r), fmt.Sprintf("%v: %s", s.Ops, verdictStr(*r)), v)
				return true
			}
			outcomes[final] = true
			c.Outcome("hm:" + final)
			if !c11linearizable(hist, final) {
				v := s
				v.Choices = choices
				c.Violate("C11/hashmap/not-linearizable", fmt.Sprintf("threads=%d ops=%v history=%+v final=%s has no linearization w.r.t. a plain map", s.Workers, s.Ops, hist, final), v)
			}
			return true
		})
		if !st.Exhaustive {
			c.Exhaustive = false
		}
		c.Max("hashmap_outcomes_per_scenario", int64(len(outcomes)))
		c.Max("depth", int64(st.MaxDepth))
		return
	}
	var obs string
	var gotErr bool
	// reference: one worker, default schedule
	refS := s
	refS.Workers = 1
	refS.Producer = false
	var refObs string
	var refErr bool
	rr := mcrt.Run(mcrt.Config{NumCPU: s.NumCPU, NoSched: true, Fuel: 5_000_000}, c11body(refS, &refObs, &refErr))
	c.Execs++
	bad := c11badKind(s)
	if strings.HasPrefix(s.Fam, "cli-") && rr.Verdict == mcrt.VExit && rr.ExitCode != 0 {
		rr.Verdict, refObs, refErr = mcrt.VDone, "error", true
	}
	if rr.Verdict != mcrt.VDone {
		c.Violate(fmt.Sprintf("C11/%s/single-thread/%s/%s", s.Fam, c11verdictKey(&rr), bad),
			fmt.Sprintf("%s: the single-threaded run itself does not terminate normally: %s", s.label(), verdictStr(rr)), refS)
	} else if s.hasBad() && !refErr {
		c.Violate(fmt.Sprintf("C11/%s/error-not-reported/%s", s.Fam, bad),
			fmt.Sprintf("%s: input contains an erroneous tree but the caller receives no error (single-threaded run: %s)", s.label(), refObs), refS)
	}
	body := c11body(s, &obs, &gotErr)
	distinct := map[string]bool{}
	st := mcrt.Explore(mcrt.ExploreOpts{Base: cfg, Bound: s.Bound, Deadline: c.Deadline}, body, func(r *mcrt.Result, choices []int) bool {
		c.Execs++
		c.Transitions += int64(len(r.Points))
		c.Max("threads", int64(r.Threads))
		if r.Verdict == mcrt.VDiverged {
			c.EngineError("replay diverged: " + r.Detail + " in " + s.label())
			return false
		}
		v := s
		v.Choices = choices
		if strings.HasPrefix(s.Fam, "cli-") && r.Verdict == mcrt.VExit && r.ExitCode != 0 {
			// the command ended the process with an error message and a non-zero status: the error reached the caller
			obs, gotErr = "error", true
		} else if r.Verdict == mcrt.VLeak {
			// the caller has returned; a producer or worker left blocked behind it is a goroutine leak,
			// which the property does not speak about: judge the results like those of a completed run
			c.Count("executions_with_leaked_goroutines", 1)
		} else if r.Verdict != mcrt.VDone {
			distinct[r.Verdict.String()] = true
			c.Outcome(s.Fam + ":" + r.Verdict.String())
			c.Violate(fmt.Sprintf("C11/%s/%s/%s", s.Fam, c11verdictKey(r), bad),
				fmt.Sprintf("%s: %s (deviation cost %d)", s.label(), verdictStr(*r), mcrt.DeviationCost(r.Points)), v)
			return true
		}
		distinct[obs] = true
		c.Outcome(s.Fam + ":" + obs)
		if !s.hasBad() && !gotErr && obs != "" && obs != "error" {
			c.Count("valid_results:"+s.Fam, 1)
		}
		if rr.Verdict == mcrt.VDone && obs != refObs {
			c.Violate(fmt.Sprintf("C11/%s/schedule-dependent-result/%s", s.Fam, bad),
				fmt.Sprintf("%s: under schedule %v (cost %d) the results are %q, single-threaded run gives %q", s.label(), choices, mcrt.DeviationCost(r.Points), obs, refObs), v)
		}
		if s.hasBad() && !gotErr && refErr {
			c.Violate(fmt.Sprintf("C11/%s/error-lost-under-schedule/%s", s.Fam, bad),
				fmt.Sprintf("%s: under schedule %v no error reaches the caller", s.label(), choices), v)
		}
		return true
	})
	if !st.Exhaustive {
		c.Exhaustive = false
	}
	c.Max("depth", int64(st.MaxDepth))
	c.Max("ticks", st.MaxTicks)
	c.Max("outcomes_per_scenario", int64(len(distinct)))
	if s.Workers >= 2 && st.Execs >= 2 {
		c.Nontrivial(s.label() + fmt.Sprint(s.Bound, s.Switch))
	}
}

// ---- free-running race pass (decides only the words "without data races") ----

var raceFnRe = regexp.MustCompile(`(?m)^\s+(github\.com/evolbioinfo/gotree/[^\s(]+(?:\([^)]*\))?[^\s(]*)\(`)

func c11racePass(c *Ctx) {
	racebin := os.Getenv("VERIF_RACE_BIN")
	if racebin == "" {
		c.Note("race_pass", "skipped: no race build available (VERIF_RACE_BIN unset)")
		return
	}
	cmd := exec.Command(racebin, "-c11race")
	cmd.Env = append(os.Environ(), "GORACE=halt_on_error=0 exitcode=0 history_size=2", "GOMAXPROCS=16")
	out, err := cmd.CombinedOutput()
	c.Count("race_pass_runs", 1)
	if err != nil {
		c.EngineError(fmt.Sprintf("race pass failed to run: %v\n%s", err, tail(string(out), 1500)))
		return
	}
	reports := strings.Split(string(out), "WARNING: DATA RACE")
	m := regexp.MustCompile(`RACEPASS executions=(\d+)`).FindStringSubmatch(string(out))
	if m == nil {
		c.EngineError("race pass did not finish: " + tail(string(out), 1500))
		return
	}
	var n int64
	fmt.Sscan(m[1], &n)
	c.Count("race_pass_executions", n)
	if mm := regexp.MustCompile(`RACEPASS executions=\d+ stalls=(\d+)`).FindStringSubmatch(string(out)); mm != nil && mm[1] != "0" {
		c.Note("race_pass_stalls", mm[1]+" scenario runs did not finish within 90 s of wall clock on the free-running race build and were abandoned (no verdict is derived from this)")
	}
	for _, rep := range reports[1:] {
		// first gotree frame of each of the two accesses
		var fns []string
		for _, blk := range strings.Split(rep, "\n\n") {
			if strings.Contains(blk, "Goroutine ") && strings.Contains(blk, "created at") {
				continue
			}
			if mm := raceFnRe.FindStringSubmatch(blk); mm != nil {
				fn := strings.TrimPrefix(mm[1], "github.com/evolbioinfo/gotree/")
				fns = append(fns, fn)
			}
			if len(fns) == 2 {
				break
			}
		}
		sort.Strings(fns)
		key := "C11/race/" + strings.Join(fns, "+")
		lines := strings.Split(strings.TrimSpace(rep), "\n")
		if len(lines) > 14 {
			lines = lines[:14]
		}
		c.Violate(key, "data race reported by the Go race detector on a free run: "+strings.Join(lines, " / "), map[string]string{"race_report": strings.Join(lines, "\n")})
	}
}

// c11raceMain runs the scenario bodies free (pass-through mode, real goroutines) - only in the -race build.
func c11raceMain() {
	n := 0
	stalls := 0
	deadline := time.Now().Add(60 * time.Second)
	for rep := 0; rep < 30 && time.Now().Before(deadline); rep++ {
		for _, s := range c11scenarios(true) {
			if s.Fam == "hashmap" || s.hasBad() && (s.Fam == "fbp") {
				continue // erroneous inputs make today's FBP hang; the race pass only uses terminating inputs
			}
			if s.Bound != 1 || s.Switch != 1 {
				continue
			}
			for _, w := range []int{s.Workers, 4, 16} {
				if stalls >= 2 || !time.Now().Before(deadline) {
					break // a code change that makes free runs hang would otherwise cost 90 s per scenario; termination is the scheduler's business
				}
				t := s
				t.Workers = w
				var obs string
				var ge bool
				done := make(chan bool, 1)
				go func() { c11body(t, &obs, &ge)(); done <- true }()
				select {
				case <-done:
					n++
				case <-time.After(90 * time.Second):
					// not an oracle: termination is decided by the scheduler's deadlock verdict, never by wall clock.
					// The stalled goroutines are abandoned and the pass goes on.
					fmt.Println("\nRACEPASS stalled:", t.label())
					stalls++
				}
			}
		}
	}
	n += c11raceOther()
	fmt.Printf("\nRACEPASS executions=%d stalls=%d\n", n, stalls)
}

// c11raceOther: the computations that are sequential today (parsimony reconstructions, consensus, distance matrix) run
// free under the race detector too, so that a change that makes them concurrent is looked at as well.
func c11raceOther() int {
	n := 0
	for rep := 0; rep < 6; rep++ {
		realrand.Seed(int64(rep + 1))
		t, err := tree.RandomYuleBinaryTree(48, rep%2 == 0)
		if err != nil {
			continue
		}
		a := align.NewAlign(align.NUCLEOTIDS)
		states := map[string]string{}
		for _, tip := range t.Tips() {
			seq := make([]byte, 12)
			for i := range seq {
				seq[i] = "ACGTRN"[realrand.Intn(6)]
			}
			a.AddSequence(tip.Name(), string(seq), "")
			states[tip.Name()] = string("xyz"[realrand.Intn(3)])
		}
		for _, algo := range []int{acr.ALGO_ACCTRAN, acr.ALGO_DELTRAN, acr.ALGO_DOWNPASS} {
			t2 := t.Clone()
			asr.ParsimonyAsr(t2, a, algo, false)
			t3 := t.Clone()
			acr.ParsimonyAcr(t3, states, algo, false)
			n += 2
		}
		t.ReinitIndexes()
		t.ToDistanceMatrix(tree.DISTANCE_METRIC_BRLEN)
		tree.Consensus(feed([]*tree.Tree{t.Clone(), t.Clone()}), 0.5)
		n += 2
	}
	return n
}

func init() {
	register(&Prop{
		ID: "C11",
		Rule: "closed scenarios (driver feeds 1-3 trees from a pool incl. erroneous / taxon-mismatched / duplicate-tip trees at every position into Compare, CompareWeighted, FBP, TBE, ReadMultiTrees->Compare with 1-3 workers; the commands `compare trees [--weighted|--binary]`, `compute support fbp|tbe` run in-process with -t 1..2 on files with a malformed / taxon-mismatched tree at each position; hashmap with 2-3 threads x 1-2 ops on colliding keys) x every goroutine schedule within the deviation bound " +
			"(scheduling points: every channel, mutex, RWMutex, WaitGroup, atomic operation, goroutine start, and a yield before each statement of a worker body that touches a variable written by a goroutine; statement-level yields inside hashmap); " +
			"oracle per execution: terminates normally, per-tree records identical to the single-threaded run, error reaches the caller, hashmap history linearizable w.r.t. a plain map; non-trivial = scenario with >= 2 workers and >= 2 executions",
		Require:     []string{"valid_results:compare", "valid_results:wcompare", "valid_results:fbp", "valid_results:tbe", "valid_results:pipeline", "valid_results:tbetaxa", "valid_results:cli-compare", "valid_results:cli-wcompare", "valid_results:cli-binary", "valid_results:cli-fbp", "valid_results:cli-tbe", "litmus_programs", "race_pass_executions"},
		Assumptions: []string{"channel/mutex/WaitGroup model of mcrt (validated by the litmus suite)", "plain memory accesses are sequentially consistent between scheduling points; unsynchronised accesses are the business of the separate free-running -race pass", "no partial-order reduction"},
		Run: func(c *Ctx) {
			defer cliCleanup()
			if c.Shard == 0 {
				c11litmus(c)
			}
			scns := c11scenarios(c.Quick())
			// longest first is not known; keep the order, shard round robin
			for _, s := range scns {
				if c.TimeUp() {
					return
				}
				if !c.Mine() {
					continue
				}
				c.States++
				c.Sample(s)
				c11explore(c, s)
			}
			if c.Shard == c.NShards-1 {
				c11racePass(c)
			}
		},
		Replay: func(c *Ctx, raw json.RawMessage) {
			defer cliCleanup()
			var s c11scn
			if err := json.Unmarshal(raw, &s); err != nil || s.Fam == "" {
				fmt.Println("not a schedule replay:", string(raw))
				return
			}
			cfg := mcrt.Config{NumCPU: s.NumCPU, SwitchCost: s.Switch, Fuel: 5_000_000, Prefix: s.Choices, TraceOps: true, YieldTicks: s.Deep, YieldPkg: s.Deep}
			if s.Fam == "hashmap" {
				cfg.YieldPkg = true
				var hist []c11op
				var final string
				r := mcrt.Run(cfg, c11hashBody(s, &hist, &final))
				fmt.Printf("verdict=%s final=%s history=%+v\nops: %s\n", verdictStr(r), final, hist, strings.Join(r.Ops, " "))
				if r.Verdict != mcrt.VDone {
					c.Violate("C11/hashmap/"+c11verdictKey(&r), verdictStr(r), s)
				} else if !c11linearizable(hist, final) {
					c.Violate("C11/hashmap/not-linearizable", "not linearizable", s)
				}
				return
			}
			var obs string
			var ge bool
			if len(s.Choices) == 0 {
				cfg.NoSched = true
			}
			r := mcrt.Run(cfg, c11body(s, &obs, &ge))
			fmt.Printf("scenario: %s\nverdict: %s\nobservation: %s\nerror received: %v\noperations: %s\n", s.label(), verdictStr(r), obs, ge, strings.Join(r.Ops, " "))
			if r.Verdict != mcrt.VDone {
				c.Violate(fmt.Sprintf("C11/%s/%s/%s", s.Fam, c11verdictKey(&r), c11badKind(s)), verdictStr(r), s)
			}
		},
	})
}

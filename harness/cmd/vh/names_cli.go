package main

import (
	"encoding/json"
	"fmt"
	"regexp"
	"strings"

	"github.com/evolbioinfo/gotree/mcrt"
)

// Taxon names are opaque to the commands too: every command line of the driver table is run a second time with each
// taxon X of its input files and arguments renamed to "X%s" (a label that is legal in every format and means something
// only to a formatter); with the suffix removed again, everything the command writes must be what it wrote before.

var namesCliProp = map[string]string{
	"gotree reformat newick": "C13", "gotree reformat nexus": "C13", "gotree reformat phyloxml": "C13",
	"gotree nni":             "C17",
	"gotree collapse length": "C07", "gotree collapse support": "C07", "gotree collapse depth": "C07", "gotree collapse single": "C07", "gotree collapse clade": "C07", "gotree resolve": "C07",
	"gotree reroot outgroup": "C05", "gotree reroot midpoint": "C05", "gotree unroot": "C05", "gotree rotate sort": "C05", "gotree rotate rand": "C05",
	"gotree prune":               "C06",
	"gotree compare trees":       "C08", // (compute consensus: the child order of its output follows the hash codes of the names; judged as split maps by the library-level family)
	"gotree compute support fbp": "C10", "gotree compute support tbe": "C10",
	"gotree acr":    "C12",
	"gotree matrix": "C14", "gotree brlen cut": "C14",
	"gotree graft": "C15", "gotree merge": "C15", "gotree repopulate": "C15", "gotree subtree": "C15",
}

var namesCliRe = regexp.MustCompile(`\b([A-I])\b`)

type namesCliCase struct {
	Marker string `json:"names_cli"` // entry name
}

func namesCliRun(e cliEntry) (string, string) {
	files := map[string]string{}
	for n, content := range e.Files {
		if strings.HasSuffix(n, ".fa") || strings.HasSuffix(n, ".phy") {
			files[n] = content
			continue
		}
		files[n] = namesCliRe.ReplaceAllString(content, "${1}%s")
	}
	args := append([]string{}, e.Args...)
	for i, a := range args {
		if len(a) == 1 && a[0] >= 'A' && a[0] <= 'I' {
			args[i] = a + "%s"
		}
	}
	base, r0 := cliExec(mcrt.Config{MapMode: mcrt.MapSorted}, e.Args, e.Stdin, e.Files, e.Out)
	ren, r1 := cliExec(mcrt.Config{MapMode: mcrt.MapSorted}, args, namesCliRe.ReplaceAllString(e.Stdin, "${1}%s"), files, e.Out)
	o0 := verdictStr(r0) + " " + base.String()
	o1 := strings.ReplaceAll(verdictStr(r1)+" "+ren.String(), "%s", "")
	if o0 != o1 {
		cc, _ := c19resolve(e.Args)
		return namesCliProp[cc.CommandPath()] + "/names-cli/" + cc.CommandPath(), fmt.Sprintf("`gotree %s`: with every taxon X renamed to \"X%%s\" in the input, the output (suffix removed again) differs:\n   plain:   %.400s\n   renamed: %.400s", strings.Join(e.Args, " "), o0, o1)
	}
	return "", ""
}

func namesCli(prop string) func(c *Ctx) {
	return func(c *Ctx) {
		defer cliCleanup()
		for _, e := range cliTable() {
			cc, _ := c19resolve(e.Args)
			if cc == nil || namesCliProp[cc.CommandPath()] != prop || c18hasFlag(e.Args, "-t") {
				continue
			}
			uses := false
			for _, a := range e.Args {
				uses = uses || strings.HasSuffix(a, ".fa") || strings.HasSuffix(a, ".phy")
			}
			if uses || c.TimeUp() {
				continue
			}
			if !c.Mine() {
				continue
			}
			e := e
			c.Check(namesCliCase{Marker: e.Name}, func() (string, string) { return namesCliRun(e) })
			c.States++
			c.Transitions += 2
			c.Count("commands_with_renamed_taxa", 1)
		}
	}
}

func init() {
	seen := map[string]bool{}
	for _, p := range namesCliProp {
		if !seen[p] {
			seen[p] = true
			addExtra(p, namesCli(p))
			extraRequire[p] = append(extraRequire[p], "commands_with_renamed_taxa")
		}
	}
	extraReplays = append(extraReplays, func(c *Ctx, raw json.RawMessage) bool {
		var cs namesCliCase
		if json.Unmarshal(raw, &cs) != nil || cs.Marker == "" {
			return false
		}
		defer cliCleanup()
		for _, e := range cliTable() {
			if e.Name == cs.Marker {
				k, w := namesCliRun(e)
				fmt.Println(k, w)
				if k != "" {
					c.Violate(k, w, cs)
				}
			}
		}
		return true
	})
}

package main

import (
	"encoding/json"
	"fmt"
	"os"
	"runtime"
	"sort"
	"strconv"
	"strings"

	"github.com/evolbioinfo/gotree/io/nexus"
	"github.com/evolbioinfo/gotree/io/phyloxml"
	"github.com/evolbioinfo/gotree/io/utils"
	"github.com/evolbioinfo/gotree/mcrt"
	"github.com/evolbioinfo/gotree/tree"

	"verif/harness/enum"
	rm "verif/harness/refmodel"
)

// C13: format conversions and reader entry points agree.
//
//  (1) conversion chains: a list of model trees is given to gotree as Newick text, then written and
//      re-read through every sequence of <= L (writer, multi-tree reader) steps over
//      {newick, nexus, nexus+translate, tree.Nexus(), phyloxml}; after the last step every tree must be
//      delivered, in order, with consecutive ids, and be the model tree (shape, names, lengths, supports).
//  (2) multi-tree files written by the harness itself (Newick list layouts, Nexus and PhyloXML document
//      variants, Nextstrain JSON): records of ReadMultiTrees = all trees in file order with consecutive ids,
//      or an error record; never a tree silently skipped.
//  (3) on every document of (1) and (2): ReadTreeReader = first record of ReadMultiTrees.
//  (4) the same conversions through the command line (`gotree reformat ...`) for a few lists.

// ---- label / value menus (legal in Newick, Nexus and XML; no Nexus reserved word) -------------

var c13TipNames = []string{"A", "sp_1", "Homo.sapiens", "x-1|y/2", "7", "0", "1e5", "é", `a+b*c%d@e!f?g$h^i~j{k}l\m#n`, "Tree_of_life"}
var c13InnerNames = []string{"n1", "Clade.A", "é_in", "x|y-z", "9a"}
var c13RootNames = []string{"root", "R.0"}
var c13Lengths = []float64{0, 0.5, 1, 0.125, 0.1, 0.0000001, 123456.75, -0.5, 1e21}
var c13Supports = []float64{0.9, 1, 0, 95, 0.123456789}

type c13slot struct {
	n     int // menu size incl. default 0
	apply func(alt int)
}

// c13base applies one of the two base decorations to a fresh shape:
// 0 = bare (names only), 1 = full (a length on every branch, a support on every inner branch).
func c13base(t *rm.Tree, base int, lenOff, supOff float64, sup bool) {
	if base == 0 {
		return
	}
	i := 0
	t.Walk(func(n, p *rm.Node) {
		if p == nil {
			return
		}
		i++
		n.HasLen, n.Len = true, lenOff+float64(i)/8
		if !n.IsTip() && sup {
			n.HasSup, n.Sup = true, supOff+float64(i)/16
		}
	})
}

// c13slots lists the decoration slots of a (cloned, base-decorated) model tree.
func c13slots(t *rm.Tree, base int) []c13slot {
	var slots []c13slot
	t.Walk(func(n, p *rm.Node) {
		root := p == nil
		switch {
		case n.IsTip():
			slots = append(slots, c13slot{1 + len(c13TipNames), func(a int) { n.Name = c13TipNames[a-1] }})
		case root:
			slots = append(slots, c13slot{1 + len(c13RootNames), func(a int) { n.Name = c13RootNames[a-1] }})
		default:
			nn, ns := len(c13InnerNames), len(c13Supports)
			slots = append(slots, c13slot{1 + nn + ns + base, func(a int) {
				a--
				switch {
				case a < nn: // a name replaces the support (Newick has one label per inner node)
					n.Name, n.HasSup, n.Sup = c13InnerNames[a], false, 0
				case a < nn+ns:
					n.HasSup, n.Sup = true, c13Supports[a-nn]
				default: // base full only: no support on this branch
					n.HasSup, n.Sup = false, 0
				}
			}})
		}
		if !root {
			nl := len(c13Lengths)
			slots = append(slots, c13slot{1 + nl + base, func(a int) {
				a--
				if a < nl {
					n.HasLen, n.Len = true, c13Lengths[a]
				} else { // base full only: no length on this branch
					n.HasLen, n.Len = false, 0
				}
			}})
		}
	})
	return slots
}

// c13unique: tip names pairwise different and different from every inner name.
func c13unique(t *rm.Tree) bool {
	seen := map[string]bool{}
	ok := true
	t.Walk(func(n, _ *rm.Node) {
		if n.IsTip() {
			if seen[n.Name] {
				ok = false
			}
			seen[n.Name] = true
		}
	})
	return ok
}

// c13dupInner: two inner nodes carry the same (non-empty) name.
func c13dupInner(list []*rm.Tree) bool {
	for _, t := range list {
		seen := map[string]bool{}
		dup := false
		t.Walk(func(n, _ *rm.Node) {
			if !n.IsTip() && n.Name != "" {
				if seen[n.Name] {
					dup = true
				}
				seen[n.Name] = true
			}
		})
		if dup {
			return true
		}
	}
	return false
}

// c13companion builds the i-th further tree of a list on the taxa of m: another shape, the
// tip names of m rotated, lengths in a range no tree of the enumeration uses (so that the trees of a
// list are pairwise different and a swapped / skipped / repeated tree is visible).
func c13companion(m *rm.Tree, shapes []*rm.Tree, si, i int) *rm.Tree {
	names := []string{}
	for _, tp := range m.Tips() {
		names = append(names, tp.Name)
	}
	t := shapes[(si+i)%len(shapes)].Clone()
	c13base(t, 1, float64(2*i), 0.25, i == 1)
	for k, tp := range t.Tips() {
		tp.Name = names[(k+i)%len(names)]
	}
	return t
}

// ---- comparison: shape, names, lengths, supports ----------------------------------------------

func c13f(has bool, v float64) string {
	if !has {
		return "-"
	}
	return strconv.FormatFloat(v, 'g', -1, 64) + fmt.Sprintf("#%x", v)
}

func c13ordered(x, y *rm.Node, path string, root bool) (string, string) {
	if x.Name != y.Name {
		return "names", fmt.Sprintf("%s: name %q vs %q", path, x.Name, y.Name)
	}
	if !root {
		if x.HasLen != y.HasLen || (x.HasLen && !rm.SameFloat(x.Len, y.Len)) {
			return "lengths", fmt.Sprintf("%s: length %s vs %s", path, c13f(x.HasLen, x.Len), c13f(y.HasLen, y.Len))
		}
		if x.HasSup != y.HasSup || (x.HasSup && !rm.SameFloat(x.Sup, y.Sup)) {
			return "supports", fmt.Sprintf("%s: support %s vs %s", path, c13f(x.HasSup, x.Sup), c13f(y.HasSup, y.Sup))
		}
	}
	if len(x.Children) != len(y.Children) {
		return "shape", fmt.Sprintf("%s: %d children vs %d", path, len(x.Children), len(y.Children))
	}
	for i := range x.Children {
		if c, d := c13ordered(x.Children[i], y.Children[i], fmt.Sprintf("%s.%d", path, i), false); c != "" {
			return c, d
		}
	}
	return "", ""
}

// c13canon: the tree hanging from the same root, children unordered.
func c13canon(n *rm.Node, root bool) string {
	s := strconv.Quote(n.Name)
	if !root {
		s += "|" + c13f(n.HasLen, n.Len) + "|" + c13f(n.HasSup, n.Sup)
	}
	if len(n.Children) == 0 {
		return s
	}
	parts := make([]string, len(n.Children))
	for i, c := range n.Children {
		parts[i] = c13canon(c, false)
	}
	sort.Strings(parts)
	return s + "(" + strings.Join(parts, ",") + ")"
}

// c13unrooted: rooting-independent description of an unrooted tree with distinct tip names:
// bipartition -> (length, support), and every named inner node with the bipartitions of its branches.
func c13unrooted(t *rm.Tree) string {
	names := t.TipNames()
	if len(names) > 60 {
		return "too large " + t.Newick()
	}
	idx := rm.TipIndex(names)
	below := t.Below(idx)
	n := len(names)
	var lines []string
	t.Walk(func(nd, p *rm.Node) {
		if p != nil {
			lines = append(lines, fmt.Sprintf("b %d %s %s", below[nd].Canon(n), c13f(nd.HasLen, nd.Len), c13f(nd.HasSup, nd.Sup)))
		}
		if nd.IsTip() {
			lines = append(lines, fmt.Sprintf("t %d %q", below[nd].Canon(n), nd.Name))
		} else if nd.Name != "" {
			var inc []string
			if p != nil {
				inc = append(inc, fmt.Sprint(below[nd].Canon(n)))
			}
			for _, c := range nd.Children {
				inc = append(inc, fmt.Sprint(below[c].Canon(n)))
			}
			sort.Strings(inc)
			lines = append(lines, fmt.Sprintf("n %q %v", nd.Name, inc))
		}
	})
	sort.Strings(lines)
	return strings.Join(lines, "\n")
}

// c13diff returns "" if a and b are the same tree (shape, names, lengths, supports), else the clause and a description.
func c13diff(a, b *rm.Tree) (string, string) {
	cl, d := c13ordered(a.Root, b.Root, "root", true)
	if cl == "" {
		return "", ""
	}
	if c13canon(a.Root, true) == c13canon(b.Root, true) {
		return "", ""
	}
	if len(a.Root.Children) >= 3 && len(b.Root.Children) >= 3 && c13unique(a) && c13unique(b) && c13unrooted(a) == c13unrooted(b) {
		return "", ""
	}
	return cl, d
}

// ---- driving gotree ------------------------------------------------------------------------------

var c13formatName = []string{"newick", "nexus", "phyloxml", "nextstrain"}

var c13writers = []string{"newick", "nexus", "nexus-translate", "phyloxml", "nexus-single"}

func c13writerFormat(w string) int {
	switch w {
	case "newick":
		return utils.FORMAT_NEWICK
	case "phyloxml":
		return utils.FORMAT_PHYLOXML
	}
	return utils.FORMAT_NEXUS
}

// c13write converts the trees with one of gotree's writers (the library calls behind `gotree reformat ...`).
func c13write(w string, ts []*tree.Tree) (string, error) {
	switch w {
	case "newick":
		var sb strings.Builder
		for _, t := range ts {
			sb.WriteString(t.Newick() + "\n")
		}
		return sb.String(), nil
	case "nexus":
		return nexus.WriteNexus(feed(ts), false)
	case "nexus-translate":
		return nexus.WriteNexus(feed(ts), true)
	case "nexus-single":
		return ts[0].Nexus(), nil
	case "phyloxml":
		return phyloxml.WritePhyloXML(feed(ts))
	}
	panic("harness: unknown writer " + w)
}

type c13rec struct {
	Id   int
	Tree *tree.Tree
	Err  error
}

func c13readMulti(doc string, format int) []c13rec {
	var out []c13rec
	ch := utils.ReadMultiTrees(bufReader(doc), format)
	for {
		tr, ok := mcrt.Recv2(ch)
		if !ok {
			return out
		}
		out = append(out, c13rec{tr.Id, tr.Tree, tr.Err})
	}
}

// c13judge decides the delivery clause on the records of the multi-tree reader. strict: an error record
// is a violation too (documents written by gotree itself from in-domain trees must be read back).
// Returns clause ("" = held), description, number of trees delivered, whether an error record ended the delivery.
func c13judge(recs []c13rec, list []*rm.Tree, strict bool) (clause, what string, delivered int, errRec bool) {
	return c13judgeL(recs, list, strict, false)
}

// c13noLen removes the lengths (used where the document says nothing about them).
func c13noLen(t *rm.Tree) *rm.Tree {
	c := t.Clone()
	c.Walk(func(n, _ *rm.Node) { n.HasLen, n.Len = false, 0 })
	return c
}

func c13judgeL(recs []c13rec, list []*rm.Tree, strict, noLen bool) (clause, what string, delivered int, errRec bool) {
	i := 0
	id0 := 0
	for _, r := range recs {
		if r.Err != nil {
			if strict {
				return "error", fmt.Sprintf("record %d is an error: %v", i, r.Err), i, true
			}
			return "", "", i, true
		}
		if r.Tree == nil {
			return "nil-tree", fmt.Sprintf("record %d has neither tree nor error", i), i, false
		}
		if i == 0 {
			id0 = r.Id
		}
		if r.Id != id0+i {
			return "ids", fmt.Sprintf("record %d has id %d after first id %d", i, r.Id, id0), i, false
		}
		if i >= len(list) {
			return "extra-tree", fmt.Sprintf("record %d delivered but the file has %d trees: %s", i, len(list), r.Tree.Newick()), i, false
		}
		o, err := observe(r.Tree)
		if err != nil {
			return "malformed", fmt.Sprintf("record %d: %v", i, err), i, false
		}
		if noLen {
			o = c13noLen(o)
		}
		if cl, d := c13diff(list[i], o); cl != "" {
			for j := i + 1; j < len(list); j++ {
				if c2, _ := c13diff(list[j], o); c2 == "" {
					return "silently-skipped", fmt.Sprintf("record %d (id %d) is tree %d of the file: tree %d was skipped without an error record", i, r.Id, j, i), i, false
				}
			}
			for j := 0; j < i; j++ {
				if c2, _ := c13diff(list[j], o); c2 == "" {
					return "order", fmt.Sprintf("record %d (id %d) is tree %d of the file again", i, r.Id, j), i, false
				}
			}
			return cl, fmt.Sprintf("record %d differs from tree %d of the file %s: %s (delivered %s)", i, i, list[i].Newick(), d, r.Tree.Newick()), i, false
		}
		i++
	}
	if i < len(list) {
		return "silently-skipped", fmt.Sprintf("%d of %d trees delivered, channel closed without an error record (missing: %s)", i, len(list), list[i].Newick()), i, false
	}
	return "", "", i, false
}

// c13agree decides 'ReadTreeReader = first record of ReadMultiTrees' on one document.
func c13agree(doc string, format int, recs []c13rec) (clause, what string, both bool) {
	st, serr := utils.ReadTreeReader(bufReader(doc), format)
	var first *c13rec
	if len(recs) > 0 {
		first = &recs[0]
	}
	switch {
	case serr != nil:
		if first != nil && first.Err == nil && first.Tree != nil {
			return "single-error-multi-tree", fmt.Sprintf("ReadTreeReader: error %q, ReadMultiTrees delivers %s first", serr.Error(), first.Tree.Newick()), false
		}
		return "", "", false
	case st == nil:
		return "single-nil", "ReadTreeReader returned neither tree nor error", false
	case first == nil:
		return "single-tree-multi-nothing", fmt.Sprintf("ReadTreeReader: %s, ReadMultiTrees delivers no record", st.Newick()), false
	case first.Err != nil || first.Tree == nil:
		return "single-tree-multi-error", fmt.Sprintf("ReadTreeReader: %s, first record of ReadMultiTrees is the error %v", st.Newick(), first.Err), false
	}
	a, err := observe(st)
	if err != nil {
		return "malformed", "single tree: " + err.Error(), false
	}
	b, err := observe(first.Tree)
	if err != nil {
		return "malformed", "first record: " + err.Error(), false
	}
	if cl, d := c13diff(a, b); cl != "" {
		return "different-" + cl, fmt.Sprintf("ReadTreeReader: %s, first record of ReadMultiTrees: %s (%s)", st.Newick(), first.Tree.Newick(), d), true
	}
	return "", "", true
}

// ---- case execution ------------------------------------------------------------------------------

type c13case struct {
	Part    string   `json:"part"` // chain | newick-layout | nexus-doc | phyloxml-doc | nextstrain-doc | cli
	Trees   []string `json:"model_trees_newick"`
	Chain   []string `json:"chain,omitempty"`
	Variant string   `json:"variant,omitempty"`
	Doc     string   `json:"document,omitempty"`
}

type c13result struct {
	key, what string
	doc       string // last document read
	delivered int
	errRec    bool
	both      bool // single and multi both delivered a tree (and they were compared)
	prefixBad bool // an intermediate step of a chain failed (decided by the shorter chain)
}

func c13modelTexts(list []*rm.Tree) []string {
	out := make([]string, len(list))
	for i, m := range list {
		out[i] = m.Newick()
	}
	return out
}

func c13quote(s string) string {
	if len(s) > 700 {
		return fmt.Sprintf("%q...(%d bytes)", s[:700], len(s))
	}
	return fmt.Sprintf("%q", s)
}

func c13features(list []*rm.Tree) string {
	if c13dupInner(list) {
		return "/duplicate-inner-names"
	}
	return ""
}

// c13chain runs one conversion chain from the Newick text of the model trees.
func c13chain(list []*rm.Tree, chain []string) c13result {
	var res c13result
	r := guard(func() {
		ts := make([]*tree.Tree, len(list))
		for i, m := range list {
			ts[i] = gtMustParse(m.Newick())
		}
		prev := "newick"
		for step, w := range chain {
			last := step == len(chain)-1
			op := prev + "->" + w
			if c13dupInner(list) {
				op = w // one finding class whatever the reader the trees came from
			}
			before := make([]string, len(ts))
			for i, t := range ts {
				before[i] = t.Newick()
			}
			doc, err := c13write(w, ts)
			if last && err == nil {
				// converting does not consume the trees: the objects handed to a writer are the same trees afterwards
				for i, t := range ts {
					if after := t.Newick(); after != before[i] {
						res.key, res.what = "C13/convert/"+op+"/writer-changed-its-input", fmt.Sprintf("tree %s handed to the %s writer is %s afterwards", before[i], w, after)
						return
					}
				}
			}
			if err != nil {
				// a writer that declares failure creates no obligation - but on in-domain trees gotree's writers have no reason to fail
				if last {
					res.key, res.what = "C13/convert/"+op+"/writer-error"+c13features(list), fmt.Sprintf("writer returned the error %v for %v", err, c13modelTexts(list))
				} else {
					res.prefixBad = true
				}
				return
			}
			format := c13writerFormat(w)
			recs := c13readMulti(doc, format)
			cl, what, n, e := c13judge(recs, list, true)
			if !last {
				if cl != "" {
					res.prefixBad = true
					return
				}
				ts = ts[:0]
				for _, rc := range recs {
					ts = append(ts, rc.Tree)
				}
				prev = c13formatName[format]
				continue
			}
			res.doc, res.delivered, res.errRec = doc, n, e
			if cl != "" {
				res.key = "C13/convert/" + op + "/" + cl + c13features(list)
				res.what = fmt.Sprintf("chain newick->%s on %v: after the last step %s; document read: %s", strings.Join(chain, "->"), c13modelTexts(list), what, c13quote(doc))
				return
			}
			acl, awhat, both := c13agree(doc, format, recs)
			res.both = both
			if acl != "" {
				res.key = "C13/single-vs-multi/" + c13formatName[format] + "/" + acl
				res.what = fmt.Sprintf("document written by %s from %v: %s; document: %s", w, c13modelTexts(list), awhat, c13quote(doc))
			}
		}
	})
	if crashed(r) {
		res.key, res.what = "C13/crash/convert/"+crashSite(r), fmt.Sprintf("chain newick->%s on %v: %s", strings.Join(chain, "->"), c13modelTexts(list), verdictStr(r))
	}
	return res
}

// c13document reads one harness-written document with both readers. layoutClass is the discriminating
// feature of the key for Newick lists ("" for the other formats, whose variant is not a finding class by itself).
func c13document(list []*rm.Tree, format int, doc, class string, noLen bool) c13result {
	var res c13result
	res.doc = doc
	fname := c13formatName[format]
	r := guard(func() {
		recs := c13readMulti(doc, format)
		cl, what, n, e := c13judgeL(recs, list, false, noLen)
		res.delivered, res.errRec = n, e
		if cl != "" {
			res.key = "C13/" + fname + "-multi/" + cl
			if class != "" {
				res.key += "/" + class
			}
			res.what = fmt.Sprintf("%s file with the %d trees %v: %s; file: %s", fname, len(list), c13modelTexts(list), what, c13quote(doc))
			return
		}
		acl, awhat, both := c13agree(doc, format, recs)
		res.both = both
		if acl != "" {
			res.key = "C13/single-vs-multi/" + fname + "/" + acl
			res.what = fmt.Sprintf("%s file with the trees %v: %s; file: %s", fname, c13modelTexts(list), awhat, c13quote(doc))
		}
	})
	if crashed(r) {
		res.key, res.what = "C13/crash/"+fname+"-read/"+crashSite(r), fmt.Sprintf("file %s: %s", c13quote(doc), verdictStr(r))
	}
	return res
}

// ---- documents written by the harness (independent of gotree's writers) ----------------------------

type c13layout struct {
	name, class string
	minK        int
	render      func(trees []string) string // trees: Newick texts ending with ';'
}

// c13spread lays a tree out over several lines. Lines are broken after ',' and before a label following ')' only:
// blanks *behind* a label are kept as part of an inner node's name by gotree's Newick parser, which is the
// business of C01 (labels with blanks are outside this property's quantifier).
func c13spread(s string) string {
	return strings.ReplaceAll(strings.ReplaceAll(s, ",", ",\n "), ")", ")\n")
}

var c13layouts = []c13layout{
	{"one per line", "one-per-line", 1, func(t []string) string { return strings.Join(t, "\n") + "\n" }},
	{"one per line, no final newline", "no-final-newline", 1, func(t []string) string { return strings.Join(t, "\n") }},
	{"one per line, CRLF", "crlf", 1, func(t []string) string { return strings.Join(t, "\r\n") + "\r\n" }},
	{"empty lines before, between and after", "blank-lines", 1, func(t []string) string { return "\n\n" + strings.Join(t, "\n\n") + "\n\n" }},
	{"lines of blanks between and after", "blank-lines", 1, func(t []string) string { return strings.Join(t, "\n  \t\n") + "\n   \n" }},
	{"blanks after ';'", "trailing-blanks", 1, func(t []string) string { return strings.Join(t, " \t \n") + "  \n" }},
	{"blanks before each tree", "leading-blanks", 1, func(t []string) string { return "  " + strings.Join(t, "\n\t ") + "\n" }},
	{"trees over several lines", "multi-line-trees", 1, func(t []string) string {
		var sb strings.Builder
		for _, s := range t {
			sb.WriteString(c13spread(s) + "\n")
		}
		return sb.String()
	}},
	{"trees over several lines, ';' on its own line, no final newline", "multi-line-trees", 1, func(t []string) string {
		var parts []string
		for _, s := range t {
			if body := strings.TrimSuffix(s, ";"); strings.HasSuffix(body, ")") {
				parts = append(parts, c13spread(body)+";") // c13spread ends the line after the last ')'
			} else {
				parts = append(parts, c13spread(s)) // named root: ';' stays behind the name
			}
		}
		return strings.Join(parts, "\n")
	}},
	{"all trees on one line", "two-trees-one-line", 2, func(t []string) string { return strings.Join(t, "") + "\n" }},
	{"all trees on one line, blank separated", "two-trees-one-line", 2, func(t []string) string { return strings.Join(t, " ") + "\n" }},
	{"two trees on the first line, the others one per line", "two-trees-one-line", 3, func(t []string) string {
		return t[0] + t[1] + "\n" + strings.Join(t[2:], "\n") + "\n"
	}},
	{"one per line, two trees on the last line", "two-trees-one-line", 3, func(t []string) string {
		return strings.Join(t[:len(t)-2], "\n") + "\n" + t[len(t)-2] + " " + t[len(t)-1]
	}},
	{"last tree without ';', final newline", "last-tree-without-semicolon", 1, func(t []string) string {
		return strings.TrimSuffix(strings.Join(t, "\n"), ";") + "\n"
	}},
	{"last tree without ';', no final newline", "last-tree-without-semicolon", 1, func(t []string) string {
		return strings.TrimSuffix(strings.Join(t, "\n"), ";")
	}},
}

// c13renameTips returns a clone with the tip names replaced through f.
func c13renameTips(m *rm.Tree, f func(string) string) *rm.Tree {
	c := m.Clone()
	for _, tp := range c.Tips() {
		tp.Name = f(tp.Name)
	}
	return c
}

var c13nexusVariants = []string{"taxa+trees", "trees-only", "translate-1-based-commas", "rooting-comments", "lower-case-crlf", "translate-compact", "same-tree-name"}

// c13nexusDoc writes a Nexus document the standard way (not the way gotree's writer does).
func c13nexusDoc(list []*rm.Tree, variant string) string {
	taxa := list[0].TipNames()
	num := map[string]string{}
	for i, n := range taxa {
		num[n] = strconv.Itoa(i + 1)
	}
	var sb strings.Builder
	nl := "\n"
	kw := func(s string) string { return s }
	if variant == "lower-case-crlf" {
		nl = "\r\n"
		kw = strings.ToLower
	}
	sb.WriteString(kw("#NEXUS") + nl)
	if variant != "trees-only" {
		sb.WriteString(kw("BEGIN TAXA;") + nl + "\t" + kw("DIMENSIONS NTAX=") + strconv.Itoa(len(taxa)) + ";" + nl + "\t" + kw("TAXLABELS"))
		for _, n := range taxa {
			sb.WriteString(nl + "\t\t" + n)
		}
		sb.WriteString(nl + "\t;" + nl + kw("END;") + nl)
	}
	sb.WriteString(kw("BEGIN TREES;") + nl)
	translate := false
	switch variant {
	case "translate-1-based-commas":
		translate = true
		sb.WriteString("\t" + kw("TRANSLATE") + nl)
		for i, n := range taxa {
			sep := ","
			if i == len(taxa)-1 {
				sep = ""
			}
			sb.WriteString("\t\t" + num[n] + " " + n + sep + nl)
		}
		sb.WriteString("\t;" + nl)
	case "translate-compact":
		translate = true
		sb.WriteString(" " + kw("TRANSLATE"))
		for i, n := range taxa {
			sep := ","
			if i == len(taxa)-1 {
				sep = ";"
			}
			sb.WriteString(" " + num[n] + " " + n + sep)
		}
		sb.WriteString(nl)
	}
	for i, m := range list {
		t := m
		if translate {
			t = c13renameTips(m, func(s string) string { return num[s] })
		}
		tname := fmt.Sprintf("tr_%c", 'a'+i)
		if variant == "same-tree-name" {
			tname = "rep" // replicate files: every tree carries the same name
		}
		sb.WriteString("\t" + kw("TREE") + " " + tname + " = ")
		if variant == "rooting-comments" {
			if m.Rooted() {
				sb.WriteString("[&R] ")
			} else {
				sb.WriteString("[&U] ")
			}
		}
		sb.WriteString(t.Newick() + nl)
	}
	sb.WriteString(kw("END;") + nl)
	return sb.String()
}

var c13phyloxmlVariants = []string{"compact", "indented-with-header"}

func c13phyloxmlDoc(list []*rm.Tree, variant string) string {
	pretty := variant != "compact"
	var sb strings.Builder
	ind := func(level int) {
		if pretty {
			sb.WriteString("\n" + strings.Repeat("\t", level))
		}
	}
	if pretty {
		sb.WriteString("<?xml version=\"1.0\" encoding=\"UTF-8\"?>\n<phyloxml xmlns=\"http://www.phyloxml.org\">")
	} else {
		sb.WriteString("<phyloxml>")
	}
	var clade func(n *rm.Node, root bool, level int)
	clade = func(n *rm.Node, root bool, level int) {
		ind(level)
		sb.WriteString("<clade>")
		if n.Name != "" {
			ind(level + 1)
			sb.WriteString("<name>" + n.Name + "</name>")
		}
		if !root && n.HasLen {
			ind(level + 1)
			sb.WriteString("<branch_length>" + rm.FormatFloat(n.Len) + "</branch_length>")
		}
		if !root && n.HasSup {
			ind(level + 1)
			sb.WriteString("<confidence type=\"bootstrap\">" + rm.FormatFloat(n.Sup) + "</confidence>")
		}
		for _, c := range n.Children {
			clade(c, false, level+1)
		}
		ind(level)
		sb.WriteString("</clade>")
	}
	for _, m := range list {
		ind(1)
		fmt.Fprintf(&sb, "<phylogeny rooted=\"%t\">", m.Rooted())
		if pretty {
			ind(2)
			sb.WriteString("<name>a phylogeny</name>")
		}
		clade(m.Root, true, 2)
		ind(1)
		sb.WriteString("</phylogeny>")
	}
	if pretty {
		sb.WriteString("\n")
	}
	sb.WriteString("</phyloxml>")
	if pretty {
		sb.WriteString("\n")
	}
	return sb.String()
}

var c13nextstrainVariants = []string{"divergence", "no-divergence"}

// c13nextstrainDoc renders the shape and names of m as Nextstrain v2 JSON. With "divergence" every branch
// gets the dyadic length i/8 (cumulated into node_attrs.div, exact in float64); without, no div at all
// (no claim about lengths then). Returns the document and the tree it denotes.
func c13nextstrainDoc(m *rm.Tree, variant string) (string, *rm.Tree) {
	exp := m.Clone()
	i := 0
	exp.Walk(func(n, p *rm.Node) {
		n.HasSup, n.Sup = false, 0
		n.HasLen, n.Len = false, 0
		if p != nil && variant == "divergence" {
			i++
			n.HasLen, n.Len = true, float64(i)/8
		}
	})
	var sb strings.Builder
	var node func(n *rm.Node, div float64)
	node = func(n *rm.Node, div float64) {
		div += n.Len
		sb.WriteString("{")
		if n.Name != "" {
			nb, _ := json.Marshal(n.Name)
			sb.WriteString("\"name\":" + string(nb) + ",")
		}
		if variant == "divergence" {
			sb.WriteString("\"node_attrs\":{\"div\":" + rm.FormatFloat(div) + "}")
		} else {
			sb.WriteString("\"node_attrs\":{}")
		}
		if len(n.Children) > 0 {
			sb.WriteString(",\"children\":[")
			for k, c := range n.Children {
				if k > 0 {
					sb.WriteString(",")
				}
				node(c, div)
			}
			sb.WriteString("]")
		}
		sb.WriteString("}")
	}
	sb.WriteString("{\"version\":\"v2\",\"meta\":{\"title\":\"t\"},\"tree\":")
	node(exp.Root, 0)
	sb.WriteString("}\n")
	return sb.String(), exp
}

// ---- command line ----------------------------------------------------------------------------------

// c13cli converts the list with `gotree reformat <out> -f <in>`; the input document in format <in> is written by
// the library writer (decided by the chains); the output is re-read by the multi-tree reader of its format.
func c13cli(list []*rm.Tree, in, out string) c13result {
	var res c13result
	var indoc string
	r := guard(func() {
		ts := make([]*tree.Tree, len(list))
		for i, m := range list {
			ts[i] = gtMustParse(m.Newick())
		}
		d, err := c13write(in, ts)
		if err != nil {
			res.prefixBad = true
			return
		}
		indoc = d
	})
	if crashed(r) || res.prefixBad {
		res.prefixBad = true
		return res
	}
	args := []string{"reformat", strings.TrimSuffix(out, "-translate"), "-f", c13formatName[c13writerFormat(in)], "-i", "@/in.txt"}
	if strings.HasSuffix(out, "-translate") {
		args = append(args, "--translate")
	}
	run, rr := cliExec(mcrt.Config{}, args, "", map[string]string{"in.txt": indoc}, nil)
	op := c13formatName[c13writerFormat(in)] + "->" + out
	if crashed(rr) {
		res.key, res.what = "C13/cli/"+op+"/crash", fmt.Sprintf("`gotree %s` on %s: %s", strings.Join(args, " "), c13quote(indoc), verdictStr(rr))
		return res
	}
	if run.Err != "" {
		res.key, res.what = "C13/cli/"+op+"/error", fmt.Sprintf("`gotree %s` on %s: error %s", strings.Join(args, " "), c13quote(indoc), run.Err)
		return res
	}
	res.doc = run.Stdout
	r = guard(func() {
		recs := c13readMulti(run.Stdout, c13writerFormat(out))
		cl, what, n, e := c13judge(recs, list, true)
		res.delivered, res.errRec = n, e
		if cl != "" {
			res.key = "C13/cli/" + op + "/" + cl
			res.what = fmt.Sprintf("`gotree %s` on %s (trees %v): %s; output: %s", strings.Join(args, " "), c13quote(indoc), c13modelTexts(list), what, c13quote(run.Stdout))
		}
	})
	if crashed(r) {
		res.key, res.what = "C13/crash/cli-output-read/"+crashSite(r), fmt.Sprintf("output of `gotree %s`: %s: %s", strings.Join(args, " "), c13quote(run.Stdout), verdictStr(r))
	}
	return res
}

var c13dry = os.Getenv("VERIF_C13_DRY") != ""

// ---- enumeration -------------------------------------------------------------------------------------

// c13eachChain enumerates all writer sequences of length 1..depth (nexus-single only for single trees).
func c13eachChain(k, depth int, f func(chain []string)) {
	ws := c13writers
	if k > 1 {
		ws = c13writers[:4]
	}
	var rec func(chain []string)
	rec = func(chain []string) {
		if len(chain) > 0 {
			f(chain)
		}
		if len(chain) == depth {
			return
		}
		for _, w := range ws {
			rec(append(append([]string(nil), chain...), w))
		}
	}
	rec(nil)
}

func c13run(c *Ctx, cs c13case, list []*rm.Tree) c13result {
	switch cs.Part {
	case "chain":
		return c13chain(list, cs.Chain)
	case "newick-layout":
		for _, l := range c13layouts {
			if l.name == cs.Variant {
				return c13document(list, utils.FORMAT_NEWICK, l.render(c13modelTexts(list)), l.class, false)
			}
		}
	case "nexus-doc":
		return c13document(list, utils.FORMAT_NEXUS, c13nexusDoc(list, cs.Variant), "", false)
	case "phyloxml-doc":
		return c13document(list, utils.FORMAT_PHYLOXML, c13phyloxmlDoc(list, cs.Variant), "", false)
	case "nextstrain-doc":
		// without divergence values the document says nothing about lengths: only shape and names are compared
		doc, exp := c13nextstrainDoc(list[0], cs.Variant)
		return c13document([]*rm.Tree{exp}, utils.FORMAT_NEXTSTRAIN, doc, "", cs.Variant != "divergence")
	case "cli":
		return c13cli(list, cs.Chain[0], cs.Chain[1])
	}
	return c13result{key: "C13/engine/unknown-case", what: fmt.Sprintf("%+v", cs)}
}

// c13class is the layout class (Newick lists) or the document variant of a harness-written document.
func c13class(cs c13case) string {
	if cs.Part == "newick-layout" {
		for _, l := range c13layouts {
			if l.name == cs.Variant {
				return l.class
			}
		}
	}
	return cs.Variant
}

// c13exec runs one case through c.Check and does the bookkeeping.
func c13exec(c *Ctx, cs c13case, list []*rm.Tree) {
	if c13dry {
		c.Count("dry_"+cs.Part, 1)
		return
	}
	cs.Trees = c13modelTexts(list)
	var res c13result
	c.Check(&cs, func() (string, string) {
		res = c13run(c, cs, list)
		if res.key != "" && cs.Part != "chain" && cs.Part != "cli" {
			cs.Doc = res.doc
		}
		return res.key, res.what
	})
	k := len(list)
	switch cs.Part {
	case "chain":
		c.Transitions += int64(2*len(cs.Chain) + 1)
		if res.prefixBad {
			c.Count("chain_prefix_failed", 1)
			return
		}
		c.Count(fmt.Sprintf("chains_len%d", len(cs.Chain)), 1)
		c.Count("convert_"+strings.ReplaceAll(cs.Chain[len(cs.Chain)-1], "-", "_"), 1)
	case "cli":
		c.Transitions += 3
		if res.prefixBad {
			return
		}
		c.Count("cli_runs", 1)
	default:
		c.Transitions += 2
		c.Count("documents_"+strings.TrimSuffix(strings.TrimSuffix(cs.Part, "-doc"), "-layout"), 1)
	}
	if res.key != "" {
		return
	}
	fname := "newick"
	switch cs.Part {
	case "chain":
		fname = c13formatName[c13writerFormat(cs.Chain[len(cs.Chain)-1])]
	case "cli":
		fname = c13formatName[c13writerFormat(cs.Chain[1])]
	case "nexus-doc":
		fname = "nexus"
	case "phyloxml-doc":
		fname = "phyloxml"
	case "nextstrain-doc":
		fname = "nextstrain"
	}
	if res.errRec {
		c.Count("error_record_ends_delivery_"+fname, 1)
		c.Outcome(fmt.Sprintf("%s/%s/%s delivered=%d then error", cs.Part, fname, cs.Variant, res.delivered))
	} else {
		if res.delivered > 0 {
			c.Count("all_delivered_"+fname, 1)
			c.Nontrivial(fname + "\x00" + res.doc)
			if cs.Part != "chain" && cs.Part != "cli" {
				c.Count("all_delivered_"+fname+":"+c13class(cs), 1) // per layout class / document variant
			}
		}
		if k >= 2 && res.delivered == k {
			c.Count("all_delivered_lists_of_2_or_3", 1)
		}
		c.Outcome(fmt.Sprintf("%s/%s/%s delivered=%d", cs.Part, fname, cs.Variant, res.delivered))
	}
	if res.both {
		c.Count("single_equals_first_of_multi_"+fname, 1)
	}
}

// c13tree runs everything that is enumerated per decorated tree.
func c13tree(c *Ctx, m *rm.Tree, shapes []*rm.Tree, si, ndev int, quick bool) {
	c.States++
	if m.Rooted() {
		c.Count("trees_rooted", 1)
	} else {
		c.Count("trees_unrooted", 1)
	}
	hasLen, hasSup, all := false, false, true
	m.Walk(func(n, p *rm.Node) {
		if p != nil {
			hasLen = hasLen || n.HasLen
			hasSup = hasSup || n.HasSup
			all = all && n.HasLen
		}
	})
	switch {
	case !hasLen:
		c.Count("trees_without_lengths", 1)
	case all:
		c.Count("trees_with_all_lengths", 1)
	default:
		c.Count("trees_with_some_lengths", 1)
	}
	if hasSup {
		c.Count("trees_with_supports", 1)
	} else {
		c.Count("trees_without_supports", 1)
	}
	n := len(m.Tips())
	lists := [][]*rm.Tree{{m}}
	if ndev <= 1 {
		m1, m2 := c13companion(m, shapes, si, 1), c13companion(m, shapes, si, 2)
		lists = append(lists, []*rm.Tree{m, m1}, []*rm.Tree{m, m1, m2}, []*rm.Tree{m2, m, m1})
	}
	if c.States%2500 == 1 {
		c.Sample(map[string]any{"trees": c13modelTexts(lists[len(lists)-1]), "deviations": ndev})
	}
	for li, list := range lists {
		k := len(list)
		// (1) conversion chains
		depth := 1
		switch {
		case li == 0 && ndev <= 1:
			depth = 2
			if n <= 3 || (!quick && n <= 4) {
				depth = 3
			}
		case li == 0 && !quick && n <= 4 && ndev == 2:
			depth = 2
		case li > 0 && li < 3 && (ndev == 0 || (!quick && n <= 4)):
			depth = 2
		}
		c13eachChain(k, depth, func(chain []string) {
			c13exec(c, c13case{Part: "chain", Chain: chain}, list)
		})
		// (4') the command line on single trees with one deviation (every label, length and support of the menus once)
		if ndev == 1 && li == 0 && (n <= 3 || (!quick && n <= 4)) {
			for _, in := range c13writers[:4] {
				for _, out := range c13writers[:4] {
					c13exec(c, c13case{Part: "cli", Chain: []string{in, out}}, list)
					c.Count("cli_runs_on_deviated_trees", 1)
				}
			}
		}
		if ndev > 1 || li == 3 || (ndev > 0 && ((quick && n >= 5) || n >= 6)) {
			continue
		}
		c.Count(fmt.Sprintf("lists_of_%d", k), 1)
		// (2) files written by the harness
		for _, l := range c13layouts {
			if k >= l.minK {
				c13exec(c, c13case{Part: "newick-layout", Variant: l.name}, list)
			}
		}
		for _, v := range c13nexusVariants {
			c13exec(c, c13case{Part: "nexus-doc", Variant: v}, list)
		}
		for _, v := range c13phyloxmlVariants {
			c13exec(c, c13case{Part: "phyloxml-doc", Variant: v}, list)
		}
		if k == 1 {
			for _, v := range c13nextstrainVariants {
				c13exec(c, c13case{Part: "nextstrain-doc", Variant: v}, list)
			}
		}
		// (4) the command line, on undecorated / fully decorated trees only
		if ndev == 0 {
			for _, in := range c13writers[:4] {
				for _, out := range c13writers[:4] {
					c13exec(c, c13case{Part: "cli", Chain: []string{in, out}}, list)
				}
			}
		}
	}
}

func c13decorate(sh *rm.Tree, base int, assign []int) (*rm.Tree, int) {
	m := sh.Clone()
	c13base(m, base, 0, 0.5, true)
	sl := c13slots(m, base)
	ndev := 0
	for i, a := range assign {
		if a != 0 {
			sl[i].apply(a)
			ndev++
		}
	}
	if !c13unique(m) {
		return nil, ndev
	}
	return m, ndev
}

func init() {
	register(&Prop{
		ID: "C13",
		Rule: "model trees: every plane rooted multifurcating shape with n tips (root with 2 children = rooted, >= 3 = unrooted), n <= 5 quick / 6 thorough, x two base decorations (bare; a length on every branch and a support on every inner branch) " +
			"x every decoration with <= d deviations (tip name from a 10-name menu incl. numeric-looking, UTF-8 and punctuation-rich names legal in Newick, Nexus and XML; inner name | support | none per inner node; root name; length incl. 0, negative, tiny, huge, non-dyadic | absent per branch); " +
			"lists of 1-3 pairwise different trees on the same taxa. (1) every chain of <= L steps (gotree writer, gotree multi-tree reader) over newick / WriteNexus / WriteNexus+translate / Tree.Nexus / WritePhyloXML starting from the Newick text: all trees delivered in order with consecutive ids and equal to the model (shape, names, lengths, supports: exact bit patterns; child order and, for unrooted trees, the node the tree hangs from are free); " +
			"(2) files written by the harness: 15 Newick list layouts (one per line, no final newline, CRLF, blank lines, trailing/leading blanks, trees over several lines, several trees on one line, last tree without ';'), 6 Nexus document variants (taxa block or not, translate tables, rooting comments, lower case + CRLF), 2 PhyloXML variants, 2 Nextstrain variants: " +
			"records of ReadMultiTrees = all trees in file order with consecutive ids, or a prefix of them followed by an error record; (3) on every document of (1) and (2) ReadTreeReader returns the tree of the first record (or both report an error); (4) `gotree reformat newick|nexus|nexus --translate|phyloxml -f newick|nexus|phyloxml` in-process on the undeviated lists; " +
			"non-trivial = distinct document from which all trees were delivered",
		Assumptions: []string{"encoding/xml, encoding/json and strconv (standard library) are executed, not modelled",
			"observation of delivered trees through Root/Neigh/Edges/Name/Length/Support (public API)",
			"labels: no blanks, '=', quotes, XML metacharacters, Newick metacharacters, Nexus reserved words; inner names do not parse as numbers; tip names pairwise different (DESIGN 4)"},
		Require: []string{"convert_newick", "convert_nexus", "convert_nexus_translate", "convert_nexus_single", "convert_phyloxml", "chains_len1", "chains_len2", "chains_len3",
			"all_delivered_newick", "all_delivered_nexus", "all_delivered_phyloxml", "all_delivered_nextstrain", "all_delivered_lists_of_2_or_3",
			"single_equals_first_of_multi_newick", "single_equals_first_of_multi_nexus", "single_equals_first_of_multi_phyloxml", "single_equals_first_of_multi_nextstrain",
			"error_record_ends_delivery_newick", "lists_of_1", "lists_of_2", "lists_of_3", "trees_rooted", "trees_unrooted", "trees_without_lengths", "trees_with_all_lengths", "trees_with_some_lengths",
			"trees_with_supports", "trees_without_supports", "documents_newick", "documents_nexus", "documents_phyloxml", "documents_nextstrain", "cli_runs", "cli_runs_on_deviated_trees",
			// every layout class / document variant that is expected to be readable delivered all its trees at least once (an error record is accepted by the statement, but not on all of them)
			"all_delivered_newick:one-per-line", "all_delivered_newick:no-final-newline", "all_delivered_newick:crlf", "all_delivered_newick:blank-lines", "all_delivered_newick:trailing-blanks",
			"all_delivered_newick:leading-blanks", "all_delivered_newick:multi-line-trees",
			"all_delivered_nexus:taxa+trees", "all_delivered_nexus:trees-only", "all_delivered_nexus:translate-1-based-commas", "all_delivered_nexus:rooting-comments", "all_delivered_nexus:lower-case-crlf", "all_delivered_nexus:translate-compact",
			"all_delivered_phyloxml:compact", "all_delivered_phyloxml:indented-with-header", "all_delivered_nextstrain:divergence", "all_delivered_nextstrain:no-divergence"},
		Run: func(c *Ctx) {
			defer cliCleanup()
			// executions under the controlled runtime pass a token between goroutines; on one P the hand-over needs no thread wake-up
			defer runtime.GOMAXPROCS(runtime.GOMAXPROCS(1))
			quick := c.Quick()
			type plan struct{ n, dev int }
			plans := []plan{{2, 3}, {3, 2}, {4, 2}, {5, 1}}
			if !quick {
				plans = []plan{{2, 4}, {3, 3}, {4, 2}, {5, 2}, {6, 1}}
			}
			for _, pl := range plans {
				shapes := enum.Shapes(pl.n, "t")
				for si, sh := range shapes {
					for base := 0; base < 2; base++ {
						probe := sh.Clone()
						c13base(probe, base, 0, 0.5, true)
						slots := c13slots(probe, base)
						menu := make([]int, len(slots))
						for i, s := range slots {
							menu[i] = s.n
						}
						enum.Deviations(menu, pl.dev, func(assign []int) {
							if c.TimeUp() {
								return
							}
							if !c.Mine() {
								return
							}
							m, ndev := c13decorate(sh, base, assign)
							if m == nil {
								return
							}
							c13tree(c, m, shapes, si, ndev, quick)
						})
					}
				}
			}
		},
		Replay: func(c *Ctx, raw json.RawMessage) {
			defer cliCleanup()
			var cs c13case
			if err := json.Unmarshal(raw, &cs); err != nil {
				fmt.Println("bad replay file:", err)
				return
			}
			var list []*rm.Tree
			for _, s := range cs.Trees {
				m, err := rm.ParseNewick(s)
				if err != nil {
					fmt.Println("cannot re-read model tree:", err)
					return
				}
				list = append(list, m)
			}
			res := c13run(c, cs, list)
			fmt.Printf("case: part=%s chain=%v variant=%q trees=%v\ndocument: %s\ndelivered=%d error-record=%v\nresult: %s %s\n", cs.Part, cs.Chain, cs.Variant, cs.Trees, c13quote(res.doc), res.delivered, res.errRec, res.key, res.what)
			if res.key != "" {
				c.Violate(res.key, res.what, cs)
			}
		},
	})
}

package main

import (
	"fmt"
	"runtime/debug"
	"sort"
	"strings"

	"github.com/evolbioinfo/gotree/mcrt"
	"github.com/evolbioinfo/gotree/tree"

	"verif/harness/enum"
	rm "verif/harness/refmodel"
)

// C04 part (a): model-side presentations, public-API walk of a gotree tree,
// the index oracle, the edit alphabet and the sequence runner.

// tip labels whose byte order differs from the "natural" one (B < D < a < c < e < t10 < t2)
var c04labels = []string{"a", "B", "t10", "t2", "c", "D", "e"}

// ---- model side: unrooted view, re-rootings, mirror ------------------------------

type c04graph struct {
	name []string
	adj  [][]int
	blen map[[2]int]float64
}

func c04ek(a, b int) [2]int {
	if a > b {
		a, b = b, a
	}
	return [2]int{a, b}
}

func c04graphOf(t *rm.Tree) *c04graph {
	g := &c04graph{blen: map[[2]int]float64{}}
	var rec func(n *rm.Node, parent int) int
	rec = func(n *rm.Node, parent int) int {
		id := len(g.name)
		g.name = append(g.name, n.Name)
		g.adj = append(g.adj, nil)
		if parent >= 0 {
			g.adj[id] = append(g.adj[id], parent)
			g.blen[c04ek(id, parent)] = n.Len
		}
		for _, c := range n.Children {
			cid := rec(c, id)
			g.adj[id] = append(g.adj[id], cid)
		}
		return id
	}
	rec(t.Root, -1)
	return g
}

func (g *c04graph) sub(v, from int) *rm.Node {
	n := &rm.Node{Name: g.name[v]}
	if from >= 0 {
		n.HasLen, n.Len = true, g.blen[c04ek(v, from)]
	}
	a := g.adj[v]
	start := 0
	for i, w := range a {
		if w == from {
			start = i + 1
		}
	}
	for k := 0; k < len(a); k++ {
		w := a[(start+k)%len(a)]
		if w == from {
			continue
		}
		n.Children = append(n.Children, g.sub(w, v))
	}
	return n
}

func (g *c04graph) rootAt(v int) *rm.Tree { return &rm.Tree{Root: g.sub(v, -1)} }

func (g *c04graph) rootOn(u, v int) *rm.Tree {
	a, b := g.sub(u, v), g.sub(v, u)
	a.Len /= 2
	b.Len = a.Len
	return &rm.Tree{Root: &rm.Node{Children: []*rm.Node{a, b}}}
}

func c04mirror(t *rm.Tree) *rm.Tree {
	c := t.Clone()
	c.Walk(func(n, _ *rm.Node) {
		for i, j := 0, len(n.Children)-1; i < j; i, j = i+1, j-1 {
			n.Children[i], n.Children[j] = n.Children[j], n.Children[i]
		}
	})
	return c
}

// c04setLengths gives every branch a distinct dyadic length (k/4; halves stay exact).
func c04setLengths(t *rm.Tree) {
	i := 0
	t.Walk(func(n, p *rm.Node) {
		if p != nil {
			i++
			n.HasLen, n.Len = true, float64(i)/4
		}
	})
}

// c04presentations: the tree re-rooted at every inner node (unrooted presentations) and on
// every branch (rooted presentations), each also with all child lists reversed. The first
// element is the base presentation itself.
func c04presentations(base *rm.Tree, mirrors bool) []*rm.Tree {
	g := c04graphOf(base)
	var out []*rm.Tree
	seen := map[string]bool{}
	add := func(t *rm.Tree) {
		s := t.Newick()
		if !seen[s] {
			seen[s] = true
			out = append(out, t)
		}
	}
	for v := range g.name {
		if len(g.adj[v]) >= 2 {
			t := g.rootAt(v)
			add(t)
			if mirrors {
				add(c04mirror(t))
			}
		}
	}
	for v := range g.name {
		for _, w := range g.adj[v] {
			if v < w {
				t := g.rootOn(v, w)
				add(t)
				if mirrors {
					add(c04mirror(t))
				}
			}
		}
	}
	return out
}

// c04baseTrees: all labelled unrooted trees on the first n labels, with lengths.
func c04baseTrees(n int) []*rm.Tree {
	ts := enum.Unrooted(c04labels[:n], false)
	for _, t := range ts {
		c04setLengths(t)
	}
	return ts
}

// ---- gotree side: walk through the public API ------------------------------------

type c04rec struct {
	e     *tree.Edge
	child *rm.Node
	right rm.Split // tips on the side of e.Right() when e is cut (model)
	tip   bool     // child side is a single tip
}

type c04state struct {
	m      *rm.Tree
	names  []string // sorted tip names
	idx    map[string]int
	recs   []c04rec
	nodes  []*tree.Node // pre-order
	mnodes []*rm.Node
	parent []*tree.Node
	full   rm.Split
}

// c04inspect walks t from Root() through Neigh()/Edges() and decides whether the tree is
// inside the property's domain (>= 3 uniquely named tips, root with >= 2 neighbours,
// acyclic, every branch joining the two nodes it is listed between).
func c04inspect(t *tree.Tree) (*c04state, string) {
	root := t.Root()
	if root == nil {
		return nil, "nil-root"
	}
	st := &c04state{}
	visited := map[*tree.Node]bool{}
	type pend struct {
		e          *tree.Edge
		child      *rm.Node
		rightChild bool
	}
	var pends []pend
	bad := ""
	var rec func(n, parent *tree.Node) *rm.Node
	rec = func(n, parent *tree.Node) *rm.Node {
		if bad != "" {
			return nil
		}
		if visited[n] {
			bad = "cycle"
			return nil
		}
		visited[n] = true
		m := &rm.Node{Name: n.Name()}
		st.nodes = append(st.nodes, n)
		st.mnodes = append(st.mnodes, m)
		st.parent = append(st.parent, parent)
		neigh, edges := n.Neigh(), n.Edges()
		if len(neigh) != len(edges) {
			bad = "neigh/edges-length"
			return nil
		}
		seenParent := false
		for i, nb := range neigh {
			if nb == parent && !seenParent {
				seenParent = true
				continue
			}
			e := edges[i]
			if e == nil {
				bad = "nil-edge"
				return nil
			}
			var rc bool
			switch {
			case e.Right() == nb && e.Left() == n:
				rc = true
			case e.Right() == n && e.Left() == nb:
				rc = false
			default:
				bad = "edge-ends"
				return nil
			}
			c := rec(nb, n)
			if bad != "" {
				return nil
			}
			if l := e.Length(); l != tree.NIL_LENGTH {
				c.HasLen, c.Len = true, l
			}
			m.Children = append(m.Children, c)
			pends = append(pends, pend{e, c, rc})
		}
		return m
	}
	r := rec(root, nil)
	if bad != "" {
		return nil, "malformed:" + bad
	}
	st.m = &rm.Tree{Root: r}
	if len(r.Children) < 2 {
		return nil, "root-degree<2"
	}
	tips := st.m.Tips()
	if len(tips) < 3 {
		return nil, "fewer-than-3-tips"
	}
	if len(tips) > 60 {
		return nil, "too-many-tips"
	}
	st.names = st.m.TipNames()
	for i, nm := range st.names {
		if nm == "" || (i > 0 && st.names[i-1] == nm) {
			return nil, "tip-names-not-unique"
		}
	}
	st.idx = rm.TipIndex(st.names)
	below := st.m.Below(st.idx)
	st.full = rm.Split(1)<<uint(len(st.names)) - 1
	// records in pre-order of the child node
	order := map[*rm.Node]int{}
	for i, mn := range st.mnodes {
		order[mn] = i
	}
	sort.SliceStable(pends, func(i, j int) bool { return order[pends[i].child] < order[pends[j].child] })
	for _, p := range pends {
		right := below[p.child]
		if !p.rightChild {
			right = st.full &^ right
		}
		st.recs = append(st.recs, c04rec{e: p.e, child: p.child, right: right, tip: p.child.IsTip()})
	}
	return st, ""
}

func c04bits(s rm.Split, n int) string {
	b := make([]byte, n)
	for i := 0; i < n; i++ {
		if s&(1<<uint(i)) != 0 {
			b[i] = '1'
		} else {
			b[i] = '0'
		}
	}
	return string(b)
}

// c04pair decides the equality / hash clauses for one ordered pair of branches whose model
// splits are s1, s2 over n tips. Returns clause ("" = held) and a description.
func c04pair(e1, e2 *tree.Edge, s1, s2 rm.Split, n int) (string, string) {
	same := s1.Canon(n) == s2.Canon(n)
	sb := e1.SameBipartition(e2)
	he := e1.HashEquals(e2)
	if sb != same {
		if same {
			return "same-bipartition/false-negative", fmt.Sprintf("SameBipartition=false for equal splits %s and %s (hash codes %d, %d)", c04bits(s1, n), c04bits(s2, n), e1.HashCode(), e2.HashCode())
		}
		return "same-bipartition/false-positive", fmt.Sprintf("SameBipartition=true for different splits %s and %s", c04bits(s1, n), c04bits(s2, n))
	}
	if he != same {
		if same {
			return "hash-equals/false-negative", fmt.Sprintf("HashEquals=false for equal splits %s and %s", c04bits(s1, n), c04bits(s2, n))
		}
		return "hash-equals/false-positive", fmt.Sprintf("HashEquals=true for different splits %s and %s", c04bits(s1, n), c04bits(s2, n))
	}
	if same && e1.HashCode() != e2.HashCode() {
		f := "same-orientation"
		if s1 != s2 {
			f = "opposite-orientation"
		}
		return "hashcode-differs/" + f, fmt.Sprintf("equal splits %s and %s have hash codes %d and %d", c04bits(s1, n), c04bits(s2, n), e1.HashCode(), e2.HashCode())
	}
	return "", ""
}

// c04verify: every branch's recorded split equals the model's split of that branch in the
// tree as it is. Returns clause + description.
func c04verify(t *tree.Tree, st *c04state) (string, string) {
	n := len(st.names)
	for _, nm := range st.names {
		i, err := t.TipIndex(nm)
		if err != nil {
			return "tipindex/error", fmt.Sprintf("TipIndex(%q) fails (%v) on %s", nm, err, st.m.Newick())
		}
		if i != st.idx[nm] {
			return "tipindex/rank", fmt.Sprintf("TipIndex(%q)=%d, rank in sorted names is %d on %s", nm, i, st.idx[nm], st.m.Newick())
		}
	}
	for k, r := range st.recs {
		bs := r.e.Bitset()
		where := fmt.Sprintf("branch #%d (right side %v) of %s", k, r.right.Names(st.names), st.m.Newick())
		if bs == nil {
			return "bitset/nil", "nil bitset on " + where
		}
		if int(bs.Len()) != n {
			return "bitset/width", fmt.Sprintf("bitset of %d bits for %d tips on %s", bs.Len(), n, where)
		}
		got := make([]byte, n)
		for i := 0; i < n; i++ {
			got[i] = '0'
			if bs.Test(uint(i)) {
				got[i] = '1'
			}
			if r.e.TipPresent(uint(i)) != bs.Test(uint(i)) {
				return "bitset/tip-present", "TipPresent disagrees with Bitset on " + where
			}
		}
		if want := c04bits(r.right, n); string(got) != want {
			return "bitset/content", fmt.Sprintf("bitset %s, tips at the right side are %s on %s", got, want, where)
		}
		nr := r.right.Count()
		if r.e.NumTipsRight() != nr {
			return "ntips-right", fmt.Sprintf("NumTipsRight=%d, model %d on %s", r.e.NumTipsRight(), nr, where)
		}
		if r.e.NumTipsLeft() != n-nr {
			return "ntips-left", fmt.Sprintf("NumTipsLeft=%d, model %d on %s", r.e.NumTipsLeft(), n-nr, where)
		}
		want := nr
		if n-nr < want {
			want = n - nr
		}
		td, err := r.e.TopoDepth()
		if err != nil || td != want {
			return "topodepth", fmt.Sprintf("TopoDepth=%d (%v), model %d on %s", td, err, want, where)
		}
	}
	for _, a := range st.recs {
		for _, b := range st.recs {
			if cl, w := c04pair(a.e, b.e, a.right, b.right, n); cl != "" {
				return cl, w + " in " + st.m.Newick()
			}
		}
	}
	return "", ""
}

// c04differential: the evolved tree and a fresh parse of its own text carry the same indexes.
func c04differential(t *tree.Tree, st *c04state) (string, string, bool) {
	txt := t.Newick()
	f, err := gtParse(txt)
	if err != nil {
		return "", "", false
	}
	if err := f.ReinitIndexes(); err != nil {
		return "", "", false
	}
	fs, skip := c04inspect(f)
	if skip != "" || len(fs.recs) != len(st.recs) || strings.Join(fs.names, ",") != strings.Join(st.names, ",") {
		return "", "", false // a round-trip matter (C01), not ours
	}
	n := len(st.names)
	a := append([]c04rec(nil), st.recs...)
	b := append([]c04rec(nil), fs.recs...)
	sort.SliceStable(a, func(i, j int) bool { return a[i].right < a[j].right })
	sort.SliceStable(b, func(i, j int) bool { return b[i].right < b[j].right })
	for i := range a {
		if a[i].right != b[i].right {
			return "", "", false
		}
	}
	for i := range a {
		x, y := a[i].e, b[i].e
		where := fmt.Sprintf("branch with right side %s of %s", c04bits(a[i].right, n), txt)
		if x.Bitset() == nil || y.Bitset() == nil || !x.Bitset().Equal(y.Bitset()) {
			return "differential/bitset", "evolved tree and fresh parse differ in the bitset of the " + where, true
		}
		if x.NumTipsLeft() != y.NumTipsLeft() || x.NumTipsRight() != y.NumTipsRight() {
			return "differential/ntips", "evolved tree and fresh parse differ in tip counts of the " + where, true
		}
		if x.HashCode() != y.HashCode() {
			return "differential/hashcode", fmt.Sprintf("evolved tree hash code %d, fresh parse %d on the %s", x.HashCode(), y.HashCode(), where), true
		}
		if !x.SameBipartition(y) || !y.SameBipartition(x) || !x.HashEquals(y) {
			return "differential/same-bipartition", "evolved branch and freshly parsed branch are not the same bipartition: " + where, true
		}
	}
	return "", "", true
}

// ---- the edit alphabet -------------------------------------------------------------

type c04op struct {
	desc     string
	kind     string
	implicit bool // the operation leaves the indexes (re)computed or untouched-and-valid itself
	random   bool
	apply    func() (*tree.Tree, error)
}

func c04fresh(used map[string]bool, base string) string {
	nm := base
	for used[nm] {
		nm += "x"
	}
	used[nm] = true
	return nm
}

func c04ops(t *tree.Tree, st *c04state) []c04op {
	var ops []c04op
	add := func(desc string, implicit, random bool, f func() (*tree.Tree, error)) {
		kind := desc
		if i := strings.IndexByte(desc, ':'); i >= 0 {
			kind = desc[:i]
		}
		ops = append(ops, c04op{desc: desc, kind: kind, implicit: implicit, random: random, apply: f})
	}
	same := func(f func() error) func() (*tree.Tree, error) {
		return func() (*tree.Tree, error) { return t, f() }
	}
	n := len(st.names)
	below := st.m.Below(st.idx)
	single, poly := false, false
	for i, nd := range st.nodes {
		if i > 0 && nd.Nneigh() == 2 {
			single = true
		}
		if nd.Nneigh() > 3 {
			poly = true
		}
	}
	// re-rooting
	for i, nd := range st.nodes {
		nd := nd
		if i > 0 && nd.Nneigh() >= 2 {
			add(fmt.Sprintf("reroot:%d", i), true, false, same(func() error { return t.Reroot(nd) }))
		}
	}
	add("rerootfirst", true, false, same(func() error { return t.RerootFirst() }))
	// outgroup rooting (single tips and pairs), with and without removal of the outgroup: the operation re-indexes itself
	if n >= 4 {
		for i, a := range st.names {
			a := a
			add("outgroup:"+a, true, false, same(func() error { return t.RerootOutGroup(false, false, a) }))
			add("outgroup-remove:"+a, true, false, same(func() error { return t.RerootOutGroup(true, false, a) }))
			if i+1 < len(st.names) && n >= 5 {
				b := st.names[i+1]
				add("outgroup-remove:"+a+","+b, true, false, same(func() error { return t.RerootOutGroup(true, false, a, b) }))
			}
		}
	}
	add("resolvenamed", false, false, same(func() error { t.ResolveNamedInternalNodes(); return nil }))
	if t.Rooted() {
		add("unroot", true, false, same(func() error { t.UnRoot(); return nil }))
	}
	// pruning (frozen decision: only on trees without single-child inner nodes)
	if !single {
		for i := 0; i < n; i++ {
			if n-1 >= 3 {
				nm := st.names[i]
				add("removetips:"+nm, true, false, same(func() error { return t.RemoveTips(false, nm) }))
			}
		}
		for i := 0; i < n; i++ {
			for j := i + 1; j < n; j++ {
				if n-2 >= 3 {
					a, b := st.names[i], st.names[j]
					add("removetips:"+a+","+b, true, false, same(func() error { return t.RemoveTips(false, a, b) }))
				}
			}
		}
		if n >= 4 {
			for i := 0; i < n; i++ {
				for j := i + 1; j < n; j++ {
					for k := j + 1; k < n; k++ {
						a, b, c := st.names[i], st.names[j], st.names[k]
						add("keeptips:"+a+","+b+","+c, true, false, same(func() error { return t.RemoveTips(true, a, b, c) }))
					}
				}
			}
		}
	}
	// collapsing
	for k, r := range st.recs {
		if !r.tip {
			e := r.e
			add(fmt.Sprintf("removeedge:%d", k), true, false, same(func() error { t.RemoveEdges(false, false, e); return nil }))
		}
	}
	add("collapselen:0.5", true, false, same(func() error { t.CollapseShortBranches(0.5, false, false); return nil }))
	add("collapselen:1", true, false, same(func() error { t.CollapseShortBranches(1, false, false); return nil }))
	add("collapsedepth:2", true, false, same(func() error { return t.CollapseTopoDepth(2, 2, false, false) }))
	// grafting
	for _, nm := range st.names {
		nm := nm
		for g := 0; g < 2; g++ {
			g := g
			add(fmt.Sprintf("graft:%s:%d", nm, g), false, false, same(func() error {
				used := map[string]bool{}
				for _, x := range st.names {
					used[x] = true
				}
				x, y, z := c04fresh(used, "x"), c04fresh(used, "Y"), c04fresh(used, "z")
				txt := fmt.Sprintf("(%s:0.25,%s:0.5);", x, y)
				if g == 1 {
					txt = fmt.Sprintf("(%s:0.25,%s:0.5,%s:0.75);", x, y, z)
				}
				gt, err := gtParse(txt)
				if err != nil {
					return err
				}
				return t.GraftTreeOnTip(nm, gt)
			}))
		}
	}
	for _, nm := range st.names {
		nm := nm
		add("insert:"+nm, true, false, same(func() error {
			used := map[string]bool{}
			for _, x := range st.names {
				used[x] = true
			}
			return t.InsertIdenticalTips([][]string{{nm, c04fresh(used, "Cnew")}})
		}))
	}
	// reordering / renaming
	add("rotate", true, true, same(func() error { t.RotateInternalNodes(); return nil }))
	add("sortneighbors", true, false, same(func() error { t.SortNeighborsByTips(); return nil }))
	add("shuffle", true, true, same(func() error { t.ShuffleTips(); return nil }))
	add("rename", false, false, same(func() error {
		mp := map[string]string{}
		for i, nm := range st.names {
			mp[nm] = st.names[n-1-i]
		}
		return t.Rename(mp)
	}))
	add("clone", true, false, func() (*tree.Tree, error) { return t.Clone(), nil })
	if poly {
		add("resolve", true, true, same(func() error { t.Resolve(); return nil }))
	}
	if single {
		add("removesingle", true, false, same(func() error { t.RemoveSingleNodes(); return nil }))
	}
	for i, nd := range st.nodes {
		nd := nd
		if i > 0 && below[st.mnodes[i]].Count() >= 3 {
			add(fmt.Sprintf("subtree:%d", i), true, false, func() (*tree.Tree, error) { return t.SubTree(nd), nil })
		}
	}
	if t.Rooted() {
		add("merge", true, false, same(func() error {
			used := map[string]bool{}
			for _, x := range st.names {
				used[x] = true
			}
			t2, err := gtParse(fmt.Sprintf("(%s:0.25,%s:0.5);", c04fresh(used, "p"), c04fresh(used, "Q")))
			if err != nil {
				return err
			}
			if err := t2.ReinitIndexes(); err != nil {
				return err
			}
			return t.Merge(t2)
		}))
	}
	return ops
}

// ---- sequence runner ----------------------------------------------------------------

type c04seqResult struct {
	key, what string
	outcome   string   // ok | op-error | op-crash | out-of-domain:... | no-such-op
	next      []c04opd // operations available in the final state
	texts     []string // text of every state verified
	steps     int      // operations applied successfully
	verified  int      // states verified (explicit)
	implicit  int      // states verified before the explicit ReinitIndexes
	diffs     int      // differential comparisons done
	final     *tree.Tree
	finalSt   *c04state
	crash     string // verdict of an edit that crashed (no C04 obligation; reported in the evidence)
	crashSite string
	start     string
	rng       int
}

type c04opd struct {
	desc   string
	random bool
}

var c04ones = func() []int {
	p := make([]int, 256)
	for i := range p {
		p[i] = 1
	}
	return p
}()

func c04run(fuel int64, rng int, f func()) mcrt.Result {
	cfg := mcrt.Config{NoSched: true, Fuel: fuel, RandMode: mcrt.RandEnumerate}
	if rng == 1 {
		cfg.Prefix = c04ones
	}
	return mcrt.Run(cfg, f)
}

// c04fast runs f in pass-through mode (no controlled runtime: real mutexes, no fuel) for the
// loops that call small non-blocking functions many million times; a panic is a verdict.
func c04fast(f func()) (res mcrt.Result) {
	defer func() {
		if r := recover(); r != nil {
			var frames []string
			for _, l := range strings.Split(string(debug.Stack()), "\n") {
				if strings.HasPrefix(l, "\t") && !strings.Contains(l, "runtime/") {
					fr := strings.TrimSpace(l)
					if j := strings.Index(fr, " +0x"); j >= 0 {
						fr = fr[:j]
					}
					frames = append(frames, fr)
				}
			}
			if len(frames) > 8 {
				frames = frames[:8]
			}
			res = mcrt.Result{Verdict: mcrt.VPanic, Detail: fmt.Sprint(r) + " " + strings.Join(frames, " < ")}
		}
	}()
	f()
	return mcrt.Result{Verdict: mcrt.VDone}
}

// c04runSeq parses start, computes the indexes, verifies, then applies the operations one
// by one; after each successful one: verification of what the operation itself left (where
// it claims to), ReinitIndexes, verification, differential against a fresh parse.
func c04runSeq(start string, ops []string, rng int, wantNext bool) c04seqResult {
	var res c04seqResult
	phase, kind := "parse", "parse"
	fail := func(clause, what string, implicit bool) {
		res.key = "C04/" + kind + "/" + clause
		if implicit {
			res.key += "/left-by-operation"
		}
		res.what = what
		if len(ops) > 0 {
			res.what += fmt.Sprintf(" [start %s, operations %v]", start, ops)
		}
	}
	r := c04run(50_000_000, rng, func() {
		t, err := gtParse(start)
		if err != nil {
			res.outcome = "out-of-domain:parse-error"
			return
		}
		phase = "reinit"
		if err := t.ReinitIndexes(); err != nil {
			fail("reinit-error", fmt.Sprintf("ReinitIndexes refuses %s: %v", start, err), false)
			return
		}
		phase = "verify"
		st, skip := c04inspect(t)
		if skip != "" {
			res.outcome = "out-of-domain:" + skip
			return
		}
		if cl, w := c04verify(t, st); cl != "" {
			fail(cl, w, false)
			return
		}
		res.verified++
		res.texts = append(res.texts, st.m.Newick())
		for _, d := range ops {
			var op *c04op
			list := c04ops(t, st)
			for i := range list {
				if list[i].desc == d {
					op = &list[i]
				}
			}
			if op == nil {
				res.outcome = "no-such-op"
				return
			}
			kind = op.kind
			phase = "op"
			nt, err := op.apply()
			if err != nil {
				res.outcome = "op-error"
				return
			}
			t = nt
			res.steps++
			phase = "verify-implicit"
			st, skip = c04inspect(t)
			if skip != "" {
				res.outcome = "out-of-domain:" + skip
				return
			}
			if op.implicit {
				if cl, w := c04verify(t, st); cl != "" {
					fail(cl, w, true)
					return
				}
				res.implicit++
			}
			phase = "reinit"
			if err := t.ReinitIndexes(); err != nil {
				fail("reinit-error", fmt.Sprintf("ReinitIndexes refuses %s: %v", st.m.Newick(), err), false)
				return
			}
			phase = "verify"
			st, skip = c04inspect(t)
			if skip != "" {
				res.outcome = "out-of-domain:" + skip
				return
			}
			if cl, w := c04verify(t, st); cl != "" {
				fail(cl, w, false)
				return
			}
			res.verified++
			res.texts = append(res.texts, st.m.Newick())
			phase = "differential"
			cl, w, done := c04differential(t, st)
			if cl != "" {
				fail(cl, w, false)
				return
			}
			if done {
				res.diffs++
			}
		}
		res.outcome = "ok"
		res.final, res.finalSt = t, st
		if wantNext {
			for _, o := range c04ops(t, st) {
				res.next = append(res.next, c04opd{o.desc, o.random})
			}
		}
	})
	if crashed(r) {
		switch phase {
		case "op":
			res.outcome = "op-crash"
			res.crash, res.crashSite = verdictStr(r), crashSite(r)
		case "parse":
			res.outcome = "out-of-domain:parse-crash"
		case "reinit":
			fail("reinit-crash/"+crashSite(r), "ReinitIndexes crashes: "+verdictStr(r), false)
		default:
			fail("observer-crash/"+phase+"/"+crashSite(r), "reading the indexes crashes: "+verdictStr(r), false)
		}
		res.final, res.next = nil, nil
	}
	return res
}

package main

import (
	"bufio"
	"fmt"
	"sort"
	"strings"

	"github.com/evolbioinfo/gotree/io/newick"
	"github.com/evolbioinfo/gotree/mcrt"
	"github.com/evolbioinfo/gotree/tree"

	rm "verif/harness/refmodel"
)

// guard runs f on the real code under the controlled runtime with default
// choices (seeded RNG, native map order): panics, os.Exit, deadlocks and fuel
// exhaustion become verdicts instead of killing the worker.
func guard(f func()) mcrt.Result {
	return mcrt.Run(mcrt.Config{NoSched: true, Fuel: 20_000_000}, f)
}

func crashed(r mcrt.Result) bool { return r.Verdict != mcrt.VDone }

func verdictStr(r mcrt.Result) string {
	if r.Verdict == mcrt.VDone {
		return "completed"
	}
	d := r.Detail
	if len(d) > 400 {
		d = d[:400]
	}
	return r.Verdict.String() + ": " + d
}

// crashSite extracts a stable signature (first gotree source position) from a panic/exit detail.
func crashSite(r mcrt.Result) string {
	d := r.Detail
	// positions look like /repo/tree/tree.go:123
	for _, f := range strings.FieldsFunc(d, func(r rune) bool { return r == ' ' || r == '\n' || r == '<' || r == '\t' }) {
		if i := strings.Index(f, "/repo/"); i >= 0 && strings.Contains(f, ".go:") {
			s := f[i+6:]
			if j := strings.Index(s, ".go:"); j >= 0 {
				// keep file only + function-agnostic: file name
				return s[:j+3]
			}
		}
		if strings.Contains(f, ".go:") && !strings.Contains(f, "/") {
			return f
		}
	}
	return r.Verdict.String()
}

func gtParse(s string) (*tree.Tree, error) {
	return newick.NewParser(strings.NewReader(s)).Parse()
}

func gtMustParse(s string) *tree.Tree {
	t, err := gtParse(s)
	if err != nil {
		panic(fmt.Sprintf("harness: gotree cannot parse %q: %v", s, err))
	}
	return t
}

func bufReader(s string) *bufio.Reader { return bufio.NewReader(strings.NewReader(s)) }

// observe walks a gotree tree through its public API into the reference model.
func observe(t *tree.Tree) (*rm.Tree, error) {
	root := t.Root()
	if root == nil {
		return nil, fmt.Errorf("nil root")
	}
	visited := map[*tree.Node]bool{}
	var rec func(n, parent *tree.Node, e *tree.Edge) (*rm.Node, error)
	rec = func(n, parent *tree.Node, e *tree.Edge) (*rm.Node, error) {
		if visited[n] {
			return nil, fmt.Errorf("node visited twice (cycle)")
		}
		visited[n] = true
		m := &rm.Node{Name: n.Name()}
		m.NodeCom = append([]string(nil), n.Comments()...)
		if e != nil {
			if e.Length() != tree.NIL_LENGTH {
				m.HasLen, m.Len = true, e.Length()
			}
			if e.Support() != tree.NIL_SUPPORT {
				m.HasSup, m.Sup = true, e.Support()
			}
			if e.PValue() != tree.NIL_PVALUE {
				m.HasPv, m.Pv = true, e.PValue()
			}
			m.BrCom = append([]string(nil), e.Comments()...)
		}
		neigh := n.Neigh()
		edges := n.Edges()
		if len(neigh) != len(edges) {
			return nil, fmt.Errorf("node %q: %d neighbours, %d branches", n.Name(), len(neigh), len(edges))
		}
		for i, nb := range neigh {
			if nb == parent {
				continue
			}
			c, err := rec(nb, n, edges[i])
			if err != nil {
				return nil, err
			}
			m.Children = append(m.Children, c)
		}
		return m, nil
	}
	r, err := rec(root, nil, nil)
	if err != nil {
		return nil, err
	}
	return &rm.Tree{Root: r}, nil
}

// build constructs a gotree tree from a model tree through the public constructors.
func build(m *rm.Tree) *tree.Tree {
	t := tree.NewTree()
	var rec func(mn *rm.Node) *tree.Node
	rec = func(mn *rm.Node) *tree.Node {
		n := t.NewNode()
		n.SetName(mn.Name)
		for _, c := range mn.NodeCom {
			n.AddComment(c)
		}
		for _, mc := range mn.Children {
			cn := rec(mc)
			e := t.ConnectNodes(n, cn)
			if mc.HasLen {
				e.SetLength(mc.Len)
			}
			if mc.HasSup {
				e.SetSupport(mc.Sup)
			}
			if mc.HasPv {
				e.SetPValue(mc.Pv)
			}
			for _, c := range mc.BrCom {
				e.AddComment(c)
			}
		}
		return n
	}
	t.SetRoot(rec(m.Root))
	return t
}

// modelOf re-reads gotree's Newick text with the model's own reader.
func modelOf(t *tree.Tree) (*rm.Tree, string, error) {
	s := t.Newick()
	m, err := rm.ParseNewick(s)
	return m, s, err
}

// sameModel compares two model trees field by field (ordered). Returns "" or the first difference.
func sameModel(a, b *rm.Tree, comments bool) string {
	var rec func(x, y *rm.Node, path string) string
	rec = func(x, y *rm.Node, path string) string {
		if x.Name != y.Name {
			return fmt.Sprintf("%s: name %q vs %q", path, x.Name, y.Name)
		}
		if x.HasLen != y.HasLen || (x.HasLen && !rm.SameFloat(x.Len, y.Len)) {
			return fmt.Sprintf("%s: length %v/%v vs %v/%v", path, x.HasLen, x.Len, y.HasLen, y.Len)
		}
		if x.HasSup != y.HasSup || (x.HasSup && !rm.SameFloat(x.Sup, y.Sup)) {
			return fmt.Sprintf("%s: support %v/%v vs %v/%v", path, x.HasSup, x.Sup, y.HasSup, y.Sup)
		}
		if x.HasPv != y.HasPv || (x.HasPv && !rm.SameFloat(x.Pv, y.Pv)) {
			return fmt.Sprintf("%s: pvalue %v/%v vs %v/%v", path, x.HasPv, x.Pv, y.HasPv, y.Pv)
		}
		if comments {
			if fmt.Sprintf("%q", x.NodeCom) != fmt.Sprintf("%q", y.NodeCom) {
				return fmt.Sprintf("%s: node comments %q vs %q", path, x.NodeCom, y.NodeCom)
			}
			if fmt.Sprintf("%q", x.BrCom) != fmt.Sprintf("%q", y.BrCom) {
				return fmt.Sprintf("%s: branch comments %q vs %q", path, x.BrCom, y.BrCom)
			}
		}
		if len(x.Children) != len(y.Children) {
			return fmt.Sprintf("%s: %d children vs %d", path, len(x.Children), len(y.Children))
		}
		for i := range x.Children {
			if d := rec(x.Children[i], y.Children[i], fmt.Sprintf("%s.%d", path, i)); d != "" {
				return d
			}
		}
		return ""
	}
	return rec(a.Root, b.Root, "root")
}

// feed returns a closed channel pre-filled with the given trees (ids 0..).
func feed(ts []*tree.Tree) chan tree.Trees {
	ch := make(chan tree.Trees, len(ts)+1)
	for i, t := range ts {
		mcrt.Send(ch, tree.Trees{Tree: t, Id: i})
	}
	mcrt.Close(ch)
	return ch
}

func sortStrings(s []string) { sort.Strings(s) }

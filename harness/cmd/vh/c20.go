package main

import (
	"encoding/json"
	"fmt"
	"math/big"
	"sort"
	"strings"

	"github.com/evolbioinfo/gotree/mcrt"
	"github.com/evolbioinfo/gotree/tree"

	"verif/harness/enum"
	rm "verif/harness/refmodel"
)

// C20: random selection is unbiased. Every answer sequence of the random
// number generator is enumerated with its exact weight (product of 1/n over the
// uniform draws), which gives the exact outcome distribution as rationals.

type c20case struct {
	Driver  string `json:"driver"` // sample | sample-replace | prune-random | prune-random-keep | shuffletips | rotate | uniformtree | uniformtree-cli
	N       int    `json:"n"`
	K       int    `json:"k,omitempty"`
	Rooted  bool   `json:"rooted,omitempty"`
	Shape   string `json:"tree,omitempty"`
	MaxExec int64  `json:"max_execs,omitempty"`
}

func c20binom(n, k int) int64 {
	if k < 0 || k > n {
		return 0
	}
	r := int64(1)
	for i := 1; i <= k; i++ {
		r = r * int64(n-k+i) / int64(i)
	}
	return r
}

func c20fact(n int) int64 {
	r := int64(1)
	for i := 2; i <= n; i++ {
		r *= int64(i)
	}
	return r
}

func c20pow(n, k int) int64 {
	r := int64(1)
	for i := 0; i < k; i++ {
		r *= int64(n)
	}
	return r
}

// c20treesFile: n distinguishable trees, tree i has the tip "x<i>".
func c20treesFile(n int) string {
	var sb strings.Builder
	for i := 0; i < n; i++ {
		fmt.Fprintf(&sb, "(a,b,x%d);\n", i)
	}
	return sb.String()
}

func c20idsOfOutput(out string) ([]int, error) {
	var ids []int
	for _, l := range strings.Split(strings.TrimSpace(out), "\n") {
		if l == "" {
			continue
		}
		i := strings.Index(l, "x")
		if i < 0 {
			return nil, fmt.Errorf("unexpected output line %q", l)
		}
		var id int
		if _, err := fmt.Sscanf(l[i:], "x%d", &id); err != nil {
			return nil, fmt.Errorf("unexpected output line %q", l)
		}
		ids = append(ids, id)
	}
	return ids, nil
}

// a caterpillar-ish multifurcating tree with n tips t0..t(n-1) for the tip sampling
func c20tipTree(n int) string {
	// ((t0,t1),t2,...,t(n-1)) for n >= 4; (t0,t1,t2) for 3
	if n <= 3 {
		return "(t0:1,t1:1,t2:1);"
	}
	parts := []string{"(t0:1,t1:1):1"}
	for i := 2; i < n; i++ {
		parts = append(parts, fmt.Sprintf("t%d:1", i))
	}
	return "(" + strings.Join(parts, ",") + ");"
}

// c20ideal returns the ideal outcome space (outcome -> probability).
func c20ideal(cs c20case) (map[string]*big.Rat, error) {
	out := map[string]*big.Rat{}
	switch cs.Driver {
	case "sample":
		k := cs.K
		if k > cs.N {
			k = cs.N
		}
		p := big.NewRat(1, c20binom(cs.N, k))
		enum.Subsets(cs.N, k, k, func(mask uint64) {
			var ids []string
			for i := 0; i < cs.N; i++ {
				if mask&(1<<uint(i)) != 0 {
					ids = append(ids, fmt.Sprint(i))
				}
			}
			out["{"+strings.Join(ids, ",")+"}"] = p
		})
	case "sample-replace":
		p := big.NewRat(1, c20pow(cs.N, cs.K))
		enum.Sequences(cs.N, cs.K, func(seq []int) {
			out[fmt.Sprint(seq)] = p
		})
	case "prune-random", "prune-random-keep", "prune-random-keep-multi":
		k := cs.K
		if k > cs.N {
			k = cs.N
		}
		p := big.NewRat(1, c20binom(cs.N, k))
		enum.Subsets(cs.N, k, k, func(mask uint64) {
			var ids []string
			for i := 0; i < cs.N; i++ {
				sel := mask&(1<<uint(i)) != 0
				// outcome = set of tips left in the output tree
				if (cs.Driver == "prune-random") != sel {
					ids = append(ids, fmt.Sprintf("t%d", i))
				}
			}
			out["{"+strings.Join(ids, ",")+"}"] = p
		})
	case "shuffletips":
		p := big.NewRat(1, c20fact(cs.N))
		enum.Permutations(cs.N, func(perm []int) {
			out[fmt.Sprint(perm)] = p
		})
	case "rotate":
		// outcome = for every node (in creation order) the order of its neighbours: product of degree! orderings
		t, err := rm.ParseNewick(cs.Shape)
		if err != nil {
			return nil, err
		}
		total := int64(1)
		t.Walk(func(n, p *rm.Node) {
			d := len(n.Children)
			if p != nil {
				d++
			}
			total *= c20fact(d)
		})
		out["#"] = big.NewRat(1, total) // only the size is known a priori; outcomes are validated structurally
	case "uniformtree", "uniformtree-cli":
		labels := make([]string, cs.N)
		for i := range labels {
			labels[i] = fmt.Sprintf("Tip%d", i)
		}
		var ts []*rm.Tree
		if cs.Rooted {
			ts = enum.RootedTrees(labels, true)
		} else {
			ts = enum.Unrooted(labels, true)
		}
		p := big.NewRat(1, int64(len(ts)))
		for _, t := range ts {
			if cs.Rooted {
				out[t.CanonRooted()] = p
			} else {
				out[t.CanonUnrooted()] = p
			}
		}
		if len(out) != len(ts) {
			return nil, fmt.Errorf("enumerator produced duplicate topologies")
		}
	default:
		return nil, fmt.Errorf("unknown driver %q", cs.Driver)
	}
	return out, nil
}

// c20body returns the body to explore and a function extracting the outcome of the last execution.
func c20body(cs c20case) (func(), func() (string, error)) {
	switch cs.Driver {
	case "sample", "sample-replace":
		var res cliRun
		args := []string{"sample", "-i", "@/in.nw", "-n", fmt.Sprint(cs.K), "--seed", "1"}
		if cs.Driver == "sample-replace" {
			args = append(args, "--replace")
		}
		body := cliBody(args, "", map[string]string{"in.nw": c20treesFile(cs.N)}, nil, &res)
		return body, func() (string, error) {
			if res.Err != "" {
				return "", fmt.Errorf("command failed: %s", res.Err)
			}
			ids, err := c20idsOfOutput(res.Stdout)
			if err != nil {
				return "", err
			}
			if cs.Driver == "sample-replace" {
				return fmt.Sprint(ids), nil
			}
			sort.Ints(ids)
			s := make([]string, len(ids))
			for i, id := range ids {
				s[i] = fmt.Sprint(id)
			}
			return "{" + strings.Join(s, ",") + "}", nil
		}
	case "prune-random", "prune-random-keep", "prune-random-keep-multi":
		var res cliRun
		args := []string{"prune", "-i", "@/in.nw", "--random", fmt.Sprint(cs.K), "--seed", "1"}
		if cs.Driver != "prune-random" {
			args = append(args, "-r")
		}
		in := c20tipTree(cs.N) + "\n"
		if cs.Driver == "prune-random-keep-multi" {
			// a tree with fewer than k tips comes first in the file (all of its tips are kept); the second tree is observed
			in = "(s0:1,s1:1,s2:1);\n" + in
		}
		body := cliBody(args, "", map[string]string{"in.nw": in}, nil, &res)
		return body, func() (string, error) {
			if res.Err != "" {
				return "", fmt.Errorf("command failed: %s", res.Err)
			}
			outLines := strings.Split(strings.TrimSpace(res.Stdout), "\n")
			m, err := rm.ParseNewick(outLines[len(outLines)-1])
			if err != nil {
				return "", fmt.Errorf("output %q: %v", res.Stdout, err)
			}
			names := m.TipNames()
			sort.Slice(names, func(i, j int) bool {
				return len(names[i]) < len(names[j]) || (len(names[i]) == len(names[j]) && names[i] < names[j])
			})
			return "{" + strings.Join(names, ",") + "}", nil
		}
	case "shuffletips":
		var t *tree.Tree
		body := func() {
			txt := c20tipTree(cs.N)
			if cs.Shape != "" {
				txt = cs.Shape // tips t0..t(N-1) in another shape
			}
			t = gtMustParse(txt)
			t.ShuffleTips()
		}
		return body, func() (string, error) {
			// permutation: position i (left-to-right tip order of the fixed shape) now carries name t<p[i]>
			var perm []int
			for _, tip := range t.Tips() {
				var id int
				if _, err := fmt.Sscanf(tip.Name(), "t%d", &id); err != nil {
					return "", fmt.Errorf("unexpected tip name %q", tip.Name())
				}
				perm = append(perm, id)
			}
			return fmt.Sprint(perm), nil
		}
	case "rotate":
		var t *tree.Tree
		body := func() {
			t = gtMustParse(cs.Shape)
			t.RotateInternalNodes()
		}
		return body, func() (string, error) {
			// for every node (stable order: Nodes() of a fresh parse is creation order; use ids) the sequence of neighbour labels
			var sb strings.Builder
			for _, n := range t.Nodes() {
				sb.WriteString(c20nodeLabel(n) + ":")
				for _, nb := range n.Neigh() {
					sb.WriteString(c20nodeLabel(nb) + ",")
				}
				sb.WriteString(";")
			}
			return sb.String(), nil
		}
	case "uniformtree":
		var t *tree.Tree
		var err error
		body := func() {
			t, err = tree.RandomUniformBinaryTree(cs.N, cs.Rooted)
		}
		return body, func() (string, error) {
			if err != nil {
				return "", err
			}
			m, _, e := modelOf(t)
			if e != nil {
				return "", e
			}
			if cs.Rooted {
				return m.CanonRooted(), nil
			}
			return m.CanonUnrooted(), nil
		}
	case "uniformtree-cli":
		var res cliRun
		args := []string{"generate", "uniformtree", "-l", fmt.Sprint(cs.N), "-n", "1", "--seed", "1"}
		if cs.Rooted {
			args = append(args, "-r")
		}
		body := cliBody(args, "", nil, nil, &res)
		return body, func() (string, error) {
			if res.Err != "" {
				return "", fmt.Errorf("command failed: %s", res.Err)
			}
			m, err := rm.ParseNewick(strings.TrimSpace(res.Stdout))
			if err != nil {
				return "", fmt.Errorf("output %q: %v", res.Stdout, err)
			}
			if cs.Rooted {
				return m.CanonRooted(), nil
			}
			return m.CanonUnrooted(), nil
		}
	}
	return nil, nil
}

// label of a node that does not depend on neighbour order: tip name, or the sorted set of tip names on the side away from the root... a node id is enough here since the tree is freshly parsed each time.
func c20nodeLabel(n *tree.Node) string {
	if n.Tip() {
		return n.Name()
	}
	return fmt.Sprintf("#%d", n.Id())
}

type c20result struct {
	dist     map[string]*big.Rat
	execs    int64
	points   int64
	complete bool
	bad      string // first abnormal execution
}

func c20explore(c *Ctx, cs c20case) c20result {
	body, outcome := c20body(cs)
	res := c20result{dist: map[string]*big.Rat{}}
	opts := mcrt.ExploreOpts{Base: mcrt.Config{NoSched: true, RandMode: mcrt.RandEnumerate, Fuel: 50_000_000}, Bound: 0, MaxExecs: cs.MaxExec, Deadline: c.Deadline}
	st := mcrt.Explore(opts, body, func(r *mcrt.Result, choices []int) bool {
		if crashed(*r) {
			if res.bad == "" {
				res.bad = verdictStr(*r)
			}
			return true
		}
		o, err := outcome()
		if err != nil {
			if res.bad == "" {
				res.bad = err.Error()
			}
			return true
		}
		w := mcrt.Weight(r.Points)
		if p, ok := res.dist[o]; ok {
			p.Add(p, w)
		} else {
			res.dist[o] = w
		}
		return true
	})
	res.execs, res.points, res.complete = st.Execs, st.Points, st.Exhaustive
	return res
}

func c20key(cs c20case, clause string) string {
	k := "C20/" + cs.Driver + "/" + clause
	if cs.Driver == "uniformtree" || cs.Driver == "uniformtree-cli" {
		k += fmt.Sprintf("/rooted=%v", cs.Rooted)
	}
	if cs.Driver == "sample" || strings.HasPrefix(cs.Driver, "prune-random") {
		switch {
		case cs.K < cs.N:
			k += "/k<n"
		case cs.K == cs.N:
			k += "/k=n"
		default:
			k += "/k>n"
		}
	}
	return k
}

// c20judge compares the exact distribution with the ideal one.
func c20judge(cs c20case, r c20result) (string, string) {
	if r.bad != "" {
		return c20key(cs, "abnormal"), fmt.Sprintf("%+v: %s", cs, r.bad)
	}
	if !r.complete {
		return "", "" // capped: nothing is concluded (reported as not exhaustive)
	}
	ideal, err := c20ideal(cs)
	if err != nil {
		return "C20/engine", err.Error()
	}
	sum := new(big.Rat)
	for _, p := range r.dist {
		sum.Add(sum, p)
	}
	if sum.Cmp(big.NewRat(1, 1)) != 0 {
		return "C20/engine", fmt.Sprintf("%+v: probabilities sum to %s", cs, sum.RatString())
	}
	if cs.Driver == "rotate" {
		want := ideal["#"]
		n := new(big.Rat).Inv(want)
		if !n.IsInt() || int64(len(r.dist)) != n.Num().Int64() {
			return c20key(cs, "missing-outcome"), fmt.Sprintf("%+v: %d distinct neighbour orderings reachable, %s expected", cs, len(r.dist), n.RatString())
		}
		keys := c20sortedKeys(r.dist)
		for _, o := range keys {
			if r.dist[o].Cmp(want) != 0 {
				return c20key(cs, "nonuniform"), fmt.Sprintf("%+v: ordering %s has probability %s, expected %s", cs, o, r.dist[o].RatString(), want.RatString())
			}
		}
		return "", ""
	}
	for _, o := range c20sortedKeys(r.dist) {
		if _, ok := ideal[o]; !ok {
			return c20key(cs, "outside-space"), fmt.Sprintf("%+v: outcome %s is not a member of the ideal outcome space (%d members)", cs, o, len(ideal))
		}
	}
	for _, o := range c20sortedKeys(ideal) {
		p, ok := r.dist[o]
		if !ok {
			return c20key(cs, "zero-probability"), fmt.Sprintf("%+v: outcome %s can never be drawn (probability 0, expected %s); %d of %d outcomes reachable", cs, o, ideal[o].RatString(), len(r.dist), len(ideal))
		}
		if p.Cmp(ideal[o]) != 0 {
			return c20key(cs, "nonuniform"), fmt.Sprintf("%+v: outcome %s has probability %s, expected %s", cs, o, p.RatString(), ideal[o].RatString())
		}
	}
	return "", ""
}

func c20sortedKeys(m map[string]*big.Rat) []string {
	ks := make([]string, 0, len(m))
	for k := range m {
		ks = append(ks, k)
	}
	sort.Strings(ks)
	return ks
}

func c20cases(quick bool) []c20case {
	var cs []c20case
	capExecs := int64(30_000)
	if !quick {
		capExecs = 3_000_000
	}
	maxN := 6
	if !quick {
		maxN = 7
	}
	// sample without replacement: n trees, k = 1..n+1 (k>n takes everything)
	for n := 1; n <= maxN; n++ {
		for k := 1; k <= n+1; k++ {
			if c20fact(n)/c20fact(min(k, n)) <= capExecs {
				cs = append(cs, c20case{Driver: "sample", N: n, K: k})
			}
		}
	}
	// with replacement: (n!)^k executions
	for n := 1; n <= maxN; n++ {
		for k := 1; k <= n+1; k++ {
			sz := int64(1)
			over := false
			for i := 0; i < k; i++ {
				sz *= c20fact(n)
				if sz > capExecs {
					over = true
					break
				}
			}
			if !over {
				cs = append(cs, c20case{Driver: "sample-replace", N: n, K: k})
			}
		}
	}
	// random tips: remove k (remaining >= 3), keep k (k >= 3)
	for n := 4; n <= maxN+1; n++ {
		for k := 1; k <= n-3; k++ {
			cs = append(cs, c20case{Driver: "prune-random", N: n, K: k})
		}
		for k := 3; k <= n; k++ {
			cs = append(cs, c20case{Driver: "prune-random-keep", N: n, K: k})
		}
		for k := 4; k < n; k++ {
			cs = append(cs, c20case{Driver: "prune-random-keep-multi", N: n, K: k})
		}
	}
	for n := 3; n <= maxN; n++ {
		cs = append(cs, c20case{Driver: "shuffletips", N: n})
	}
	// other shapes: a tree rooted on a tip (the root has one neighbour and is a tip itself), a rooted binary tree, a caterpillar
	cs = append(cs, c20case{Driver: "shuffletips", N: 2, Shape: "(t0:1,t1:2);"}, c20case{Driver: "shuffletips", N: 4, Shape: "(((t1:1,t2:1):1,t3:1):1)t0;"}, c20case{Driver: "shuffletips", N: 3, Shape: "((t1:1,t2:1):1)t0;"},
		c20case{Driver: "shuffletips", N: 4, Shape: "((t0:1,t1:1):1,(t2:1,t3:1):1);"}, c20case{Driver: "shuffletips", N: 5, Shape: "((((t0:1,t1:1):1,t2:1):1,t3:1):1,t4:1);"})
	shapes := []string{"(a,b,c);", "(a,b,c,d);", "((a,b),c,d);", "((a,b),(c,d));", "((a,b,c),d,e);", "(a,b,c,d,e);", "((a,b),(c,d),e);"}
	if !quick {
		shapes = append(shapes, "((a,b),(c,d),(e,f));", "((a,b,c,d),e,f);")
	}
	for _, s := range shapes {
		cs = append(cs, c20case{Driver: "rotate", Shape: s})
	}
	for n := 3; n <= maxN+1; n++ {
		if n <= maxN || !quick {
			cs = append(cs, c20case{Driver: "uniformtree", N: n, Rooted: false})
		}
		if n <= maxN {
			cs = append(cs, c20case{Driver: "uniformtree", N: n, Rooted: true})
		}
	}
	cs = append(cs, c20case{Driver: "uniformtree-cli", N: 5, Rooted: false}, c20case{Driver: "uniformtree-cli", N: 4, Rooted: true})
	for i := range cs {
		cs[i].MaxExec = capExecs * 4
	}
	return cs
}

func init() {
	register(&Prop{
		ID: "C20",
		Rule: "per case (driver, n, k): ALL answer sequences of rand.Intn/Perm are enumerated on the real code (stateless DFS by re-execution, every uniform n-way draw is an n-way choice of weight 1/n), giving the exact outcome distribution as rationals; " +
			"drivers: `gotree sample -n k [--replace]` on n trees (k = 1..n+1), `gotree prune --random k [-r]` on n tips, Tree.ShuffleTips, Tree.RotateInternalNodes, RandomUniformBinaryTree rooted/unrooted (+ `gotree generate uniformtree`); " +
			"oracle: every member of the ideal outcome space (k-subsets, k-tuples, permutations, neighbour orderings, labelled binary topologies from an independent enumerator) has probability exactly 1/|space|; non-trivial = case with >= 2 outcomes",
		Assumptions: []string{"math/rand itself is ideal: Intn(n) uniform on 0..n-1, Perm(n) a uniform permutation (drawn as successive uniform picks by the runtime), draws independent",
			"rand.Float64 (branch lengths of generated trees) is kept at its default answer: lengths do not influence the topology"},
		Require: []string{"cases_sample", "cases_sample-replace", "cases_prune-random", "cases_prune-random-keep", "cases_prune-random-keep-multi", "cases_shuffletips", "cases_rotate", "cases_uniformtree", "cases_uniformtree-cli"},
		Run: func(c *Ctx) {
			defer cliCleanup()
			for _, cs := range c20cases(c.Quick()) {
				if c.TimeUp() {
					return
				}
				if !c.Mine() {
					continue
				}
				cs := cs
				var last c20result
				c.Check(cs, func() (string, string) {
					last = c20explore(c, cs)
					return c20judge(cs, last)
				})
				c.States++
				c.Transitions += last.points
				c.Execs += last.execs
				c.Count("rng_answer_sequences", last.execs)
				c.Count("cases_"+cs.Driver, 1)
				c.Max("choice_tree_size", last.execs)
				if !last.complete {
					c.Exhaustive = false
					c.Count("capped_cases", 1)
				}
				if len(last.dist) >= 2 {
					c.Nontrivial(fmt.Sprintf("%+v", cs))
				}
				c.Outcome(fmt.Sprintf("%s:%d", cs.Driver, len(last.dist)))
				c.Sample(map[string]any{"case": cs, "answer_sequences": last.execs, "distinct_outcomes": len(last.dist)})
			}
		},
		Replay: func(c *Ctx, raw json.RawMessage) {
			defer cliCleanup()
			var cs c20case
			json.Unmarshal(raw, &cs)
			r := c20explore(c, cs)
			fmt.Printf("case %+v: %d answer sequences, complete=%v, %d outcomes\n", cs, r.execs, r.complete, len(r.dist))
			ks := c20sortedKeys(r.dist)
			for i, k := range ks {
				if i < 40 {
					fmt.Printf("  P[%s] = %s\n", k, r.dist[k].RatString())
				}
			}
			if k, w := c20judge(cs, r); k != "" {
				c.Violate(k, w, cs)
			}
		},
	})
}

package main

import (
	"fmt"

	"github.com/evolbioinfo/goalign/align"
	"github.com/evolbioinfo/gotree/acr"
	"github.com/evolbioinfo/gotree/asr"
)

// An alignment object that already served one reconstruction is still the same alignment: the step counts of a second
// tree analysed with it equal those obtained with a freshly built alignment of the same content (what `gotree asr` does
// for the second tree of its input file). Tips carry IUPAC ambiguity codes, the first run uses each algorithm in turn.

type c12alignCase struct {
	Marker string   `json:"c12_alignment_reuse"`
	Trees  []string `json:"trees"`
	Seqs   []string `json:"sequences"`
	Algos  []int    `json:"algorithms"`
}

func c12mkAlign(seqs []string) (align.Alignment, error) {
	a := align.NewAlign(align.NUCLEOTIDS)
	for i, s := range seqs {
		if err := a.AddSequence(string(rune('A'+i)), s, ""); err != nil {
			return nil, err
		}
	}
	return a, nil
}

func c12alignRun(cs c12alignCase) (key, what string) {
	r := guard(func() {
		fresh, err := c12mkAlign(cs.Seqs)
		if err != nil {
			key, what = "C12/harness/alignment", err.Error()
			return
		}
		want, errF := asr.ParsimonyAsr(gtMustParse(cs.Trees[1]), fresh, cs.Algos[1], false)
		used, _ := c12mkAlign(cs.Seqs)
		if _, err := asr.ParsimonyAsr(gtMustParse(cs.Trees[0]), used, cs.Algos[0], false); err != nil {
			return
		}
		got, errU := asr.ParsimonyAsr(gtMustParse(cs.Trees[1]), used, cs.Algos[1], false)
		if (errF != nil) != (errU != nil) {
			key, what = "C12/alignment-reuse/error", fmt.Sprintf("fresh alignment: %v; alignment that served tree %s before: %v", errF, cs.Trees[0], errU)
			return
		}
		if errF == nil && fmt.Sprint(want) != fmt.Sprint(got) {
			key, what = "C12/alignment-reuse/steps", fmt.Sprintf("alignment %q on tree %s: steps %v with a fresh alignment, %v with the alignment object that first served tree %s (algorithm %d)", cs.Seqs, cs.Trees[1], want, got, cs.Trees[0], cs.Algos[0])
		}
	})
	if crashed(r) {
		return "C12/alignment-reuse/crash/" + crashSite(r), verdictStr(r)
	}
	return
}

func c12alignReuse(c *Ctx) {
	pool := cliDiffPool5()
	aligns := [][]string{
		{"RAY", "AAC", "GAT", "GCT", "GCT"},
		{"NAC", "AAC", "GRT", "GCT", "ACY"},
		{"AM", "CK", "AS", "CW", "NN"},
	}
	algos := []int{acr.ALGO_ACCTRAN, acr.ALGO_DELTRAN, acr.ALGO_DOWNPASS}
	step := 3
	if !c.Quick() {
		step = 1
	}
	for i := 0; i < len(pool); i++ {
		for j := (i + 1) % step; j < len(pool); j += step {
			if i == j {
				continue
			}
			for ai, al := range aligns {
				for _, a1 := range algos {
					if c.TimeUp() {
						return
					}
					if !c.Mine() {
						continue
					}
					cs := c12alignCase{Marker: "second-tree", Trees: []string{pool[i], pool[j]}, Seqs: al, Algos: []int{a1, algos[(i+j+ai)%3]}}
					c.Check(cs, func() (string, string) { return c12alignRun(cs) })
					c.States++
					c.Count("alignment_reuse_cases", 1)
				}
			}
		}
	}
}

func init() {
	addExtra("C12", c12alignReuse)
	extraRequire["C12"] = append(extraRequire["C12"], "alignment_reuse_cases")
}

package main

import (
	"encoding/json"
	"fmt"
	"sort"
	"strings"

	"github.com/evolbioinfo/gotree/mcrt"
	"github.com/evolbioinfo/gotree/tree"

	"verif/harness/enum"
	rm "verif/harness/refmodel"
)

// C17: the NNI neighbourhood is complete, minimal and reversible.
//
// Every labelled binary tree on 4..7 taxa, unrooted with every inner
// node as pseudo-root and rooted on every branch, is handed to the real NNIRearranger in several
// in-memory presentations (read by the parser, built through the public constructors with every
// position of the parent among the neighbours, re-rooted by gotree itself) and through the command
// line. Inside the Rearrange callback every proposal is applied and undone in enumeration order.
// The oracle lives on the reference model: split sets by definition, the two alternatives of a
// branch AB|CD are AC|BD and AD|BC.

type c17case struct {
	Model   string `json:"model_newick"`            // the (ordered, decorated) tree that is presented
	Kind    string `json:"presentation"`            // parse | build | reroot | cli
	PPos    []int  `json:"parent_pos,omitempty"`    // build: position of the parent among the neighbours of every non-root inner node (pre-order)
	Reroot  int    `json:"reroot_inner,omitempty"`  // reroot: pre-order index (among inner nodes of the parsed tree) of the node given to Reroot
	Collect bool   `json:"collect_first,omitempty"` // proposals are collected during the enumeration and applied / undone afterwards, in enumeration order
}

type c17result struct {
	key, what string
	engine    string // harness trouble (never a violation)
	precond   string // the presentation could not be established (another property's business)
	cnt       map[string]int64
	outcome   string
	nontriv   bool
}

// ---- decoration and ordering of model trees ------------------------------------

// c17decorate labels the branches in pre-order with distinct dyadic values.
// d=0: every branch has length i/8, every inner branch support i/16;
// d=1: inner nodes and root are named, odd branches have a length, even ones none;
// d=2: bare topology;
// d=3: as d=0 plus a p-value on every inner branch (label support/p-value).
func c17decorate(m *rm.Tree, d int) {
	i := 0
	m.Walk(func(n, p *rm.Node) {
		if p == nil {
			if d == 1 {
				n.Name = "r"
			}
			return
		}
		i++
		switch d {
		case 0:
			n.HasLen, n.Len = true, float64(i)/8
			if !n.IsTip() {
				n.HasSup, n.Sup = true, float64(i)/16
			}
		case 3:
			// lengths, and support/p-value pairs on the inner branches
			n.HasLen, n.Len = true, float64(i)/8
			if !n.IsTip() {
				n.HasSup, n.Sup = true, float64(i)/16
				n.HasPv, n.Pv = true, float64(i)/64
			}
		case 1:
			if i%2 == 1 {
				n.HasLen, n.Len = true, float64(i)/8
			}
			if !n.IsTip() {
				n.Name = fmt.Sprintf("n%d", i)
			}
		}
	})
}

func c17mirror(m *rm.Tree) {
	m.Walk(func(n, _ *rm.Node) {
		for i, j := 0, len(n.Children)-1; i < j; i, j = i+1, j-1 {
			n.Children[i], n.Children[j] = n.Children[j], n.Children[i]
		}
	})
}

var c17perms = map[int][][]int{
	2: {{0, 1}, {1, 0}},
	3: {{0, 1, 2}, {0, 2, 1}, {1, 0, 2}, {1, 2, 0}, {2, 0, 1}, {2, 1, 0}},
}

// c17orders calls f with every child ordering of the binary tree m (a fresh clone each time).
func c17orders(m *rm.Tree, f func(o *rm.Tree)) {
	inner := rm.C17InnerNodes(m)
	choice := make([]int, len(inner))
	var rec func(k int)
	rec = func(k int) {
		if k == len(inner) {
			o := m.Clone()
			for i, nd := range rm.C17InnerNodes(o) {
				p := c17perms[len(nd.Children)][choice[i]]
				kids := make([]*rm.Node, len(nd.Children))
				for a, b := range p {
					kids[a] = nd.Children[b]
				}
				nd.Children = kids
			}
			f(o)
			return
		}
		for v := range c17perms[len(inner[k].Children)] {
			choice[k] = v
			rec(k + 1)
		}
	}
	rec(0)
}

// ---- presentations ----------------------------------------------------------------

// c17build constructs the gotree tree of m through the public constructors so that the parent of
// the k-th non-root inner node (pre-order) sits at position ppos[k] of that node's neighbour list
// (children keep their order; the reader always produces position 0, gt.go's build() the last one).
func c17build(m *rm.Tree, ppos []int) *tree.Tree {
	t := tree.NewTree()
	k := 0
	var rec func(mn *rm.Node, parent *tree.Node) *tree.Node
	rec = func(mn *rm.Node, parent *tree.Node) *tree.Node {
		n := t.NewNode()
		n.SetName(mn.Name)
		for _, c := range mn.NodeCom {
			n.AddComment(c)
		}
		pos := len(mn.Children)
		if parent != nil && !mn.IsTip() {
			if k < len(ppos) && ppos[k] < pos {
				pos = ppos[k]
			}
			k++
		}
		connect := func() {
			if parent == nil {
				return
			}
			e := t.ConnectNodes(parent, n)
			if mn.HasLen {
				e.SetLength(mn.Len)
			}
			if mn.HasSup {
				e.SetSupport(mn.Sup)
			}
			if mn.HasPv {
				e.SetPValue(mn.Pv)
			}
			for _, c := range mn.BrCom {
				e.AddComment(c)
			}
		}
		for i, mc := range mn.Children {
			if i == pos {
				connect()
			}
			rec(mc, n)
		}
		if pos >= len(mn.Children) {
			connect()
		}
		return n
	}
	t.SetRoot(rec(m.Root, nil))
	return t
}

// ---- well-formedness walk (C03's invariant, public API only) ---------------------------

type c17shape struct {
	nodes, tips int
	edges       []*tree.Edge
	left, right map[*tree.Edge]*tree.Node
}

// c17walk checks: connected, acyclic, symmetric adjacency, branch i of a node joins it with its
// i-th neighbour and is the same object seen from both ends, every branch points away from the
// root, the node/branch/tip enumerations agree, and the Newick text describes the walked structure.
// level 0: structure only; 1: + the Newick text describes the walked structure; 2: + Nodes()/Edges()/Tips() agree.
func c17walk(t *tree.Tree, level int) (*c17shape, string) {
	root := t.Root()
	if root == nil {
		return nil, "nil root"
	}
	sh := &c17shape{left: map[*tree.Edge]*tree.Node{}, right: map[*tree.Edge]*tree.Node{}}
	visited := map[*tree.Node]bool{}
	var bad string
	var rec func(n, parent *tree.Node)
	rec = func(n, parent *tree.Node) {
		if bad != "" {
			return
		}
		visited[n] = true
		sh.nodes++
		neigh, edges := n.Neigh(), n.Edges()
		if len(neigh) != len(edges) {
			bad = fmt.Sprintf("node %q has %d neighbours and %d branches", n.Name(), len(neigh), len(edges))
			return
		}
		if len(neigh) == 1 {
			sh.tips++
		}
		nparent := 0
		for i, nb := range neigh {
			e := edges[i]
			if nb == nil || e == nil {
				bad = fmt.Sprintf("node %q: nil neighbour or branch at %d", n.Name(), i)
				return
			}
			if !((e.Left() == n && e.Right() == nb) || (e.Left() == nb && e.Right() == n)) {
				bad = fmt.Sprintf("branch %d of node %q does not join it with its neighbour %d (%q)", i, n.Name(), i, nb.Name())
				return
			}
			back := -1
			for j, x := range nb.Neigh() {
				if x == n {
					if back >= 0 {
						bad = fmt.Sprintf("node %q lists neighbour %q twice", nb.Name(), n.Name())
						return
					}
					back = j
				}
			}
			if back < 0 {
				bad = fmt.Sprintf("adjacency not symmetric: %q lists %q but not the reverse", n.Name(), nb.Name())
				return
			}
			if back >= len(nb.Edges()) || nb.Edges()[back] != e {
				bad = fmt.Sprintf("branch between %q and %q is not the same object seen from both ends", n.Name(), nb.Name())
				return
			}
			if nb == parent {
				nparent++
				continue
			}
			if visited[nb] {
				bad = fmt.Sprintf("cycle: node %q reached twice", nb.Name())
				return
			}
			if e.Left() != n {
				bad = fmt.Sprintf("branch between %q and %q points towards the root", n.Name(), nb.Name())
				return
			}
			sh.edges = append(sh.edges, e)
			sh.left[e], sh.right[e] = e.Left(), e.Right()
			rec(nb, n)
			if bad != "" {
				return
			}
		}
		if parent != nil && nparent != 1 {
			bad = fmt.Sprintf("node %q lists its parent %d times", n.Name(), nparent)
		}
	}
	rec(root, nil)
	if bad != "" {
		return nil, bad
	}
	if level >= 2 {
		// gotree's enumerations allocate room for 2000 entries each: only asked for where the structure is new
		if k := len(t.Nodes()); k != sh.nodes {
			return nil, fmt.Sprintf("Nodes() lists %d nodes, the walk visits %d", k, sh.nodes)
		}
		if k := len(t.Edges()); k != sh.nodes-1 {
			return nil, fmt.Sprintf("Edges() lists %d branches for %d nodes", k, sh.nodes)
		}
		if k := len(t.Tips()); k != sh.tips {
			return nil, fmt.Sprintf("Tips() lists %d tips, the walk finds %d", k, sh.tips)
		}
	}
	if level < 1 {
		return sh, ""
	}
	o, err := observe(t)
	if err != nil {
		return nil, err.Error()
	}
	txt := t.Newick()
	m, err := rm.ParseNewick(txt)
	if err != nil {
		return nil, fmt.Sprintf("text %q unreadable: %v", txt, err)
	}
	if d := sameModel(o, m, false); d != "" { // the trees of this check carry no comments (text identity covers them anyway)
		return nil, fmt.Sprintf("text %q does not describe the walked structure: %s", txt, d)
	}
	return sh, ""
}

func c17sameInfo(a, b rm.BranchInfo) bool {
	return a.HasLen == b.HasLen && rm.SameFloat(a.Len, b.Len) && a.HasSup == b.HasSup && rm.SameFloat(a.Sup, b.Sup) &&
		a.N == b.N && a.Root == b.Root && a.Tip == b.Tip
}

func c17sortedSplits(m map[rm.Split]rm.BranchInfo) []rm.Split {
	out := make([]rm.Split, 0, len(m))
	for s := range m {
		out = append(out, s)
	}
	sort.Slice(out, func(i, j int) bool { return out[i] < out[j] })
	return out
}

// c17diff compares the split map of a neighbour with the one of the original tree.
// Returns the bipartitions only in the original, only in the neighbour, and the first
// common bipartition whose branch data differ (ok=false).
func c17diff(sm0, sm1 map[rm.Split]rm.BranchInfo) (removed, added []rm.Split, changed rm.Split, ok bool) {
	ok = true
	for _, s := range c17sortedSplits(sm0) {
		b1, in := sm1[s]
		if !in {
			removed = append(removed, s)
		} else if ok && !c17sameInfo(sm0[s], b1) {
			changed, ok = s, false
		}
	}
	for _, s := range c17sortedSplits(sm1) {
		if _, in := sm0[s]; !in {
			added = append(added, s)
		}
	}
	return
}

func c17sameStrings(a, b []string) bool {
	if len(a) != len(b) {
		return false
	}
	for i := range a {
		if a[i] != b[i] {
			return false
		}
	}
	return true
}

// ---- the check of one presented tree ---------------------------------------------------

func c17check(cs c17case) *c17result {
	if cs.Kind == "cli" {
		return c17cli(cs)
	}
	res := &c17result{cnt: map[string]int64{}}
	M, err := rm.ParseNewick(cs.Model)
	if err != nil {
		res.engine = fmt.Sprintf("cannot re-read model %q: %v", cs.Model, err)
		return res
	}
	rear := &tree.NNIRearranger{}
	r := guard(func() {
		// 1. presentation
		var t *tree.Tree
		switch cs.Kind {
		case "parse", "reroot":
			t, err = gtParse(cs.Model)
			if err != nil {
				res.engine = fmt.Sprintf("gotree cannot parse %q: %v", cs.Model, err)
				return
			}
			if cs.Kind == "reroot" {
				var inner []*tree.Node
				for _, n := range t.Nodes() {
					if n.Nneigh() > 1 {
						inner = append(inner, n)
					}
				}
				if cs.Reroot >= len(inner) {
					res.engine = "reroot index out of range"
					return
				}
				if err := t.Reroot(inner[cs.Reroot]); err != nil {
					res.precond = "Reroot failed: " + err.Error()
					return
				}
			}
		case "reuse":
			// one rearranger object, used on the tree, then the tree is edited (a tip is grafted in the middle of a
			// branch), then the same rearranger enumerates the edited tree
			t, err = gtParse(cs.Model)
			if err != nil {
				res.engine = fmt.Sprintf("gotree cannot parse %q: %v", cs.Model, err)
				return
			}
			rear.Rearrange(t, func(re tree.Rearrangement) bool { return true })
			edges := t.Edges()
			nn := t.NewNode()
			nn.SetName("zz")
			if _, _, _, e := t.GraftTipOnEdge(nn, edges[cs.Reroot%len(edges)]); e != nil {
				res.precond = "GraftTipOnEdge failed: " + e.Error()
				return
			}
			if e := t.ReinitIndexes(); e != nil {
				res.precond = "ReinitIndexes failed: " + e.Error()
				return
			}
		case "build":
			t = c17build(M, cs.PPos)
		default:
			res.engine = "unknown presentation " + cs.Kind
			return
		}
		sh0, bad := c17walk(t, 2)
		if bad != "" {
			if cs.Kind == "reroot" || cs.Kind == "reuse" {
				res.precond = "tree malformed after " + cs.Kind + ": " + bad
			} else {
				res.engine = "presented tree malformed before any NNI: " + bad
			}
			return
		}
		o0, _ := observe(t)
		sm0, names := o0.SplitMap()
		if cs.Kind == "reroot" {
			smM, _ := M.SplitMap()
			rem, add, _, ok := c17diff(smM, sm0)
			if len(rem) > 0 || len(add) > 0 || !ok {
				res.precond = "Reroot changed the unrooted tree"
				return
			}
		} else if cs.Kind == "reuse" {
			// the edited tree is its own model
		} else if d := sameModel(M, o0, true); d != "" {
			res.engine = "presented tree differs from the model: " + d
			return
		}
		// 2. expectations from the model
		brs, _, uncovered := rm.C17Eligible(o0)
		feat := "/unrooted"
		if o0.Rooted() {
			feat = "/rooted"
			res.cnt["rooted_cases"]++
			if uncovered > 0 {
				res.cnt["rooted_cases_with_root_split_not_proposed"]++
			}
		} else {
			res.cnt["unrooted_cases"]++
			if uncovered > 0 {
				res.engine = "model: unrooted binary tree with an inner branch that is not eligible"
				return
			}
		}
		if cs.Kind == "reuse" {
			res.cnt["reuse_cases"]++
		}
		alts := map[rm.Split][2]rm.Split{}
		for _, b := range brs {
			alts[b.Split] = b.Alts
		}
		expect := 2 * len(brs)
		res.nontriv = expect > 0
		text0 := t.Newick()
		canon0 := o0.CanonUnrooted()
		proposals := map[rm.Split][]rm.Split{}
		var canons []string
		k := 0
		fail := func(key, what string) bool {
			res.key, res.what = key+feat, fmt.Sprintf("tree %q (%s), proposal #%d: %s", text0, cs.Kind, k, what)
			return false
		}
		// 3. the real enumeration; apply / undo in enumeration order
		step := func(re tree.Rearrangement) bool {
			k++
			if k > expect+4 {
				return fail("C17/count/too-many", fmt.Sprintf("more than %d proposals for %d branches with three neighbours at both ends", expect, len(brs)))
			}
			before := t.Newick()
			if before != text0 {
				return fail("C17/enumeration/text-changed", fmt.Sprintf("text is %q when the proposal is handed out", before))
			}
			// --- Apply
			if err := re.Apply(); err != nil {
				return fail("C17/apply/error", err.Error())
			}
			res.cnt["applied"]++
			sh1, bad := c17walk(t, 2)
			if bad != "" {
				return fail("C17/apply/malformed", "after Apply: "+bad)
			}
			for _, e := range sh1.edges {
				if l, ok := sh0.left[e]; ok && l == sh1.right[e] && sh0.right[e] == sh1.left[e] {
					res.cnt["applied_with_branch_reoriented"]++
					break
				}
			}
			o1, _ := observe(t)
			applied := t.Newick()
			sm1, names1 := o1.SplitMap()
			if !c17sameStrings(names, names1) {
				return fail("C17/apply/tips", fmt.Sprintf("tips %v became %v (%q)", names, names1, applied))
			}
			res.cnt["tipset_checked"]++
			removed, added, changed, same := c17diff(sm0, sm1)
			if len(removed) == 0 && len(added) == 0 {
				return fail("C17/apply/no-change", fmt.Sprintf("the neighbour %q has the split set of the original", applied))
			}
			if len(removed) != 1 || len(added) != 1 {
				return fail("C17/apply/not-one-split", fmt.Sprintf("neighbour %q: splits lost %v, gained %v (expected one each)", applied, removed, added))
			}
			al, eligible := alts[removed[0]]
			if !eligible {
				return fail("C17/apply/wrong-branch", fmt.Sprintf("neighbour %q replaced split %v which no branch with three neighbours at both ends carries", applied, removed[0].Names(names)))
			}
			if added[0] != al[0] && added[0] != al[1] {
				return fail("C17/apply/not-an-nni", fmt.Sprintf("neighbour %q: new split %v is not one of the two alternatives of %v", applied, added[0].Names(names), removed[0].Names(names)))
			}
			if !same {
				return fail("C17/apply/other-branch-changed", fmt.Sprintf("neighbour %q: branch %v has %+v, had %+v", applied, changed.Names(names), sm1[changed], sm0[changed]))
			}
			res.cnt["one_split_diff_checked"]++
			proposals[removed[0]] = append(proposals[removed[0]], added[0])
			canons = append(canons, o1.CanonUnrooted())
			// --- Undo
			if err := re.Undo(); err != nil {
				return fail("C17/undo/error", err.Error())
			}
			after := t.Newick()
			if after != before {
				return fail("C17/undo/text", fmt.Sprintf("after Undo %q, before Apply %q (neighbour %q)", after, before, applied))
			}
			sh2, bad := c17walk(t, 0) // the text is identical to a text already validated against the structure
			if bad != "" {
				return fail("C17/undo/malformed", "after Undo: "+bad)
			}
			o2, _ := observe(t)
			if d := sameModel(o0, o2, true); d != "" {
				return fail("C17/undo/api-differs", "walk after Undo differs from the original: "+d)
			}
			if len(sh2.edges) != len(sh0.edges) {
				return fail("C17/undo/malformed", "number of branches differs from the original")
			}
			for i, e := range sh2.edges {
				// same branch objects in the same places, joining the same nodes in the same direction
				if sh0.edges[i] != e || sh0.left[e] != sh2.left[e] || sh0.right[e] != sh2.right[e] {
					return fail("C17/undo/malformed", "a branch object sits elsewhere or joins other nodes than before Apply although the text is identical")
				}
			}
			res.cnt["undone"]++
			// --- the same proposal once more on the restored tree
			if err := re.Apply(); err != nil {
				return fail("C17/reapply/error", err.Error())
			}
			if again := t.Newick(); again != applied {
				return fail("C17/reapply/differs", fmt.Sprintf("second Apply gives %q, first gave %q", again, applied))
			}
			if _, bad := c17walk(t, 0); bad != "" {
				return fail("C17/reapply/malformed", "after second Apply: "+bad)
			}
			if err := re.Undo(); err != nil {
				return fail("C17/reapply/error", err.Error())
			}
			if after := t.Newick(); after != before {
				return fail("C17/reapply/undo-text", fmt.Sprintf("after second Undo %q, before %q", after, before))
			}
			if _, bad := c17walk(t, 0); bad != "" {
				return fail("C17/reapply/malformed", "after second Undo: "+bad)
			}
			res.cnt["reapplied"]++
			return true
		}
		if cs.Collect {
			// the proposals are collected first and applied / undone afterwards, in enumeration order
			var all []tree.Rearrangement
			rear.Rearrange(t, func(re tree.Rearrangement) bool {
				all = append(all, re)
				return len(all) <= expect+4
			})
			res.cnt["collected_enumerations"]++
			for _, re := range all {
				if !step(re) {
					break
				}
			}
		} else {
			rear.Rearrange(t, step)
		}
		if res.key != "" {
			return
		}
		k++ // "proposal" number used in messages below is past the end
		// 4. after the full enumeration
		res.cnt["full_enumerations"]++
		res.cnt["proposals"] += int64(len(canons))
		if final := t.Newick(); final != text0 {
			fail("C17/enumeration/text-changed", fmt.Sprintf("after the full enumeration the text is %q", final))
			return
		}
		if _, bad := c17walk(t, 2); bad != "" {
			fail("C17/enumeration/malformed", "after the full enumeration: "+bad)
			return
		}
		if len(canons) != expect {
			key := "C17/count/too-few"
			if len(canons) > expect {
				key = "C17/count/too-many"
			}
			fail(key, fmt.Sprintf("%d proposals, expected %d = 2 x %d branches whose both ends have three neighbours", len(canons), expect, len(brs)))
			return
		}
		for _, b := range brs {
			p := proposals[b.Split]
			if len(p) != 2 {
				fail("C17/count/per-branch", fmt.Sprintf("%d proposals for branch %v, expected 2", len(p), b.Split.Names(names)))
				return
			}
			if p[0] == p[1] {
				fail("C17/neighbours/duplicate", fmt.Sprintf("both proposals for branch %v give %v", b.Split.Names(names), p[0].Names(names)))
				return
			}
			res.cnt["branches_with_two_proposals"]++
		}
		for i := range canons {
			if canons[i] == canon0 {
				fail("C17/neighbours/equals-original", fmt.Sprintf("proposal %d is the original tree", i+1))
				return
			}
			for j := i + 1; j < len(canons); j++ {
				res.cnt["neighbour_pairs_compared"]++
				if canons[i] == canons[j] {
					fail("C17/neighbours/duplicate", fmt.Sprintf("proposals %d and %d are the same tree %s", i+1, j+1, canons[i]))
					return
				}
			}
		}
		sorted := append([]string(nil), canons...)
		sort.Strings(sorted)
		if !c17sameStrings(sorted, rm.C17Neighbourhood(o0)) {
			fail("C17/neighbours/incomplete", "the set of neighbours is not the model's NNI neighbourhood")
			return
		}
		res.outcome = fmt.Sprintf("%s %d %s", feat, len(canons), strings.Join(sorted, ";"))
	})
	if crashed(r) {
		res.key, res.what = "C17/crash/"+crashSite(r), fmt.Sprintf("tree %q (%s): %s", cs.Model, cs.Kind, verdictStr(r))
	}
	return res
}

// c17cli: `gotree nni -i in -o out` writes exactly the model's neighbourhood, one tree per line.
func c17cli(cs c17case) *c17result {
	res := &c17result{cnt: map[string]int64{}}
	M, err := rm.ParseNewick(cs.Model)
	if err != nil {
		res.engine = fmt.Sprintf("cannot re-read model %q: %v", cs.Model, err)
		return res
	}
	feat := "/unrooted"
	if M.Rooted() {
		feat = "/rooted"
	}
	fail := func(key, what string) *c17result {
		res.key, res.what = key+feat, fmt.Sprintf("gotree nni on %q: %s", cs.Model, what)
		return res
	}
	out, r := cliExec(mcrt.Config{}, []string{"nni", "-i", "@/in.nw", "-o", "@/out.nw"}, "", map[string]string{"in.nw": cs.Model + "\n"}, []string{"@/out.nw"})
	if crashed(r) {
		return fail("C17/cli/crash/"+crashSite(r), verdictStr(r))
	}
	if out.Err != "" {
		return fail("C17/cli/error", out.Err)
	}
	expect := rm.C17Neighbourhood(M)
	res.nontriv = len(expect) > 0
	sm0, names := M.SplitMap()
	var lines []string
	for _, l := range strings.Split(out.Files["@/out.nw"], "\n") {
		if strings.TrimSpace(l) != "" {
			lines = append(lines, l)
		}
	}
	if len(lines) != len(expect) {
		return fail("C17/cli/count", fmt.Sprintf("%d trees written, expected %d", len(lines), len(expect)))
	}
	var canons []string
	for _, l := range lines {
		o, err := rm.ParseNewick(l)
		if err != nil {
			return fail("C17/cli/unreadable", fmt.Sprintf("line %q: %v", l, err))
		}
		sm1, names1 := o.SplitMap()
		if !c17sameStrings(names, names1) {
			return fail("C17/cli/tips", fmt.Sprintf("line %q has tips %v", l, names1))
		}
		removed, added, changed, same := c17diff(sm0, sm1)
		if len(removed) != 1 || len(added) != 1 {
			return fail("C17/cli/not-one-split", fmt.Sprintf("line %q: splits lost %v, gained %v", l, removed, added))
		}
		if !same {
			return fail("C17/cli/other-branch-changed", fmt.Sprintf("line %q: branch %v has %+v, had %+v", l, changed.Names(names), sm1[changed], sm0[changed]))
		}
		canons = append(canons, o.CanonUnrooted())
	}
	sort.Strings(canons)
	if !c17sameStrings(canons, expect) {
		return fail("C17/cli/neighbourhood", fmt.Sprintf("the %d trees written are not the model's NNI neighbourhood (duplicates or wrong trees)", len(lines)))
	}
	res.cnt["cli_runs"]++
	res.cnt["cli_neighbours"] += int64(len(lines))
	res.outcome = fmt.Sprintf("cli%s %d %s", feat, len(canons), strings.Join(canons, ";"))
	return res
}

// ---- enumeration -----------------------------------------------------------------------

// c17topologies calls f with every labelled binary tree on the labels in every root position:
// unrooted with each inner node as pseudo-root (via the model's re-rooting) and rooted on each
// branch. base is true for the enumerator's own presentation of an unrooted tree (the one from
// which gotree's Reroot is exercised).
func c17topologies(labels []string, f func(m *rm.Tree, rooted, base bool)) {
	for _, u := range enum.Unrooted(labels, true) {
		for i, x := range rm.C17InnerNodes(u) {
			f(rm.C17Reroot(u, x), false, i == 0)
		}
	}
	for _, r := range enum.RootedTrees(labels, true) {
		f(r, true, false)
	}
}

func c17enumerate(quick bool, stop func() bool, visit func(cs c17case)) {
	fullN, cliN := 5, 5
	if !quick {
		fullN, cliN = 6, 6
	}
	for n := 4; n <= 7; n++ {
		labels := enum.Labels(n, "")
		c17topologies(labels, func(top *rm.Tree, rooted, base bool) {
			if stop() {
				return
			}
			ninner := len(rm.C17InnerNodes(top)) - 1 // non-root inner nodes
			emit := func(o *rm.Tree, d int, full bool, from int) {
				m := o.Clone()
				c17decorate(m, d)
				txt := m.Newick()
				visit(c17case{Model: txt, Kind: "parse"})
				visit(c17case{Model: txt, Kind: "parse", Collect: true})
				if full {
					pp := make([]int, ninner)
					var rec func(i int)
					rec = func(i int) {
						if i == ninner {
							visit(c17case{Model: txt, Kind: "build", PPos: append([]int(nil), pp...)})
							return
						}
						for v := 0; v < 3; v++ {
							pp[i] = v
							rec(i + 1)
						}
					}
					rec(0)
				} else {
					for v := from; v < 3; v++ {
						pp := make([]int, ninner)
						for i := range pp {
							pp[i] = v
						}
						visit(c17case{Model: txt, Kind: "build", PPos: pp})
					}
				}
				if base && d == 0 {
					// the same rearranger object before and after an edit of the tree (graft on each of the first branches)
					for j := 0; j < 3; j++ {
						visit(c17case{Model: txt, Kind: "reuse", Reroot: j})
					}
				}
				if base {
					// gotree's own Reroot from this presentation to every inner node
					for j := 0; j <= ninner; j++ {
						visit(c17case{Model: txt, Kind: "reroot", Reroot: j})
					}
				}
			}
			if quick && n == 7 {
				// quick tier at 7 taxa: lengths+supports only, reader presentation (+ gotree's Reroot from the base presentation)
				emit(top, 0, false, 3)
				return
			}
			for d := 0; d < 4; d++ {
				if d == 0 && n <= fullN {
					c17orders(top, func(o *rm.Tree) { emit(o, 0, true, 0) })
					continue
				}
				emit(top, d, false, 0)
				mir := top.Clone()
				c17mirror(mir)
				emit(mir, d, false, 0)
			}
			if n <= cliN {
				for d := 0; d < 2; d++ {
					m := top.Clone()
					c17decorate(m, d)
					visit(c17case{Model: m.Newick(), Kind: "cli"})
					if d == 1 {
						// labels and comments with characters that mean something to a formatter or a shell
						for i, tp := range m.Tips() {
							tp.Name = []string{"GC_50%", "f%20g", "a%sb", "x%d", "p|q", "é"}[i%6] + fmt.Sprint(i)
						}
						visit(c17case{Model: m.Newick(), Kind: "cli"})
					}
				}
			}
		})
	}
}

// c17large: a few structured instances beyond the exhaustive bound (plain executions, "whatever the size").
func c17large() []c17case {
	var out []c17case
	tip := func(i int) *rm.Node { return &rm.Node{Name: fmt.Sprintf("t%02d", i)} }
	// caterpillar on n tips
	cat := func(n int) *rm.Node {
		cur := &rm.Node{Children: []*rm.Node{tip(0), tip(1)}}
		for i := 2; i < n; i++ {
			cur = &rm.Node{Children: []*rm.Node{cur, tip(i)}}
		}
		return cur
	}
	var bal func(lo, hi int) *rm.Node
	bal = func(lo, hi int) *rm.Node {
		if hi-lo == 1 {
			return tip(lo)
		}
		mid := (lo + hi) / 2
		return &rm.Node{Children: []*rm.Node{bal(lo, mid), bal(mid, hi)}}
	}
	for _, r := range []*rm.Node{cat(33), bal(0, 32)} {
		rooted := &rm.Tree{Root: r}
		// unrooted presentation: the first inner child of the root is dissolved into the root
		u := rooted.Clone()
		for i, c := range u.Root.Children {
			if !c.IsTip() {
				kids := append([]*rm.Node(nil), u.Root.Children[:i]...)
				kids = append(kids, c.Children...)
				kids = append(kids, u.Root.Children[i+1:]...)
				u.Root.Children = kids
				break
			}
		}
		for _, m := range []*rm.Tree{rooted, u} {
			c17decorate(m, 0)
			out = append(out, c17case{Model: m.Newick(), Kind: "parse"})
		}
	}
	return out
}

func init() {
	register(&Prop{
		ID: "C17",
		Rule: "every labelled binary tree on 4..7 taxa, unrooted with every inner node as pseudo-root (model re-rooting) and rooted on every branch; " +
			"decorations: distinct dyadic lengths i/8 on all branches + distinct supports on inner branches | named inner nodes with every second length absent | bare " +
			"(quick tier at 7 taxa: first decoration, reader and Reroot presentations only); " +
			"presentations: text through gotree's reader, public constructors with the parent at position 0/1/2 of every inner node's neighbour list, gotree's own Reroot from the base presentation to every inner node; " +
			"child orders: all orderings of all inner nodes x all parent positions independently per node for <= 5 (quick) / 6 (thorough) taxa, identity and mirror image above; " +
			"executed: NNIRearranger.Rearrange with a callback doing Apply, Undo, Apply, Undo on every proposal in enumeration order; `gotree nni` on every tree up to 5 / 6 taxa; " +
			"oracle on the reference model (split sets by definition, alternatives of AB|CD are AC|BD and AD|BC, C03 walk through the public API); " +
			"plus 4 large instances (caterpillar 33 tips, balanced 32 tips, rooted and unrooted; plain executions, not exhaustive); " +
			"non-trivial = presented tree with at least one branch whose both ends have three neighbours (distinct text x presentation)",
		Assumptions: []string{
			"reference Newick reader (refmodel) implements the writer's grammar",
			"for rooted trees the inner branches are those whose both ends have three neighbours (DESIGN §4): the root split of a rooted tree with two inner root children gets no proposal and none is demanded",
			"gotree's Reroot is only used to produce further presentations; a presentation that is malformed before any NNI is counted (precondition_failed) and not judged",
		},
		Require: []string{"proposals", "applied", "undone", "reapplied", "full_enumerations", "collected_enumerations", "reuse_cases", "tipset_checked", "one_split_diff_checked", "branches_with_two_proposals",
			"neighbour_pairs_compared", "rooted_cases", "unrooted_cases", "rooted_cases_with_root_split_not_proposed", "applied_with_branch_reoriented",
			"cli_runs", "cli_neighbours", "presentation_parse", "presentation_build", "presentation_reroot", "large_instances"},
		Run: func(c *Ctx) {
			defer cliCleanup()
			one := func(cs c17case, large bool) {
				if !c.Mine() {
					return
				}
				if large {
					c.Count("large_instances", 1)
				}
				var res *c17result
				c.Check(cs, func() (string, string) {
					r := c17check(cs)
					if res == nil {
						res = r
					}
					return r.key, r.what
				})
				if res.engine != "" {
					c.EngineError(res.engine)
					return
				}
				if res.precond != "" {
					c.Count("precondition_failed", 1)
					c.Note("precondition_failed_example", fmt.Sprintf("%s %q reroot=%d: %s", cs.Kind, cs.Model, cs.Reroot, res.precond))
					return
				}
				c.States++
				c.Count("presentation_"+cs.Kind, 1)
				for k, v := range res.cnt {
					c.Count(k, v)
				}
				c.Transitions += 4 * res.cnt["applied"] // Apply, Undo, Apply, Undo
				c.Transitions += res.cnt["cli_neighbours"]
				if res.nontriv {
					c.Nontrivial(cs.Kind + fmt.Sprint(cs.PPos, cs.Reroot) + cs.Model)
				}
				if res.outcome != "" {
					c.Outcome(res.outcome)
				}
				if !large {
					c.Sample(cs)
				}
			}
			c17enumerate(c.Quick(), c.TimeUp, func(cs c17case) { one(cs, false) })
			// beyond the bound, not exhaustive: caterpillar (33 tips) and balanced (32 tips), rooted and unrooted
			for _, cs := range c17large() {
				one(cs, true)
			}
		},
		Replay: func(c *Ctx, raw json.RawMessage) {
			defer cliCleanup()
			var cs c17case
			if err := json.Unmarshal(raw, &cs); err != nil {
				fmt.Println("cannot decode case:", err)
				return
			}
			r := c17check(cs)
			fmt.Printf("case: %+v\nresult: key=%q %s engine=%q precondition=%q counters=%v\n", cs, r.key, r.what, r.engine, r.precond, r.cnt)
			if r.key != "" {
				c.Violate(r.key, r.what, cs)
			}
		},
	})
}

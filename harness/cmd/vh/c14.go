package main

import (
	"encoding/json"
	"errors"
	"fmt"
	"math"
	"os"
	"path/filepath"
	"sort"
	"strconv"
	"strings"

	gcmd "github.com/evolbioinfo/gotree/cmd"
	"github.com/evolbioinfo/gotree/mcrt"
	"github.com/evolbioinfo/gotree/tree"

	"verif/harness/enum"
	rm "verif/harness/refmodel"
)

// C14: distance matrices (three metrics), average matrix, length-threshold clusters.
//
// Reference side (independent of gotree, definitions only):
//   * a branch lies on the path joining two tips iff it separates them, i.e. exactly one of
//     the two tips is below it (tip sets below branches, no walk, no LCA);
//   * weight of a branch: its length (absent = 0, documented by `gotree matrix`), 1, or its
//     support (absent = 1, documented by `gotree matrix`: "If there is no support for a given
//     branch (e.g. for a tip), 1.0 is the default");
//   * rows/columns in sorted (byte-wise) tip-name order;
//   * average = entrywise sum of the K matrices divided by K;
//   * cut: union-find over the nodes, two ends of a branch joined iff length < threshold
//     (absent = 0 and only used with threshold > 0), groups = classes of tips.

// ---- replayable description of a model tree (Newick cannot carry a support on a tip branch) ----

type c14jn struct {
	N string   `json:"n,omitempty"`
	L *float64 `json:"l,omitempty"`
	S *float64 `json:"s,omitempty"`
	C []*c14jn `json:"c,omitempty"`
}

func c14enc(n *rm.Node) *c14jn {
	j := &c14jn{N: n.Name}
	if n.HasLen {
		v := n.Len
		j.L = &v
	}
	if n.HasSup {
		v := n.Sup
		j.S = &v
	}
	for _, c := range n.Children {
		j.C = append(j.C, c14enc(c))
	}
	return j
}

func c14dec(j *c14jn) *rm.Node {
	n := &rm.Node{Name: j.N}
	if j.L != nil {
		n.HasLen, n.Len = true, *j.L
	}
	if j.S != nil {
		n.HasSup, n.Sup = true, *j.S
	}
	for _, c := range j.C {
		n.Children = append(n.Children, c14dec(c))
	}
	return n
}

type c14case struct {
	Op    string   `json:"op"` // matrix | cut | avg | cli-matrix | cli-avg | cli-cut
	Trees []*c14jn `json:"trees"`
	Text  []string `json:"text"` // human readable (Newick + tip supports)
	Thr   []string `json:"thresholds,omitempty"`
	Close bool     `json:"tolerance,omitempty"` // non-dyadic values: relative tolerance 1e-9 on sums
	Parse bool     `json:"parsed,omitempty"`    // tree objects come from gotree's Newick parser instead of the public constructors
}

// c14make: the gotree object of a model tree, through the constructors or through the Newick parser.
func c14make(m *rm.Tree, parse bool) *tree.Tree {
	if parse {
		for _, tp := range m.Tips() {
			if tp.HasSup {
				panic("harness: a support on a tip branch cannot be written in Newick")
			}
		}
		return gtMustParse(m.Newick())
	}
	return build(m)
}

// c14text: Newick of the model, tip-branch supports (not expressible in Newick) appended.
func c14text(m *rm.Tree) string {
	s := m.Newick()
	var ts []string
	for _, tp := range m.Tips() {
		if tp.HasSup {
			ts = append(ts, tp.Name+"="+rm.FormatFloat(tp.Sup))
		}
	}
	if len(ts) > 0 {
		s += " {tip-branch supports set through Edge.SetSupport: " + strings.Join(ts, ",") + "}"
	}
	return s
}

func c14mkcase(op string, ms []*rm.Tree, thr []float64, cl, parse bool) c14case {
	cs := c14case{Op: op, Close: cl, Parse: parse}
	for _, m := range ms {
		cs.Trees = append(cs.Trees, c14enc(m.Root))
		cs.Text = append(cs.Text, c14text(m))
	}
	for _, t := range thr {
		cs.Thr = append(cs.Thr, strconv.FormatFloat(t, 'g', -1, 64))
	}
	return cs
}

// ---- oracle ----------------------------------------------------------------------------------

var c14metricName = [3]string{"brlen", "none", "boot"}                                                      // indexed by rm.MetricLen, MetricTopo, MetricSup
var c14gtMetric = [3]int{tree.DISTANCE_METRIC_BRLEN, tree.DISTANCE_METRIC_NONE, tree.DISTANCE_METRIC_BOOTS} // same index

func c14weight(nd *rm.Node, metric int) (w float64, absent bool) {
	switch metric {
	case rm.MetricLen:
		if nd.HasLen {
			return nd.Len, false
		}
		return 0, true
	case rm.MetricTopo:
		return 1, false
	default:
		if nd.HasSup {
			return nd.Sup, false
		}
		return 1, true
	}
}

type c14oracleT struct {
	names  []string
	d      [][]float64
	absent [][]bool // some branch of the path has no value for the metric
}

// c14oracle: d[i][j] = sum of the weights of the branches separating tip i from tip j (<= 64 tips).
func c14oracle(m *rm.Tree, metric int) *c14oracleT {
	names := m.TipNames()
	idx := rm.TipIndex(names)
	below := m.Below(idx)
	n := len(names)
	o := &c14oracleT{names: names, d: make([][]float64, n), absent: make([][]bool, n)}
	for i := range o.d {
		o.d[i] = make([]float64, n)
		o.absent[i] = make([]bool, n)
	}
	m.Walk(func(nd, p *rm.Node) {
		if p == nil {
			return
		}
		w, abs := c14weight(nd, metric)
		b := below[nd]
		for i := 0; i < n; i++ {
			for j := 0; j < n; j++ {
				if (b>>uint(i))&1 != (b>>uint(j))&1 {
					o.d[i][j] += w
					if abs {
						o.absent[i][j] = true
					}
				}
			}
		}
	})
	return o
}

// c14groups: classes of tips connected by branches with length < thr (absent = 0). Sorted list of sorted "a,b,c".
func c14groups(m *rm.Tree, thr float64) []string {
	parent := map[*rm.Node]*rm.Node{}
	var find func(x *rm.Node) *rm.Node
	find = func(x *rm.Node) *rm.Node {
		for parent[x] != x {
			x = parent[x]
		}
		return x
	}
	m.Walk(func(nd, _ *rm.Node) { parent[nd] = nd })
	m.Walk(func(nd, p *rm.Node) {
		if p == nil {
			return
		}
		l := 0.0
		if nd.HasLen {
			l = nd.Len
		}
		if l < thr {
			a, b := find(nd), find(p)
			if a != b {
				parent[a] = b
			}
		}
	})
	cls := map[*rm.Node][]string{}
	var reps []*rm.Node
	for _, tp := range m.Tips() {
		r := find(tp)
		if _, ok := cls[r]; !ok {
			reps = append(reps, r)
		}
		cls[r] = append(cls[r], tp.Name)
	}
	var out []string
	for _, r := range reps {
		g := cls[r]
		sort.Strings(g)
		out = append(out, strings.Join(g, ","))
	}
	sort.Strings(out)
	return out
}

func c14eq(a, b float64, cl bool) bool {
	if cl {
		return rm.Close(a, b)
	}
	return a == b
}

// c14cmpMatrix decides shape, row order, diagonal, symmetry and the entries of an observed
// matrix against expected values given in sorted-name order. op = "matrix" | "avg".
func c14cmpMatrix(op, valueClause string, mat [][]float64, tips []*tree.Node, exp [][]float64, absent [][]bool, names []string, cl bool, ctx string) (string, string) {
	n := len(names)
	if len(tips) != n || len(mat) != n {
		return "C14/" + op + "/shape", fmt.Sprintf("%s: %d rows, %d tips returned for %d tips", ctx, len(mat), len(tips), n)
	}
	got := make([]string, n)
	pos := map[string]int{}
	for i, nm := range names {
		pos[nm] = i
	}
	seen := map[string]bool{}
	for i, tp := range tips {
		if len(mat[i]) != n {
			return "C14/" + op + "/shape", fmt.Sprintf("%s: row %d has %d columns for %d tips", ctx, i, len(mat[i]), n)
		}
		if tp == nil {
			return "C14/" + op + "/shape", fmt.Sprintf("%s: nil tip at row %d", ctx, i)
		}
		got[i] = tp.Name()
		if _, ok := pos[got[i]]; !ok || seen[got[i]] {
			return "C14/" + op + "/shape", fmt.Sprintf("%s: returned row labels %q are not the tips %q", ctx, got, names)
		}
		seen[got[i]] = true
	}
	for i := range names {
		if got[i] != names[i] {
			return "C14/" + op + "/row-order", fmt.Sprintf("%s: rows labelled %q, tip-name order is %q", ctx, got, names)
		}
	}
	for i := 0; i < n; i++ {
		if mat[i][i] != 0 {
			return "C14/" + op + "/diagonal", fmt.Sprintf("%s: entry [%s][%s] = %v, expected 0", ctx, names[i], names[i], mat[i][i])
		}
	}
	for i := 0; i < n; i++ {
		for j := 0; j < i; j++ {
			if !c14eq(mat[i][j], mat[j][i], cl) {
				return "C14/" + op + "/symmetry", fmt.Sprintf("%s: [%s][%s] = %v but [%s][%s] = %v", ctx, names[i], names[j], mat[i][j], names[j], names[i], mat[j][i])
			}
		}
	}
	for i := 0; i < n; i++ {
		for j := 0; j < n; j++ {
			if i != j && !c14eq(mat[i][j], exp[i][j], cl) {
				feat := "present"
				if absent != nil && absent[i][j] {
					feat = "absent-value-on-path"
				}
				return "C14/" + op + "/" + valueClause + "/" + feat, fmt.Sprintf("%s: [%s][%s] = %v, reference model %v", ctx, names[i], names[j], mat[i][j], exp[i][j])
			}
		}
	}
	return "", ""
}

// ---- executions on the real code -----------------------------------------------------------------

// c14doMatrix: ToDistanceMatrix with the three metrics on one tree object.
func c14doMatrix(m *rm.Tree, cl, parse bool, obs func(metric int, mat [][]float64)) (string, string) {
	var key, what string
	txt := c14text(m)
	r := guard(func() {
		t := c14make(m, parse)
		for metric := 0; metric < 3; metric++ {
			o := c14oracle(m, metric)
			mat, tips := t.ToDistanceMatrix(c14gtMetric[metric])
			if obs != nil {
				obs(metric, mat)
			}
			key, what = c14cmpMatrix("matrix", "path-sum/"+c14metricName[metric], mat, tips, o.d, o.absent, o.names, cl,
				fmt.Sprintf("ToDistanceMatrix(%s) of %s", c14metricName[metric], txt))
			if key != "" {
				return
			}
		}
	})
	if crashed(r) {
		return "C14/matrix/crash/" + crashSite(r), fmt.Sprintf("ToDistanceMatrix of %s: %s", txt, verdictStr(r))
	}
	return key, what
}

// c14thresholds: every distinct present length, each +-1/8, 0, a negative value, huge, +Inf.
// With an absent length in the tree thresholds <= 0 are don't-care (DESIGN section 4) and left out.
func c14thresholds(m *rm.Tree) (thr []float64, ties int) {
	set := map[float64]bool{}
	hasAbsent := false
	lens := map[float64]bool{}
	m.Walk(func(nd, p *rm.Node) {
		if p == nil {
			return
		}
		if !nd.HasLen {
			hasAbsent = true
			return
		}
		lens[nd.Len] = true
		set[nd.Len] = true
		set[nd.Len-0.125] = true
		set[nd.Len+0.125] = true
	})
	set[0] = true
	set[-0.5] = true
	set[1e9] = true
	set[math.Inf(1)] = true
	for v := range set {
		if hasAbsent && v <= 0 {
			continue
		}
		thr = append(thr, v)
	}
	sort.Float64s(thr)
	for _, v := range thr {
		if lens[v] {
			ties++
		}
	}
	return
}

func c14hasLen(m *rm.Tree, v float64) bool {
	found := false
	m.Walk(func(nd, p *rm.Node) {
		if p != nil && nd.HasLen && nd.Len == v {
			found = true
		}
	})
	return found
}

// c14doCut: CutEdgesMaxLength for every threshold on one tree object.
func c14doCut(m *rm.Tree, thrs []float64, parse bool, obs func(thr float64, groups []string)) (string, string) {
	var key, what string
	txt := c14text(m)
	names := m.TipNames()
	r := guard(func() {
		t := c14make(m, parse)
		for _, thr := range thrs {
			exp := c14groups(m, thr)
			bags, err := t.CutEdgesMaxLength(thr)
			ctx := fmt.Sprintf("CutEdgesMaxLength(%v) of %s", thr, txt)
			if err != nil {
				key, what = "C14/cut/error", fmt.Sprintf("%s: error %v", ctx, err)
				return
			}
			var got []string
			count := map[string]int{}
			for _, b := range bags {
				var g []string
				for _, tp := range b.Tips() {
					g = append(g, tp.Name())
					count[tp.Name()]++
				}
				if b.Size() != len(g) {
					key, what = "C14/cut/bag-size", fmt.Sprintf("%s: bag of size %d lists %d tips", ctx, b.Size(), len(g))
					return
				}
				sort.Strings(g)
				got = append(got, strings.Join(g, ","))
			}
			sort.Strings(got)
			if obs != nil {
				obs(thr, got)
			}
			tot := 0
			for _, nm := range names {
				if count[nm] != 1 {
					key, what = "C14/cut/not-a-partition", fmt.Sprintf("%s: tip %s is in %d groups; groups %q, reference model %q", ctx, nm, count[nm], got, exp)
					return
				}
				tot++
			}
			if tot != len(count) {
				key, what = "C14/cut/not-a-partition", fmt.Sprintf("%s: groups %q contain names that are not tips", ctx, got)
				return
			}
			if strings.Join(got, "|") != strings.Join(exp, "|") {
				feat := "threshold-between-lengths"
				if c14hasLen(m, thr) {
					feat = "threshold-equals-a-length"
				}
				key, what = "C14/cut/groups/"+feat, fmt.Sprintf("%s: groups %q, reference model (branches with length < threshold connect) %q", ctx, got, exp)
				return
			}
		}
	})
	if crashed(r) {
		return "C14/cut/crash/" + crashSite(r), fmt.Sprintf("CutEdgesMaxLength of %s: %s", txt, verdictStr(r))
	}
	return key, what
}

// c14doAvg: AvgDistanceMatrix over a collection, three metrics (a fresh channel and fresh tree objects each).
func c14doAvg(ms []*rm.Tree, cl, parse bool, obs func(metric int, mat [][]float64)) (string, string) {
	var key, what string
	var txts []string
	for _, m := range ms {
		txts = append(txts, c14text(m))
	}
	txt := strings.Join(txts, " ")
	r := guard(func() {
		for metric := 0; metric < 3; metric++ {
			var names []string
			var sum [][]float64
			for k, m := range ms {
				o := c14oracle(m, metric)
				if k == 0 {
					names, sum = o.names, o.d
					continue
				}
				if strings.Join(names, "\x00") != strings.Join(o.names, "\x00") {
					panic("harness: collection not on the same taxa")
				}
				for i := range sum {
					for j := range sum[i] {
						sum[i][j] += o.d[i][j]
					}
				}
			}
			for i := range sum {
				for j := range sum[i] {
					sum[i][j] /= float64(len(ms))
				}
			}
			ts := make([]*tree.Tree, len(ms))
			for k, m := range ms {
				ts[k] = c14make(m, parse)
			}
			mat, tips, err := tree.AvgDistanceMatrix(c14gtMetric[metric], c14feed(ts, nil))
			ctx := fmt.Sprintf("AvgDistanceMatrix(%s) of %d trees %s", c14metricName[metric], len(ms), txt)
			if err != nil {
				key, what = "C14/avg/error", fmt.Sprintf("%s: error %v", ctx, err)
				return
			}
			if obs != nil {
				obs(metric, mat)
			}
			key, what = c14cmpMatrix("avg", "mean/"+c14metricName[metric], mat, tips, sum, nil, names, cl, ctx)
			if key != "" {
				if strings.HasSuffix(key, "/present") {
					key = strings.TrimSuffix(key, "/present")
				}
				return
			}
		}
	})
	if crashed(r) {
		return "C14/avg/crash/" + crashSite(r), fmt.Sprintf("AvgDistanceMatrix of %s: %s", txt, verdictStr(r))
	}
	return key, what
}

// c14feed: closed channel holding the trees; record ids are arbitrary identifiers (7, 4, 12, 9, ...), not a count.
// bad >= 0 inserts an error record (no tree) at that position.
func c14feed(ts []*tree.Tree, bad []int) chan tree.Trees {
	ch := make(chan tree.Trees, len(ts)+len(bad)+1)
	for i, t := range ts {
		for _, b := range bad {
			if b == i {
				mcrt.Send(ch, tree.Trees{Err: errors.New("bad record"), Id: 100 + i})
			}
		}
		mcrt.Send(ch, tree.Trees{Tree: t, Id: 7 + 5*(i/2) - 3*(i%2)})
	}
	mcrt.Close(ch)
	return ch
}

// ---- enumeration -----------------------------------------------------------------------------------

var c14names = []string{"C", "a10", "a2", "aa", "b", "d", "e1", "f"} // sorted byte-wise; "a10" < "a2", "C" < "a..."

// c14scramble: a fixed non-identity assignment of the sorted names to the tips, left to right.
func c14scramble(n int) []int {
	k := 1
	for c := 2; c < n; c++ {
		if c14gcd(c, n) == 1 {
			k = c
			break
		}
	}
	p := make([]int, n)
	for i := range p {
		p[i] = (i*k + n/2) % n
	}
	if n == 3 {
		p = []int{1, 2, 0}
	}
	return p
}

func c14gcd(a, b int) int {
	for b != 0 {
		a, b = b, a%b
	}
	return a
}

func c14tipName(i int) string {
	if i < len(c14names) {
		return c14names[i]
	}
	return fmt.Sprintf("t%04d", i)
}

// c14label names the tips left to right by perm over the sorted name pool.
func c14label(m *rm.Tree, perm []int) {
	for i, tp := range m.Tips() {
		tp.Name = c14tipName(perm[i])
	}
}

// c14branches: non-root nodes in pre-order.
func c14branches(m *rm.Tree) []*rm.Node {
	var out []*rm.Node
	m.Walk(func(nd, p *rm.Node) {
		if p != nil {
			out = append(out, nd)
		}
	})
	return out
}

// c14default: "binary weights": k-th branch gets length 2^k/8, j-th inner branch support 2^-(j+1), tip
// branches no support - every set of branches has its own sum, all sums exact.
func c14default(m *rm.Tree) {
	j := 0
	for k, nd := range c14branches(m) {
		nd.HasLen, nd.Len = true, math.Ldexp(1, k%16-3)
		if !nd.IsTip() {
			nd.HasSup, nd.Sup = true, math.Ldexp(1, -(j%10+1))
			j++
		}
	}
}

var c14lenMenu = []float64{-1, 0, 0.5, 1, 2.5} // -1 = absent
var c14supMenu = []float64{-1, 0.5, 1, 0}      // -1 = absent

func c14setLen(nd *rm.Node, v float64) {
	if v < 0 {
		nd.HasLen, nd.Len = false, 0
	} else {
		nd.HasLen, nd.Len = true, v
	}
}

func c14setSup(nd *rm.Node, v float64) {
	if v < 0 {
		nd.HasSup, nd.Sup = false, 0
	} else {
		nd.HasSup, nd.Sup = true, v
	}
}

func c14sig(mat [][]float64) string {
	var sb strings.Builder
	for _, r := range mat {
		for _, v := range r {
			sb.WriteString(strconv.FormatUint(math.Float64bits(v), 36))
			sb.WriteByte(' ')
		}
	}
	return sb.String()
}

// c14treeCase executes the matrix group and the cut group on one decorated model tree.
func c14treeCase(c *Ctx, m *rm.Tree, fam string, doCut bool, cl bool, parse bool) {
	txt := c14text(m)
	if parse {
		c.Count("trees_from_newick_parser", 1)
	} else {
		c.Count("trees_from_constructors", 1)
	}
	c.States++
	c.Sample(txt)
	c.Count("family_"+fam, 1)
	// classification of the input for the vacuity guards
	if m.Rooted() {
		c.Count("trees_rooted", 1)
	} else {
		c.Count("trees_unrooted", 1)
	}
	multi, absL, zeroL, absS, presS := false, false, false, false, false
	m.Walk(func(nd, p *rm.Node) {
		if len(nd.Children) > 3 || (p != nil && len(nd.Children) > 2) {
			multi = true
		}
		if p == nil {
			return
		}
		if !nd.HasLen {
			absL = true
		} else if nd.Len == 0 {
			zeroL = true
		}
		if nd.HasSup {
			presS = true
		} else {
			absS = true
		}
	})
	if multi {
		c.Count("trees_multifurcating", 1)
	}
	if absL {
		c.Count("trees_with_absent_length", 1)
	}
	if zeroL {
		c.Count("trees_with_zero_length", 1)
	}
	if absS {
		c.Count("trees_with_absent_support", 1)
	}
	if presS {
		c.Count("trees_with_support", 1)
	}
	tips := m.Tips()
	scr := false
	for i := 1; i < len(tips); i++ {
		if tips[i-1].Name > tips[i].Name {
			scr = true
		}
	}
	if scr {
		c.Count("clause_row_order_tips_not_in_name_order", 1)
	}
	nontriv := false
	defer func() {
		if nontriv {
			c.Nontrivial(txt)
		}
	}()
	c.Check(c14mkcase("matrix", []*rm.Tree{m}, nil, cl, parse), func() (string, string) {
		return c14doMatrix(m, cl, parse, func(metric int, mat [][]float64) {
			c.Outcome("m" + c14sig(mat))
			vary := false
			for i := range mat {
				for j := range mat[i] {
					if i != j && mat[i][j] != mat[0][len(mat)-1] {
						vary = true
					}
				}
			}
			if vary {
				nontriv = true
			}
		})
	})
	c.Transitions += 3
	c.Count("clause_path_sum_brlen", 1)
	c.Count("clause_path_sum_none", 1)
	c.Count("clause_path_sum_boot", 1)
	c.Count("clause_symmetry_diagonal", 3)
	if !doCut {
		return
	}
	thrs, ties := c14thresholds(m)
	c.Count("clause_cut_threshold_equals_a_length", int64(ties))
	c.Count("clause_cut_other_thresholds", int64(len(thrs)-ties))
	if absL {
		c.Count("cut_dontcare_thresholds_skipped(absent length, threshold<=0)", 2)
	}
	c.Check(c14mkcase("cut", []*rm.Tree{m}, thrs, false, parse), func() (string, string) {
		return c14doCut(m, thrs, parse, func(thr float64, groups []string) {
			c.Outcome("c" + strings.Join(groups, "|"))
			if len(groups) > 1 && len(groups) < len(tips) {
				nontriv = true
				c.Count("cut_partitions_with_a_proper_group", 1)
			}
		})
	})
	c.Transitions += int64(len(thrs))
}

func c14avgCase(c *Ctx, ms []*rm.Tree, cl bool, parse bool) {
	c.States++
	c.Count("family_avg", 1)
	c.Count(fmt.Sprintf("avg_collections_of_%d", len(ms)), 1)
	if len(ms) > 1 {
		c.Count("clause_avg_mean_of_several_trees", 1)
		a := c14tipOrder(ms[0])
		for _, m := range ms[1:] {
			if c14tipOrder(m) != a {
				c.Count("avg_collections_with_differing_tip_order", 1)
				break
			}
		}
	}
	var first string
	c.Check(c14mkcase("avg", ms, nil, cl, parse), func() (string, string) {
		return c14doAvg(ms, cl, parse, func(metric int, mat [][]float64) {
			s := c14sig(mat)
			c.Outcome("a" + s)
			if metric == 0 {
				first = s
			}
		})
	})
	if len(ms) > 1 {
		// non-trivial: the mean differs from the first tree's own matrix
		o := c14oracle(ms[0], 0)
		if c14sig(o.d) != first {
			var sb strings.Builder
			for _, m := range ms {
				sb.WriteString(c14text(m))
			}
			c.Nontrivial("avg" + sb.String())
		}
	}
	c.Transitions += 3
}

func c14tipOrder(m *rm.Tree) string {
	var s []string
	for _, tp := range m.Tips() {
		s = append(s, tp.Name)
	}
	return strings.Join(s, ",")
}

// c14product enumerates every assignment of menu values to the slots.
func c14product(nslots, menu int, f func(a []int)) {
	enum.Sequences(menu, nslots, f)
}

func c14run(c *Ctx) {
	quick := c.Quick()
	// ---- F1: every assignment of the length menu to the branches (supports: default) ----
	maxFull := 4
	if !quick {
		maxFull = 5
	}
	for n := 2; n <= maxFull; n++ {
		for _, sh := range enum.Shapes(n, "t") {
			if c.TimeUp() {
				return
			}
			nb := len(c14branches(sh))
			menu := len(c14lenMenu)
			if n == 5 {
				menu-- // five tips: {absent,0,1/2,1} only (4^8 instead of 5^8 assignments per binary shape)
			}
			c14product(nb, menu, func(a []int) {
				if !c.Mine() {
					return
				}
				m := sh.Clone()
				c14label(m, c14scramble(n))
				c14default(m)
				for i, nd := range c14branches(m) {
					c14setLen(nd, c14lenMenu[a[i]])
				}
				c14treeCase(c, m, "F1_all_length_assignments", true, false, true)
			})
		}
	}
	// ---- F2: every assignment of the support menu to all branches, tips included (lengths: default) ----
	for n := 2; n <= maxFull; n++ {
		for _, sh := range enum.Shapes(n, "t") {
			if c.TimeUp() {
				return
			}
			nb := len(c14branches(sh))
			c14product(nb, len(c14supMenu), func(a []int) {
				if !c.Mine() {
					return
				}
				m := sh.Clone()
				c14label(m, c14scramble(n))
				c14default(m)
				for i, nd := range c14branches(m) {
					c14setSup(nd, c14supMenu[a[i]])
				}
				c14treeCase(c, m, "F2_all_support_assignments", false, false, false)
			})
		}
	}
	// ---- F3: <= 2 deviations from the binary-weight default, lengths and supports together ----
	maxDev := 5
	if !quick {
		maxDev = 7
	}
	for n := 2; n <= maxDev; n++ {
		dev := 2
		if n == 7 {
			dev = 1
		}
		for _, sh := range enum.Shapes(n, "t") {
			if c.TimeUp() {
				return
			}
			nb := len(c14branches(sh))
			menu := make([]int, 2*nb)
			for i := 0; i < nb; i++ {
				menu[2*i] = 1 + len(c14lenMenu)
				menu[2*i+1] = 1 + len(c14supMenu)
			}
			enum.Deviations(menu, dev, func(a []int) {
				if !c.Mine() {
					return
				}
				m := sh.Clone()
				c14label(m, c14scramble(n))
				c14default(m)
				for i, nd := range c14branches(m) {
					if a[2*i] > 0 {
						c14setLen(nd, c14lenMenu[a[2*i]-1])
					}
					if a[2*i+1] > 0 {
						c14setSup(nd, c14supMenu[a[2*i+1]-1])
					}
				}
				c14treeCase(c, m, "F3_two_deviations", true, false, false)
			})
		}
	}
	// ---- F4: every assignment of the names to the tips (row order), default decoration ----
	maxPerm := 5
	if !quick {
		maxPerm = 6
	}
	for n := 2; n <= maxPerm; n++ {
		for _, sh := range enum.Shapes(n, "t") {
			if c.TimeUp() {
				return
			}
			enum.Permutations(n, func(p []int) {
				if !c.Mine() {
					return
				}
				m := sh.Clone()
				c14label(m, p)
				c14default(m)
				c14treeCase(c, m, "F4_all_labellings", n <= 4, false, true)
			})
		}
	}
	// ---- F5: non-dyadic values (tolerance 1e-9 on sums; the cut copies values, exact) ----
	nd5 := []float64{0.1, 0.7, 1.0 / 3, 1e-7, 123456.789, 0.30000000000000004}
	for n := 2; n <= 4; n++ {
		for _, sh := range enum.Shapes(n, "t") {
			nb := len(c14branches(sh))
			for rot := 0; rot < len(nd5); rot++ {
				if !c.Mine() {
					continue
				}
				m := sh.Clone()
				c14label(m, c14scramble(n))
				for i, nd := range c14branches(m) {
					nd.HasLen, nd.Len = true, nd5[(i+rot)%len(nd5)]
					if !nd.IsTip() {
						nd.HasSup, nd.Sup = true, nd5[(i+rot+nb)%len(nd5)]
					}
				}
				c14treeCase(c, m, "F5_non_dyadic", true, true, rot%2 == 0)
			}
		}
	}
	// ---- F6: collections of 1-3 (4 for three taxa) trees on the same taxa ----
	for n := 3; n <= 5; n++ {
		if n == 5 && quick {
			break
		}
		pool := c14pool(n)
		c.Max(fmt.Sprintf("avg_pool_size_%d_taxa", n), int64(len(pool)))
		maxK := 3
		if n == 3 {
			maxK = 4
		}
		for k := 1; k <= maxK; k++ {
			sub := pool
			if n == 4 && k == 3 && quick {
				sub = c14thin(pool, 3)
			}
			if n == 5 && k == 2 {
				sub = c14thin(pool, 2)
			}
			if n == 5 && k == 3 {
				sub = c14thin(pool, 11)
			}
			if c.TimeUp() {
				return
			}
			enum.Sequences(len(sub), k, func(seq []int) {
				if !c.Mine() {
					return
				}
				ms := make([]*rm.Tree, k)
				for i, s := range seq {
					ms[i] = sub[s]
				}
				c14avgCase(c, ms, false, k == 2)
			})
		}
	}
	// non-dyadic collections
	{
		pool := c14pool(4)
		for i := 0; i+2 < len(pool); i += 5 {
			if !c.Mine() {
				continue
			}
			var ms []*rm.Tree
			for k := 0; k < 3; k++ {
				m := pool[i+k].Clone()
				for b, nd := range c14branches(m) {
					nd.HasLen, nd.Len = true, nd5[(b+k+i)%len(nd5)]
				}
				ms = append(ms, m)
			}
			c14avgCase(c, ms, true, false)
		}
	}
	// ---- F9: trees with a history (indexes built, then edited) ----
	c14histFamily(c)
	c14stemFamily(c)
	// ---- F7: command line (gotree matrix / gotree brlen cut) on the default decoration ----
	c14cliFamily(c)
	// ---- F8: large structured instances (plain executions, not exhaustive) ----
	if c.Shard == 0 {
		for _, n := range []int{64, 300} {
			for _, m := range c14large(n) {
				m := m
				c.Count("large_instances", 1)
				c.Check(c14case{Op: "large", Text: []string{fmt.Sprintf("%d tips", n)}}, func() (string, string) { return c14doLarge(m) })
			}
		}
		c14probes(c)
	}
}

func c14thin(pool []*rm.Tree, step int) []*rm.Tree {
	var out []*rm.Tree
	for i := 0; i < len(pool); i += step {
		out = append(out, pool[i])
	}
	return out
}

// c14pool: every labelled tree on n taxa (unrooted and rooted, multifurcating included; the labelled
// enumerators present the taxa in many different left-to-right orders), each with two decorations:
// binary weights, and a cyclic pattern over the menus with absent and zero lengths, absent supports.
func c14pool(n int) []*rm.Tree {
	labels := make([]string, n)
	for i, p := range c14scramble(n) {
		labels[i] = c14names[p]
	}
	var tops []*rm.Tree
	tops = append(tops, enum.Unrooted(labels, false)...)
	tops = append(tops, enum.RootedTrees(labels, false)...)
	var out []*rm.Tree
	for ti, tp := range tops {
		a := tp.Clone()
		c14default(a)
		out = append(out, a)
		b := tp.Clone()
		for i, nd := range c14branches(b) {
			c14setLen(nd, c14lenMenu[(i+ti)%len(c14lenMenu)])
			if !nd.IsTip() {
				c14setSup(nd, c14supMenu[(i+ti)%len(c14supMenu)])
			}
		}
		out = append(out, b)
	}
	return out
}

// ---- large instances ---------------------------------------------------------------------------

func c14large(n int) []*rm.Tree {
	name := func(i int) string { return fmt.Sprintf("t%04d", (i*7+3)%n) } // 7 coprime with 64 and 300
	cat := &rm.Node{Name: name(0), HasLen: true, Len: 0.125, HasSup: true, Sup: 0.5}
	for i := 1; i < n; i++ {
		cat = &rm.Node{Children: []*rm.Node{cat, {Name: name(i), HasLen: true, Len: float64(i%9) / 8, HasSup: true, Sup: 0.25}}, HasLen: true, Len: float64(i%5) / 4, HasSup: true, Sup: float64(i%4) / 4}
	}
	star := &rm.Node{}
	for i := 0; i < n; i++ {
		star.Children = append(star.Children, &rm.Node{Name: name(i), HasLen: true, Len: float64(i%17) / 8, HasSup: true, Sup: 1})
	}
	var bal func(lo, hi int) *rm.Node
	bal = func(lo, hi int) *rm.Node {
		if hi-lo == 1 {
			return &rm.Node{Name: name(lo), HasLen: true, Len: float64(lo%7) / 8, HasSup: true, Sup: 0.5}
		}
		mid := (lo + hi) / 2
		return &rm.Node{Children: []*rm.Node{bal(lo, mid), bal(mid, hi)}, HasLen: true, Len: float64((hi-lo)%6) / 2, HasSup: true, Sup: float64(hi%3) / 2}
	}
	return []*rm.Tree{{Root: cat}, {Root: star}, {Root: bal(0, n)}}
}

// c14doLarge: all branches carry a length and a support, so the shared model's DistMatrix (LCA based,
// a second independent computation) is the oracle; cut at three thresholds.
func c14doLarge(m *rm.Tree) (string, string) {
	var key, what string
	r := guard(func() {
		t := build(m)
		for metric := 0; metric < 3; metric++ {
			exp, names := m.DistMatrix(metric)
			mat, tips := t.ToDistanceMatrix(c14gtMetric[metric])
			key, what = c14cmpMatrix("matrix", "path-sum/"+c14metricName[metric], mat, tips, exp, nil, names, false, fmt.Sprintf("ToDistanceMatrix(%s) of a large tree (%d tips)", c14metricName[metric], len(names)))
			if key != "" {
				key += "/large"
				return
			}
		}
	})
	if crashed(r) {
		return "C14/matrix/crash/" + crashSite(r), "large tree: " + verdictStr(r)
	}
	if key != "" {
		return key, what
	}
	k, w := c14doCut(m, []float64{0.125, 0.5, 1}, false, nil)
	if k != "" {
		k += "/large"
	}
	return k, w
}

// ---- probes outside the property's domain (recorded as notes, never violations) --------------------

func c14probes(c *Ctx) {
	a := rm.MustParse("((C:1,a10:1):1,a2:1,aa:1);")
	b := rm.MustParse("((C:1,a10:1):1,a2:1);")
	note := func(name string, f func() string) {
		var s string
		r := guard(func() { s = f() })
		if crashed(r) {
			s = verdictStr(r)
		}
		c.Note(name, s)
	}
	note("probe_avg_error_record_in_channel(outside the property)", func() string {
		_, _, err := tree.AvgDistanceMatrix(tree.DISTANCE_METRIC_BRLEN, c14feed([]*tree.Tree{build(a), build(a)}, []int{1}))
		return fmt.Sprintf("returned err=%v", err)
	})
	note("probe_avg_second_tree_fewer_taxa(outside the property)", func() string {
		_, _, err := tree.AvgDistanceMatrix(tree.DISTANCE_METRIC_BRLEN, feed([]*tree.Tree{build(a), build(b)}))
		return fmt.Sprintf("returned err=%v", err)
	})
	note("probe_avg_second_tree_more_taxa(outside the property)", func() string {
		_, _, err := tree.AvgDistanceMatrix(tree.DISTANCE_METRIC_BRLEN, feed([]*tree.Tree{build(b), build(a)}))
		return fmt.Sprintf("returned err=%v", err)
	})
	note("probe_avg_empty_channel(outside the property)", func() string {
		mat, tips, err := tree.AvgDistanceMatrix(tree.DISTANCE_METRIC_BRLEN, feed(nil))
		return fmt.Sprintf("matrix=%v tips=%v err=%v", mat, tips, err)
	})
}

// ---- replay ---------------------------------------------------------------------------------------

func c14replay(c *Ctx, raw json.RawMessage) {
	var cs c14case
	if err := json.Unmarshal(raw, &cs); err != nil {
		fmt.Println("cannot read the case:", err)
		return
	}
	if cs.Op == "matrix-after-edit" {
		var hc c14histCase
		json.Unmarshal(raw, &hc)
		m, err := rm.ParseNewick(hc.Tree)
		if err != nil {
			fmt.Println("cannot re-read the tree:", err)
			return
		}
		for _, ed := range c14edits(m) {
			if ed.name == hc.Edit {
				k, w, _ := c14histRun(m, hc.Index, ed)
				fmt.Println(k, w)
				if k != "" {
					c.Violate(k, w, hc)
				}
			}
		}
		return
	}
	var ms []*rm.Tree
	for _, j := range cs.Trees {
		ms = append(ms, &rm.Tree{Root: c14dec(j)})
	}
	var thr []float64
	for _, s := range cs.Thr {
		v, _ := strconv.ParseFloat(s, 64)
		thr = append(thr, v)
	}
	var k, w string
	switch cs.Op {
	case "matrix":
		k, w = c14doMatrix(ms[0], cs.Close, cs.Parse, nil)
	case "cut":
		k, w = c14doCut(ms[0], thr, cs.Parse, nil)
	case "avg":
		k, w = c14doAvg(ms, cs.Close, cs.Parse, nil)
	case "cli-matrix", "cli-avg", "cli-cut":
		k, w = c14doCLI(cs.Op, ms, thr)
	default:
		fmt.Println("case kind", cs.Op, "is re-run by the check itself (large instances)")
		return
	}
	fmt.Printf("case: %s %v thresholds %v\nresult: %s %s\n", cs.Op, cs.Text, cs.Thr, k, w)
	if k != "" {
		c.Violate(k, w, cs)
	}
}

func init() {
	register(&Prop{
		ID: "C14",
		Rule: "F1: every plane rooted multifurcating shape with n tips (root 2 children = rooted, >= 3 = unrooted) x every assignment of {absent,0,1/2,1,5/2} ({absent,0,1/2,1} for five tips) to the branch lengths; " +
			"F2: same shapes x every assignment of {absent,1/2,1,0} to the supports of ALL branches (tip branches through Edge.SetSupport); " +
			"F3: <= 2 deviations (length or support menu) from the binary-weight default (k-th branch length 2^k/8, j-th inner support 2^-(j+1): every set of branches has its own exact sum); " +
			"F4: every assignment of the names {C,a10,a2,aa,b,d,..} to the tips; F5: non-dyadic values with tolerance 1e-9; tips are never in name order except in F4's identity labelling; " +
			"tree objects come from gotree's Newick parser (F1, F4, half of F5, pairs of F6, F7) or from the public constructors (F2, F3, rest); " +
			"per tree: ToDistanceMatrix x 3 metrics (shape, row labels = sorted names, zero diagonal, symmetry, every entry = sum of the weights of the branches separating the two tips) and CutEdgesMaxLength for every threshold in " +
			"{each distinct length, each +-1/8, 0, -1/2, 1e9, +Inf} (thresholds <= 0 left out when a length is absent) against union-find classes over branches with length < threshold; " +
			"F6: every sequence of 1-3 (4 for three taxa) trees from the pool of all labelled rooted and unrooted trees on 3-5 taxa x 2 decorations, AvgDistanceMatrix x 3 metrics = entrywise sum / K; " +
			"F7: the same through the commands `gotree matrix [--avg]` and `gotree brlen cut` (text output parsed); F8: caterpillar/star/balanced with 64 and 300 tips (plain executions). " +
			"non-trivial = distinct decorated tree whose matrix has two different off-diagonal entries or which some threshold cuts into 1 < groups < tips; distinct collection whose mean differs from its first tree's matrix",
		Assumptions: []string{
			"absent length = 0 and absent support = 1 in path sums, as documented by `gotree matrix --help` (cmd/matrix.go)",
			"branches of a rooted tree are taken as they are (two root branches), for the matrix and for the cut",
			"float64 sums of the dyadic menus are exact, so comparison is by ==; relative tolerance 1e-9 only in the non-dyadic family",
			"the reference model's tip sets below branches (refmodel.Below) are correct",
		},
		Require: []string{
			"history_cases", "single_neighbour_root_cases",
			"clause_path_sum_brlen", "clause_path_sum_none", "clause_path_sum_boot", "clause_symmetry_diagonal",
			"clause_row_order_tips_not_in_name_order", "clause_avg_mean_of_several_trees", "avg_collections_with_differing_tip_order",
			"clause_cut_threshold_equals_a_length", "clause_cut_other_thresholds", "cut_partitions_with_a_proper_group",
			"trees_rooted", "trees_unrooted", "trees_multifurcating", "trees_with_absent_length", "trees_with_zero_length",
			"trees_with_absent_support", "trees_with_support", "cli_matrix_runs", "cli_avg_runs", "cli_cut_runs", "large_instances",
		},
		Run:    c14run,
		Replay: c14replay,
	})
}

// ---- F7: the commands -------------------------------------------------------------------------------

var c14tmp string

func c14tmpDir() string {
	if c14tmp == "" {
		d, err := os.MkdirTemp("", "c14-")
		if err != nil {
			panic(err)
		}
		c14tmp = d
	}
	return c14tmp
}

// c14exec runs `gotree <args>` in process (all flags given explicitly: cobra keeps flag values between runs).
func c14exec(args []string) (verdict string, err error) {
	r := guard(func() {
		gcmd.RootCmd.SetArgs(args)
		gcmd.RootCmd.SilenceUsage = true
		gcmd.RootCmd.SilenceErrors = true
		err = gcmd.RootCmd.Execute()
	})
	if crashed(r) {
		return verdictStr(r) + " @" + crashSite(r), nil
	}
	return "", err
}

// c14doCLI: op cli-matrix (one matrix per tree of the file, three metrics), cli-avg (--avg), cli-cut.
func c14doCLI(op string, ms []*rm.Tree, thrs []float64) (string, string) {
	dir := c14tmpDir()
	in, out := filepath.Join(dir, "in.nw"), filepath.Join(dir, "out.txt")
	var sb strings.Builder
	var txts []string
	for _, m := range ms {
		sb.WriteString(m.Newick() + "\n")
		txts = append(txts, m.Newick())
	}
	if err := os.WriteFile(in, []byte(sb.String()), 0o644); err != nil {
		panic(err)
	}
	txt := strings.Join(txts, " ")
	run := func(args ...string) (string, string, []string) {
		os.Remove(out)
		args = append(args, "-i", in, "-o", out, "--format", "newick", "-t", "1", "--seed", "1")
		v, err := c14exec(args)
		ctx := "gotree " + strings.Join(args[:len(args)-10], " ") + " on " + txt
		if v != "" {
			return "C14/" + op + "/crash", ctx + ": " + v, nil
		}
		if err != nil {
			return "C14/" + op + "/error", fmt.Sprintf("%s: error %v", ctx, err), nil
		}
		b, err := os.ReadFile(out)
		if err != nil {
			return "C14/" + op + "/no-output", ctx + ": " + err.Error(), nil
		}
		lines := strings.Split(strings.TrimRight(string(b), "\n"), "\n")
		return "", ctx, lines
	}
	// expected text of one matrix
	render := func(names []string, d [][]float64) []string {
		ls := []string{strconv.Itoa(len(names))}
		for i, nm := range names {
			l := nm
			for j := range names {
				l += "\t" + strconv.FormatFloat(d[i][j], 'f', 12, 64)
			}
			ls = append(ls, l)
		}
		return ls
	}
	cmpLines := func(ctx string, got, exp []string, clause string) (string, string) {
		if len(got) != len(exp) {
			return "C14/" + op + "/" + clause, fmt.Sprintf("%s: %d output lines %q, expected %d lines %q", ctx, len(got), got, len(exp), exp)
		}
		for i := range exp {
			if got[i] != exp[i] {
				return "C14/" + op + "/" + clause, fmt.Sprintf("%s: output line %d is %q, reference model %q", ctx, i+1, got[i], exp[i])
			}
		}
		return "", ""
	}
	switch op {
	case "cli-matrix", "cli-avg":
		for metric := 0; metric < 3; metric++ {
			var exp []string
			if op == "cli-matrix" {
				for _, m := range ms {
					o := c14oracle(m, metric)
					exp = append(exp, render(o.names, o.d)...)
				}
			} else {
				var names []string
				var sum [][]float64
				for k, m := range ms {
					o := c14oracle(m, metric)
					if k == 0 {
						names, sum = o.names, o.d
						continue
					}
					for i := range sum {
						for j := range sum[i] {
							sum[i][j] += o.d[i][j]
						}
					}
				}
				for i := range sum {
					for j := range sum[i] {
						sum[i][j] /= float64(len(ms))
					}
				}
				exp = render(names, sum)
			}
			k, ctx, lines := run("matrix", "-m", c14metricName[metric], fmt.Sprintf("--avg=%v", op == "cli-avg"))
			if k != "" {
				return k, ctx
			}
			if k, w := cmpLines(ctx, lines, exp, "text/"+c14metricName[metric]); k != "" {
				return k, w
			}
		}
	case "cli-cut":
		for _, thr := range thrs {
			var exp []string
			for id, m := range ms {
				for _, g := range c14groups(m, thr) {
					exp = append(exp, fmt.Sprintf("%d\t%d\t%s", id, strings.Count(g, ",")+1, g))
				}
			}
			k, ctx, lines := run("brlen", "cut", "--max-length="+strconv.FormatFloat(thr, 'g', -1, 64))
			if k != "" {
				return k, ctx
			}
			// groups of one tree may come in any order: compare as sorted multisets (ids keep the trees apart)
			got := append([]string(nil), lines...)
			if len(got) == 1 && got[0] == "" {
				got = nil
			}
			sort.Strings(got)
			sort.Strings(exp)
			if k, w := cmpLines(ctx, got, exp, "groups"); k != "" {
				return k, w
			}
		}
	}
	return "", ""
}

func c14cliFamily(c *Ctx) {
	maxN := 4
	if !c.Quick() {
		maxN = 5
	}
	for n := 2; n <= maxN; n++ {
		shapes := enum.Shapes(n, "t")
		for si, sh := range shapes {
			if c.TimeUp() {
				return
			}
			// two decorations of every shape: binary weights; cyclic menu pattern (absent/zero lengths, absent supports)
			for deco := 0; deco < 2; deco++ {
				if !c.Mine() {
					continue
				}
				m := sh.Clone()
				c14label(m, c14scramble(n))
				c14default(m)
				if deco == 1 {
					for i, nd := range c14branches(m) {
						c14setLen(nd, c14lenMenu[(i+si)%len(c14lenMenu)])
						if !nd.IsTip() {
							c14setSup(nd, c14supMenu[(i+si)%len(c14supMenu)])
						}
					}
				}
				// a second tree in the same file: next shape, other decoration
				m2 := shapes[(si+1)%len(shapes)].Clone()
				c14label(m2, c14scramble(n))
				c14default(m2)
				ms := []*rm.Tree{m, m2}
				c.States++
				c.Count("cli_matrix_runs", 3)
				c.Check(c14mkcase("cli-matrix", ms, nil, false, true), func() (string, string) { return c14doCLI("cli-matrix", ms, nil) })
				c.Count("cli_avg_runs", 3)
				c.Check(c14mkcase("cli-avg", ms, nil, false, true), func() (string, string) { return c14doCLI("cli-avg", ms, nil) })
				t1, _ := c14thresholds(m)
				var thrs []float64
				for _, v := range t1 { // the file's second tree may have absent-free lengths only (default): thresholds of the first tree
					if v > 0 || (!c14anyAbsent(m) && !c14anyAbsent(m2)) {
						thrs = append(thrs, v)
					}
				}
				c.Count("cli_cut_runs", int64(len(thrs)))
				c.Check(c14mkcase("cli-cut", ms, thrs, false, true), func() (string, string) { return c14doCLI("cli-cut", ms, thrs) })
				c.Transitions += 6 + int64(len(thrs))
			}
		}
	}
	if c14tmp != "" {
		os.RemoveAll(c14tmp)
		c14tmp = ""
	}
}

func c14anyAbsent(m *rm.Tree) bool {
	abs := false
	m.Walk(func(nd, p *rm.Node) {
		if p != nil && !nd.HasLen {
			abs = true
		}
	})
	return abs
}

package main

import (
	"fmt"
	"sort"
	"strings"
	"sync"

	"github.com/evolbioinfo/gotree/mcrt"
	msync "github.com/evolbioinfo/gotree/mcrt/msync"
)

// Litmus suite for the scheduler's model of Go's concurrency primitives.
// Every program is (1) explored exhaustively under the model (all schedules,
// unbounded deviations) giving the set of reachable outcomes, and (2) run many
// times free on the real Go runtime in pass-through mode. Every outcome the real
// runtime shows must be in the model's set; the model's set must equal the
// hand-written expected set (so forbidden outcomes are absent and allowed ones reachable).

type litmus struct {
	name     string
	body     func(out *string)
	expected []string // exact set of outcomes ("deadlock" = deadlock verdict)
	noReal   bool     // do not run on the real runtime (program deadlocks)
	bound    int      // deviation bound (0 = unbounded)
}

func litmusPrograms() []litmus {
	return []litmus{
		{name: "unbuffered-rendezvous-order", expected: []string{"1,2"}, body: func(out *string) {
			ch := make(chan int)
			mcrt.Go(func() { mcrt.Send(ch, 1); mcrt.Send(ch, 2) })
			a := mcrt.Recv(ch)
			b := mcrt.Recv(ch)
			*out = fmt.Sprint(a, ",", b)
		}},
		{name: "buffered-fifo", expected: []string{"1,2,3"}, body: func(out *string) {
			ch := make(chan int, 2)
			mcrt.Go(func() { mcrt.Send(ch, 1); mcrt.Send(ch, 2); mcrt.Send(ch, 3); mcrt.Close(ch) })
			var got []string
			for {
				v, ok := mcrt.Recv2(ch)
				if !ok {
					break
				}
				got = append(got, fmt.Sprint(v))
			}
			*out = strings.Join(got, ",")
		}},
		{name: "two-senders-one-receiver", expected: []string{"1,2", "2,1"}, body: func(out *string) {
			ch := make(chan int)
			mcrt.Go(func() { mcrt.Send(ch, 1) })
			mcrt.Go(func() { mcrt.Send(ch, 2) })
			a := mcrt.Recv(ch)
			b := mcrt.Recv(ch)
			*out = fmt.Sprint(a, ",", b)
		}},
		{name: "close-wakes-receiver", expected: []string{"0,false"}, body: func(out *string) {
			ch := make(chan int)
			mcrt.Go(func() { mcrt.Close(ch) })
			v, ok := mcrt.Recv2(ch)
			*out = fmt.Sprint(v, ",", ok)
		}},
		{name: "close-after-buffered-values", expected: []string{"7,true,0,false"}, body: func(out *string) {
			ch := make(chan int, 1)
			mcrt.Send(ch, 7)
			mcrt.Close(ch)
			a, ok1 := mcrt.Recv2(ch)
			b, ok2 := mcrt.Recv2(ch)
			*out = fmt.Sprint(a, ",", ok1, ",", b, ",", ok2)
		}},
		{name: "waitgroup-join", expected: []string{"2"}, body: func(out *string) {
			var wg msync.WaitGroup
			var mu msync.Mutex
			n := 0
			for i := 0; i < 2; i++ {
				wg.Add(1)
				mcrt.Go(func() { mu.Lock(); n++; mu.Unlock(); wg.Done() })
			}
			wg.Wait()
			*out = fmt.Sprint(n)
		}},
		{name: "lost-update-without-lock", expected: []string{"1", "2"}, noReal: true, body: func(out *string) {
			// deliberately racy: read, yield, write. The model must reach both outcomes.
			done := make(chan bool, 2)
			n := 0
			for i := 0; i < 2; i++ {
				mcrt.Go(func() { v := n; mcrt.Yield("litmus"); n = v + 1; mcrt.Send(done, true) })
			}
			mcrt.Recv(done)
			mcrt.Recv(done)
			*out = fmt.Sprint(n)
		}},
		{name: "mutex-excludes", expected: []string{"2"}, body: func(out *string) {
			var mu msync.Mutex
			done := make(chan bool, 2)
			n := 0
			for i := 0; i < 2; i++ {
				mcrt.Go(func() {
					mu.Lock()
					v := n
					mcrt.Yield("litmus")
					n = v + 1
					mu.Unlock()
					mcrt.Send(done, true)
				})
			}
			mcrt.Recv(done)
			mcrt.Recv(done)
			*out = fmt.Sprint(n)
		}},
		{name: "rwmutex-writer-excludes-readers", expected: []string{"0,0", "2,2"}, body: func(out *string) {
			// writer sets a then b under Lock; a reader under RLock must never see a != b ... encoded as a,b pairs
			var mu msync.RWMutex
			a, b := 0, 0
			res := make(chan string, 1)
			done := make(chan bool, 1)
			mcrt.Go(func() {
				mu.Lock()
				a = 2
				mcrt.Yield("litmus")
				b = 2
				mu.Unlock()
				mcrt.Send(done, true)
			})
			mcrt.Go(func() { mu.RLock(); x, y := a, b; mu.RUnlock(); mcrt.Send(res, fmt.Sprint(x, ",", y)) })
			r := mcrt.Recv(res)
			mcrt.Recv(done)
			_ = r
			*out = r
		}},
		{name: "nil-channel-blocks-forever", expected: []string{"deadlock"}, noReal: true, body: func(out *string) {
			var ch chan int
			mcrt.Recv(ch)
			*out = "returned"
		}},
		{name: "missing-done-deadlocks", expected: []string{"deadlock"}, noReal: true, body: func(out *string) {
			var wg msync.WaitGroup
			wg.Add(1)
			mcrt.Go(func() {})
			wg.Wait()
			*out = "returned"
		}},
		{name: "lock-order-inversion", expected: []string{"deadlock", "ok"}, noReal: true, body: func(out *string) {
			var m1, m2 msync.Mutex
			done := make(chan bool, 2)
			mcrt.Go(func() { m1.Lock(); m2.Lock(); m2.Unlock(); m1.Unlock(); mcrt.Send(done, true) })
			mcrt.Go(func() { m2.Lock(); m1.Lock(); m1.Unlock(); m2.Unlock(); mcrt.Send(done, true) })
			mcrt.Recv(done)
			mcrt.Recv(done)
			*out = "ok"
		}},
		{name: "send-on-closed-panics", expected: []string{"panic"}, noReal: true, body: func(out *string) {
			ch := make(chan int, 1)
			mcrt.Close(ch)
			mcrt.Send(ch, 1)
			*out = "returned"
		}},
		{name: "buffered-send-blocks-when-full", expected: []string{"deadlock"}, noReal: true, body: func(out *string) {
			ch := make(chan int, 1)
			mcrt.Send(ch, 1)
			mcrt.Send(ch, 2)
			*out = "returned"
		}},
		{name: "worker-pool-closer", bound: 3, expected: []string{"3"}, body: func(out *string) {
			// the pattern used by gotree: workers range over in, results on out, closed after wg.Wait
			in := make(chan int, 3)
			res := make(chan int)
			for i := 1; i <= 2; i++ {
				mcrt.Send(in, i)
			}
			mcrt.Close(in)
			var wg msync.WaitGroup
			for w := 0; w < 2; w++ {
				wg.Add(1)
				mcrt.Go(func() {
					for {
						v, ok := mcrt.Recv2(in)
						if !ok {
							break
						}
						mcrt.Send(res, v)
					}
					wg.Done()
				})
			}
			mcrt.Go(func() { wg.Wait(); mcrt.Close(res) })
			sum := 0
			for {
				v, ok := mcrt.Recv2(res)
				if !ok {
					break
				}
				sum += v
			}
			*out = fmt.Sprint(sum)
		}},
	}
}

func c11litmus(c *Ctx) {
	for _, l := range litmusPrograms() {
		var out string
		model := map[string]bool{}
		bound := l.bound
		if bound == 0 {
			bound = 1000
		}
		st := mcrt.Explore(mcrt.ExploreOpts{Base: mcrt.Config{Fuel: 100000}, Bound: bound, MaxExecs: 500000}, func() { out = ""; l.body(&out) }, func(r *mcrt.Result, _ []int) bool {
			switch r.Verdict {
			case mcrt.VDone:
				model[out] = true
			case mcrt.VDeadlock:
				model["deadlock"] = true
			case mcrt.VPanic:
				model["panic"] = true
			default:
				model[r.Verdict.String()] = true
			}
			return true
		})
		c.Count("litmus_executions", st.Execs)
		if !st.Exhaustive {
			c.EngineError("litmus " + l.name + ": exploration not exhaustive")
		}
		var got []string
		for k := range model {
			got = append(got, k)
		}
		sort.Strings(got)
		exp := append([]string(nil), l.expected...)
		sort.Strings(exp)
		if strings.Join(got, "|") != strings.Join(exp, "|") {
			c.EngineError(fmt.Sprintf("litmus %s: model reaches outcomes %v, expected exactly %v", l.name, got, exp))
		}
		if !l.noReal {
			// real runtime, pass-through mode (mcrt.X == nil): outcomes must be within the model's set
			real := map[string]bool{}
			var mu sync.Mutex
			var wg sync.WaitGroup
			for g := 0; g < 4; g++ {
				wg.Add(1)
				go func() {
					defer wg.Done()
					for i := 0; i < 500; i++ {
						var o string
						l.body(&o)
						mu.Lock()
						real[o] = true
						mu.Unlock()
					}
				}()
			}
			wg.Wait()
			for o := range real {
				if !model[o] {
					c.EngineError(fmt.Sprintf("litmus %s: the real runtime shows outcome %q which the model cannot reach (%v)", l.name, o, got))
				}
			}
			c.Count("litmus_real_runs", 2000)
		}
		c.Count("litmus_programs", 1)
	}
}

package main

import (
	"encoding/json"
	"fmt"
	"sort"
	"strings"

	"github.com/evolbioinfo/gotree/mcrt"
	"github.com/evolbioinfo/gotree/support"
	"github.com/evolbioinfo/gotree/tree"

	rm "verif/harness/refmodel"
)

// Taxon names are opaque: Compare / Consensus / FBP / TBE on a collection whose taxa were consistently renamed give the
// same answer up to that renaming. The name sets chosen are the ones a name-based shortcut gets wrong: names equal up to
// case, digit-only names with the same numeric value, names that are prefixes of one another, names in reverse order.

var namesSets = [][]string{
	{"Ab", "aB", "AB", "ab", "a"},
	{"1", "01", "001", "10", "010"},
	{"t", "t1", "t10", "t100", "t1000"},
	{"e", "d", "c", "b", "a"},
	{"x y", "x_y", "x-y", "x.y", "xy"},
}

type namesCase struct {
	Marker string   `json:"names_diff"`
	Trees  []string `json:"trees"`
	Names  []string `json:"names"`
}

func namesRelabel(txt string, to []string) string {
	m := rm.MustParse(txt)
	for _, tp := range m.Tips() {
		tp.Name = to[int(tp.Name[0]-'A')]
	}
	return m.Newick()
}

// namesDesc: split description of a result tree, names mapped back to A..E.
func namesDesc(txt string, from []string) string {
	m, err := rm.ParseNewick(strings.TrimSpace(txt))
	if err != nil {
		return "unreadable:" + txt
	}
	if from != nil {
		back := map[string]string{}
		for i, n := range from {
			back[n] = string(rune('A' + i))
		}
		for _, tp := range m.Tips() {
			b, ok := back[tp.Name]
			if !ok {
				return "unknown tip " + tp.Name + " in " + txt
			}
			tp.Name = b
		}
	}
	sm, names := m.SplitMap()
	var ks []string
	for s, bi := range sm {
		ks = append(ks, fmt.Sprintf("%v len=%v/%v sup=%v/%v", s.Names(names), bi.HasLen, bi.Len, bi.HasSup, bi.Sup))
	}
	sort.Strings(ks)
	return strings.Join(ks, ";")
}

func namesAll(trees []string, names []string) (out []string) {
	texts := trees
	if names != nil {
		texts = nil
		for _, t := range trees {
			texts = append(texts, namesRelabel(t, names))
		}
	}
	parse := func(i int) *tree.Tree { return gtMustParse(texts[i]) }
	rest := func() []*tree.Tree {
		var ts []*tree.Tree
		for i := 1; i < len(texts); i++ {
			ts = append(ts, parse(i))
		}
		return ts
	}
	// Compare, CompareWeighted
	if st, err := tree.Compare(parse(0), feed(rest()), false, false, 1); err != nil {
		out = append(out, "compare:error")
	} else {
		var a []string
		for {
			s, ok := mcrt.Recv2(st)
			if !ok {
				break
			}
			a = append(a, fmt.Sprintf("%d:%d/%d/%d/%v/%v", s.Id, s.Tree1, s.Common, s.Tree2, s.Sametree, s.Err != nil))
		}
		sort.Strings(a)
		out = append(out, "compare:"+strings.Join(a, " "))
	}
	if st, err := tree.CompareWeighted(parse(0), feed(rest()), true, false, 1); err != nil {
		out = append(out, "weighted:error")
	} else {
		var a []string
		for {
			s, ok := mcrt.Recv2(st)
			if !ok {
				break
			}
			x, y, z := append([]float64{}, s.Tree1...), append([]float64{}, s.Tree2...), append([]float64{}, s.Common...)
			sort.Float64s(x)
			sort.Float64s(y)
			sort.Float64s(z)
			a = append(a, fmt.Sprintf("%d:%v/%v/%v/%v/%v", s.Id, x, y, z, s.Sametree, s.Err != nil))
		}
		sort.Strings(a)
		out = append(out, "weighted:"+strings.Join(a, " "))
	}
	// Consensus (majority and strict)
	for _, f := range []float64{0.5, 1} {
		var all []*tree.Tree
		for i := range texts {
			all = append(all, parse(i))
		}
		if cons, err := tree.Consensus(feed(all), f); err != nil {
			out = append(out, fmt.Sprintf("consensus %v:error", f))
		} else {
			out = append(out, fmt.Sprintf("consensus %v:%s", f, namesDesc(cons.Newick(), names)))
		}
	}
	// FBP, TBE
	r1 := parse(0)
	if err := support.FBP(r1, feed(rest()), 1, nil); err != nil {
		out = append(out, "fbp:error")
	} else {
		out = append(out, "fbp:"+namesDesc(r1.Newick(), names))
	}
	r2 := parse(0)
	if err := r2.ReinitIndexes(); err != nil {
		out = append(out, "tbe:index-error")
	} else if _, err := support.TBE(r2, feed(rest()), 1, false, false, false, 0.3, nil, nil); err != nil {
		out = append(out, "tbe:error")
	} else {
		out = append(out, "tbe:"+namesDesc(r2.Newick(), names))
	}
	return out
}

func namesRun(cs namesCase, ops ...string) (key, what string) {
	var plain, renamed []string
	r := mcrt.Run(mcrt.Config{NoSched: true, Fuel: 100_000_000, NumCPU: 1}, func() {
		plain = namesAll(cs.Trees, nil)
		renamed = namesAll(cs.Trees, cs.Names)
	})
	if crashed(r) {
		return "names/crash/" + crashSite(r), fmt.Sprintf("trees %q with taxa renamed to %q: %s", cs.Trees, cs.Names, verdictStr(r))
	}
	for i := range plain {
		if i >= len(renamed) || plain[i] != renamed[i] {
			op := strings.SplitN(plain[i], ":", 2)[0]
			mine := len(ops) == 0
			for _, o := range ops {
				mine = mine || strings.Fields(op)[0] == o
			}
			if !mine {
				continue // another property's operation: reported by that property's run of the same family
			}
			return "names/" + strings.Fields(op)[0], fmt.Sprintf("trees %q (first = reference): %s; the same trees with the taxa A..E renamed to %q give (names mapped back) %s", cs.Trees, plain[i], cs.Names, renamed[i])
		}
	}
	return "", ""
}

// namesFamily runs the cases whose key starts with one of the operations that belong to the property.
func namesFamily(prop string, ops ...string) func(c *Ctx) {
	return func(c *Ctx) {
		pool := cliDiffPool5()
		// the second and fourth tree are shown mirrored and rooted elsewhere: tips are met in another order than in the first
		alt := make([]string, len(pool))
		for i, txt := range pool {
			m := rm.MustParse(txt)
			if r := c08reroot(m, 1+i%3); r != nil {
				m = r
			}
			alt[i] = c08reverse(m).Newick()
		}
		step := 3
		if !c.Quick() {
			step = 1
		}
		for i := 0; i < len(pool); i++ {
			for j := (i + 1) % step; j < len(pool); j += step {
				for ni, names := range namesSets {
					if c.TimeUp() {
						return
					}
					if !c.Mine() {
						continue
					}
					cs := namesCase{Marker: prop, Trees: []string{pool[i], alt[j], pool[(i+j)%len(pool)], alt[i]}, Names: names}
					c.Check(cs, func() (string, string) {
						k, w := namesRun(cs, ops...)
						if k == "" {
							return "", ""
						}
						return prop + "/" + k, w
					})
					c.States++
					c.Count(fmt.Sprintf("renamed_taxa_cases_set%d", ni), 1)
					c.Count("renamed_taxa_cases", 1)
				}
			}
		}
	}
}

func init() {
	addExtra("C08", namesFamily("C08", "compare", "weighted"))
	addExtra("C09", namesFamily("C09", "consensus"))
	addExtra("C10", namesFamily("C10", "fbp", "tbe"))
	for _, p := range []string{"C08", "C09", "C10"} {
		extraRequire[p] = append(extraRequire[p], "renamed_taxa_cases")
	}
	extraReplays = append(extraReplays, func(c *Ctx, raw json.RawMessage) bool {
		var cs namesCase
		if json.Unmarshal(raw, &cs) != nil || cs.Marker == "" {
			return false
		}
		k, w := namesRun(cs, map[string][]string{"C08": {"compare", "weighted"}, "C09": {"consensus"}, "C10": {"fbp", "tbe"}}[cs.Marker]...)
		fmt.Println(k, w)
		if k != "" {
			c.Violate(cs.Marker+"/"+k, w, cs)
		}
		return true
	})
}

package main

import (
	"encoding/json"
	"fmt"
	"os"
	"reflect"
	"sort"
	"strings"
	"time"

	"github.com/evolbioinfo/gotree/mcrt"
	"github.com/spf13/cobra"
	"github.com/spf13/pflag"
)

// C19: omitting a command-line option means its documented default.
// Finite configuration enumeration: every command x every flag in the process
// state reached after all init() functions have run.

type c19flag struct {
	Cmd    string `json:"command"`
	Flag   string `json:"flag"`
	Def    string `json:"documented_default"`
	Actual string `json:"actual_value"`
	Type   string `json:"type"`
	addr   uintptr
	f      *pflag.Flag
	c      *cobra.Command
}

// c19addr recovers the address of the variable a flag writes to.
func c19addr(v pflag.Value) uintptr {
	rv := reflect.ValueOf(v)
	if rv.Kind() != reflect.Pointer {
		return 0
	}
	if rv.Elem().Kind() == reflect.Struct {
		if fv := rv.Elem().FieldByName("value"); fv.IsValid() && fv.Kind() == reflect.Pointer {
			return fv.Pointer()
		}
		return rv.Pointer()
	}
	return rv.Pointer()
}

// c19flags lists every (command, flag) pair: local flags and persistent flags at the command that declares them.
func c19flags() []c19flag {
	cliInit()
	snap := map[*pflag.Flag]string{}
	for _, s := range cliSnap {
		snap[s.f] = s.val
	}
	var out []c19flag
	for _, c := range cliAllCommands() {
		seen := map[*pflag.Flag]bool{}
		for _, fs := range []*pflag.FlagSet{c.Flags(), c.PersistentFlags()} {
			fs.VisitAll(func(f *pflag.Flag) {
				if seen[f] {
					return
				}
				seen[f] = true
				act, ok := snap[f]
				if !ok {
					return // flags added lazily by cobra itself (help)
				}
				out = append(out, c19flag{Cmd: c.CommandPath(), Flag: f.Name, Def: f.DefValue, Actual: act, Type: f.Value.Type(), addr: c19addr(f.Value), f: f, c: c})
			})
		}
	}
	sort.SliceStable(out, func(i, j int) bool {
		if out[i].Cmd != out[j].Cmd {
			return out[i].Cmd < out[j].Cmd
		}
		return out[i].Flag < out[j].Flag
	})
	return out
}

// c19usageLine renders the help line of one flag exactly as cobra/pflag print it.
func c19usageLine(f *pflag.Flag) string {
	fs := pflag.NewFlagSet("x", pflag.ContinueOnError)
	fs.AddFlag(f)
	return strings.TrimSpace(fs.FlagUsages())
}

// c19helpShows reports whether the help line documents the given default: pflag prints
// ` (default X)` (strings quoted) unless X is the zero value of the type, in which case nothing is printed.
func c19helpShows(f *pflag.Flag) (bool, string) {
	line := c19usageLine(f)
	zero := false
	switch f.Value.Type() {
	case "bool":
		zero = f.DefValue == "false" || f.DefValue == ""
	case "string":
		zero = f.DefValue == ""
	case "stringSlice", "intSlice", "stringArray":
		zero = f.DefValue == "[]"
	default:
		zero = f.DefValue == "0" || f.DefValue == "0s" || f.DefValue == ""
	}
	if zero {
		return true, line
	}
	want := "(default " + f.DefValue + ")"
	if f.Value.Type() == "string" {
		want = fmt.Sprintf("(default %q)", f.DefValue)
	}
	return strings.HasSuffix(line, want), line
}

var c19binary string

type c19e2e struct {
	Name string `json:"name"`
	Flag string `json:"flag"`
	With string `json:"with,omitempty"` // a boolean option switched to the other value on both command lines
}

// c19with: the table entry with one more argument.
func c19with(e cliEntry, arg string) cliEntry {
	if arg == "" {
		return e
	}
	e2 := e
	e2.Args = append(append([]string{}, e.Args...), arg)
	return e2
}

type c19case struct {
	Kind string   `json:"kind"` // static | e2e
	Flag *c19flag `json:"flag,omitempty"`
	E2E  *c19e2e  `json:"e2e,omitempty"`
}

// c19resolve finds the command a command line runs and all flags it accepts (local + inherited).
func c19resolve(args []string) (*cobra.Command, []*pflag.Flag) {
	cliInit()
	c, _, err := cliRoot().Find(args)
	if err != nil || c == nil {
		return nil, nil
	}
	var fl []*pflag.Flag
	seen := map[string]bool{}
	add := func(f *pflag.Flag) {
		if !seen[f.Name] {
			seen[f.Name] = true
			fl = append(fl, f)
		}
	}
	cliFlagSets(c) // finds out (once) whether cobra can assemble the flag sets of this command
	if _, bad := cliFlagPanics[c.CommandPath()]; bad {
		c.Flags().VisitAll(add)
		for p := c; p != nil; p = p.Parent() {
			p.PersistentFlags().VisitAll(add)
		}
	} else {
		c.LocalFlags().VisitAll(add)
		c.InheritedFlags().VisitAll(add)
	}
	sort.Slice(fl, func(i, j int) bool { return fl[i].Name < fl[j].Name })
	return c, fl
}

func c19given(args []string, f *pflag.Flag) bool {
	for _, a := range args {
		if a == "--"+f.Name || strings.HasPrefix(a, "--"+f.Name+"=") {
			return true
		}
		if f.Shorthand != "" && strings.HasPrefix(a, "-") && !strings.HasPrefix(a, "--") && strings.Contains(a, f.Shorthand) && len(a) == 2 {
			return true
		}
	}
	return false
}

// c19e2eCheck: the command line with the flag omitted vs. given as --flag=<documented default>.
func c19e2eCheck(e cliEntry, f *pflag.Flag) (string, string) {
	// map iteration order is pinned (sorted) so that commands whose output depends on it (C18's business) compare equal here
	base, r0 := cliExec(mcrt.Config{MapMode: mcrt.MapSorted}, e.Args, e.Stdin, e.Files, e.Out)
	args2 := append(append([]string{}, e.Args...), "--"+f.Name+"="+f.DefValue)
	with, r1 := cliExec(mcrt.Config{MapMode: mcrt.MapSorted}, args2, e.Stdin, e.Files, e.Out)
	o0 := verdictStr(r0) + " " + base.String()
	o1 := verdictStr(r1) + " " + with.String()
	if o0 == o1 && c19binary != "" && !c18hasFlag(e.Args, "-t") { // several threads: record order is free (C11/C18)
		// the same pair in fresh processes of the plain binary
		// without --seed a fresh process seeds its generator from the clock (the in-process clock is the constant T0):
		// both command lines get the same explicit seed, and the seed flag itself is left to the in-process comparison
		fa, fb := e.Args, args2
		if !c18hasFlag(e.Args, "--seed") {
			if f.Name == "seed" {
				fa, fb = nil, nil
			} else {
				fa = append(append([]string{}, fa...), "--seed", "1")
				fb = append(append([]string{}, fb...), "--seed", "1")
			}
		}
		var f0, f1 string
		if fa != nil {
			f0, _ = cliFreshRun(c19binary, e, fa)
			f1, _ = cliFreshRun(c19binary, e, fb)
		}
		if f0 != f1 {
			o0, o1 = "fresh process: "+f0, "fresh process: "+f1
		}
	}
	if o0 == o1 && f.Value.Type() != "bool" {
		// the other spelling of the same thing: `--flag value` (two arguments)
		args3 := append(append([]string{}, e.Args...), "--"+f.Name, f.DefValue)
		sp, r2 := cliExec(mcrt.Config{MapMode: mcrt.MapSorted}, args3, e.Stdin, e.Files, e.Out)
		if o2 := verdictStr(r2) + " " + sp.String(); o2 != o0 {
			o1 = "(given as two arguments `--" + f.Name + " " + f.DefValue + "`) " + o2
		}
	}
	if o0 != o1 {
		c, _ := c19resolve(e.Args)
		return fmt.Sprintf("C19/behaviour/%s --%s", c.CommandPath(), f.Name),
			fmt.Sprintf("`gotree %s`: omitting --%s and passing --%s=%s (the documented default) differ:\n   omitted: %.300s\n   given:   %.300s", strings.Join(e.Args, " "), f.Name, f.Name, f.DefValue, o0, o1)
	}
	return "", ""
}

func init() {
	register(&Prop{
		ID: "C19",
		Rule: "finite configuration enumeration in the process state after every init(): (1) every command x every local/persistent flag: documented default (pflag DefValue, which is what the help text prints) == value actually held by the bound variable; " +
			"(2) flags grouped by the address of the variable they write: all defaults within a group agree (names the pair of commands sharing storage); (3) the default printed in the help text == DefValue; " +
			"(4) behavioural: for every runnable command line of the driver table and every flag the command accepts that is not on the line, output with the flag omitted == output with --flag=<documented default> (in-process on the real cmd package, flag state restored to the post-init snapshot before each run); (5) interference: every command line of the table x every option variable that no option accepted by that command is bound to: the variable is given another value (as if the owning command had registered another default) and the output must not move; non-trivial = flag whose variable is shared with another command or that has a non-zero default",
		Assumptions: []string{"cobra/pflag print Flag.DefValue in the help text and Value.String() renders the bound variable", "in-process execution from the post-init snapshot of all flag values equals a fresh process (package-level state not bound to flags is not reset)",
			"every process runs with COLUMNS=97 LINES=43 TERM=dumb NO_COLOR=1 exported, so that an effective default taken from the environment after registration differs from the documented one"},
		Serial:  false,
		Require: []string{"flags_static", "flags_shared_storage", "e2e_pairs"},
		Run: func(c *Ctx) {
			defer cliCleanup()
			if !c.Quick() {
				c19binary = os.Getenv("VERIF_GOTREE_BIN")
				if c19binary != "" {
					c.Note("fresh_processes", "thorough tier: every omitted/explicit-default pair is also run in fresh processes of the plain binary")
				}
			}
			flags := c19flags()
			groups := map[uintptr][]int{}
			for i, f := range flags {
				if f.addr != 0 {
					groups[f.addr] = append(groups[f.addr], i)
				}
			}
			cmds := map[string]bool{}
			for i := range flags {
				f := flags[i]
				cmds[f.Cmd] = true
				if !c.Mine() {
					continue
				}
				c.States++
				c.Count("flags_static", 1)
				shared := len(groups[f.addr]) > 1
				if shared {
					c.Count("flags_shared_storage", 1)
				}
				if shared || (f.Def != "" && f.Def != "false" && f.Def != "0" && f.Def != "[]") {
					c.Nontrivial(f.Cmd + " --" + f.Flag)
				}
				c.Outcome(f.Type + ":" + f.Def)
				if shared {
					c.Sample(map[string]any{"command": f.Cmd, "flag": f.Flag, "documented_default": f.Def, "value_in_force": f.Actual, "flags_sharing_the_variable": len(groups[f.addr])})
				}
				c.Check(c19case{Kind: "static", Flag: &f}, func() (string, string) {
					if f.Def != f.Actual {
						culprit := ""
						for _, j := range groups[f.addr] {
							if flags[j].Def == f.Actual && (flags[j].Cmd != f.Cmd || flags[j].Flag != f.Flag) {
								culprit = fmt.Sprintf("; the variable is shared with `%s --%s` whose default %q is the one in force", flags[j].Cmd, flags[j].Flag, flags[j].Def)
								break
							}
						}
						return fmt.Sprintf("C19/default-mismatch/%s --%s", f.Cmd, f.Flag),
							fmt.Sprintf("`%s --%s`: documented default %q, value actually used when the option is omitted %q%s", f.Cmd, f.Flag, f.Def, f.Actual, culprit)
					}
					if ok, line := c19helpShows(f.f); !ok {
						return fmt.Sprintf("C19/help-text/%s --%s", f.Cmd, f.Flag), fmt.Sprintf("help line %q does not show the default %q", line, f.Def)
					}
					return "", ""
				})
			}
			c.Max("commands", int64(len(cmds)))
			// the flag set of every command can be assembled: a persistent option registered by a parent must not collide with one of the command
			if c.Shard == 0 {
				cliResetFlags()
				for _, cc := range cliAllCommands() {
					path := cc.CommandPath()
					c.Count("commands_flag_sets_assembled", 1)
					c.Check(c19case{Kind: "flagset", Flag: &c19flag{Cmd: path}}, func() (string, string) {
						if msg, bad := cliFlagPanics[path]; bad {
							return "C19/registration-conflict/" + path, fmt.Sprintf("the options of `%s` cannot be combined with the persistent options registered by its parents: %s (every invocation of the command panics)", path, msg)
						}
						return "", ""
					})
				}
			}
			// the documented default of --seed is the clock in NANOseconds: two runs started a nanosecond apart, inside the
			// same second, draw different random numbers (a generator with continuous output shows it with certainty)
			if c.Shard == 0 {
				for _, e := range cliTable() {
					if e.Name != "generate-yuletree-noseed" {
						continue
					}
					e := e
					c.Count("default_seed_granularity_checked", 1)
					c.Check(c19case{Kind: "seed-granularity", E2E: &c19e2e{Name: e.Name, Flag: "seed"}}, func() (string, string) {
						a, _ := cliExec(mcrt.Config{MapMode: mcrt.MapSorted}, e.Args, e.Stdin, e.Files, e.Out)
						b, _ := cliExec(mcrt.Config{MapMode: mcrt.MapSorted, ClockShift: -time.Nanosecond}, e.Args, e.Stdin, e.Files, e.Out)
						if a.Stdout == b.Stdout && a.Stdout != "" {
							return "C19/default-seed-granularity", fmt.Sprintf("`gotree %s` run at T0 and at T0-1ns (same second) writes the same random tree %q: the seed in force when --seed is left out is not the documented nanosecond clock", strings.Join(e.Args, " "), a.Stdout)
						}
						return "", ""
					})
				}
			}
			// (4) behavioural
			covered := map[string]bool{}
			for _, e := range cliTable() {
				cmdr, fl := c19resolve(e.Args)
				if cmdr == nil {
					c.EngineError("driver table entry does not resolve: " + e.Name)
					continue
				}
				covered[cmdr.CommandPath()] = true
				// variables already written by an option on the line: an alias of such an option (reformat --input-format / --format) is not "omitted"
				givenAddr := map[uintptr]bool{}
				for _, f := range fl {
					if c19given(e.Args, f) {
						givenAddr[c19addr(f.Value)] = true
					}
				}
				for _, f := range fl {
					if c.TimeUp() {
						return
					}
					if f.Name == "help" || c19given(e.Args, f) || f.DefValue == "[]" || givenAddr[c19addr(f.Value)] {
						continue
					}
					if !c.Mine() {
						continue
					}
					f := f
					e := e
					c.States++
					c.Transitions += 2
					c.Count("e2e_pairs", 1)
					c.Check(c19case{Kind: "e2e", E2E: &c19e2e{Name: e.Name, Flag: f.Name}}, func() (string, string) { return c19e2eCheck(e, f) })
				}
				// second order: one boolean option of the command switched to its other value - the remaining omitted
				// options still mean their documented defaults (an option must not change what leaving another one out means)
				for _, b := range fl {
					if b.Value.Type() != "bool" || b.Name == "help" || c19given(e.Args, b) || givenAddr[c19addr(b.Value)] {
						continue
					}
					with := "--" + b.Name + "=" + map[string]string{"true": "false", "false": "true"}[b.DefValue]
					e2 := c19with(e, with)
					for _, f := range fl {
						if c.TimeUp() {
							return
						}
						if f == b || f.Name == "help" || c19given(e.Args, f) || f.DefValue == "[]" || givenAddr[c19addr(f.Value)] || c19addr(f.Value) == c19addr(b.Value) {
							continue
						}
						if !c.Mine() {
							continue
						}
						f := f
						c.States++
						c.Transitions += 2
						c.Count("e2e_pairs_with_a_boolean_option_switched", 1)
						c.Check(c19case{Kind: "e2e", E2E: &c19e2e{Name: e.Name, Flag: f.Name, With: with}}, func() (string, string) { return c19e2eCheck(e2, f) })
					}
				}
			}
			c.Max("commands_run_end_to_end", int64(len(covered)))
		},
		Replay: func(c *Ctx, raw json.RawMessage) {
			defer cliCleanup()
			var cs c19case
			json.Unmarshal(raw, &cs)
			if cs.Kind == "flagset" && cs.Flag != nil {
				cliInit()
				cliResetFlags()
				if msg, bad := cliFlagPanics[cs.Flag.Cmd]; bad {
					c.Violate("C19/registration-conflict/"+cs.Flag.Cmd, msg, cs)
				}
				return
			}
			if cs.Kind == "static" && cs.Flag != nil {
				for _, f := range c19flags() {
					if f.Cmd == cs.Flag.Cmd && f.Flag == cs.Flag.Flag {
						fmt.Printf("%s --%s: documented %q actual %q\n", f.Cmd, f.Flag, f.Def, f.Actual)
						if f.Def != f.Actual {
							c.Violate(fmt.Sprintf("C19/default-mismatch/%s --%s", f.Cmd, f.Flag), "documented default differs from the value in force", cs)
						}
					}
				}
				return
			}
			if cs.E2E != nil {
				for _, e := range cliTable() {
					if e.Name != cs.E2E.Name {
						continue
					}
					_, fl := c19resolve(e.Args)
					e = c19with(e, cs.E2E.With)
					for _, f := range fl {
						if f.Name == cs.E2E.Flag {
							k, w := c19e2eCheck(e, f)
							fmt.Println(k, w)
							if k != "" {
								c.Violate(k, w, cs)
							}
						}
					}
				}
			}
		},
	})
}

package main

import "strings"

// cliEntry is one runnable command line of the driver table (tiny inputs, no network).
type cliEntry struct {
	Name  string
	Args  []string
	Stdin string
	Files map[string]string
	Out   []string // output files to collect ("@/name")
}

const (
	cliT5    = "((A:1,B:2)0.9:0.5,(C:1,D:0.25)0.7:1.5,E:3);\n"
	cliT5b   = "((A:1,C:2)0.6:0.5,(B:1,D:1)0.8:1,E:2);\n"
	cliT5c   = "((A:2,B:1)0.5:1,C:1,D:1,E:1);\n"
	cliR4    = "((A:1,B:1)0.8:1,(C:1,D:2)0.9:2);\n"
	cliNamed = "((A:1,B:2)ab:0.5,(C:1,D:0.25)cd:1.5,E:3)root;\n"
	cliPoly  = "((A:1,B:2,C:1)0.9:0.5,D:0.25,E:3,F:1);\n"
	cliT8    = "(((A:1,B:1)0.8:1,(C:1,D:1)0.6:1)0.9:1,((E:1,F:1)0.7:1,(G:1,H:1)0.5:1)0.4:1,I:2);\n"
	cliCom   = "((A[a1]:1[e1],B:2)[n1]:0.5[e2],(C:1,D:0.25)0.7:1.5,E:3);\n"
)

var cliFiles = map[string]string{
	"t.nw":          cliT5,
	"t2.nw":         cliT5b,
	"t3.nw":         cliT5c,
	"r.nw":          cliR4,
	"r2.nw":         "((F:1,G:1)0.8:1,(H:1,I:2)0.9:2);\n",
	"named.nw":      cliNamed,
	"poly.nw":       cliPoly,
	"t8.nw":         cliT8,
	"com.nw":        cliCom,
	"multi.nw":      cliT5 + cliT5b + cliT5c,
	"boot.nw":       cliT5 + cliT5b + cliT5 + cliT5c,
	"multi8.nw":     cliT8 + cliT8 + "(((A:1,B:1)0.8:1,(C:1,D:1)0.6:1)0.9:1,((E:1,G:1)0.7:1,(F:1,H:1)0.5:1)0.4:1,I:2);\n",
	"states.txt":    "A,x\nB,x\nC,y\nD,y\nE,x\n",
	"states6.txt":   "A,x\nB,y\nC,z\nD,y\nE,x\nF,z\n",
	"al.fa":         ">A\nACGT\n>B\nACGA\n>C\nTCGA\n>D\nTCGN\n>E\nACRT\n",
	"prot.fa":       ">A\nMKXL\n>B\nMKVL\n>C\nMRXL\n>D\nMRIL\n>E\nMKXL\n",
	"al.phy":        " 5 4\nA ACGT\nB ACGA\nC TCGA\nD TCGN\nE ACRT\n",
	"alanc.fa":      ">A\nA\n>B\nA\n>ab\nA\n>C\nC\n>D\nT\n>cd\nC\n>E\nA\n>root\nA\n",
	"annot.txt":     "ann1:A,B\nann2:C,D\n",
	"map.txt":       "A\tTa\nB\tTb\nC\tTc\nD\tTd\nE\tTe\n",
	"tips.txt":      "A\nB\n",
	"multi2.nw":     "(A1:1,B:1,(C:1,D:1):1);\n(A2:1,B:1,(C:1,D:1):1);\n(A3:1,C:1,(B:1,D:1):1);\n(A4:1,C:1,(B:1,D:1):1);\n",
	"chainmap.txt":  "A\tB\nB\tC\nC\tD\nD\tE\nE\tA\n",
	"chainmap2.txt": "ab\tcd\ncd\troot\nroot\tab\nA\tB\nB\tA\n",
	"tipsx.txt":     "A\nB\nC\nD\nE\nZ\nY\nX\n",
	"groups.txt":    "A,A2,A3\nC,C2\n",
	"br.txt":        "ab\n",
	"graft.nw":      "(X:1,Y:1,Z:1);\n",
	"dates.nw":      "((A[&date=\"2024\"]:1,B[&date=\"2024\"]:1)[&date=\"2023\"]:1,C[&date=\"2024\"]:2)[&date=\"2022\"];\n",
	"t.nx":          "#NEXUS\nBEGIN TAXA;\n DIMENSIONS NTAX=5;\n TAXLABELS A B C D E;\nEND;\nBEGIN TREES;\n TREE t1 = ((A:1,B:2)0.9:0.5,(C:1,D:0.25)0.7:1.5,E:3);\nEND;\n",
}

func cliE(name string, args string, out ...string) cliEntry {
	return cliEntry{Name: name, Args: strings.Fields(args), Files: cliFiles, Out: out}
}

// cliTable lists runnable command lines covering the commands of the CLI (network commands, the interactive
// console, shell completion and binary image output are left out).
func cliTable() []cliEntry {
	t := []cliEntry{
		cliE("acr-acctran", "acr -i @/t.nw --states @/states.txt --algo acctran"),
		cliE("acr-deltran", "acr -i @/poly.nw --states @/states6.txt --algo deltran"),
		cliE("acr-downpass-states", "acr -i @/t.nw --states @/states.txt --algo downpass --out-states @/st.txt --out-steps @/steps.txt -o @/o.nw", "@/st.txt", "@/steps.txt", "@/o.nw"),
		cliE("annotate-map", "annotate -i @/t.nw -m @/annot.txt"),
		cliE("annotate-tree", "annotate -i @/t.nw -c @/named.nw"),
		cliE("annotate-comment", "annotate -i @/t.nw -m @/annot.txt --comment"),
		cliE("asr-acctran", "asr -i @/t.nw -a @/al.fa --algo acctran"),
		cliE("asr-downpass-phylip", "asr -i @/t.nw -a @/al.phy -p --algo downpass"),
		cliE("asr-protein-X", "asr -i @/t.nw -a @/prot.fa --algo deltran"),
		cliE("brlen-add", "brlen add -i @/t.nw -l 1.5"),
		cliE("brlen-clear", "brlen clear -i @/t.nw"),
		cliE("brlen-cut", "brlen cut -i @/t.nw -l 1.2"),
		cliE("brlen-round", "brlen round -i @/t.nw -p 1"),
		cliE("brlen-scale", "brlen scale -i @/t.nw -f 2.5"),
		cliE("brlen-set", "brlen set -i @/t.nw -l 0.5"),
		cliE("brlen-setmin", "brlen setmin -i @/t.nw -l 1"),
		cliE("brlen-setrand", "brlen setrand -i @/t.nw --seed 3"),
		cliE("collapse-clade", "collapse clade -i @/t.nw -n AB -c @/clade.nw -o @/o.nw A B", "@/clade.nw", "@/o.nw"),
		cliE("collapse-depth", "collapse depth -i @/t8.nw -m 2 -M 3"),
		cliE("collapse-length", "collapse length -i @/t.nw -l 0.5"),
		cliE("collapse-name", "collapse name -i @/named.nw -b @/br.txt"),
		cliE("collapse-single", "collapse single -i @/t.nw"),
		cliE("collapse-support", "collapse support -i @/t.nw -s 0.8"),
		cliE("comment-clear", "comment clear -i @/com.nw"),
		cliE("comment-transfer", "comment transfer -i @/com.nw"),
		cliE("compare-edges", "compare edges -i @/t.nw -c @/t2.nw"),
		cliE("compare-edges-transfer", "compare edges -i @/t.nw -c @/t2.nw --transfer-dist --moved-taxa"),
		cliE("compare-tips", "compare tips -i @/t.nw -c @/t8.nw"),
		cliE("compare-tips-file", "compare tips -i @/t.nw -f @/tipsx.txt"),
		cliE("compare-trees", "compare trees -i @/t.nw -c @/multi.nw"),
		cliE("compare-trees-tips", "compare trees -i @/t.nw -c @/multi.nw --tips"),
		cliE("compare-trees-binary", "compare trees -i @/t.nw -c @/multi.nw --binary"),
		cliE("compare-trees-rf", "compare trees -i @/t.nw -c @/multi.nw --rf"),
		cliE("compare-trees-weighted", "compare trees -i @/t.nw -c @/multi.nw --weighted"),
		cliE("compute-bipartitiontree", "compute bipartitiontree -i @/t.nw A B"),
		cliE("compute-consensus", "compute consensus -i @/multi.nw -f 0.5"),
		cliE("compute-consensus-default", "compute consensus -i @/multi.nw"),
		cliE("compute-consensus-several-splits", "compute consensus -i @/multi8.nw -f 0.5"), // four retained bipartitions: their insertion order shows
		cliE("compute-consensus-strict-several-splits", "compute consensus -i @/multi8.nw -f 1"),
		cliE("compute-edgetrees", "compute edgetrees -i @/t.nw"),
		cliE("compute-mutations", "compute mutations -i @/named.nw -a @/alanc.fa"),
		cliE("compute-mutations-eems", "compute mutations -i @/named.nw -a @/alanc.fa --eems"),
		cliE("compute-roccurve", "compute roccurve -i @/multi.nw -r @/t.nw"),
		cliE("compute-support-fbp", "compute support fbp -i @/t.nw -b @/boot.nw"),
		cliE("compute-support-tbe", "compute support tbe -i @/t.nw -b @/boot.nw"),
		cliE("compute-support-tbe-raw", "compute support tbe -i @/t.nw -b @/boot.nw --moved-taxa --per-branches --out-raw @/raw.nw -l @/log.txt", "@/raw.nw", "@/log.txt"),
		cliE("compute-support-booster", "compute support booster -i @/t.nw -b @/boot.nw"),
		cliE("divide", "divide -i @/multi.nw -o @/div", "@/div_000.nw", "@/div_001.nw", "@/div_002.nw"),
		cliE("draw-text", "draw text -i @/t.nw -w 40"),
		cliE("draw-svg", "draw svg -i @/t.nw -w 100 -H 100 --with-branch-support"),
		cliE("draw-svg-radial", "draw svg -i @/t.nw -r"),
		cliE("generate-balancedtree", "generate balancedtree -d 3 --seed 7"),
		cliE("generate-caterpillartree", "generate caterpillartree -l 6 --seed 7 -n 2"),
		cliE("generate-startree", "generate startree -l 5 --seed 7"),
		cliE("generate-topologies", "generate topologies -l 5"),
		cliE("generate-topologies-input", "generate topologies -i @/t.nw -r"),
		cliE("generate-uniformtree", "generate uniformtree -l 7 --seed 7 -r"),
		cliE("generate-yuletree", "generate yuletree -l 7 --seed 7 -n 2"),
		cliE("graft", "graft -i @/t.nw -c @/graft.nw -l A"),
		cliE("labels", "labels -i @/named.nw"),
		cliE("labels-internal", "labels -i @/named.nw --internal --tips=false"),
		cliE("ltt", "ltt -i @/r.nw"),
		cliE("matrix", "matrix -i @/t.nw"),
		cliE("matrix-boot", "matrix -i @/t.nw -m boot"),
		cliE("matrix-avg", "matrix -i @/multi.nw --avg -m none"),
		cliE("merge", "merge -i @/r.nw -c @/r2.nw"),
		cliE("nni", "nni -i @/t.nw"),
		cliE("prune-args", "prune -i @/t8.nw A B"),
		cliE("prune-tipfile", "prune -i @/t8.nw -f @/tipsx.txt -r"),
		cliE("prune-comp", "prune -i @/t8.nw -c @/t.nw"),
		cliE("prune-random", "prune -i @/t8.nw --random 3 --seed 5"),
		cliE("reformat-newick", "reformat newick -i @/t.nx -f nexus"),
		cliE("reformat-nexus", "reformat nexus -i @/multi.nw"),
		cliE("reformat-nexus-translate", "reformat nexus -i @/multi.nw --translate"),
		cliE("reformat-phyloxml", "reformat phyloxml -i @/multi.nw"),
		cliE("rename-map", "rename -i @/t.nw -m @/map.txt"),
		cliE("rename-chain", "rename -i @/t.nw -m @/chainmap.txt"),
		cliE("rename-chain-internal", "rename -i @/named.nw -m @/chainmap2.txt --internal"),
		cliE("rename-chain-revert", "rename -i @/t.nw -m @/chainmap.txt -r"),
		cliE("rename-regexp-collisions", "rename -i @/multi2.nw -e A\\d -b A -m @/mapout.txt", "@/mapout.txt"),
		cliE("reroot-outgroup-nonclade", "reroot outgroup -i @/t8.nw A C E"),
		cliE("reroot-outgroup-nonclade2", "reroot outgroup -i @/t8.nw B H"),
		cliE("reroot-outgroup-nonclade-poly", "reroot outgroup -i @/poly.nw A D"),
		cliE("rename-auto", "rename -i @/multi.nw -a -l 3 -m @/mapout.txt", "@/mapout.txt"),
		cliE("rename-regexp", "rename -i @/multi.nw -e ([A-C]) -b T$1 -m @/mapout.txt", "@/mapout.txt"),
		cliE("rename-internal", "rename -i @/named.nw --internal --tips=false -a -m @/mapout.txt", "@/mapout.txt"),
		cliE("repopulate", "repopulate -i @/t.nw -g @/groups.txt"),
		cliE("reroot-midpoint", "reroot midpoint -i @/t.nw"),
		cliE("reroot-outgroup", "reroot outgroup -i @/t.nw C D"),
		cliE("reroot-outgroup-file", "reroot outgroup -i @/t.nw -l @/tips.txt -r"),
		cliE("resolve", "resolve -i @/poly.nw --seed 4"),
		cliE("rotate-rand", "rotate rand -i @/t.nw --seed 4"),
		cliE("rotate-sort", "rotate sort -i @/t8.nw"),
		cliE("sample", "sample -i @/multi.nw -n 2 --seed 4"),
		cliE("sample-replace", "sample -i @/multi.nw -n 4 --seed 4 --replace"),
		cliE("shuffletips", "shuffletips -i @/t.nw --seed 4"),
		cliE("stats", "stats -i @/multi.nw"),
		cliE("stats-edges", "stats edges -i @/t.nw"),
		cliE("stats-nodes", "stats nodes -i @/named.nw"),
		cliE("stats-rooted", "stats rooted -i @/r.nw"),
		cliE("stats-splits", "stats splits -i @/t.nw"),
		cliE("stats-tips", "stats tips -i @/t.nw"),
		cliE("stats-monophyletic", "stats monophyletic -i @/multi.nw A B"),
		cliE("subtree", "subtree -i @/named.nw -n cd"),
		cliE("support-clear", "support clear -i @/t.nw"),
		cliE("support-round", "support round -i @/t.nw -p 0"),
		cliE("support-scale", "support scale -i @/t.nw -f 100"),
		cliE("support-setrand", "support setrand -i @/t.nw --seed 4"),
		cliE("unroot", "unroot -i @/r.nw"),
		cliE("version", "version"),
	}
	// random commands without --seed (the clock seeds the generator) and with a negative seed
	t = append(t,
		cliE("shuffletips-noseed", "shuffletips -i @/t8.nw"),
		cliE("generate-yuletree-noseed", "generate yuletree -l 6"),
		cliE("resolve-noseed", "resolve -i @/poly.nw"),
		cliE("shuffletips-negseed", "shuffletips -i @/t8.nw --seed -2"),
		cliE("generate-uniformtree-negseed", "generate uniformtree -l 6 --seed -7"),
		cliE("brlen-setrand-negseed", "brlen setrand -i @/t.nw --seed -3"),
	)
	// the same through standard input and other input formats
	t = append(t,
		cliEntry{Name: "stats-stdin", Args: []string{"stats"}, Stdin: cliT5 + cliT5b, Files: cliFiles},
		cliEntry{Name: "stats-nexus", Args: strings.Fields("stats -i @/t.nx --format nexus"), Files: cliFiles},
		cliEntry{Name: "compare-trees-threads", Args: strings.Fields("compare trees -i @/t.nw -c @/multi.nw -t 2"), Files: cliFiles},
	)
	t = append(t,
		cliE("compute-support-fbp-outfile", "compute support fbp -i @/t.nw -b @/boot.nw -o @/sup.nw --silent", "@/sup.nw"),
		cliE("compute-support-tbe-outfile", "compute support tbe -i @/t.nw -b @/boot.nw -o @/sup.nw --silent", "@/sup.nw"),
	)
	// inside a pipe: every option left out, the tree comes on standard input
	for _, line := range []string{"resolve", "unroot", "stats edges", "stats nodes", "stats tips", "stats rooted", "stats splits", "reformat nexus", "reformat newick", "reformat phyloxml",
		"brlen clear", "support clear", "comment clear", "rotate sort", "labels", "collapse single", "collapse length", "collapse support", "collapse depth", "draw text", "matrix", "ltt", "compute edgetrees", "compute bipartitiontree A B"} {
		name := strings.ReplaceAll(line, " ", "-") + "-pipe"
		if line == "resolve" {
			name += "-noseed"
		}
		t = append(t, cliEntry{Name: name, Args: strings.Fields(line), Stdin: cliPoly, Files: cliFiles})
	}
	return t
}

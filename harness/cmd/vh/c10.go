package main

import (
	"encoding/json"
	"fmt"
	"math"
	"runtime/debug"
	"sort"
	"strings"

	"github.com/evolbioinfo/gotree/mcrt"
	"github.com/evolbioinfo/gotree/support"
	"github.com/evolbioinfo/gotree/tree"

	"verif/harness/enum"
	rm "verif/harness/refmodel"
)

// C10: bootstrap supports equal their definitions (FBP and TBE).
//
// A "class" is one labelled unrooted topology; a "presentation" is one Newick text of it
// (root at an inner node or on a branch, children as enumerated or mirrored). A group is a
// tuple (class of the reference tree, multiset of classes of the bootstrap trees); inside a
// group the real code is executed on many presentations / orders, each execution is compared
// with the brute-force oracle, and all executions of a group must give bit-identical supports.

// ---- presentations ------------------------------------------------------------------

type c10pres struct {
	Text   string
	Rooted bool // bifurcating root (rooted on a branch)
	Reroot bool // root elsewhere than in the canonical presentation
	Mirror bool // child order reversed everywhere
}

type c10class struct {
	Pres  []c10pres // Pres[0] = canonical presentation (as enumerated)
	Light []int     // canonical + the un-mirrored rooting on every branch
	Multi bool      // has a multifurcation (unrooted view)
}

func c10classes(n int) []*c10class {
	var out []*c10class
	for _, u := range enum.Unrooted(enum.Labels(n, ""), false) {
		g := rm.C10ToGraph(u)
		cl := &c10class{}
		seen := map[string]bool{}
		add := func(t *rm.Tree, rooted, reroot, mirror, light bool) {
			txt := t.Newick()
			if seen[txt] {
				return
			}
			seen[txt] = true
			if light {
				cl.Light = append(cl.Light, len(cl.Pres))
			}
			cl.Pres = append(cl.Pres, c10pres{Text: txt, Rooted: rooted, Reroot: reroot, Mirror: mirror})
		}
		add(g.AtNode(0, false), false, false, false, true)
		if cl.Pres[0].Text != u.Newick() {
			panic("harness: canonical presentation is not reproduced by the graph view")
		}
		// rooted on every branch (tip branches included), children as enumerated
		for v := range g.Adj {
			if len(g.Adj[v]) > 3 {
				cl.Multi = true
			}
			for _, w := range g.Adj[v] {
				if v < w {
					add(g.OnEdge(v, w, false), true, true, false, true)
				}
			}
		}
		// root at every inner node, as enumerated and mirrored
		for v := range g.Adj {
			if len(g.Adj[v]) >= 3 {
				add(g.AtNode(v, false), false, v != 0, false, false)
				add(g.AtNode(v, true), false, v != 0, true, false)
			}
		}
		// rooted on every branch, mirrored
		for v := range g.Adj {
			for _, w := range g.Adj[v] {
				if v < w {
					add(g.OnEdge(v, w, true), true, true, true, false)
				}
			}
		}
		out = append(out, cl)
	}
	return out
}

// ---- executing the real code ---------------------------------------------------------

const (
	c10FBP = iota
	c10TBE
	c10TBEtaxa // TBE with the moved-taxa options on (MinTransferDist then does the full traversal)
)

var c10opName = []string{"FBP", "TBE", "TBE+taxa"}

func c10guard(f func()) mcrt.Result {
	return mcrt.Run(mcrt.Config{NoSched: true, NumCPU: 1, Fuel: 50_000_000}, f)
}

type c10obs struct {
	crash string // "" or key suffix
	what  string
	err   error
	api   *rm.Tree // public API walk of the annotated reference tree
	text  string   // its Newick text
}

// c10runOp parses everything from text (as the commands do) and runs one support computation with 1 worker.
func c10runOp(op int, ref string, boots []string) (o c10obs) {
	r := c10guard(func() {
		rt := gtMustParse(ref)
		bts := make([]*tree.Tree, len(boots))
		for i, b := range boots {
			bts[i] = gtMustParse(b)
		}
		switch op {
		case c10FBP:
			o.err = support.FBP(rt, feed(bts), 1, nil)
		default:
			// the caller's side of TBE's contract (cmd/booster.go does the same)
			if err := rt.ReinitIndexes(); err != nil {
				panic(err)
			}
			taxa := op == c10TBEtaxa
			_, o.err = support.TBE(rt, feed(bts), 1, false, taxa, taxa, 0.3, nil, nil)
		}
		if o.err == nil {
			var e error
			if o.api, e = observe(rt); e != nil {
				panic("harness: annotated reference tree is malformed: " + e.Error())
			}
			o.text = rt.Newick()
		}
	})
	if crashed(r) {
		o.crash = crashSite(r)
		o.what = verdictStr(r)
	}
	return
}

// ---- comparing one annotated tree with the oracle --------------------------------------

type c10counts map[string]int64

func (m c10counts) add(k string) {
	if m != nil {
		m[k]++
	}
}

// c10eval checks every branch of the observed tree o against ex. vals receives the values seen on
// non-trivial inner branches (canonical split -> values, two for the root branches of a rooted tree).
func c10eval(op int, ex *rm.C10Expect, o *rm.Tree, fromText bool, vals map[rm.Split][]float64, cnt c10counts) (string, string) {
	opn := c10opName[op]
	if op == c10TBEtaxa {
		opn = "TBE"
	}
	src := "API walk"
	if fromText {
		src = "Newick text"
	}
	names := o.TipNames()
	if strings.Join(names, ",") != strings.Join(ex.Names, ",") {
		return "C10/" + opn + "/reference-tree-changed", fmt.Sprintf("%s: tips %v, expected %v", src, names, ex.Names)
	}
	below := o.Below(ex.Idx)
	var key, what string
	fail := func(k, w string) {
		if key == "" {
			key, what = k, src+": "+w
		}
	}
	seen := map[rm.Split]bool{}
	rootedRef := o.Rooted()
	o.Walk(func(nd, p *rm.Node) {
		if p == nil || key != "" {
			return
		}
		b := below[nd]
		k := b.Canon(ex.N)
		seen[k] = true
		side := strings.Join(b.Names(ex.Names), "")
		if nd.IsTip() {
			if !fromText {
				cnt.add("tip_branch_checked")
				if nd.HasSup {
					fail("C10/"+opn+"/tip-branch-has-support", fmt.Sprintf("tip branch %s carries support %v", side, nd.Sup))
				}
			}
			return
		}
		br := ex.Branch[k]
		if br == nil {
			fail("C10/"+opn+"/reference-tree-changed", fmt.Sprintf("branch {%s} is not a branch of the reference tree", side))
			return
		}
		atRoot := rootedRef && p == o.Root
		if br.Depth < 2 {
			// the root branch next to a tip child of the root: same bipartition as that tip branch.
			// As a tip branch it gets no support; as an inner branch its split is in every tree (support 1).
			cnt.add("root_branch_with_trivial_split_checked")
			if nd.HasSup && nd.Sup != 1 {
				fail("C10/"+opn+"/root-branch-beside-tip/support-neither-absent-nor-1",
					fmt.Sprintf("root branch {%s} separates one taxon from the others (a split every tree contains) and carries support %v", side, nd.Sup))
			}
			return
		}
		feat := "deep-branch"
		if br.Depth == 2 {
			feat = "cherry"
		}
		if atRoot {
			feat += "/root-branch"
		}
		if !nd.HasSup {
			fail("C10/"+opn+"/inner-branch-without-support/"+feat, fmt.Sprintf("inner branch {%s} (light side %d) has no support", side, br.Depth))
			return
		}
		v := nd.Sup
		vals[k] = append(vals[k], v)
		if math.IsNaN(v) || v < 0 || v > 1 {
			fail("C10/"+opn+"/range", fmt.Sprintf("support %v of branch {%s} outside [0,1]", v, side))
			return
		}
		cnt.add("range_checked")
		switch opn {
		case "FBP":
			cnt.add("fbp_value_checked")
			if !rm.Close(v, br.FBP) {
				fail("C10/FBP/value/"+feat, fmt.Sprintf("branch {%s}: FBP %v, definition %d/%d = %v", side, v, br.Count, ex.K, br.FBP))
				return
			}
			if (v == 1) != br.InAll {
				fail("C10/FBP/one-iff-in-every-tree/"+feat, fmt.Sprintf("branch {%s}: FBP %v, in %d of %d trees", side, v, br.Count, ex.K))
			}
		default:
			cnt.add("tbe_value_checked")
			if br.Depth == 2 {
				cnt.add("tbe_cherry_checked")
			} else {
				cnt.add("tbe_deep_checked")
			}
			if !rm.Close(v, br.TBE) {
				fail("C10/TBE/value/"+feat, fmt.Sprintf("branch {%s} (light side %d): TBE %v, definition 1-(%v/%d)/%d = %v", side, br.Depth, v, br.Dists, ex.K, br.Depth-1, br.TBE))
				return
			}
			if br.InAll {
				cnt.add("tbe_one_iff_checked_present")
			} else {
				cnt.add("tbe_one_iff_checked_absent")
			}
			if (v == 1) != br.InAll {
				fail("C10/TBE/one-iff-in-every-tree/"+feat, fmt.Sprintf("branch {%s}: TBE %v, split in %d of %d trees", side, v, br.Count, ex.K))
			}
		}
	})
	if key != "" {
		return key, what
	}
	for _, s := range rm.C10SortedSplits(ex.Branch) {
		if !seen[s] {
			return "C10/" + opn + "/reference-tree-changed", fmt.Sprintf("%s: branch {%s} of the reference tree disappeared", src, strings.Join(s.Names(ex.Names), ""))
		}
	}
	return "", ""
}

func c10sig(vals map[rm.Split][]float64) string {
	var ks []rm.Split
	for k := range vals {
		ks = append(ks, k)
	}
	sort.Slice(ks, func(i, j int) bool { return ks[i] < ks[j] })
	var sb strings.Builder
	for _, k := range ks {
		v := append([]float64(nil), vals[k]...)
		sort.Float64s(v)
		last := math.NaN()
		for i, x := range v {
			if i > 0 && rm.SameFloat(x, last) {
				continue
			}
			fmt.Fprintf(&sb, "%d=%x,", uint64(k), math.Float64bits(x))
			last = x
		}
	}
	return sb.String()
}

type c10case struct {
	Fam       string   `json:"family"`
	Ref       string   `json:"ref"`
	Boots     []string `json:"boots"`
	BaseRef   string   `json:"base_ref,omitempty"`
	BaseBoots []string `json:"base_boots,omitempty"`
	Variant   string   `json:"variant,omitempty"`
	Taxa      bool     `json:"tbe_moved_taxa_options,omitempty"`
	NBoot     int      `json:"nboot,omitempty"`
}

type c10out struct {
	key, what      string
	sigFBP, sigTBE string
}

func c10models(cs c10case) (*rm.Tree, []*rm.Tree, error) {
	ref, err := rm.ParseNewick(cs.Ref)
	if err != nil {
		return nil, nil, err
	}
	var boots []*rm.Tree
	for _, b := range cs.Boots {
		m, err := rm.ParseNewick(b)
		if err != nil {
			return nil, nil, err
		}
		boots = append(boots, m)
	}
	return ref, boots, nil
}

// c10support: FBP and TBE on one (reference, collection) against the oracle.
func c10support(cs c10case, cnt c10counts) (out c10out) {
	ref, boots, err := c10models(cs)
	if err != nil {
		panic("harness: " + err.Error())
	}
	ex, err := rm.C10Oracle(ref, boots)
	if err != nil {
		panic("harness: " + err.Error())
	}
	in := fmt.Sprintf("ref %s boots %s", cs.Ref, strings.Join(cs.Boots, " "))
	ops := []int{c10FBP, c10TBE}
	if cs.Taxa {
		ops = append(ops, c10TBEtaxa)
	}
	allVals := make([]map[rm.Split][]float64, 3)
	for _, op := range ops {
		o := c10runOp(op, cs.Ref, cs.Boots)
		opn := c10opName[op]
		if o.crash != "" {
			out.key, out.what = "C10/"+opn+"/crash/"+o.crash, in+": "+o.what
			return
		}
		if o.err != nil {
			out.key, out.what = "C10/"+opn+"/error-on-valid-input", fmt.Sprintf("%s: %v", in, o.err)
			return
		}
		vals := map[rm.Split][]float64{}
		if k, w := c10eval(op, ex, o.api, false, vals, cnt); k != "" {
			out.key, out.what = k, fmt.Sprintf("%s -> %s: %s", in, o.text, w)
			return
		}
		tm, err := rm.ParseNewick(o.text)
		if err != nil {
			out.key, out.what = "C10/"+opn+"/unreadable-output", fmt.Sprintf("%s -> %q: %v", in, o.text, err)
			return
		}
		if k, w := c10eval(op, ex, tm, true, map[rm.Split][]float64{}, nil); k != "" {
			out.key, out.what = k, fmt.Sprintf("%s -> %s: %s", in, o.text, w)
			return
		}
		allVals[op] = vals
	}
	// clauses relating the two supports, on the values the implementation produced
	for _, s := range rm.C10SortedSplits(ex.Branch) {
		for _, f := range allVals[c10FBP][s] {
			for _, t := range allVals[c10TBE][s] {
				cnt.add("tbe_ge_fbp_checked")
				side := strings.Join(s.Names(ex.Names), "")
				if t < f-1e-12 {
					out.key, out.what = "C10/TBE/below-FBP", fmt.Sprintf("%s: branch {%s} TBE %v < FBP %v", in, side, t, f)
					return
				}
				if (t == 1) != (f == 1) {
					out.key, out.what = "C10/TBE/one-iff-FBP-one", fmt.Sprintf("%s: branch {%s} TBE %v, FBP %v", in, side, t, f)
					return
				}
			}
		}
	}
	out.sigFBP, out.sigTBE = c10sig(allVals[c10FBP]), c10sig(allVals[c10TBE])
	if cs.Taxa {
		cnt.add("tbe_taxa_options_compared")
		if s := c10sig(allVals[c10TBEtaxa]); s != out.sigTBE {
			out.key, out.what = "C10/TBE/moved-taxa-options-change-supports", in
		}
	}
	return
}

// c10supportInv = c10support + comparison with the base presentation of the group (bit-identical supports).
func c10supportInv(cs c10case, base *c10out, cnt c10counts) (string, string) {
	out := c10support(cs, cnt)
	if out.key != "" || cs.BaseRef == "" {
		return out.key, out.what
	}
	if base == nil {
		b := c10support(c10case{Ref: cs.BaseRef, Boots: cs.BaseBoots}, nil)
		base = &b
	}
	if base.key != "" {
		return "", "" // the base case is reported on its own
	}
	cnt.add("invariance_compared/" + cs.Variant)
	for _, v := range strings.Split(cs.Variant, "+") {
		cnt.add("invariance_" + v)
	}
	if out.sigFBP != base.sigFBP {
		return "C10/FBP/invariance/" + cs.Variant, fmt.Sprintf("ref %s boots %v gives other supports than ref %s boots %v", cs.Ref, cs.Boots, cs.BaseRef, cs.BaseBoots)
	}
	if out.sigTBE != base.sigTBE {
		return "C10/TBE/invariance/" + cs.Variant, fmt.Sprintf("ref %s boots %v gives other supports than ref %s boots %v", cs.Ref, cs.Boots, cs.BaseRef, cs.BaseBoots)
	}
	return "", ""
}

// ---- rejection clause -----------------------------------------------------------------

func c10reject(cs c10case, cnt c10counts) (string, string) {
	ref, boots, err := c10models(cs)
	if err != nil {
		panic("harness: " + err.Error())
	}
	bad, kind := -1, ""
	for i, b := range boots {
		if !rm.C10SameTaxa(ref, b) {
			bad = i
			switch nb, nr := len(b.TipNames()), len(ref.TipNames()); {
			case nb < nr:
				kind = "fewer-taxa"
			case nb > nr:
				kind = "more-taxa"
			default:
				kind = "other-names"
			}
			break
		}
	}
	if bad < 0 {
		panic("harness: rejection case without a mismatching tree")
	}
	pos := "later"
	if len(boots) == 1 {
		pos = "only"
	} else if bad == 0 {
		pos = "first"
	}
	in := fmt.Sprintf("ref %s boots %s", cs.Ref, strings.Join(cs.Boots, " "))
	for _, op := range []int{c10FBP, c10TBE} {
		o := c10runOp(op, cs.Ref, cs.Boots)
		opn := c10opName[op]
		if o.crash != "" {
			return "C10/" + opn + "/crash/" + o.crash, in + ": " + o.what
		}
		cnt.add("rejection_" + opn)
		cnt.add("rejection_" + kind + "_" + pos)
		if o.err == nil {
			return "C10/" + opn + "/other-taxa-not-rejected/" + kind + "/" + pos, fmt.Sprintf("%s: tree %d has other taxa, no error returned, output %s", in, bad+1, o.text)
		}
	}
	return "", ""
}

// ---- MinTransferDist and NormalizeTransferDistancesByDepth called directly -------------------

func c10edgeSide(e *tree.Edge, idx map[string]int) rm.Split {
	var m rm.Split
	var rec func(n, from *tree.Node)
	rec = func(n, from *tree.Node) {
		if n.Tip() {
			m |= 1 << uint(idx[n.Name()])
		}
		for _, nb := range n.Neigh() {
			if nb != from {
				rec(nb, n)
			}
		}
	}
	rec(e.Right(), e.Left())
	return m
}

func c10mtd(cs c10case, cnt c10counts) (string, string) {
	ref, boots, err := c10models(cs)
	if err != nil || len(boots) != 1 {
		panic("harness: bad MinTransferDist case")
	}
	ex, err := rm.C10Oracle(ref, boots)
	if err != nil {
		panic("harness: " + err.Error())
	}
	var key, what string
	r := c10guard(func() {
		rt, bt := gtMustParse(cs.Ref), gtMustParse(cs.Boots[0])
		if err := rt.ReinitIndexes(); err != nil {
			panic(err)
		}
		if err := bt.ReinitIndexes(); err != nil {
			panic(err)
		}
		bedges := bt.Edges()
		for i, e := range bedges {
			e.SetId(i) // as TBE does
		}
		for _, e := range rt.Edges() {
			side := c10edgeSide(e, ex.Idx)
			br := ex.Branch[side.Canon(ex.N)]
			if br == nil {
				panic("harness: branch of the parsed reference tree unknown to the model")
			}
			for _, absent := range []bool{false, true} {
				if absent && br.Count > 0 {
					continue // "absent" promises that the split is not in the bootstrap tree
				}
				d, _, _, _ := support.MinTransferDist(e, rt, bt, ex.N, bedges, absent)
				cnt.add("mtd_direct")
				if br.Depth >= 3 {
					cnt.add("mtd_direct_deep")
				}
				if d != br.Dists[0] {
					feat := "tip-branch"
					if br.Depth == 2 {
						feat = "cherry"
					} else if br.Depth > 2 {
						feat = "deep-branch"
					}
					key, what = fmt.Sprintf("C10/MinTransferDist/value/%s/absent=%v", feat, absent),
						fmt.Sprintf("ref %s branch {%s} vs %s: %d, brute force %d", cs.Ref, strings.Join(side.Names(ex.Names), ""), cs.Boots[0], d, br.Dists[0])
					return
				}
			}
		}
	})
	if crashed(r) {
		return "C10/MinTransferDist/crash/" + crashSite(r), fmt.Sprintf("ref %s boot %s: %s", cs.Ref, cs.Boots[0], verdictStr(r))
	}
	return key, what
}

func c10norm(cs c10case, cnt c10counts) (string, string) {
	ref, _, err := c10models(cs)
	if err != nil {
		panic("harness: bad normalisation case")
	}
	names := ref.TipNames()
	idx, n := rm.TipIndex(names), len(names)
	var key, what string
	r := c10guard(func() {
		maxs := cs.NBoot * (n/2 - 1)
		for s := 0; s <= maxs; s++ {
			rt := gtMustParse(cs.Ref)
			if err := rt.ReinitIndexes(); err != nil {
				panic(err)
			}
			edges := rt.Edges()
			want := make([]float64, len(edges))
			has := make([]bool, len(edges))
			for i, e := range edges {
				c := c10edgeSide(e, idx).Count()
				p := c
				if n-c < p {
					p = n - c
				}
				if p < 2 {
					continue
				}
				raw := s
				if raw > cs.NBoot*(p-1) {
					raw = cs.NBoot * (p - 1)
				}
				e.SetSupport(float64(raw))
				has[i], want[i] = true, 1-(float64(raw)/float64(cs.NBoot))/float64(p-1)
			}
			support.NormalizeTransferDistancesByDepth(edges, cs.NBoot)
			for i, e := range edges {
				cnt.add("normalize_direct")
				got := e.Support()
				if !has[i] {
					if got != tree.NIL_SUPPORT {
						key, what = "C10/Normalize/support-on-unsupported-branch", fmt.Sprintf("ref %s nboot %d: branch without raw value got %v", cs.Ref, cs.NBoot, got)
						return
					}
					continue
				}
				if !rm.Close(got, want[i]) {
					key, what = "C10/Normalize/value", fmt.Sprintf("ref %s nboot %d raw sum %d: %v, definition %v", cs.Ref, cs.NBoot, s, got, want[i])
					return
				}
			}
		}
	})
	if crashed(r) {
		return "C10/Normalize/crash/" + crashSite(r), fmt.Sprintf("ref %s: %s", cs.Ref, verdictStr(r))
	}
	return key, what
}

// ---- enumeration -----------------------------------------------------------------------

const (
	c10NONE  = iota // canonical presentations, the enumerated order only
	c10MIN          // canonical presentations, every order of the collection
	c10LIGHT        // + reference rooted on every branch
	c10PAIR         // reference and every bootstrap tree: canonical + rooted on every branch, all combinations
	c10ONE          // every presentation of the reference; every presentation of one bootstrap tree at a time
	c10FULL         // every presentation of every tree, all combinations
)

// c10perms calls f with every distinct order of the multiset seq (first the given order).
func c10perms(seq []int, f func(p []int, identity bool)) {
	n := len(seq)
	seen := map[string]bool{}
	first := true
	enum.Permutations(n, func(p []int) {
		q := make([]int, n)
		for i, j := range p {
			q[i] = seq[j]
		}
		k := fmt.Sprint(q)
		if seen[k] {
			return
		}
		seen[k] = true
		f(q, first)
		first = false
	})
}

type c10variant struct {
	ref   c10pres
	boots []c10pres
	tag   string
}

func c10variants(level int, cls []*c10class, r int, seq []int) []c10variant {
	var out []c10variant
	tagOf := func(perm bool, ps ...c10pres) string {
		var t []string
		if perm {
			t = append(t, "order")
		}
		rr, mi := false, false
		for _, p := range ps {
			rr = rr || p.Reroot
			mi = mi || p.Mirror
		}
		if rr {
			t = append(t, "rooting")
		}
		if mi {
			t = append(t, "childorder")
		}
		return strings.Join(t, "+")
	}
	rc := cls[r]
	c10perms(seq, func(q []int, identity bool) {
		if level == c10NONE && !identity {
			return
		}
		canon := make([]c10pres, len(q))
		for i, b := range q {
			canon[i] = cls[b].Pres[0]
		}
		var refs []c10pres
		switch level {
		case c10NONE, c10MIN:
			refs = rc.Pres[:1]
		case c10LIGHT, c10PAIR:
			for _, i := range rc.Light {
				refs = append(refs, rc.Pres[i])
			}
		default:
			refs = rc.Pres
		}
		if level == c10FULL || level == c10PAIR {
			var rec func(i int, cur []c10pres)
			for _, rp := range refs {
				rp := rp
				rec = func(i int, cur []c10pres) {
					if i == len(q) {
						bs := append([]c10pres(nil), cur...)
						out = append(out, c10variant{rp, bs, tagOf(!identity, append(bs, rp)...)})
						return
					}
					for k, bp := range cls[q[i]].Pres {
						if level == c10PAIR && (k >= len(cls[q[i]].Light) || cls[q[i]].Light[k] != k) {
							break // the light presentations come first
						}
						rec(i+1, append(cur, bp))
					}
				}
				rec(0, nil)
			}
			return
		}
		for _, rp := range refs {
			out = append(out, c10variant{rp, canon, tagOf(!identity, rp)})
		}
		if level == c10ONE {
			for j := range q {
				for _, bp := range cls[q[j]].Pres[1:] {
					bs := append([]c10pres(nil), canon...)
					bs[j] = bp
					out = append(out, c10variant{rc.Pres[0], bs, tagOf(!identity, bp)})
				}
			}
		}
	})
	return out
}

// c10decorate renders the same tree with branch lengths everywhere and a stale support value on every inner branch
// (a reference tree that went through a support computation before; bootstrap trees as inference programs write them).
func c10decorate(text string, sup float64) string {
	m, err := rm.ParseNewick(text)
	if err != nil {
		panic("harness: " + err.Error())
	}
	i := 0
	m.Walk(func(n, p *rm.Node) {
		if p == nil {
			return
		}
		i++
		n.HasLen, n.Len = true, float64(i)/8
		if !n.IsTip() {
			n.HasSup, n.Sup = true, sup
		}
	})
	return m.Newick()
}

type c10plan struct {
	n, size, level int
	taxa           bool // also run TBE with the moved-taxa options on the base variant
	binBoot        bool // bootstrap trees restricted to the binary topologies
	binRef         bool // reference tree restricted to the binary topologies
}

func c10texts(ps []c10pres) []string {
	out := make([]string, len(ps))
	for i, p := range ps {
		out[i] = p.Text
	}
	return out
}

func c10flush(c *Ctx, cnt c10counts) {
	var ks []string
	for k := range cnt {
		ks = append(ks, k)
	}
	sort.Strings(ks)
	for _, k := range ks {
		c.Count(k, cnt[k])
		delete(cnt, k)
	}
}

func c10runGroups(c *Ctx, pl c10plan, cls []*c10class, cnt c10counts) {
	for r := range cls {
		if pl.binRef && cls[r].Multi {
			continue
		}
		stop := false
		enum.Multisets(len(cls), pl.size, func(seq []int) {
			if pl.binBoot {
				for _, b := range seq {
					if cls[b].Multi {
						return
					}
				}
			}
			if stop || !c.Mine() {
				return
			}
			if c.TimeUp() {
				stop = true
				return
			}
			vs := c10variants(pl.level, cls, r, append([]int(nil), seq...))
			var base c10out
			nontriv := false
			baseCase := c10case{}
			for i, v := range vs {
				cs := c10case{Fam: "support", Ref: v.ref.Text, Boots: c10texts(v.boots), Variant: v.tag}
				if i == 0 {
					cs.Taxa = pl.taxa
					baseCase = cs
				} else {
					cs.BaseRef, cs.BaseBoots = baseCase.Ref, baseCase.Boots
					if v.tag == "" {
						panic("harness: variant without a difference to the base")
					}
				}
				c.States++
				c.Transitions += int64(2 * len(cs.Boots))
				if v.ref.Rooted {
					cnt.add("rooted_reference")
				}
				for _, b := range seq {
					if cls[b].Multi {
						cnt.add("multifurcating_bootstrap_tree")
						break
					}
				}
				if i == 0 {
					c.Sample(cs)
					c.Check(cs, func() (string, string) {
						base = c10support(cs, cnt)
						return base.key, base.what
					})
					nontriv = base.sigTBE != "" // the reference tree has an inner branch
					if nontriv {
						c.Nontrivial(cs.Ref + "|" + strings.Join(cs.Boots, "|"))
					}
					c.Outcome(base.sigFBP + "/" + base.sigTBE)
					if nontriv && base.sigFBP != base.sigTBE {
						cnt.add("tbe_differs_from_fbp")
					}
					if !pl.taxa {
						continue
					}
					// the same input carrying lengths and stale supports (0.0625 is no possible result for <= 4 trees on <= 7 taxa)
					dc := c10case{Fam: "support", Ref: c10decorate(cs.Ref, 0.0625), Variant: "decorated"}
					for _, b := range cs.Boots {
						dc.Boots = append(dc.Boots, c10decorate(b, 0.5))
					}
					c.States++
					c.Transitions += int64(2 * len(cs.Boots))
					c.Check(dc, func() (string, string) {
						cnt.add("decorated_input_checked")
						o := c10support(dc, cnt)
						return o.key, o.what
					})
					continue
				}
				if nontriv {
					c.Nontrivial(cs.Ref + "|" + strings.Join(cs.Boots, "|"))
				}
				c.Check(cs, func() (string, string) { return c10supportInv(cs, &base, cnt) })
			}
			c10flush(c, cnt)
		})
		if stop {
			return
		}
	}
}

// c10badTrees: trees on another taxon set than labels (n = len(labels)).
func c10badTrees(n int, thorough bool) []string {
	var out []string
	labs := enum.Labels(n, "")
	pick := func(ts []*rm.Tree, step int) {
		for i := 0; i < len(ts); i += step {
			out = append(out, ts[i].Newick())
		}
	}
	step := 1
	// one name replaced (every position), all topologies for the last label, a few for the others
	for i := range labs {
		l := append([]string(nil), labs...)
		l[i] = "X"
		step = 5
		if i == n-1 || thorough {
			step = 1
		}
		pick(enum.Unrooted(l, false), step)
	}
	// all names different
	pick(enum.Unrooted(enum.Labels(n, "t"), false), 7)
	// one taxon missing (every one)
	if n-1 >= 3 {
		for i := range labs {
			var l []string
			for j, x := range labs {
				if j != i {
					l = append(l, x)
				}
			}
			pick(enum.Unrooted(l, false), 1)
		}
	}
	// one taxon more
	step = 9
	if thorough {
		step = 1
	}
	pick(enum.Unrooted(append(append([]string(nil), labs...), "X"), false), step)
	// rooted versions of two of them
	out = append(out, "("+strings.Join(labs[:n-1], ",")+",(X,Y));", "(("+strings.Join(labs[:n-2], ",")+"),(X,"+labs[n-1]+"));")
	return out
}

func c10runReject(c *Ctx, n int, cls []*c10class, cnt c10counts) {
	bad := c10badTrees(n, !c.Quick())
	// good trees: every class (canonical) for length 2, a small pool for length 3
	pool := []int{0, len(cls) / 2, len(cls) - 1}
	var refs []c10pres
	for i, cl := range cls {
		if i%5 == 0 || !c.Quick() {
			refs = append(refs, cl.Pres[0])
		}
		if i%5 == 0 {
			refs = append(refs, cl.Pres[cl.Light[len(cl.Light)-1]]) // a rooted presentation
		}
	}
	for _, ref := range refs {
		for _, b := range bad {
			if c.TimeUp() {
				return
			}
			var colls [][]string
			colls = append(colls, []string{b})
			for i, cl := range cls {
				if c.Quick() && i%5 != 0 {
					continue
				}
				g := cl.Pres[0].Text
				colls = append(colls, []string{b, g}, []string{g, b})
			}
			for _, i := range pool {
				for _, j := range pool {
					g, h := cls[i].Pres[0].Text, cls[j].Pres[0].Text
					colls = append(colls, []string{b, g, h}, []string{g, b, h}, []string{g, h, b})
				}
			}
			for _, boots := range colls {
				if !c.Mine() {
					continue
				}
				cs := c10case{Fam: "reject", Ref: ref.Text, Boots: boots}
				c.States++
				c.Transitions += int64(2 * len(boots))
				c.Nontrivial(cs.Ref + "|" + strings.Join(boots, "|"))
				c.Check(cs, func() (string, string) { return c10reject(cs, cnt) })
			}
			c10flush(c, cnt)
		}
	}
}

func c10runDirect(c *Ctx, cls []*c10class, level int, cnt c10counts) {
	for _, rc := range cls {
		for _, bc := range cls {
			if c.TimeUp() {
				return
			}
			if !c.Mine() {
				continue
			}
			refs, boots := rc.Pres, bc.Pres
			if level != c10FULL {
				refs = rc.Pres[:1]
				boots = bc.Pres[:1]
				if level == c10LIGHT || level == c10PAIR {
					boots = nil
					for _, i := range bc.Light {
						boots = append(boots, bc.Pres[i])
					}
				}
				if level == c10PAIR {
					refs = nil
					for _, i := range rc.Light {
						refs = append(refs, rc.Pres[i])
					}
				}
			}
			for _, rp := range refs {
				for _, bp := range boots {
					cs := c10case{Fam: "mtd", Ref: rp.Text, Boots: []string{bp.Text}}
					c.States++
					c.Transitions++
					c.Nontrivial("mtd|" + cs.Ref + "|" + cs.Boots[0])
					c.Check(cs, func() (string, string) { return c10mtd(cs, cnt) })
				}
			}
			c10flush(c, cnt)
		}
	}
	for _, rc := range cls {
		if !c.Mine() {
			continue
		}
		ps := rc.Pres
		if level != c10FULL {
			ps = ps[:1]
		}
		for _, rp := range ps {
			for nb := 1; nb <= 3; nb++ {
				cs := c10case{Fam: "norm", Ref: rp.Text, NBoot: nb}
				c.States++
				c.Transitions++
				c.Check(cs, func() (string, string) { return c10norm(cs, cnt) })
			}
		}
		c10flush(c, cnt)
	}
}

// c10large: a few structured instances beyond the exhaustive bound (plain executions).
func c10large(c *Ctx, cnt c10counts) {
	name := func(i int) string { return fmt.Sprintf("t%02d", i) }
	cat := func(order []int) string {
		s := "(" + name(order[0]) + "," + name(order[1]) + ")"
		for _, i := range order[2 : len(order)-1] {
			s = "(" + s + "," + name(i) + ")"
		}
		return "(" + s[1:len(s)-1] + "," + name(order[len(order)-1]) + ");"
	}
	var bal func(lo, hi int) string
	bal = func(lo, hi int) string {
		if hi-lo == 1 {
			return name(lo)
		}
		m := (lo + hi) / 2
		return "(" + bal(lo, m) + "," + bal(m, hi) + ")"
	}
	const n = 40
	id := make([]int, n)
	for i := range id {
		id[i] = i
	}
	sw := append([]int(nil), id...)
	sw[3], sw[30] = sw[30], sw[3]
	rev := make([]int, n)
	for i := range rev {
		rev[i] = (i * 7) % n
	}
	star := "("
	for i := 0; i < n; i++ {
		if i > 0 {
			star += ","
		}
		star += name(i)
	}
	star += ");"
	trees := []string{cat(id), cat(sw), cat(rev), bal(0, n) + ";", star}
	for r := range trees[:4] {
		for _, boots := range [][]string{{trees[0], trees[1]}, {trees[2], trees[3], trees[1]}, {trees[4], trees[0], trees[3]}} {
			cs := c10case{Fam: "support", Ref: trees[r], Boots: boots, Taxa: true}
			c.Count("large_instances", 1)
			c.Check(cs, func() (string, string) {
				o := c10support(cs, cnt)
				return o.key, o.what
			})
		}
	}
	c10flush(c, cnt)
}

func init() {
	register(&Prop{
		ID: "C10",
		Rule: "group = (unrooted labelled topology of the reference tree, multiset of topologies of the bootstrap trees), all topologies incl. multifurcating and star on n taxa; " +
			"inside a group the real FBP and TBE (1 worker, trees parsed from text) run on every order of the collection and on presentations of the trees " +
			"(root at every inner node / on every branch incl. tip branches, child order as enumerated / mirrored; level FULL = all presentations of all trees in all combinations, ONE = all of the reference + all of one bootstrap tree at a time, " +
			"PAIR = canonical + rooted on every branch for all trees in all combinations, LIGHT = only the reference so, MIN = canonical presentations in every order, NONE = enumerated order only); " +
			"quick: n=4 sizes 1 (FULL), 2-3 (ONE); n=5 size 1 (PAIR), 2 (LIGHT); n=6 size 1 (MIN); thorough: n=4 sizes 1-2 (FULL), 3 (ONE), 4 (LIGHT); n=5 size 1 (FULL), 2 (ONE), 3 (MIN); n=6 size 1 (LIGHT), size 2 (NONE, binary bootstrap trees); n=7 size 1 (MIN, binary trees); " +
			"every execution is compared branch by branch (API walk and Newick text) with brute force on the model " +
			"(FBP = fraction of trees with the bipartition; TBE = 1 - mean min Hamming distance over all bootstrap branches and both orientations / (light side - 1)), range, TBE >= FBP, TBE = 1 <=> FBP = 1 <=> split in every tree, " +
			"no support on tip branches, and all executions of a group must give bit-identical supports; the base input of a group is also run with lengths and stale supports on all trees and with TBE's moved-taxa options; " +
			"plus MinTransferDist / NormalizeTransferDistancesByDepth called directly, plus collections (size 1-3) containing one tree on other taxa (renamed, missing, extra taxon) at every position, which must end in an error, plus 12 plain executions on 40 taxa; " +
			"non-trivial = distinct (reference text, bootstrap texts) whose reference tree has at least one inner branch",
		Assumptions: []string{"reference Newick reader (refmodel) reads the writer's output (property C01)", "1 worker: schedules of the worker pools are property C11's business", "float64 division/subtraction of small integers (IEEE)"},
		Require: []string{"fbp_value_checked", "tbe_value_checked", "tbe_cherry_checked", "tbe_deep_checked", "range_checked", "tbe_ge_fbp_checked", "tbe_one_iff_checked_present", "tbe_one_iff_checked_absent",
			"tbe_differs_from_fbp", "invariance_order", "invariance_rooting", "invariance_childorder", "tip_branch_checked", "rooted_reference", "multifurcating_bootstrap_tree",
			"root_branch_with_trivial_split_checked", "rejection_FBP", "rejection_TBE", "rejection_other-names_only", "rejection_fewer-taxa_first", "rejection_more-taxa_later", "mtd_direct", "mtd_direct_deep", "normalize_direct", "tbe_taxa_options_compared", "decorated_input_checked"},
		Run: func(c *Ctx) {
			// gotree allocates 2000-slot slices in Tips()/Edges() on every call: let the collector run less often
			debug.SetGCPercent(400)
			cnt := c10counts{}
			classes := map[int][]*c10class{}
			get := func(n int) []*c10class {
				if classes[n] == nil {
					classes[n] = c10classes(n)
				}
				return classes[n]
			}
			q := c.Quick()
			run := func(pls ...c10plan) {
				for _, pl := range pls {
					c10runGroups(c, pl, get(pl.n), cnt)
				}
			}
			// cheap families first, the big sweeps last (an internal deadline then cuts the least important part)
			run(c10plan{n: 4, size: 1, level: c10FULL, taxa: true})
			if q {
				run(c10plan{n: 4, size: 2, level: c10ONE, taxa: true}, c10plan{n: 4, size: 3, level: c10ONE, taxa: true},
					c10plan{n: 5, size: 1, level: c10PAIR, taxa: true})
				c10runDirect(c, get(4), c10FULL, cnt)
				c10runDirect(c, get(5), c10PAIR, cnt)
				c10runDirect(c, get(6), c10MIN, cnt)
			} else {
				run(c10plan{n: 4, size: 2, level: c10FULL, taxa: true}, c10plan{n: 4, size: 3, level: c10ONE, taxa: true}, c10plan{n: 4, size: 4, level: c10LIGHT, taxa: true},
					c10plan{n: 5, size: 1, level: c10FULL, taxa: true})
				c10runDirect(c, get(4), c10FULL, cnt)
				c10runDirect(c, get(5), c10FULL, cnt)
				c10runDirect(c, get(6), c10LIGHT, cnt)
			}
			c10runReject(c, 4, get(4), cnt)
			c10runReject(c, 5, get(5), cnt)
			if c.Shard == 0 {
				c10large(c, cnt)
			}
			if q {
				run(c10plan{n: 5, size: 2, level: c10LIGHT, taxa: true}, c10plan{n: 6, size: 1, level: c10MIN, taxa: true})
			} else {
				run(c10plan{n: 5, size: 2, level: c10ONE, taxa: true}, c10plan{n: 5, size: 3, level: c10MIN, taxa: true}, c10plan{n: 6, size: 1, level: c10LIGHT, taxa: true},
					c10plan{n: 7, size: 1, level: c10MIN, binBoot: true, binRef: true}, c10plan{n: 6, size: 2, level: c10NONE, binBoot: true})
			}
			c10flush(c, cnt)
		},
		Replay: func(c *Ctx, raw json.RawMessage) {
			var cs c10case
			if err := json.Unmarshal(raw, &cs); err != nil {
				fmt.Println("cannot read case:", err)
				return
			}
			cnt := c10counts{}
			var k, w string
			switch cs.Fam {
			case "reject":
				k, w = c10reject(cs, cnt)
			case "mtd":
				k, w = c10mtd(cs, cnt)
			case "norm":
				k, w = c10norm(cs, cnt)
			default:
				k, w = c10supportInv(cs, nil, cnt)
			}
			fmt.Printf("case: %s\nresult: %s %s\n", raw, k, w)
			if k != "" {
				c.Violate(k, w, cs)
			}
		},
	})
}

package main

import (
	"encoding/json"
	"fmt"
	"sort"
	"strings"
	"time"
)

// C04: branch split indexes and hashes always describe the actual tree.
//
// (a) c04_tree.go   indexes = definition on every presentation and after edit histories
// (b) c04_index.go  SameBipartition / HashEquals / HashCode over all ordered branch pairs
// (c) c04_index.go  EdgeIndex against a plain map (operation sequences, bulk histories)
// (h) c04_index.go  generic hashmap with harness keys whose hash codes force collisions
// (d) c04_quartet.go quartets: Compare / HashEquals / HashCode, quartet indexes

type c04case struct {
	Part     string    `json:"part"`
	Newick   string    `json:"newick,omitempty"`
	Ops      []string  `json:"ops,omitempty"`
	Rng      int       `json:"rng_script,omitempty"`
	A        *c04spec  `json:"a,omitempty"`
	B        *c04spec  `json:"b,omitempty"`
	N        int       `json:"n,omitempty"`
	Cap      uint64    `json:"capacity,omitempty"`
	LF       float64   `json:"loadfactor,omitempty"`
	Seq      []int     `json:"seq,omitempty"`
	Each     bool      `json:"observe_every_step,omitempty"`
	Depth    int       `json:"depth,omitempty"`
	Codes    []uint64  `json:"codes,omitempty"`
	Pattern  int       `json:"pattern,omitempty"`
	NKeys    int       `json:"nkeys,omitempty"`
	Backward bool      `json:"backward,omitempty"`
	Q1       *[4]uint  `json:"q1,omitempty"`
	Q2       *[4]uint  `json:"q2,omitempty"`
	Specific bool      `json:"specific,omitempty"`
	Direct   bool      `json:"direct,omitempty"`
	Pool     []c04spec `json:"pool,omitempty"`
}

func c04kindOf(desc string) string {
	if i := strings.IndexByte(desc, ':'); i >= 0 {
		return desc[:i]
	}
	return desc
}

// ---- part (a) -----------------------------------------------------------------------------

func c04record(c *Ctx, res *c04seqResult, ops []string) {
	c.States += int64(res.verified)
	c.Transitions += int64(res.steps)
	c.Count("a_states_verified", int64(res.verified))
	c.Count("a_states_verified_as_left_by_operation", int64(res.implicit))
	c.Count("a_differential_vs_fresh_parse", int64(res.diffs))
	for _, t := range res.texts {
		c.Nontrivial("a:" + t)
	}
	last := "parse"
	if len(ops) > 0 {
		last = c04kindOf(ops[len(ops)-1])
	}
	out := res.outcome
	if res.key != "" {
		out = "violation"
	}
	c.Outcome("a/" + last + "/" + out)
	switch {
	case res.outcome == "ok" && len(ops) > 0:
		c.Count("a_op_applied:"+last, 1)
		if len(ops) > 1 {
			c.Count("a_histories_of_two_edits", 1)
		}
	case res.outcome == "op-error":
		c.Count("a_op_errors", 1)
	case res.outcome == "op-crash":
		c.Count("a_op_crashes(not-C04)", 1)
		c.Count("a_op_crashes(not-C04):"+last+"@"+res.crashSite, 1)
		c.Note("a_op_crash_example:"+last+"@"+res.crashSite, fmt.Sprintf("start %s operations %v rng %d: %s", res.start, ops, res.rng, res.crash))
	case strings.HasPrefix(res.outcome, "out-of-domain"):
		c.Count("a_"+res.outcome, 1)
	case res.outcome == "no-such-op":
		c.EngineError(fmt.Sprintf("C04: operation list not reproducible for %v", ops))
	}
}

func c04seqCase(c *Ctx, start string, ops []string, rng int, wantNext bool) c04seqResult {
	var first *c04seqResult
	cs := c04case{Part: "a", Newick: start, Ops: append([]string(nil), ops...), Rng: rng}
	c.Check(cs, func() (string, string) {
		r := c04runSeq(start, ops, rng, wantNext)
		r.start, r.rng = start, rng
		if first == nil {
			first = &r
		}
		return r.key, r.what
	})
	c04record(c, first, ops)
	return *first
}

// c04depthPlan: length of the edit histories explored from presentation pi (of np) of a tree on n taxa.
func c04depthPlan(quick bool, n, pi, np int) int {
	ends := pi == 0 || pi == np-1 // the base presentation and a rooted one
	if quick {
		switch {
		case n <= 3:
			return 2
		case n == 4:
			if ends || pi == 1 || pi == np-2 {
				return 2
			}
			return 1
		case n == 5:
			if pi == 0 {
				return 2
			}
			return 1
		default:
			if ends {
				return 1
			}
			return 0
		}
	}
	switch {
	case n <= 5:
		return 2
	case n == 6:
		if pi == 0 {
			return 2
		}
		return 1
	default:
		if ends {
			return 1
		}
		return 0
	}
}

func c04partA(c *Ctx) {
	nmax := 6
	if !c.Quick() {
		nmax = 7
	}
	for n := 3; n <= nmax; n++ {
		for _, base := range c04baseTrees(n) {
			if c.TimeUp() {
				return
			}
			pres := c04presentations(base, true)
			for pi, p := range pres {
				start := p.Newick()
				depth := c04depthPlan(c.Quick(), n, pi, len(pres))
				deep := depth >= 2
				var res0 c04seqResult
				if c.Mine() {
					c.Sample(start)
					res0 = c04seqCase(c, start, nil, 0, true)
					if n == 3 || len(base.Root.Children) == n {
						c.Count("a_star_or_3tip_trees", 1)
					}
				} else if depth >= 1 {
					res0 = c04runSeq(start, nil, 0, true) // every worker needs the list of operations to enumerate identically
				}
				if depth < 1 {
					continue
				}
				for _, op := range res0.next {
					if !c.Mine() {
						continue
					}
					rngs := []int{0}
					if op.random {
						rngs = []int{0, 1}
					}
					for _, rng := range rngs {
						res1 := c04seqCase(c, start, []string{op.desc}, rng, deep)
						if !deep || res1.key != "" {
							continue
						}
						for _, op2 := range res1.next {
							c04seqCase(c, start, []string{op.desc, op2.desc}, rng, false)
							if rng == 0 && !op.random && op2.random {
								c04seqCase(c, start, []string{op.desc, op2.desc}, 1, false)
							}
						}
					}
				}
			}
		}
	}
}

// ---- part (b) ----------------------------------------------------------------------------------

func c04partB(c *Ctx, compare bool) (objs5 []*c04pobj) {
	sizes := []int{3, 4, 5}
	if !c.Quick() {
		sizes = []int{3, 4, 5, 6}
	}
	for _, n := range sizes {
		objs, bad := c04objects(n, true, 0)
		if bad != "" {
			c.EngineError("C04(b): " + bad)
			return
		}
		if n == 5 {
			objs5 = objs
		}
		if !compare {
			continue
		}
		c.Max("b_presentations_per_taxon_set", int64(len(objs)))
		for _, a := range objs {
			if c.TimeUp() {
				return
			}
			if !c.Mine() {
				continue
			}
			var st c04bstats
			cs := &c04case{Part: "b", N: n}
			first := true
			c.Check(cs, func() (string, string) {
				var s c04bstats
				k, w, with := c04pairsOf(a, objs, &s)
				if first {
					st, first = s, false
				}
				if k != "" {
					cs.A = &a.spec
					if with != nil {
						cs.B = &with.spec
					}
				}
				return k, w
			})
			c.States++
			c.Transitions += st.pairs
			c.Nontrivial("b:" + strings.Join(append([]string{a.spec.Newick}, a.spec.Ops...), "|"))
			c.Count("b_ordered_branch_pairs", st.pairs)
			c.Count("b_pairs_equal_split", st.equal)
			c.Count("b_pairs_equal_split_opposite_orientation", st.equalOpp)
			c.Count("b_pairs_equal_split_across_different_trees", st.equalCross)
			c.Count("b_pairs_different_split", st.different)
			c.Count("b_hash_collisions_between_different_splits(allowed)", st.collisions)
		}
	}
	return
}

// ---- part (c) ----------------------------------------------------------------------------------

func c04istatsCount(c *Ctx, p string, st *c04istats) {
	c.Transitions += st.ops
	c.States += st.seqs
	c.Count(p+"_histories", st.seqs)
	c.Count(p+"_operations", st.ops)
	c.Count(p+"_operations_on_a_split_already_present", st.overwrites)
	c.Count(p+"_hits_through_the_other_presentation", st.crossHits)
	c.Count(p+"_insertions_reaching_capacity_x_loadfactor", st.crossed)
}

func c04poolSpecs(pool []c04poolItem) []c04spec {
	var out []c04spec
	for _, p := range pool {
		out = append(out, p.spec)
	}
	return out
}

func c04partC(c *Ctx, objs5 []*c04pobj) {
	if objs5 == nil {
		return
	}
	pool, bad := c04pool(objs5)
	if bad != "" {
		c.EngineError("C04(c): " + bad)
		return
	}
	c.Note("c_pool", fmt.Sprint(c04poolSpecs(pool)))
	type plan struct{ pool, depth int }
	plans := []plan{{8, 4}, {6, 5}}
	if !c.Quick() {
		plans = []plan{{8, 5}, {6, 6}}
	}
	for _, pl := range plans {
		pool := pool[:pl.pool]
		depth := pl.depth
		for _, capa := range c04caps {
			for _, lf := range c04lfs {
				for a := 0; a < 2*len(pool); a++ {
					if c.TimeUp() {
						return
					}
					if !c.Mine() {
						continue
					}
					var st c04istats
					first := true
					cs := &c04case{Part: "c", Cap: capa, LF: lf, Depth: depth, Seq: []int{a}, N: pl.pool}
					c.Check(cs, func() (string, string) {
						var s c04istats
						k, w, badSeq, each := c04indexBatch(pool, capa, lf, []int{a}, depth, &s)
						if first {
							st, first = s, false
						}
						if k != "" && badSeq != nil {
							cs.Seq, cs.Each, cs.Depth = badSeq, each, 0
						}
						return k, w
					})
					c.Nontrivial(fmt.Sprintf("c:%d/%d/%v/%d", pl.pool, capa, lf, a))
					c04istatsCount(c, "c_edgeindex", &st)
				}
			}
		}
	}
	// long histories with many distinct splits
	nb := 6
	if !c.Quick() {
		nb = 7
	}
	objs, bad := c04objects(nb, false, 2)
	if bad != "" {
		c.EngineError("C04(c): " + bad)
		return
	}
	for _, capa := range c04caps {
		for _, lf := range c04lfs {
			for _, backward := range []bool{false, true} {
				if !c.Mine() {
					continue
				}
				var st c04istats
				first := true
				c.Check(c04case{Part: "c-bulk", N: nb, Cap: capa, LF: lf, Backward: backward}, func() (string, string) {
					var s c04istats
					k, w := c04bulk(objs, capa, lf, backward, &s)
					if first {
						st, first = s, false
					}
					return k, w
				})
				c.Nontrivial(fmt.Sprintf("c-bulk:%d/%v/%v", capa, lf, backward))
				c04istatsCount(c, "c_edgeindex_bulk", &st)
			}
		}
	}
}

// ---- part (h) ----------------------------------------------------------------------------------

func c04hstatsCount(c *Ctx, p string, st *c04hstats) {
	c.Transitions += st.ops
	c.States += st.seqs
	c.Count(p+"_histories", st.seqs)
	c.Count(p+"_puts", st.ops)
	c.Count(p+"_puts_overwriting", st.overwrites)
	c.Count(p+"_insertions_colliding_on_the_full_hash_code", st.collisions)
	c.Count(p+"_insertions_reaching_capacity_x_loadfactor", st.crossed)
}

func c04partH(c *Ctx) {
	depth := 5
	if !c.Quick() {
		depth = 6
	}
	for _, capa := range c04caps {
		menu := c04codeMenu(capa)
		for _, lf := range c04lfs {
			for i := 0; i < len(menu); i++ {
				for j := i; j < len(menu); j++ {
					for k := j; k < len(menu); k++ {
						if c.TimeUp() {
							return
						}
						if !c.Mine() {
							continue
						}
						codes := []uint64{menu[i], menu[j], menu[k]}
						var st c04hstats
						first := true
						cs := &c04case{Part: "h", Cap: capa, LF: lf, Codes: codes, Depth: depth}
						c.Check(cs, func() (string, string) {
							var s c04hstats
							key, w, badSeq := c04mapBatch(capa, lf, codes, depth, &s)
							if first {
								st, first = s, false
							}
							if key != "" && badSeq != nil {
								cs.Seq, cs.Depth = badSeq, 0
							}
							return key, w
						})
						c.Nontrivial(fmt.Sprintf("h:%d/%v/%v", capa, lf, codes))
						c04hstatsCount(c, "h_hashmap", &st)
					}
				}
			}
			for pattern := 0; pattern < 5; pattern++ {
				if !c.Mine() {
					continue
				}
				var st c04hstats
				first := true
				c.Check(c04case{Part: "h-bulk", Cap: capa, LF: lf, Pattern: pattern, NKeys: 1100}, func() (string, string) {
					var s c04hstats
					k, w := c04mapBulk(capa, lf, pattern, 1100, &s)
					if first {
						st, first = s, false
					}
					return k, w
				})
				c.Nontrivial(fmt.Sprintf("h-bulk:%d/%v/%d", capa, lf, pattern))
				c04hstatsCount(c, "h_hashmap_bulk", &st)
			}
		}
	}
}

// ---- part (d) ----------------------------------------------------------------------------------

var c04idPools = [][]uint{{0, 1, 2, 3, 4, 5, 6, 7}, {0, 3, 31, 32, 1000, 65536}}

func c04partD(c *Ctx) {
	for _, ids := range c04idPools {
		all := c04tuples(ids)
		for _, q1 := range all {
			if c.TimeUp() {
				return
			}
			if !c.Mine() {
				continue
			}
			var st c04qstats
			first := true
			q1 := q1
			cs := &c04case{Part: "d", Q1: (*[4]uint)(&q1)}
			c.Check(cs, func() (string, string) {
				var s c04qstats
				k, w, with := c04quartetPairs(q1, all, &s)
				if first {
					st, first = s, false
				}
				if k != "" {
					w2 := [4]uint(with)
					cs.Q2 = &w2
				}
				return k, w
			})
			c.States++
			c.Transitions += st.pairs
			c.Nontrivial(fmt.Sprintf("d:%v", q1))
			c.Count("d_quartet_pairs", st.pairs)
			c.Count("d_quartet_pairs_equal", st.equal)
			c.Count("d_quartet_pairs_conflicting", st.conflict)
			c.Count("d_quartet_pairs_different_taxa", st.diff)
		}
	}
	// forced hash collisions: quartets on different taxa whose hash codes are equal must not be HashEquals
	// (all 4-subsets of 0..K-1 are hashed and grouped by hash code; collisions need taxon ids >= 35)
	{
		K := uint(48)
		if !c.Quick() {
			K = 72
		}
		groups := map[uint64][]c04q{}
		for a := uint(0); a < K; a++ {
			for b := a + 1; b < K; b++ {
				for cc := b + 1; cc < K; cc++ {
					for d := cc + 1; d < K; d++ {
						q := c04q{a, b, cc, d}
						h := q.gt().HashCode()
						groups[h] = append(groups[h], q)
					}
				}
			}
		}
		var hs []uint64
		for h, g := range groups {
			if len(g) >= 2 {
				hs = append(hs, h)
			}
		}
		sort.Slice(hs, func(i, j int) bool { return hs[i] < hs[j] })
		for _, h := range hs {
			if c.TimeUp() {
				return
			}
			if !c.Mine() {
				continue
			}
			g := groups[h]
			for i := range g {
				// every presentation of every other member of the group
				var others []c04q
				for j := range g {
					if j != i {
						others = append(others, c04tuples(g[j][:])...)
					}
				}
				q1 := g[i]
				cs := &c04case{Part: "d", Q1: (*[4]uint)(&q1)}
				var st c04qstats
				c.Check(cs, func() (string, string) {
					var s c04qstats
					k, w, with := c04quartetPairs(q1, others, &s)
					st = s
					if k != "" {
						w2 := [4]uint(with)
						cs.Q2 = &w2
					}
					return k, w
				})
				c.Transitions += st.pairs
				c.Count("d_forced_hash_collisions", st.diff)
			}
			c.States++
		}
	}
	nmax := 6
	if !c.Quick() {
		nmax = 7
	}
	for n := 4; n <= nmax; n++ {
		specs, _ := c04specs(n, false, 2)
		for si, sp := range specs {
			for _, specific := range []bool{false, true} {
				if c.TimeUp() {
					return
				}
				if !c.Mine() {
					continue
				}
				// IndexQuartets allocates 12.8e6 buckets per call: only a handful of direct calls
				direct := n == 5 && (si == 0 || si == len(specs)-1 || (!c.Quick() && si%2 == 0))
				var st c04qistats
				first := true
				sp := sp
				c.Check(c04case{Part: "d-index", A: &sp, Specific: specific, Direct: direct}, func() (string, string) {
					var s c04qistats
					k, w := c04quartetTree(sp, specific, direct, &s)
					if first {
						st, first = s, false
					}
					return k, w
				})
				c.States += st.trees
				c.Transitions += st.lookups
				c.Nontrivial(fmt.Sprintf("d-index:%s/%v", sp.Newick, specific))
				c.Count("d_quartet_index_trees", st.trees)
				c.Count("d_quartets_enumerated", st.emissions)
				c.Count("d_quartet_index_lookups", st.lookups)
				c.Count("d_quartet_index_lookups_through_another_presentation", st.otherPres)
				c.Count("d_IndexQuartets_direct_calls", st.direct)
			}
		}
	}
}

// ---- registration --------------------------------------------------------------------------------

func init() {
	register(&Prop{
		ID: "C04",
		Rule: "(a) every labelled unrooted tree on 3..6 taxa (7 thorough; multifurcations included), presented re-rooted at every inner node and on every branch, each also with all child lists reversed; " +
			"ReinitIndexes, then per branch Bitset/TipPresent/NumTipsLeft/NumTipsRight/TopoDepth and TipIndex = the split of that branch in the tree as walked through Root/Neigh/Edges (model: tips below the node, ranks in sorted names), " +
			"all ordered branch pairs of the tree SameBipartition/HashEquals/HashCode; then every edit of the alphabet {Reroot(each inner node), RerootFirst, UnRoot, RemoveTips(each 1-2 subset, keep each 3-subset), RemoveEdges(each inner branch), " +
			"CollapseShortBranches(2 thresholds), CollapseTopoDepth, GraftTreeOnTip(each tip x 2 grafts), InsertIdenticalTips(each tip), RotateInternalNodes and ShuffleTips and Resolve (random answers all-0 and all-1), SortNeighborsByTips, Rename(order-reversing), Clone, RemoveSingleNodes, SubTree(each node with >= 3 tips), Merge} " +
			"applied to every presentation on <= 5 taxa and 2 per tree on 6 (thorough: every presentation on <= 6, 2 per tree on 7), and all histories of two edits from the smaller starts (quick: 3 taxa all, 4 taxa 4 presentations per tree, 5 taxa the base presentation; thorough: every presentation on <= 5 taxa, base presentation on 6): what the operation itself leaves where it recomputes, then ReinitIndexes + the same oracle + differential against a fresh parse of the tree's own text; " +
			"(b) all ordered pairs of branches of all presentations (model re-rootings, mirrors, gotree Reroot) of all trees on the same 3, 4, 5 (thorough 6) taxa: SameBipartition <=> HashEquals <=> equal unordered bipartition, equal => equal HashCode; " +
			"(c) EdgeIndex vs. Go map keyed by canonical split: every sequence of length 1..4 (thorough 5) over {AddEdgeCount(p), PutEdgeValue(p,c,l)} with p from a pool of 4 splits x 2 presentations (opposite orientation, other tree object) and of length 1..5 (thorough 6) with 3 splits x 2 presentations, for capacity {1,2,3,4,8,128} x load factor {0.5,0.75,1,4}, " +
			"observed after the last step (and after every step for length depth-1) through Value of all 8 pool branches and len(Edges(min,max)) for 7 intervals; plus long histories inserting every branch of 2 presentations of every tree on 6 (thorough 7) taxa forward and backward; " +
			"(h) hashmap.HashMap with harness keys: 3 ids x 2 aliases, hash codes from {0,cap,1,cap-1,2cap-1,cap+1,2^63} (all multisets), all Put sequences of length 1..5 (6), same capacities/load factors, Value/Keys/KeyValues vs. Go map; bulk runs of 1100 keys in 5 hash-code patterns; " +
			"(d) all ordered pairs of 4-tuples of distinct taxa from {0..7} and from {0,3,31,32,1000,65536}: Compare vs. definition, HashEquals <=> same four taxa, HashEquals => equal HashCode; quartets enumerated by Tree.Quartets for 2 presentations of every tree on 4..6 (7) taxa put in a hashmap of every capacity/load factor (and IndexQuartets itself for a few) vs. a plain map, looked up through all 24 presentations, and vs. the quartets induced by the model's splits; " +
			"non-trivial = distinct tree text verified / distinct configuration unit",
		Assumptions: []string{
			"the reference walk trusts Root/Neigh/Edges/Left/Right/Name (the well-formedness of that structure is C03's subject; malformed states are skipped and counted)",
			"github.com/fredericlemoine/bitset Test/Len/Equal are correct",
			"capacity >= 1 and load factor > 0 (DESIGN section 4)",
			"trees whose root has fewer than two neighbours are outside this check (C02/C16)",
		},
		Require: []string{
			"a_states_verified", "a_states_verified_as_left_by_operation", "a_differential_vs_fresh_parse", "a_histories_of_two_edits",
			"a_op_applied:reroot", "a_op_applied:outgroup", "a_op_applied:outgroup-remove", "a_op_applied:removetips", "a_op_applied:removeedge", "a_op_applied:graft", "a_op_applied:unroot", "a_op_applied:rename", "a_op_applied:shuffle", "a_op_applied:insert", "a_op_applied:clone",
			"b_pairs_equal_split", "b_pairs_equal_split_opposite_orientation", "b_pairs_equal_split_across_different_trees", "b_pairs_different_split",
			"c_edgeindex_histories", "c_edgeindex_operations_on_a_split_already_present", "c_edgeindex_hits_through_the_other_presentation", "c_edgeindex_insertions_reaching_capacity_x_loadfactor",
			"c_edgeindex_bulk_histories", "c_edgeindex_bulk_insertions_reaching_capacity_x_loadfactor",
			"h_hashmap_histories", "h_hashmap_puts_overwriting", "h_hashmap_insertions_colliding_on_the_full_hash_code", "h_hashmap_insertions_reaching_capacity_x_loadfactor", "h_hashmap_bulk_histories",
			"d_quartet_pairs_equal", "d_quartet_pairs_conflicting", "d_quartet_pairs_different_taxa", "d_forced_hash_collisions", "d_quartet_index_trees", "d_quartet_index_lookups_through_another_presentation", "d_IndexQuartets_direct_calls",
		},
		Run: func(c *Ctx) {
			t0 := time.Now()
			lap := func(p string) {
				c.Max("wall_ms_part_"+p, time.Since(t0).Milliseconds())
				t0 = time.Now()
			}
			c04partA(c)
			lap("a")
			objs5 := c04partB(c, true)
			lap("b")
			c04partC(c, objs5)
			lap("c")
			c04partH(c)
			lap("h")
			c04partD(c)
			lap("d")
			c04partW(c)
			lap("w")
		},
		Replay: c04replay,
	})
}

func c04replay(c *Ctx, raw json.RawMessage) {
	var cs c04case
	if err := json.Unmarshal(raw, &cs); err != nil {
		fmt.Println("cannot read the case:", err)
		return
	}
	var k, w string
	switch cs.Part {
	case "w":
		k, w = c04wideCheck(cs.Newick, cs.N)
		fmt.Printf("wide tree (second copy re-rooted at tip %d): %s\n", cs.N, cs.Newick)
	case "a":
		r := c04runSeq(cs.Newick, cs.Ops, cs.Rng, false)
		k, w = r.key, r.what
		fmt.Printf("start: %s\noperations: %v (rng script %d)\noutcome: %s, states verified: %d\n", cs.Newick, cs.Ops, cs.Rng, r.outcome, r.verified)
	case "b":
		if cs.A == nil {
			fmt.Println("no pair recorded")
			return
		}
		var a, b *c04pobj
		c04run(0, 0, func() {
			if t, st, skip := c04make(*cs.A); skip == "" {
				a = &c04pobj{spec: *cs.A, n: cs.N, t: t, st: st}
			}
			if cs.B != nil {
				if t, st, skip := c04make(*cs.B); skip == "" {
					b = &c04pobj{spec: *cs.B, n: cs.N, tree: 1, t: t, st: st}
				}
			}
		})
		if a == nil {
			fmt.Println("cannot rebuild the presentations")
			return
		}
		bs := []*c04pobj{a}
		if b != nil {
			bs = append(bs, b)
		}
		var st c04bstats
		k, w, _ = c04pairsOf(a, bs, &st)
		if k != "" && b != nil {
			// the feature of the key depends on the whole enumeration; keep the recorded clause
			parts := strings.Split(k, "/")
			k = strings.Join(parts[:len(parts)-1], "/")
		}
	case "c":
		objs, bad := c04objects(5, true, 0)
		if bad != "" {
			fmt.Println(bad)
			return
		}
		pool, _ := c04pool(objs)
		if cs.N > 0 && cs.N <= len(pool) {
			pool = pool[:cs.N]
		}
		if cs.Depth > 0 {
			k, w, _, _ = c04indexBatch(pool, cs.Cap, cs.LF, cs.Seq, cs.Depth, &c04istats{})
		} else {
			c04run(0, 0, func() {
				cl, ww := c04indexSeq(pool, cs.Cap, cs.LF, cs.Seq, cs.Each, nil)
				if cl != "" {
					k, w = "C04/edgeindex/"+cl, fmt.Sprintf("capacity %d, load factor %v, operations [%s]: %s", cs.Cap, cs.LF, c04describeSeq(pool, cs.Seq), ww)
					if cs.Each {
						k += "/observed-every-step"
					}
				}
			})
		}
	case "c-bulk":
		objs, bad := c04objects(cs.N, false, 2)
		if bad != "" {
			fmt.Println(bad)
			return
		}
		k, w = c04bulk(objs, cs.Cap, cs.LF, cs.Backward, &c04istats{})
	case "h":
		if cs.Depth > 0 {
			k, w, _ = c04mapBatch(cs.Cap, cs.LF, cs.Codes, cs.Depth, &c04hstats{})
		} else {
			c04run(0, 0, func() {
				if cl, ww := c04mapSeq(cs.Cap, cs.LF, cs.Codes, c04mapKeys(cs.Codes), cs.Seq, true, nil); cl != "" {
					k, w = "C04/hashmap/"+cl, fmt.Sprintf("capacity %d, load factor %v, hash codes %v, Put sequence %v: %s", cs.Cap, cs.LF, cs.Codes, cs.Seq, ww)
				}
			})
		}
	case "h-bulk":
		k, w = c04mapBulk(cs.Cap, cs.LF, cs.Pattern, cs.NKeys, &c04hstats{})
	case "d":
		if cs.Q1 == nil {
			return
		}
		all := []c04q{}
		if cs.Q2 != nil {
			all = append(all, c04q(*cs.Q2))
		} else {
			for _, ids := range c04idPools {
				all = append(all, c04tuples(ids)...)
			}
		}
		k, w, _ = c04quartetPairs(c04q(*cs.Q1), all, &c04qstats{})
	case "d-index":
		if cs.A == nil {
			return
		}
		k, w = c04quartetTree(*cs.A, cs.Specific, cs.Direct, &c04qistats{})
	}
	fmt.Printf("result: %s %s\n", k, w)
	if k != "" {
		c.Violate(k, w, cs)
	}
}

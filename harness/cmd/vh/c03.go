package main

import (
	"crypto/sha1"
	"encoding/json"
	"fmt"
	"io"
	"log"
	"runtime/debug"
	"sort"
	"strconv"
	"strings"

	"github.com/evolbioinfo/gotree/mcrt"
	"github.com/evolbioinfo/gotree/tree"

	rm "verif/harness/refmodel"
)

// C03: every successful edit leaves a well-formed tree.
//
// Explicit-state breadth-first search over operation histories executed on the
// real *tree.Tree. A state is (initial tree, list of operations); it is always
// re-created by parsing the initial Newick text and replaying the list. States
// are de-duplicated by a canonical key that contains everything the public API
// can observe. The invariant is evaluated, through the public API only, on every
// state reached by an operation that reported success.

// ---------------------------------------------------------------------------
// initial states

var c03inits = []string{
	"((A:0.125,B:0.25)0.9:0.5,(C:0.375,D:0.5)0.8:0.25,E:0.625);",                    // unrooted binary, 5 tips, lengths + supports
	"((A:0.125,B:0.25)0.7:0.375,(C:0.5,D:0.625)0.6:0.125);",                         // rooted binary, 4 tips
	"(((A:0.125,B:0.25)0.9:0.5,C:0.375)0.8:0.25,(D:0.5,E:0.625)0.7:0.75);",          // rooted binary, 5 tips, cherry two levels down
	"((A:0.125,B:0.25,C:0.375)0.9:0.5,D:0.5,E:0.625);",                              // unrooted, inner node with 4 neighbours
	"((A:0.125,B:0.25,C:0.375)0.5:0.5,(D:0.5,E:0.625)0.75:0.25);",                   // rooted, polytomy at a child of the root
	"(A:0.125,B:0.25,C:0.375,D:0.5);",                                               // star, 4 tips
	"((A:0,B:0.25)0.9,(C,D:0.5)0.8:0,E:0.625);",                                     // zero and absent lengths
	"((A[ca]:0.125[ea],B:0.25)ab[cn]:0.5[en],(C:0.375,D:0.5)cd:0.25,E:0.625)r[cr];", // named inner nodes, comments
	"(A:0.125,(B:0.25)0.9:0.5,(C:0.375)x:0.75,(D:0.5,(E:0.625):0.875):1);",          // single-child inner nodes: two as consecutive children of one node, one inside a clade
}

// every initial tree is used twice: as delivered by the parser (no index built)
// and after ReinitIndexes (what the commands do after reading).
func c03ninit() int { return 2 * len(c03inits) }

func c03initText(i int) (string, bool) { return c03inits[i%len(c03inits)], i >= len(c03inits) }

const c03fuel = 4_000_000

func c03run(prefix []int, f func()) mcrt.Result {
	return mcrt.Run(mcrt.Config{NoSched: true, Fuel: c03fuel, RandMode: mcrt.RandEnumerate, MapMode: mcrt.MapSorted, Prefix: prefix}, f)
}

// ---------------------------------------------------------------------------
// operations

type c03op struct {
	K  string     `json:"op"`
	I  []int      `json:"i,omitempty"` // node / tip / branch / rearrangement indices in the enumeration order of the current state
	S  []string   `json:"s,omitempty"`
	G  [][]string `json:"g,omitempty"`
	B  []bool     `json:"b,omitempty"`
	F  []float64  `json:"f,omitempty"`
	Ch []int      `json:"choices,omitempty"` // answers of the random draws (and map orders), default 0 afterwards

	core bool // member of the reduced alphabet that is expanded one level deeper in the thorough tier
}

func (o c03op) String() string {
	b, _ := json.Marshal(o)
	return string(b)
}

// the alphabet; every kind must have succeeded at least once (vacuity guard)
var c03kinds = []string{
	"Reroot", "RerootFirst", "RerootOutGroup", "RerootMidPoint", "UnRoot", "RemoveTips",
	"CollapseShortBranches", "CollapseLowSupport", "CollapseTopoDepth", "RemoveEdges", "CollapseClade",
	"Resolve", "ResolveNamedInternalNodes", "AddBipartition", "RotateInternalNodes", "SortNeighborsByTips",
	"GraftTreeOnTip", "GraftTipOnEdge", "Merge", "InsertIdenticalTips", "InsertIdenticalTip", "RemoveSingleNodes",
	"NNI", "NNIundo", "NNI2", "NNI2undo1", "NNI2stale", "NNIlisted", "Rename", "RenameAuto", "RenameRegexp", "ShuffleTips", "Clone", "SubTree", "ReinitIndexes",
}

func c03harnessPanic(format string, a ...any) {
	panic("harness: " + fmt.Sprintf(format, a...))
}

// c03apply executes one operation on the real tree. nt is the tree the history
// continues with (t itself, or its replacement for Clone/SubTree), extra a
// second tree handed out by the operation (CollapseClade).
func c03apply(t *tree.Tree, op *c03op) (nt, extra *tree.Tree, err error) {
	nt = t
	node := func(k int) *tree.Node {
		ns := t.Nodes()
		if k < 0 || k >= len(ns) {
			c03harnessPanic("node index %d of %d", k, len(ns))
		}
		return ns[k]
	}
	edge := func(k int) *tree.Edge {
		es := t.Edges()
		if k < 0 || k >= len(es) {
			c03harnessPanic("branch index %d of %d", k, len(es))
		}
		return es[k]
	}
	switch op.K {
	case "Reroot":
		err = t.Reroot(node(op.I[0]))
	case "RerootFirst":
		err = t.RerootFirst()
	case "RerootOutGroup":
		err = t.RerootOutGroup(op.B[0], op.B[1], op.S...)
	case "RerootMidPoint":
		err = t.RerootMidPoint()
	case "UnRoot":
		t.UnRoot()
	case "RemoveTips":
		err = t.RemoveTips(op.B[0], op.S...)
	case "CollapseShortBranches":
		t.CollapseShortBranches(op.F[0], op.B[0], op.B[1])
	case "CollapseLowSupport":
		t.CollapseLowSupport(op.F[0], op.B[0])
	case "CollapseTopoDepth":
		err = t.CollapseTopoDepth(op.I[0], op.I[1], op.B[0], op.B[1])
	case "RemoveEdges":
		var es []*tree.Edge
		for _, k := range op.I {
			es = append(es, edge(k))
		}
		t.RemoveEdges(op.B[0], op.B[1], es...)
	case "CollapseClade":
		extra, err = t.CollapseClade(op.B[0], op.S[0], op.S[1:]...)
	case "Resolve":
		t.Resolve()
	case "ResolveNamedInternalNodes":
		t.ResolveNamedInternalNodes()
	case "AddBipartition":
		n := node(op.I[0])
		var es []*tree.Edge
		for _, k := range op.I[1:] {
			if k >= len(n.Edges()) {
				c03harnessPanic("branch slot %d of %d", k, len(n.Edges()))
			}
			es = append(es, n.Edges()[k])
		}
		_, err = t.AddBipartition(n, es, op.F[0], op.F[1])
	case "RotateInternalNodes":
		t.RotateInternalNodes()
	case "SortNeighborsByTips":
		t.SortNeighborsByTips()
	case "ShuffleTips":
		t.ShuffleTips()
	case "GraftTreeOnTip":
		g := gtMustParse(op.S[1])
		err = t.GraftTreeOnTip(op.S[0], g)
	case "GraftTipOnEdge":
		n := t.NewNode()
		n.SetName(op.S[0])
		_, _, _, err = t.GraftTipOnEdge(n, edge(op.I[0]))
	case "Merge":
		t2 := gtMustParse(op.S[0])
		t2.ReinitIndexes()
		err = t.Merge(t2)
	case "InsertIdenticalTips":
		err = t.InsertIdenticalTips(op.G)
	case "InsertIdenticalTip":
		tips := t.Tips()
		if op.I[0] >= len(tips) {
			c03harnessPanic("tip index %d of %d", op.I[0], len(tips))
		}
		_, err = t.InsertIdenticalTip(tips[op.I[0]], op.S[0])
	case "RemoveSingleNodes":
		t.RemoveSingleNodes()
	case "NNI", "NNIundo", "NNI2", "NNI2undo1", "NNI2stale":
		// the k-th (and j-th) rearrangement offered by one pass of Rearrange
		k, j := op.I[0], -1
		if len(op.I) > 1 {
			j = op.I[1]
		}
		idx, done := 0, false
		var first tree.Rearrangement
		(&tree.NNIRearranger{}).Rearrange(t, func(r tree.Rearrangement) bool {
			defer func() { idx++ }()
			switch {
			case idx == k:
				first = r
				if op.K == "NNI2stale" {
					return true // kept for later: applied after the j-th one
				}
				if err = r.Apply(); err != nil {
					done = true
					return false
				}
				if op.K == "NNIundo" {
					err = r.Undo()
				}
				if j < 0 {
					done = true
					return false
				}
			case idx == j:
				done = true
				if err = r.Apply(); err != nil {
					return false
				}
				if op.K == "NNI2undo1" {
					err = first.Undo()
				}
				if op.K == "NNI2stale" {
					err = first.Apply()
				}
				return false
			}
			return true
		})
		if !done && err == nil {
			err = fmt.Errorf("harness: rearrangement %d/%d not offered (%d offered)", k, j, idx)
		}
	case "NNIlisted":
		// the rearrangements are listed first; the children are re-ordered (I[1] = 0: sorted by number of tips,
		// 1: mirrored by a rotation with fixed answers is not needed - reverse sort is obtained by sorting twice on a rerooted tree);
		// then the k-th listed rearrangement is applied (and, I[2] = 1, undone)
		var all []tree.Rearrangement
		(&tree.NNIRearranger{}).Rearrange(t, func(r tree.Rearrangement) bool { all = append(all, r); return true })
		if op.I[0] >= len(all) {
			err = fmt.Errorf("harness: rearrangement %d not offered (%d offered)", op.I[0], len(all))
			break
		}
		t.SortNeighborsByTips()
		if err = all[op.I[0]].Apply(); err == nil && op.I[1] == 1 {
			err = all[op.I[0]].Undo()
		}
	case "Rename":
		m := map[string]string{}
		for i := 0; i+1 < len(op.S); i += 2 {
			m[op.S[i]] = op.S[i+1]
		}
		err = t.Rename(m)
	case "RenameAuto":
		cur := 0
		err = t.RenameAuto(op.B[0], op.B[1], 6, &cur, map[string]string{})
	case "RenameRegexp":
		err = t.RenameRegexp(op.B[0], op.B[1], op.S[0], op.S[1], map[string]string{})
	case "Clone":
		nt = t.Clone()
	case "SubTree":
		nt = t.SubTree(node(op.I[0]))
	case "ReinitIndexes":
		err = t.ReinitIndexes()
	default:
		c03harnessPanic("unknown operation %q", op.K)
	}
	return
}

// c03shape is the harness' own reading of a state that passed the walk: used to instantiate arguments.
type c03shape struct {
	nodes    []*tree.Node
	deg      []int
	below    [][]string // sorted tip names below each node (towards the tips, seen from the root)
	tipNames []string   // in Tips() order
	single   bool       // there is a single-child inner node (non-root node with 2 neighbours, or root with 1)
}

func c03readShape(t *tree.Tree) *c03shape {
	sh := &c03shape{}
	idx := map[*tree.Node]int{}
	for i, n := range t.Nodes() {
		sh.nodes = append(sh.nodes, n)
		sh.deg = append(sh.deg, len(n.Neigh()))
		idx[n] = i
	}
	sh.below = make([][]string, len(sh.nodes))
	root := t.Root()
	var rec func(n, p *tree.Node) []string
	rec = func(n, p *tree.Node) []string {
		var names []string
		if len(n.Neigh()) == 1 && p != nil {
			names = []string{n.Name()}
		}
		for _, nb := range n.Neigh() {
			if nb != p {
				names = append(names, rec(nb, n)...)
			}
		}
		sort.Strings(names)
		sh.below[idx[n]] = names
		return names
	}
	rec(root, nil)
	for _, tp := range t.Tips() {
		sh.tipNames = append(sh.tipNames, tp.Name())
	}
	for i, n := range sh.nodes {
		if (n != root && sh.deg[i] == 2) || (n == root && sh.deg[i] == 1) {
			sh.single = true
		}
	}
	return sh
}

func c03distinct(v []float64) []float64 {
	sort.Float64s(v)
	var out []float64
	for i, x := range v {
		if i == 0 || x != v[i-1] {
			out = append(out, x)
		}
	}
	return out
}

// c03enum instantiates the alphabet with all arguments on the current state.
// ops: deterministic operations; rnd: operations whose random answers are explored.
func c03enum(t *tree.Tree, step int) (ops, rnd []c03op) {
	sh := c03readShape(t)
	root := t.Root()
	edges := t.Edges()
	ntips := len(sh.tipNames)
	add := func(o c03op) { ops = append(ops, o) }
	addc := func(core bool, o c03op) { o.core = core; ops = append(ops, o) }
	nm := func(prefix, suffix string) string { return fmt.Sprintf("%s%d%s", prefix, step, suffix) }

	// --- re-rooting
	for i := range sh.nodes {
		addc(sh.deg[i] > 1, c03op{K: "Reroot", I: []int{i}})
	}
	addc(true, c03op{K: "RerootFirst"})
	addc(true, c03op{K: "RerootMidPoint"})
	addc(true, c03op{K: "UnRoot"})
	// tip sets: singles, pairs, clades and their complements, an absent name
	var sets [][]string
	seenSet := map[string]bool{}
	addSet := func(s []string) {
		k := strings.Join(s, "\x00")
		if len(s) > 0 && !seenSet[k] {
			seenSet[k] = true
			sets = append(sets, s)
		}
	}
	uniq := append([]string(nil), sh.tipNames...)
	sort.Strings(uniq)
	for i := range uniq {
		addSet([]string{uniq[i]})
	}
	for i := range uniq {
		for j := i + 1; j < len(uniq); j++ {
			addSet([]string{uniq[i], uniq[j]})
		}
	}
	nsmall := len(sets)
	coreSet := map[string]bool{}
	for i := range uniq {
		coreSet[uniq[i]] = true
	}
	var clades [][]string
	for i, n := range sh.nodes {
		if n == root || sh.deg[i] == 1 {
			continue
		}
		b := sh.below[i]
		if len(b) >= 2 && len(b) < ntips {
			clades = append(clades, b)
			addSet(b)
			coreSet[strings.Join(b, "\x00")] = true
			in := map[string]bool{}
			for _, x := range b {
				in[x] = true
			}
			var comp []string
			for _, x := range uniq {
				if !in[x] {
					comp = append(comp, x)
				}
			}
			addSet(comp)
		}
	}
	addSet([]string{"zz"})
	if len(uniq) > 0 {
		addSet([]string{uniq[0], "zz"})
	}
	for _, s := range sets {
		for _, rem := range []bool{false, true} {
			for _, strict := range []bool{false, true} {
				addc(!strict && coreSet[strings.Join(s, "\x00")], c03op{K: "RerootOutGroup", B: []bool{rem, strict}, S: s})
			}
		}
	}
	// --- pruning (only required to cope with trees free of single-child inner nodes)
	if !sh.single {
		for _, s := range sets[:nsmall] {
			for _, rev := range []bool{false, true} {
				addc(!rev, c03op{K: "RemoveTips", B: []bool{rev}, S: s})
			}
		}
		add(c03op{K: "RemoveTips", B: []bool{false}, S: []string{"zz"}})
	}
	// --- collapsing
	var lens, sups []float64
	var inner []int
	for i, e := range edges {
		if e.Length() != tree.NIL_LENGTH {
			lens = append(lens, e.Length())
		}
		if e.Support() != tree.NIL_SUPPORT {
			sups = append(sups, e.Support())
		}
		if len(e.Right().Neigh()) != 1 {
			inner = append(inner, i)
		}
	}
	lens, sups = c03distinct(lens), c03distinct(sups)
	for k, l := range lens {
		for _, rr := range []bool{false, true} {
			addc(rr, c03op{K: "CollapseShortBranches", F: []float64{l}, B: []bool{rr, false}})
			if k == 0 || k == len(lens)-1 {
				add(c03op{K: "CollapseShortBranches", F: []float64{l}, B: []bool{rr, true}})
			}
		}
	}
	if len(sups) > 0 {
		sups = append(sups, sups[len(sups)-1]+1)
	}
	for _, s := range sups {
		for _, rr := range []bool{false, true} {
			addc(rr, c03op{K: "CollapseLowSupport", F: []float64{s}, B: []bool{rr}})
		}
	}
	for lo := 1; lo <= ntips/2; lo++ {
		for hi := lo; hi <= ntips/2; hi++ {
			for _, rr := range []bool{false, true} {
				addc(rr, c03op{K: "CollapseTopoDepth", I: []int{lo, hi}, B: []bool{rr, false}})
			}
		}
	}
	if ntips >= 2 {
		add(c03op{K: "CollapseTopoDepth", I: []int{1, 1}, B: []bool{false, true}})
	}
	for i, e := range edges {
		if len(e.Right().Neigh()) == 1 {
			add(c03op{K: "RemoveEdges", I: []int{i}, B: []bool{false, true}})
		} else {
			add(c03op{K: "RemoveEdges", I: []int{i}, B: []bool{false, false}})
			addc(true, c03op{K: "RemoveEdges", I: []int{i}, B: []bool{true, false}})
		}
	}
	for a := range inner {
		for b := a + 1; b < len(inner); b++ {
			add(c03op{K: "RemoveEdges", I: []int{inner[a], inner[b]}, B: []bool{true, false}})
			add(c03op{K: "RemoveEdges", I: []int{inner[b], inner[a]}, B: []bool{true, false}})
		}
	}
	for k, cl := range clades {
		addc(true, c03op{K: "CollapseClade", B: []bool{false}, S: append([]string{nm("c", "")}, cl...)})
		if k == 0 {
			add(c03op{K: "CollapseClade", B: []bool{true}, S: append([]string{nm("c", "")}, cl...)})
		}
	}
	if len(uniq) >= 3 {
		pair := []string{uniq[0], uniq[len(uniq)-1]}
		add(c03op{K: "CollapseClade", B: []bool{false}, S: append([]string{nm("c", "")}, pair...)})
		add(c03op{K: "CollapseClade", B: []bool{true}, S: append([]string{nm("c", "")}, pair...)})
	}
	// --- resolving
	rnd = append(rnd, c03op{K: "Resolve"})
	addc(true, c03op{K: "ResolveNamedInternalNodes"})
	for i := range sh.nodes {
		d := sh.deg[i]
		if d < 4 {
			continue
		}
		maxk := d - 2
		if d > 5 {
			maxk = 2
		}
		for mask := 1; mask < 1<<uint(d); mask++ {
			var sel []int
			for b := 0; b < d; b++ {
				if mask&(1<<uint(b)) != 0 {
					sel = append(sel, b)
				}
			}
			if len(sel) >= 2 && len(sel) <= maxk {
				addc(true, c03op{K: "AddBipartition", I: append([]int{i}, sel...), F: []float64{0.125, 0.5}})
			}
		}
	}
	// --- child order
	rnd = append(rnd, c03op{K: "RotateInternalNodes"})
	addc(true, c03op{K: "SortNeighborsByTips"})
	// --- grafting, merging, inserting
	graftR := fmt.Sprintf("(g%da:0.5,g%db:0.25);", step, step)
	graftU := fmt.Sprintf("(g%da:0.5,g%db:0.25,(g%dc:0.125,g%dd:0.375)0.5:0.5);", step, step, step, step)
	for i, tn := range uniq {
		addc(i == 0 || i == len(uniq)-1, c03op{K: "GraftTreeOnTip", S: []string{tn, graftR}})
		addc(i == 0 || i == len(uniq)-1, c03op{K: "GraftTreeOnTip", S: []string{tn, graftU}})
	}
	add(c03op{K: "GraftTreeOnTip", S: []string{"zz", graftR}})
	for i := range edges {
		addc(i%3 == 0, c03op{K: "GraftTipOnEdge", I: []int{i}, S: []string{nm("t", "")}})
	}
	addc(true, c03op{K: "Merge", S: []string{fmt.Sprintf("(m%da:0.5,m%db:0.25);", step, step)}})
	add(c03op{K: "Merge", S: []string{fmt.Sprintf("((m%da:0.5,m%db:0.25)0.5:0.125,m%dc:0.375);", step, step, step)}})
	add(c03op{K: "Merge", S: []string{fmt.Sprintf("(m%da:0.5,m%db:0.25,m%dc:0.375);", step, step, step)}})
	for i, tn := range uniq {
		addc(i == 0, c03op{K: "InsertIdenticalTips", G: [][]string{{tn, nm("i", "")}}})
	}
	if len(uniq) >= 2 {
		addc(true, c03op{K: "InsertIdenticalTips", G: [][]string{{uniq[0], nm("i", "a"), nm("i", "b")}}})
		add(c03op{K: "InsertIdenticalTips", G: [][]string{{uniq[0], nm("i", "a")}, {nm("i", "b"), uniq[1]}}})
		add(c03op{K: "InsertIdenticalTips", G: [][]string{{"zz", nm("i", "")}}})
	}
	for i := range sh.tipNames {
		addc(i == 0, c03op{K: "InsertIdenticalTip", I: []int{i}, S: []string{nm("i", "")}})
	}
	addc(true, c03op{K: "RemoveSingleNodes"})
	// --- NNI
	nnni := 0
	(&tree.NNIRearranger{}).Rearrange(t, func(r tree.Rearrangement) bool { nnni++; return true })
	for k := 0; k < nnni; k++ {
		addc(true, c03op{K: "NNI", I: []int{k}})
		add(c03op{K: "NNIundo", I: []int{k}})
		add(c03op{K: "NNIlisted", I: []int{k, 0}})
		add(c03op{K: "NNIlisted", I: []int{k, 1}})
		for j := k + 1; j < nnni; j++ {
			add(c03op{K: "NNI2", I: []int{k, j}})
			add(c03op{K: "NNI2undo1", I: []int{k, j}})
			add(c03op{K: "NNI2stale", I: []int{k, j}})
		}
	}
	// --- renaming
	if len(uniq) >= 2 {
		addc(true, c03op{K: "Rename", S: []string{uniq[0], nm("r", "")}})
		add(c03op{K: "Rename", S: []string{uniq[0], uniq[1], uniq[1], uniq[0]}})
		add(c03op{K: "Rename", S: []string{uniq[0], uniq[1]}})
		add(c03op{K: "Rename", S: []string{"zz", nm("r", "")}})
	}
	for i, n := range sh.nodes {
		if sh.deg[i] > 1 && n.Name() != "" {
			add(c03op{K: "Rename", S: []string{n.Name(), nm("r", "n")}})
			break
		}
	}
	addc(true, c03op{K: "RenameAuto", B: []bool{true, true}})
	add(c03op{K: "RenameAuto", B: []bool{false, true}})
	add(c03op{K: "RenameRegexp", B: []bool{true, true}, S: []string{"^", "x"}})
	rnd = append(rnd, c03op{K: "ShuffleTips"})
	// --- copies, indexes
	addc(true, c03op{K: "Clone"})
	for i := range sh.nodes {
		addc(sh.deg[i] > 1, c03op{K: "SubTree", I: []int{i}})
	}
	addc(true, c03op{K: "ReinitIndexes"})
	return
}

// names the key looks up in the tip index (initial names, names created at each step, an absent one)
func c03universe(depth int) []string {
	u := []string{"A", "B", "C", "D", "E", "ab", "cd", "r", "zz"}
	for s := 1; s <= depth; s++ {
		for _, p := range []string{"g%da", "g%db", "g%dc", "g%dd", "m%da", "m%db", "m%dc", "i%d", "i%da", "i%db", "t%d", "r%d", "r%dn", "c%d"} {
			u = append(u, fmt.Sprintf(p, s))
		}
	}
	return u
}

// ---------------------------------------------------------------------------
// the invariant

type c03viol struct {
	clause  string
	what    string
	feature string // discriminates finding classes inside a clause
}

type c03obs struct {
	viols      []c03viol
	expandable bool // walk and Nodes/Edges/Tips are sound: arguments can be instantiated on this state
	model      *rm.Tree
	text       string
	checkTree  int // -1 not evaluated, 0 false, 1 true
	wellformed bool
	evaluated  []string // clauses that were decided on this state
	traits     []string // what kind of tree the clauses were decided on (vacuity guards)
}

func c03fl(f float64) string { return strconv.FormatFloat(f, 'g', -1, 64) }

// c03walk: connected + acyclic + symmetric adjacency + orientation, by walking Neigh()/Edges() from Root().
func c03walk(t *tree.Tree, o *c03obs) (order []*tree.Node, parentEdge map[*tree.Node]*tree.Edge, ok bool) {
	bad := func(clause, format string, a ...any) {
		o.viols = append(o.viols, c03viol{clause: clause, what: fmt.Sprintf(format, a...)})
	}
	root := t.Root()
	if root == nil {
		bad("connected-acyclic", "Root() is nil")
		return nil, nil, false
	}
	visited := map[*tree.Node]bool{}
	parentEdge = map[*tree.Node]*tree.Edge{}
	models := map[*tree.Node]*rm.Node{}
	oriented := true
	var rec func(n, parent *tree.Node) bool
	rec = func(n, parent *tree.Node) bool {
		if visited[n] {
			bad("connected-acyclic", "node %q is reached twice when walking from the root (cycle)", n.Name())
			return false
		}
		visited[n] = true
		order = append(order, n)
		m := &rm.Node{Name: n.Name(), NodeCom: append([]string(nil), n.Comments()...)}
		models[n] = m
		neigh, br := n.Neigh(), n.Edges()
		if len(neigh) != len(br) {
			bad("adjacency", "node %q has %d neighbours and %d branches", n.Name(), len(neigh), len(br))
			return false
		}
		seen := map[*tree.Node]bool{}
		nparent := 0
		for i, nb := range neigh {
			e := br[i]
			if nb == nil || e == nil {
				bad("adjacency", "node %q: nil neighbour or branch in slot %d", n.Name(), i)
				return false
			}
			if nb == n {
				bad("adjacency", "node %q is its own neighbour", n.Name())
				return false
			}
			if seen[nb] {
				bad("adjacency", "node %q lists neighbour %q twice", n.Name(), nb.Name())
				return false
			}
			seen[nb] = true
			l, r := e.Left(), e.Right()
			if !((l == n && r == nb) || (l == nb && r == n)) {
				bad("adjacency", "slot %d of node %q: the branch does not join the node and its neighbour %q", i, n.Name(), nb.Name())
				return false
			}
			cnt, at := 0, -1
			for j, x := range nb.Neigh() {
				if x == n {
					cnt++
					at = j
				}
			}
			if cnt != 1 {
				bad("adjacency", "node %q lists %q as neighbour, which lists it back %d times", n.Name(), nb.Name(), cnt)
				return false
			}
			if be := nb.Edges(); at >= len(be) || be[at] != e {
				bad("adjacency", "nodes %q and %q see different branch objects for their connection", n.Name(), nb.Name())
				return false
			}
			if nb == parent {
				nparent++
				continue
			}
			if l != n || r != nb {
				if oriented {
					bad("orientation", "the branch between %q and its child %q (seen from the root) has Left()=%q Right()=%q", n.Name(), nb.Name(), l.Name(), r.Name())
				}
				oriented = false
			}
			parentEdge[nb] = e
			if !rec(nb, n) {
				return false
			}
			c := models[nb]
			if e.Length() != tree.NIL_LENGTH {
				c.HasLen, c.Len = true, e.Length()
			}
			if e.Support() != tree.NIL_SUPPORT {
				c.HasSup, c.Sup = true, e.Support()
			}
			if e.PValue() != tree.NIL_PVALUE {
				c.HasPv, c.Pv = true, e.PValue()
			}
			c.BrCom = append([]string(nil), e.Comments()...)
			m.Children = append(m.Children, c)
		}
		if parent != nil && nparent != 1 {
			bad("adjacency", "node %q lists its parent %d times", n.Name(), nparent)
			return false
		}
		return true
	}
	if !rec(root, nil) {
		return nil, nil, false
	}
	o.model = &rm.Tree{Root: models[root]}
	return order, parentEdge, oriented
}

func c03sameNodes(got []*tree.Node, want map[*tree.Node]bool) string {
	seen := map[*tree.Node]bool{}
	for _, n := range got {
		if n == nil {
			return "nil entry"
		}
		if seen[n] {
			return fmt.Sprintf("node %q listed twice", n.Name())
		}
		seen[n] = true
		if !want[n] {
			return fmt.Sprintf("node %q listed but not expected", n.Name())
		}
	}
	if len(got) != len(want) {
		return fmt.Sprintf("%d listed, %d expected", len(got), len(want))
	}
	return ""
}

// c03text compares the walk with the model's reading of the Newick text.
// Text conventions of the writer: a support is only written for an unnamed inner node, a
// p-value only next to a support, branch comments follow the length.
func c03text(x, y *rm.Node, path string, root bool) string {
	if len(x.Children) != len(y.Children) {
		return fmt.Sprintf("%s: %d children in the tree, %d in the text", path, len(x.Children), len(y.Children))
	}
	inner := len(x.Children) > 0
	if inner || x.Name != "" || !x.HasSup {
		if x.Name != y.Name {
			return fmt.Sprintf("%s: name %q in the tree, %q in the text", path, x.Name, y.Name)
		}
	}
	if !root {
		if x.HasLen != y.HasLen || (x.HasLen && !rm.SameFloat(x.Len, y.Len)) {
			return fmt.Sprintf("%s: length %v/%s in the tree, %v/%s in the text", path, x.HasLen, c03fl(x.Len), y.HasLen, c03fl(y.Len))
		}
		if inner && x.Name == "" {
			if x.HasSup != y.HasSup || (x.HasSup && !rm.SameFloat(x.Sup, y.Sup)) {
				return fmt.Sprintf("%s: support %v/%s in the tree, %v/%s in the text", path, x.HasSup, c03fl(x.Sup), y.HasSup, c03fl(y.Sup))
			}
			if x.HasSup && (x.HasPv != y.HasPv || (x.HasPv && !rm.SameFloat(x.Pv, y.Pv))) {
				return fmt.Sprintf("%s: p-value %v/%s in the tree, %v/%s in the text", path, x.HasPv, c03fl(x.Pv), y.HasPv, c03fl(y.Pv))
			}
		}
	}
	xc, yc := x.NodeCom, y.NodeCom
	if !root && (len(x.BrCom) > 0 || len(y.BrCom) > 0) {
		xc = append(append([]string{}, x.NodeCom...), x.BrCom...)
		yc = append(append([]string{}, y.NodeCom...), y.BrCom...)
	}
	same := len(xc) == len(yc)
	for i := 0; same && i < len(xc); i++ {
		same = xc[i] == yc[i]
	}
	if !same || (x.HasLen && !root && len(x.NodeCom) != len(y.NodeCom)) {
		return fmt.Sprintf("%s: comments %q in the tree, %q in the text", path, xc, yc)
	}
	for i := range x.Children {
		if d := c03text(x.Children[i], y.Children[i], path+"."+strconv.Itoa(i), false); d != "" {
			return d
		}
	}
	return ""
}

// c03inspect evaluates the invariant on t (public API only). Never panics: the
// gotree calls run under the controlled runtime.
func c03inspect(t *tree.Tree) *c03obs {
	o := &c03obs{checkTree: -1}
	stage := "connected-acyclic"
	bad := func(clause, format string, a ...any) {
		o.viols = append(o.viols, c03viol{clause: clause, what: fmt.Sprintf(format, a...)})
	}
	r := c03run(nil, func() {
		order, parentEdge, oriented := c03walk(t, o)
		if order == nil {
			return
		}
		o.evaluated = append(o.evaluated, "connected-acyclic", "adjacency", "orientation")
		if !oriented {
			return // the enumerations follow Left/Right: nothing more can be demanded
		}
		root := t.Root()
		inTree := map[*tree.Node]bool{}
		deg1 := map[*tree.Node]bool{}
		for _, n := range order {
			inTree[n] = true
			if len(n.Neigh()) == 1 {
				deg1[n] = true
			}
		}
		switch len(root.Neigh()) {
		case 2:
			o.traits = append(o.traits, "rooted")
		case 0, 1:
			o.traits = append(o.traits, "degenerate-root")
		default:
			o.traits = append(o.traits, "unrooted")
		}
		nested, poly, single := false, false, false
		for _, n := range order {
			d := len(n.Neigh())
			if d >= 4 {
				poly = true
			}
			if n != root && d == 2 {
				single = true
			}
			if e := parentEdge[n]; e != nil && d > 1 && e.Left() != root {
				nested = true
			}
		}
		if nested {
			o.traits = append(o.traits, "inner-branch-below-inner-branch")
		}
		if poly {
			o.traits = append(o.traits, "polytomy")
		}
		if single {
			o.traits = append(o.traits, "single-child-inner-node")
		}
		enumOK := true
		stage = "enum-nodes"
		o.evaluated = append(o.evaluated, stage)
		nodes := t.Nodes()
		if d := c03sameNodes(nodes, inTree); d != "" {
			bad("enum-nodes", "Nodes() differs from the nodes reached by the walk: %s", d)
			enumOK = false
		}
		stage = "enum-tips"
		o.evaluated = append(o.evaluated, stage)
		tips := t.Tips()
		if d := c03sameNodes(tips, deg1); d != "" {
			bad("enum-tips", "Tips() differs from the nodes with one neighbour: %s", d)
			enumOK = false
		}
		for _, n := range order {
			if n.Tip() != deg1[n] || n.Nneigh() != len(n.Neigh()) {
				bad("enum-tips", "node %q: Tip()=%v Nneigh()=%d with %d neighbours", n.Name(), n.Tip(), n.Nneigh(), len(n.Neigh()))
				enumOK = false
				break
			}
		}
		stage = "enum-edges"
		o.evaluated = append(o.evaluated, stage)
		edges := t.Edges()
		walked := map[*tree.Edge]bool{}
		for _, e := range parentEdge {
			walked[e] = true
		}
		seenE := map[*tree.Edge]int{}
		d := ""
		for _, e := range edges {
			if e == nil {
				d = "nil entry"
				break
			}
			seenE[e]++
			if seenE[e] > 1 {
				d = fmt.Sprintf("branch above %q listed twice", e.Right().Name())
				break
			}
			if !walked[e] {
				d = fmt.Sprintf("branch above %q listed but not part of the tree", e.Right().Name())
				break
			}
		}
		if d == "" && len(edges) != len(nodes)-1 {
			d = fmt.Sprintf("%d branches for %d nodes", len(edges), len(nodes))
		}
		if d != "" {
			bad("enum-edges", "Edges(): %s", d)
			enumOK = false
		}
		o.expandable = enumOK
		// all branches = internal + external
		stage = "internal+external"
		o.evaluated = append(o.evaluated, stage)
		te, ie := t.TipEdges(), t.InternalEdges()
		count := map[*tree.Edge]int{}
		d = ""
		which := ""
		for _, e := range te {
			if e == nil || !walked[e] {
				d, which = "TipEdges() lists a branch that is not part of the tree", "TipEdges-foreign-branch"
				break
			}
			count[e]++
			if !deg1[e.Right()] && !(e.Left() == root && deg1[root]) {
				d, which = fmt.Sprintf("TipEdges() lists the branch above inner node %q", e.Right().Name()), "TipEdges-lists-inner-branch"
				break
			}
		}
		if d == "" {
			for _, e := range ie {
				if e == nil || !walked[e] {
					d, which = "InternalEdges() lists a branch that is not part of the tree", "InternalEdges-foreign-branch"
					break
				}
				count[e]++
				if deg1[e.Right()] {
					d, which = fmt.Sprintf("InternalEdges() lists the branch of tip %q", e.Right().Name()), "InternalEdges-lists-tip-branch"
					break
				}
			}
		}
		if d == "" {
			for _, e := range edges {
				if e != nil && count[e] != 1 {
					d, which = fmt.Sprintf("the branch above %q is listed %d times by TipEdges()+InternalEdges()", e.Right().Name(), count[e]), "branch-not-listed-once"
					break
				}
			}
		}
		if d == "" && len(te)+len(ie) != len(edges) {
			d, which = fmt.Sprintf("%d external + %d internal branches, %d branches", len(te), len(ie), len(edges)), "count"
		}
		if d != "" {
			o.viols = append(o.viols, c03viol{"internal+external", fmt.Sprintf("%s (Edges()=%d TipEdges()=%d InternalEdges()=%d)", d, len(edges), len(te), len(ie)), which})
		}
		// tip names
		stage = "enum-tipnames"
		o.evaluated = append(o.evaluated, stage)
		var want, got []string
		for _, n := range tips {
			want = append(want, n.Name())
		}
		got = append(got, t.AllTipNames()...)
		sort.Strings(want)
		sort.Strings(got)
		if fmt.Sprintf("%q", want) != fmt.Sprintf("%q", got) {
			bad("enum-tipnames", "AllTipNames()=%q, names of Tips()=%q", got, want)
		}
		// traversals
		stage = "traversal"
		o.evaluated = append(o.evaluated, stage)
		for pass, trav := range []func(func(cur, prev *tree.Node, e *tree.Edge) bool){t.PreOrder, t.PostOrder} {
			seenN := map[*tree.Node]bool{}
			d := ""
			cnt := 0
			trav(func(cur, prev *tree.Node, e *tree.Edge) bool {
				cnt++
				if cnt > 4*len(order)+4 {
					d = "does not terminate"
					return false
				}
				if cur == nil || seenN[cur] || !inTree[cur] {
					d = "visits a node twice or a node outside the tree"
					return false
				}
				seenN[cur] = true
				if (prev == nil) != (cur == root) || parentEdge[cur] != e {
					d = fmt.Sprintf("node %q is visited with the wrong parent or branch", cur.Name())
					return false
				}
				if e != nil && (e.Left() != prev || e.Right() != cur) {
					d = fmt.Sprintf("node %q: branch does not go from the parent to the node", cur.Name())
					return false
				}
				return true
			})
			if d == "" && len(seenN) != len(order) {
				d = fmt.Sprintf("visits %d of %d nodes", len(seenN), len(order))
			}
			if d != "" {
				bad("traversal", "%s: %s", []string{"PreOrder", "PostOrder"}[pass], d)
				break
			}
		}
		// Newick text
		stage = "newick"
		o.evaluated = append(o.evaluated, stage)
		o.text = t.Newick()
		m, err := rm.ParseNewick(o.text)
		if err != nil {
			bad("newick", "the text %q written for the tree %q (public walk) is not readable: %v", o.text, o.model.Newick(), err)
		} else if d := c03text(o.model.Root, m.Root, "root", true); d != "" {
			bad("newick", "the text %q does not describe the tree %q (public walk): %s", o.text, o.model.Newick(), d)
		}
		stage = "checktree"
		if t.CheckTree() {
			o.checkTree = 1
		} else {
			o.checkTree = 0
		}
	})
	if crashed(r) {
		if strings.Contains(r.Detail, "harness:") {
			panic(r.Detail)
		}
		if stage != "checktree" {
			o.viols = append(o.viols, c03viol{clause: stage, what: fmt.Sprintf("evaluation of %s does not complete: %s", stage, verdictStr(r)), feature: "does-not-complete"})
			if stage == "enum-nodes" || stage == "enum-tips" || stage == "enum-edges" || stage == "connected-acyclic" {
				o.expandable = false
			}
		}
	}
	o.wellformed = len(o.viols) == 0
	return o
}

// clauses decided by an accessor alone: if a tree built from scratch (public
// constructors) with the same shape fails the same clause, the defect is in the
// accessor and not in the edit that produced the state.
func c03accessorClause(cl string) bool {
	switch cl {
	case "enum-nodes", "enum-tips", "enum-edges", "internal+external", "enum-tipnames", "traversal", "newick":
		return true
	}
	return false
}

func c03features(o *c03obs) string {
	if o.model == nil {
		return ""
	}
	switch n := len(o.model.Root.Children); {
	case n == 0:
		return "/single-node"
	case n == 1:
		return "/root-with-one-neighbour"
	}
	return ""
}

// ---------------------------------------------------------------------------
// canonical key of a state

func c03key(t *tree.Tree, universe []string) (key [20]byte, crashedKey bool) {
	buf := make([]byte, 0, 2048)
	str := func(s string) { buf = strconv.AppendQuote(buf, s) }
	strs := func(ss []string) {
		buf = append(buf, '[')
		for _, s := range ss {
			str(s)
		}
		buf = append(buf, ']')
	}
	num := func(tag byte, v int) { buf = append(buf, ' ', tag); buf = strconv.AppendInt(buf, int64(v), 10) }
	fl := func(tag byte, v float64) { buf = append(buf, ' ', tag); buf = strconv.AppendFloat(buf, v, 'g', -1, 64) }
	bl := func(v bool) {
		if v {
			buf = append(buf, 'T')
		} else {
			buf = append(buf, 'F')
		}
	}
	r := c03run(nil, func() {
		inTree := map[*tree.Node]bool{}
		var rec func(n, p *tree.Node, e *tree.Edge)
		rec = func(n, p *tree.Node, e *tree.Edge) {
			inTree[n] = true
			d, derr := n.Depth()
			buf = append(buf, '(')
			str(n.Name())
			strs(n.Comments())
			num('i', n.Id())
			num('d', d)
			bl(derr != nil)
			num('t', n.TipIndex())
			if e != nil {
				td, terr := e.TopoDepth()
				fl('L', e.Length())
				fl('S', e.Support())
				fl('P', e.PValue())
				strs(e.Comments())
				num('i', e.Id())
				num('k', td)
				bl(terr != nil)
				buf = append(buf, ' ', 'b')
				buf = append(buf, e.DumpBitSet()...)
			}
			for i, nb := range n.Neigh() {
				if nb == p {
					buf = append(buf, '^')
					continue
				}
				rec(nb, n, n.Edges()[i])
			}
			buf = append(buf, ')')
		}
		rec(t.Root(), nil, nil)
		for _, nm := range universe {
			ex, e1 := t.ExistsTip(nm)
			ti, e2 := t.TipIndex(nm)
			tn, e3 := t.TipNode(nm)
			buf = append(buf, '|')
			bl(ex)
			bl(e1 != nil)
			num('x', ti)
			bl(e2 != nil)
			bl(e3 != nil)
			bl(tn != nil && inTree[tn])
		}
	})
	if crashed(r) {
		crashedKey = true
		buf = append(buf, "!crash:"+crashSite(r)...)
	}
	return sha1.Sum(buf), crashedKey
}

// ---------------------------------------------------------------------------
// states and transitions

type c03state struct {
	Init int     `json:"init"`
	Ops  []c03op `json:"ops"`
	key  [20]byte
	core bool // every operation of the history belongs to the core alphabet
}

type c03case struct {
	Start   string  `json:"start_newick"`
	Indexed bool    `json:"reinit_indexes_after_parsing"`
	Ops     []c03op `json:"operations"`
}

func c03caseOf(init int, ops []c03op) c03case {
	s, idx := c03initText(init)
	return c03case{Start: s, Indexed: idx, Ops: ops}
}

// c03rebuild re-creates a state: parse, (index), replay. Every replayed operation must succeed again.
func c03rebuild(cs c03case) (*tree.Tree, string) {
	var t *tree.Tree
	var err error
	r := c03run(nil, func() {
		t, err = gtParse(cs.Start)
		if err == nil && cs.Indexed {
			err = t.ReinitIndexes()
		}
	})
	if crashed(r) || err != nil {
		return nil, fmt.Sprintf("initial tree %q: %v %s", cs.Start, err, verdictStr(r))
	}
	for i := range cs.Ops {
		op := &cs.Ops[i]
		var nt *tree.Tree
		var err error
		r := c03run(op.Ch, func() { nt, _, err = c03apply(t, op) })
		if crashed(r) || err != nil {
			return nil, fmt.Sprintf("replay of operation %d (%s) does not succeed again: %v %s", i, op, err, verdictStr(r))
		}
		t = nt
	}
	return t, ""
}

const (
	c03ok = iota
	c03failed
	c03crashed
	c03engine
)

type c03result struct {
	status     int
	detail     string
	site       string
	keys       []string // violation keys
	whats      []string
	expandable bool
	key        [20]byte
	keyCrash   bool
	checkTree  int
	wellformed bool
	ticks      int64
	text       string
	evaluated  []string
	traits     []string
}

// c03exec executes one transition (op == nil: the initial state itself) and evaluates the invariant.
func c03exec(pre c03case, op *c03op, universe []string) c03result {
	var res c03result
	t, bad := c03rebuild(pre)
	if bad != "" {
		return c03result{status: c03engine, detail: bad}
	}
	label := "initial"
	var extra *tree.Tree
	if op != nil {
		label = op.K
		var nt *tree.Tree
		var err error
		r := c03run(op.Ch, func() { nt, extra, err = c03apply(t, op) })
		res.ticks = r.Ticks
		if crashed(r) {
			if strings.Contains(r.Detail, "harness:") || r.Verdict == mcrt.VDiverged {
				return c03result{status: c03engine, detail: verdictStr(r)}
			}
			return c03result{status: c03crashed, detail: verdictStr(r), site: crashSite(r)}
		}
		if err != nil {
			if strings.HasPrefix(err.Error(), "harness:") {
				return c03result{status: c03engine, detail: err.Error()}
			}
			return c03result{status: c03failed, detail: err.Error()}
		}
		t = nt
	}
	o := c03inspect(t)
	res.expandable, res.checkTree, res.wellformed, res.text = o.expandable, o.checkTree, o.wellformed, o.text
	res.evaluated, res.traits = o.evaluated, o.traits
	report := func(o *c03obs, prefix string) {
		var ctl *c03obs
		for _, v := range o.viols {
			who := label
			if c03accessorClause(v.clause) && o.model != nil {
				if ctl == nil {
					var ct *tree.Tree
					r := c03run(nil, func() { ct = build(o.model) })
					if !crashed(r) {
						ctl = c03inspect(ct)
					} else {
						ctl = &c03obs{}
					}
				}
				for _, cv := range ctl.viols {
					if cv.clause == v.clause && cv.feature == v.feature {
						who = "accessor"
					}
				}
			}
			cl := v.clause
			if v.feature != "" {
				cl += "/" + v.feature
			}
			k := "C03/" + who + "/" + prefix + cl + c03features(o)
			if who == "accessor" {
				k = "C03/accessor/" + cl + c03features(o)
			}
			dup := false
			for _, x := range res.keys {
				dup = dup || x == k
			}
			if !dup {
				w := v.what
				if o.model != nil && !strings.Contains(w, "public walk") {
					w += fmt.Sprintf(" [tree as walked through Root/Neigh/Edges: %s]", o.model.Newick())
				}
				res.keys = append(res.keys, k)
				res.whats = append(res.whats, w)
			}
		}
	}
	report(o, "")
	if extra != nil {
		report(c03inspect(extra), "returned-clade/")
	}
	res.key, res.keyCrash = c03key(t, universe)
	return res
}

func c03trim(ch []int) []int {
	n := len(ch)
	for n > 0 && ch[n-1] == 0 {
		n--
	}
	return append([]int(nil), ch[:n]...)
}

// c03explore enumerates the answers of the random draws of op on the state (mcrt.Explore).
func c03explore(c *Ctx, pre c03case, op c03op, count, wide bool) [][]int {
	fresh, bad := c03rebuild(pre)
	if bad != "" {
		c.EngineError(bad)
		return nil
	}
	r0 := c03run(nil, func() { c03apply(fresh, &op) })
	prod := 1
	for _, p := range r0.Points {
		if p.Kind == mcrt.KRand && prod < 1<<20 {
			prod *= p.N
		}
	}
	limit, bound := 120, 1
	if wide {
		limit, bound = 720, 2
	}
	if op.K == "ShuffleTips" {
		limit = 24
		if wide {
			limit = 120
		}
	}
	cfg := mcrt.Config{NoSched: true, Fuel: c03fuel, RandMode: mcrt.RandEnumerate, MapMode: mcrt.MapSorted}
	if prod > limit {
		cfg.RandMode = mcrt.RandBounded
	} else {
		bound = 0
	}
	if fresh, bad = c03rebuild(pre); bad != "" {
		c.EngineError(bad)
		return nil
	}
	var seqs [][]int
	st := mcrt.Explore(mcrt.ExploreOpts{Base: cfg, Bound: bound, MaxExecs: 100000},
		func() { c03apply(fresh, &op) },
		func(r *mcrt.Result, ch []int) bool {
			seqs = append(seqs, c03trim(ch))
			fresh, bad = c03rebuild(pre)
			return bad == ""
		})
	if !st.Exhaustive {
		c.EngineError(fmt.Sprintf("exploration of the random answers of %s stopped early (%s) on %v", op.K, bad, pre))
	}
	if count {
		c.Count("explore_execs", st.Execs)
		if prod > 1 {
			if cfg.RandMode == mcrt.RandBounded {
				c.Count("rand_bounded:"+op.K, 1)
			} else {
				c.Count("rand_all_answers:"+op.K, 1)
			}
			c.Max("rand_answer_space:"+op.K, int64(prod))
		}
	}
	return seqs
}

func c03bfs(c *Ctx) {
	log.SetOutput(io.Discard)
	debug.SetGCPercent(800) // gotree allocates 16 kB slices in every traversal; the live heap is small
	depth := 2
	if !c.Quick() {
		depth = 3
	}
	universe := c03universe(depth)
	seen := map[[20]byte]*c03state{} // nil: seen, not kept for expansion
	var frontier []*c03state

	// one transition; returns the successor if it has to be expanded
	seenLocal := map[[20]byte]struct{}{} // states reached by transitions only this worker executes (never expanded)
	// keep: the successor may have to be expanded, the transition is executed by every worker
	step := func(st *c03state, op *c03op, mine, keep bool) *c03state {
		var pre c03case
		var ops []c03op
		init := 0
		var preKey [20]byte
		if st != nil {
			pre = c03caseOf(st.Init, st.Ops)
			init = st.Init
			preKey = st.key
			ops = append(append([]c03op(nil), st.Ops...), *op)
		}
		full := c03caseOf(init, ops)
		if mine {
			c.Pin(func() string { b, _ := json.Marshal(full); return string(b) })
		}
		res := c03exec(pre, op, universe)
		kind := "initial"
		if op != nil {
			kind = op.K
		}
		if res.status == c03engine {
			if mine {
				c.EngineError(fmt.Sprintf("%s on %v", res.detail, full))
			}
			return nil
		}
		if mine {
			c.Execs++
			c.Transitions++
			c.Max("ticks_of_an_operation", res.ticks)
			switch res.status {
			case c03failed:
				c.Count("failed_ops", 1)
				c.Count("failed:"+kind, 1)
				c.Outcome("failed:" + kind + ":" + res.detail)
			case c03crashed:
				c.Count("crashed_ops", 1)
				c.Count("crashed:"+kind+":"+res.site, 1)
				if _, ok := c.Notes["crash:"+kind+":"+res.site]; !ok && len(c.Notes) < 40 {
					b, _ := json.Marshal(full)
					c.Note("crash:"+kind+":"+res.site, res.detail+" <= "+string(b))
				}
				c.Outcome("crashed:" + kind + ":" + res.site)
			case c03ok:
				c.Count("ok:"+kind, 1)
				c.Count("invariant_evaluations", 1)
				for _, cl := range res.evaluated {
					c.Count("clause_decided:"+cl, 1)
				}
				for _, tr := range res.traits {
					c.Count("decided_on:"+tr, 1)
				}
				if res.wellformed {
					c.Count("wellformed_states", 1)
				}
				if res.checkTree == 0 && res.wellformed {
					c.Count("CheckTree_false_on_wellformed", 1)
				}
				if res.checkTree == 1 && !res.wellformed {
					c.Count("CheckTree_true_on_violation", 1)
				}
				if res.keyCrash {
					c.Count("key_observation_crashed", 1)
				}
				if len(res.keys) > 0 {
					// a violation must reproduce identically twice
					for i := 0; i < 2; i++ {
						r2 := c03exec(pre, op, universe)
						if strings.Join(r2.keys, "\n") != strings.Join(res.keys, "\n") {
							c.EngineError(fmt.Sprintf("non-reproducible violation %q (then %q) on %v", res.keys, r2.keys, full))
							return nil
						}
					}
					for i, k := range res.keys {
						c.Violate(k, fmt.Sprintf("%s; history: start %q indexed=%v ops=%v", res.whats[i], full.Start, full.Indexed, full.Ops), full)
					}
				}
			}
		}
		if res.status != c03ok {
			return nil
		}
		if mine {
			c.Outcome(string(res.key[:]))
			if st != nil && res.key != preKey {
				c.Nontrivial(string(res.key[:]))
				c.Count("effective:"+kind, 1)
			}
		}
		core := op != nil && op.core && (st == nil || st.core)
		if !keep {
			_, dup := seen[res.key]
			_, dup2 := seenLocal[res.key]
			if !dup && !dup2 {
				seenLocal[res.key] = struct{}{}
				c.States++
				c.Count(fmt.Sprintf("states_at_depth_%d", len(ops)), 1)
				if !res.expandable {
					c.Count("states_not_expanded_because_malformed", 1)
				}
			}
			return nil
		}
		if old, dup := seen[res.key]; dup {
			if old != nil && core && len(old.Ops) == len(ops) {
				old.core = true // the same state is also reached by a core history of the same length
			}
			return nil
		}
		seen[res.key] = nil
		if mine {
			c.States++
			c.Count(fmt.Sprintf("states_at_depth_%d", len(ops)), 1)
			c.Sample(full)
		}
		if !res.expandable {
			if mine {
				c.Count("states_not_expanded_because_malformed", 1)
			}
			return nil
		}
		ns := &c03state{Init: init, Ops: ops, key: res.key, core: core}
		seen[res.key] = ns
		return ns
	}

	for i := 0; i < c03ninit(); i++ {
		mine := c.Mine()
		// initial states are checked by their owner and kept by everybody
		pre := c03caseOf(i, nil)
		_ = pre
		stt := &c03state{Init: i, core: true}
		res := c03exec(c03caseOf(i, nil), nil, universe)
		if res.status != c03ok {
			c.EngineError(fmt.Sprintf("initial state %d: %s", i, res.detail))
			continue
		}
		stt.key = res.key
		if mine {
			c.Execs++
			c.States++
			c.Count("states_at_depth_0", 1)
			c.Count("invariant_evaluations", 1)
			c.Outcome(string(res.key[:]))
			for k, key := range res.keys {
				c.Violate(key, fmt.Sprintf("%s; initial tree %q (indexed=%v)", res.whats[k], pre.Start, pre.Indexed), pre)
			}
		}
		seen[res.key] = stt
		if res.expandable {
			frontier = append(frontier, stt)
		}
	}

	// successors are expanded up to depth 2 always, deeper only below core histories
	keepFor := func(st *c03state, opcore bool, d int) bool {
		return d < depth && (d+1 <= 2 || (st.core && opcore))
	}
	for d := 1; d <= depth; d++ {
		var next []*c03state
		for _, st := range frontier {
			if d > 2 && !st.core {
				continue // deeper than 2 only below core histories
			}
			if c.Shard == 0 {
				c.Count(fmt.Sprintf("states_expanded_at_depth_%d", d-1), 1)
			}
			if c.TimeUp() {
				c.Note("frontier", fmt.Sprintf("deadline reached at depth %d", d))
				return
			}
			pre := c03caseOf(st.Init, st.Ops)
			t, bad := c03rebuild(pre)
			if bad != "" {
				c.EngineError(bad)
				continue
			}
			var ops, rnd []c03op
			r := c03run(nil, func() { ops, rnd = c03enum(t, d) })
			if crashed(r) {
				c.EngineError(fmt.Sprintf("argument enumeration crashed on %v: %s", pre, verdictStr(r)))
				continue
			}
			for _, ro := range rnd {
				mine := c.Mine()
				anyKeep := keepFor(st, true, d)
				if !anyKeep && !mine {
					continue
				}
				seqs := [][]int{nil}
				if mine || ro.K == "Resolve" || keepFor(st, false, d) {
					seqs = c03explore(c, pre, ro, mine, !c.Quick() && d <= 2)
				}
				for _, seq := range seqs {
					op := ro
					op.Ch = seq
					op.core = ro.K == "Resolve" || len(seq) == 0
					keep := keepFor(st, op.core, d)
					if !keep && !mine {
						continue
					}
					if s := step(st, &op, mine, keep); s != nil {
						next = append(next, s)
					}
				}
			}
			for i := range ops {
				mine := c.Mine()
				keep := keepFor(st, ops[i].core, d)
				if !keep && !mine {
					continue
				}
				if s := step(st, &ops[i], mine, keep); s != nil {
					next = append(next, s)
				}
			}
		}
		if c.Shard == 0 {
			c.Count(fmt.Sprintf("frontier_after_depth_%d", d), int64(len(next)))
		}
		// every worker must have built the same frontier: one note key per distinct digest
		dg := sha1.New()
		for _, s := range next {
			dg.Write(s.key[:])
		}
		c.Note(fmt.Sprintf("frontier_digest_depth_%d_%x", d, dg.Sum(nil)[:6]), fmt.Sprint(len(next)))
		frontier = next
	}
	c.Max("depth", int64(depth))
}

func init() {
	req := []string{"invariant_evaluations", "wellformed_states", "failed_ops", "explore_execs", "states_at_depth_2",
		"decided_on:rooted", "decided_on:unrooted", "decided_on:inner-branch-below-inner-branch", "decided_on:polytomy", "decided_on:single-child-inner-node",
		"rand_all_answers:Resolve", "rand_all_answers:ShuffleTips", "rand_all_answers:RotateInternalNodes"}
	for _, cl := range []string{"connected-acyclic", "adjacency", "orientation", "enum-nodes", "enum-tips", "enum-edges", "internal+external", "enum-tipnames", "traversal", "newick"} {
		req = append(req, "clause_decided:"+cl)
	}
	for _, k := range c03kinds {
		req = append(req, "ok:"+k)
	}
	register(&Prop{
		ID: "C03",
		Rule: "explicit-state BFS over operation histories on the real *tree.Tree: 9 initial trees (unrooted/rooted binary, polytomies, star, zero/absent lengths, named inner nodes + comments, single-child inner nodes) x {as parsed, after ReinitIndexes}; " +
			"alphabet = every public editing operation instantiated with all arguments on the current state (c03enum: Reroot at every node, RerootFirst, RerootMidPoint, RerootOutGroup for every outgroup of 1-2 tips, every clade and its complement, an absent name x remove x strict; UnRoot; RemoveTips of every 1-2 tips x revert, only on states free of single-child inner nodes; " +
			"Collapse{ShortBranches,LowSupport,TopoDepth} at every distinct threshold, RemoveEdges per branch and per ordered pair of inner branches, CollapseClade; Resolve / RotateInternalNodes / ShuffleTips under the answers of their random draws (mcrt.Explore: every answer sequence when there are <= 120 of them [ShuffleTips 24], otherwise <= 1 deviation from the default answers; thorough: 720 [120] and 2 at depth <= 2); AddBipartition per subset of a polytomy; SortNeighborsByTips; ResolveNamedInternalNodes; " +
			"GraftTreeOnTip per tip x 2 grafts, GraftTipOnEdge per branch, Merge x 3, InsertIdenticalTips/InsertIdenticalTip per tip, RemoveSingleNodes, every NNI of Rearrange kept / undone / two kept in one pass / first undone after the second / first applied after the second, Rename/RenameAuto/RenameRegexp, Clone, SubTree per node, ReinitIndexes); " +
			"quick: all histories of length <= 2; thorough: all histories of length <= 2 plus all histories of length 3 whose first two operations belong to the core alphabet (one representative argument choice per operation and code path, flagged in c03enum) and whose third operation is any operation of the full alphabet; " +
			"states are de-duplicated by a canonical key of everything observable (shape, child order, slot of the parent, names, comments, lengths, supports, p-values, ids, depths, topological depths, bitsets, answers of the tip index for every name ever used); a state is always re-created by parsing the initial text and replaying its history; " +
			"operations that return an error / exit / panic / do not terminate are not expanded and are counted (failed:*, crashed:*); the invariant is decided on every state reached by a successful operation through the public API only; non-trivial = successful operation whose result has another key than its predecessor (counted by distinct result); distinct_outcomes = distinct states and failure messages over all workers",
		Assumptions: []string{"reference Newick reader (refmodel) implements the writer's grammar", "the walk through Root/Neigh/Edges/Left/Right reports what these accessors return (they are plain getters)", "a violation of an accessor clause that also occurs on a tree built from scratch with the same shape is attributed to the accessor, not to the edit"},
		Require:     req,
		Run:         c03bfs,
		Replay: func(c *Ctx, raw json.RawMessage) {
			var cs c03case
			if err := json.Unmarshal(raw, &cs); err != nil {
				fmt.Println("cannot read the case:", err)
				return
			}
			universe := c03universe(len(cs.Ops) + 1)
			for n := 0; n <= len(cs.Ops); n++ {
				pre := c03case{Start: cs.Start, Indexed: cs.Indexed}
				var op *c03op
				if n > 0 {
					pre.Ops = cs.Ops[:n-1]
					op = &cs.Ops[n-1]
				}
				res := c03exec(pre, op, universe)
				name := "initial"
				if op != nil {
					name = op.String()
				}
				fmt.Printf("step %d %s: status=%d %s\n  newick: %s\n  CheckTree=%d violations=%q\n", n, name, res.status, res.detail, res.text, res.checkTree, res.keys)
				for i, k := range res.keys {
					fmt.Printf("  %s: %s\n", k, res.whats[i])
					if n == len(cs.Ops) {
						c.Violate(k, res.whats[i], cs)
					}
				}
				if res.status != c03ok {
					break
				}
			}
		},
	})
}

package main

import (
	"fmt"
	"strings"

	"github.com/evolbioinfo/gotree/io/newick"
	"github.com/evolbioinfo/gotree/mcrt"
	"github.com/evolbioinfo/gotree/tree"
)

func parse(s string) *tree.Tree {
	t, err := newick.NewParser(strings.NewReader(s)).Parse()
	if err != nil {
		panic(err)
	}
	return t
}

func main() {
	var out []string
	body := func() {
		out = nil
		ref := parse("((A:1,B:1):1,(C:1,D:1):1,E:1);")
		ch := make(chan tree.Trees, 3)
		mcrt.Send(ch, tree.Trees{Tree: parse("((A:1,B:1):1,(C:1,D:1):1,E:1);"), Id: 0})
		mcrt.Send(ch, tree.Trees{Tree: parse("((A:2,C:1):2,(B:1,D:1):1,E:1);"), Id: 1})
		mcrt.Send(ch, tree.Trees{Tree: parse("((A:3,B:1):3,C:1,D:1,E:1);"), Id: 2})
		mcrt.Close(ch)
		st, err := tree.CompareWeighted(ref, ch, false, false, 2)
		if err != nil {
			panic(err)
		}
		res := map[int]string{}
		for {
			s, ok := mcrt.Recv2(st)
			if !ok {
				break
			}
			res[s.Id] = fmt.Sprint(s.Tree1, s.Tree2, s.Common, s.Sametree, s.Err)
		}
		for i := 0; i < 3; i++ {
			out = append(out, res[i])
		}
	}
	outcomes := map[string]int{}
	for b := 0; b <= 1; b++ {
		stt := mcrt.Explore(mcrt.ExploreOpts{Bound: b}, body, func(r *mcrt.Result, ch []int) bool {
			outcomes[r.Verdict.String()+" "+r.Detail+" "+strings.Join(out, "|")]++
			return true
		})
		fmt.Println("bound", b, "execs", stt.Execs, "points", stt.Points, "depth", stt.MaxDepth, stt.Verdicts, "outcomes", len(outcomes))
	}
	for k, v := range outcomes {
		fmt.Println(v, k)
	}
}

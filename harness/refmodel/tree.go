// Package refmodel is an independent, deliberately naive reference model of
// phylogenetic trees. It never imports gotree. All derived notions (splits,
// distances, restriction, consensus tables, transfer distances, parsimony)
// are computed by definition.
package refmodel

import (
	"fmt"
	"math"
	"sort"
	"strconv"
	"strings"
)

// Node of a rooted ordered tree. The branch fields describe the branch to the parent.
type Node struct {
	Name     string
	Children []*Node
	HasLen   bool
	Len      float64
	HasSup   bool
	Sup      float64
	HasPv    bool
	Pv       float64
	NodeCom  []string // comments on the node
	BrCom    []string // comments on the branch to the parent
}

// Tree is a rooted ordered tree; gotree's convention: root with 2 children = rooted, >= 3 = unrooted.
type Tree struct {
	Root *Node
}

func (n *Node) IsTip() bool { return len(n.Children) == 0 }

// Clone deep-copies.
func (n *Node) Clone() *Node {
	c := *n
	c.NodeCom = append([]string(nil), n.NodeCom...)
	c.BrCom = append([]string(nil), n.BrCom...)
	c.Children = make([]*Node, len(n.Children))
	for i, ch := range n.Children {
		c.Children[i] = ch.Clone()
	}
	return &c
}

func (t *Tree) Clone() *Tree { return &Tree{Root: t.Root.Clone()} }

// Rooted in gotree's convention.
func (t *Tree) Rooted() bool { return len(t.Root.Children) == 2 }

// Walk visits every node in pre-order with its parent.
func (t *Tree) Walk(f func(n, parent *Node)) {
	var rec func(n, p *Node)
	rec = func(n, p *Node) {
		f(n, p)
		for _, c := range n.Children {
			rec(c, n)
		}
	}
	rec(t.Root, nil)
}

// Tips in left-to-right order.
func (t *Tree) Tips() []*Node {
	var out []*Node
	t.Walk(func(n, _ *Node) {
		if n.IsTip() {
			out = append(out, n)
		}
	})
	return out
}

// TipNames sorted.
func (t *Tree) TipNames() []string {
	var out []string
	for _, n := range t.Tips() {
		out = append(out, n.Name)
	}
	sort.Strings(out)
	return out
}

func (t *Tree) NNodes() int {
	c := 0
	t.Walk(func(n, _ *Node) { c++ })
	return c
}

// FormatFloat is the shortest decimal form without exponent that parses back to the same float64.
func FormatFloat(f float64) string { return strconv.FormatFloat(f, 'f', -1, 64) }

// Newick renders the tree in the layout gotree's writer is documented to use:
// (children)name-or-support[/pvalue][node comments]:length[branch comments] and root comments before ';'.
func (t *Tree) Newick() string {
	var sb strings.Builder
	var rec func(n *Node, root bool)
	rec = func(n *Node, root bool) {
		if len(n.Children) > 0 {
			sb.WriteByte('(')
			for i, c := range n.Children {
				if i > 0 {
					sb.WriteByte(',')
				}
				rec(c, false)
			}
			sb.WriteByte(')')
		}
		sb.WriteString(n.Name)
		if !root {
			if n.HasSup && n.Name == "" {
				sb.WriteString(FormatFloat(n.Sup))
				if n.HasPv {
					sb.WriteByte('/')
					sb.WriteString(FormatFloat(n.Pv))
				}
			}
		}
		for _, c := range n.NodeCom {
			sb.WriteString("[" + c + "]")
		}
		if !root {
			if n.HasLen {
				sb.WriteByte(':')
				sb.WriteString(FormatFloat(n.Len))
			}
			for _, c := range n.BrCom {
				sb.WriteString("[" + c + "]")
			}
		}
	}
	rec(t.Root, true)
	sb.WriteByte(';')
	return sb.String()
}

// ---------------------------------------------------------------------------
// Independent Newick reader. It implements the grammar the writer emits:
//   tree    = subtree rootcomments ';'
//   subtree = [ '(' subtree { ',' subtree } ')' ] label comments [ ':' number comments ]
// label after ')' : float -> support, float/float -> support/pvalue, else name.
// Whitespace between tokens is skipped; inside comments it is kept.

type reader struct {
	s   string
	pos int
}

func (r *reader) ws() {
	for r.pos < len(r.s) && (r.s[r.pos] == ' ' || r.s[r.pos] == '\t' || r.s[r.pos] == '\n' || r.s[r.pos] == '\r') {
		r.pos++
	}
}

func isMeta(c byte) bool {
	return c == '(' || c == ')' || c == '[' || c == ']' || c == ',' || c == ':' || c == ';'
}

func (r *reader) label() string {
	start := r.pos
	for r.pos < len(r.s) && !isMeta(r.s[r.pos]) {
		r.pos++
	}
	return strings.TrimSpace(r.s[start:r.pos])
}

func (r *reader) comments() ([]string, error) {
	var out []string
	for {
		r.ws()
		if r.pos >= len(r.s) || r.s[r.pos] != '[' {
			return out, nil
		}
		end := strings.IndexByte(r.s[r.pos:], ']')
		if end < 0 {
			return nil, fmt.Errorf("unterminated comment at %d", r.pos)
		}
		out = append(out, r.s[r.pos+1:r.pos+end])
		r.pos += end + 1
	}
}

func looksFloat(s string) bool {
	_, err := strconv.ParseFloat(s, 64)
	return err == nil
}

func (r *reader) subtree(root bool) (*Node, error) {
	n := &Node{}
	r.ws()
	inner := false
	if r.pos < len(r.s) && r.s[r.pos] == '(' {
		inner = true
		r.pos++
		for {
			c, err := r.subtree(false)
			if err != nil {
				return nil, err
			}
			n.Children = append(n.Children, c)
			r.ws()
			if r.pos >= len(r.s) {
				return nil, fmt.Errorf("unexpected end")
			}
			if r.s[r.pos] == ',' {
				r.pos++
				continue
			}
			if r.s[r.pos] == ')' {
				r.pos++
				break
			}
			return nil, fmt.Errorf("unexpected %q at %d", r.s[r.pos], r.pos)
		}
	}
	r.ws()
	lab := r.label()
	if inner && lab != "" {
		if looksFloat(lab) {
			if !root {
				n.HasSup = true
				n.Sup, _ = strconv.ParseFloat(lab, 64)
			}
		} else if i := strings.IndexByte(lab, '/'); i >= 0 && strings.Count(lab, "/") == 1 && looksFloat(lab[:i]) && looksFloat(lab[i+1:]) && !root {
			n.HasSup, n.HasPv = true, true
			n.Sup, _ = strconv.ParseFloat(lab[:i], 64)
			n.Pv, _ = strconv.ParseFloat(lab[i+1:], 64)
		} else {
			n.Name = lab
		}
	} else {
		n.Name = lab
	}
	var err error
	if n.NodeCom, err = r.comments(); err != nil {
		return nil, err
	}
	r.ws()
	if r.pos < len(r.s) && r.s[r.pos] == ':' {
		r.pos++
		r.ws()
		num := r.label()
		f, err := strconv.ParseFloat(num, 64)
		if err != nil {
			return nil, fmt.Errorf("bad length %q", num)
		}
		if !root {
			n.HasLen, n.Len = true, f
		}
		if n.BrCom, err = r.comments(); err != nil {
			return nil, err
		}
	}
	return n, nil
}

// ParseNewick reads one tree.
func ParseNewick(s string) (*Tree, error) {
	r := &reader{s: s}
	n, err := r.subtree(true)
	if err != nil {
		return nil, err
	}
	r.ws()
	if r.pos >= len(r.s) || r.s[r.pos] != ';' {
		return nil, fmt.Errorf("expected ';' at %d in %q", r.pos, s)
	}
	return &Tree{Root: n}, nil
}

func MustParse(s string) *Tree {
	t, err := ParseNewick(s)
	if err != nil {
		panic(err)
	}
	return t
}

// ---------------------------------------------------------------------------
// Splits

// Split is a bitmask over the sorted tip names (bit i = i-th name) of the side below a branch.
type Split uint64

// TipIndex maps the sorted tip names to bit positions.
func TipIndex(names []string) map[string]int {
	s := append([]string(nil), names...)
	sort.Strings(s)
	m := map[string]int{}
	for i, n := range s {
		m[n] = i
	}
	return m
}

// Canon returns the canonical orientation of a bipartition over n tips: the side not containing tip 0.
func (s Split) Canon(n int) Split {
	full := Split(1)<<uint(n) - 1
	s &= full
	if s&1 != 0 {
		return full &^ s
	}
	return s
}

func (s Split) Count() int {
	c := 0
	for x := uint64(s); x != 0; x &= x - 1 {
		c++
	}
	return c
}

// Trivial: one side has <= 1 tip.
func (s Split) Trivial(n int) bool {
	c := s.Count()
	return c <= 1 || c >= n-1
}

func (s Split) Names(sorted []string) []string {
	var out []string
	for i, nm := range sorted {
		if s&(1<<uint(i)) != 0 {
			out = append(out, nm)
		}
	}
	return out
}

// Below computes for every node the mask of tips below it.
func (t *Tree) Below(idx map[string]int) map[*Node]Split {
	out := map[*Node]Split{}
	var rec func(n *Node) Split
	rec = func(n *Node) Split {
		var m Split
		if n.IsTip() {
			m = 1 << uint(idx[n.Name])
		}
		for _, c := range n.Children {
			m |= rec(c)
		}
		out[n] = m
		return m
	}
	rec(t.Root)
	return out
}

// BranchInfo is what the unrooted split map records per bipartition.
type BranchInfo struct {
	Len    float64 // absent counts as 0
	HasLen bool
	Sup    float64
	HasSup bool
	N      int  // number of branches of the tree defining this bipartition (2 for the root branches of a rooted tree)
	Root   bool // touches the root of a rooted tree (merged root branches)
	Tip    bool
}

// SplitMap returns canonical bipartition -> info over all branches (tip
// branches included). The two root branches of a bifurcating root define the
// same bipartition and are merged (lengths added).
func (t *Tree) SplitMap() (map[Split]BranchInfo, []string) {
	names := t.TipNames()
	idx := TipIndex(names)
	below := t.Below(idx)
	n := len(names)
	out := map[Split]BranchInfo{}
	t.Walk(func(nd, p *Node) {
		if p == nil {
			return
		}
		k := below[nd].Canon(n)
		bi := out[k]
		bi.N++
		if nd.HasLen {
			bi.Len += nd.Len
			bi.HasLen = true
		}
		if nd.HasSup {
			if !bi.HasSup || nd.Sup > bi.Sup {
				bi.Sup = nd.Sup
			}
			bi.HasSup = true
		}
		if p == t.Root && len(t.Root.Children) == 2 {
			bi.Root = true
		}
		if below[nd].Count() == 1 || below[nd].Count() == n-1 {
			bi.Tip = true
		}
		out[k] = bi
	})
	return out, names
}

// InternalSplits returns the set of non-trivial canonical bipartitions.
func (t *Tree) InternalSplits() map[Split]bool {
	m, names := t.SplitMap()
	out := map[Split]bool{}
	for s := range m {
		if !s.Trivial(len(names)) {
			out[s] = true
		}
	}
	return out
}

// ---------------------------------------------------------------------------
// Distances

const (
	MetricLen  = 0
	MetricTopo = 1
	MetricSup  = 2
)

// DistMatrix returns tip-to-tip path sums; rows follow sorted tip names.
func (t *Tree) DistMatrix(metric int) ([][]float64, []string) {
	names := t.TipNames()
	idx := TipIndex(names)
	n := len(names)
	d := make([][]float64, n)
	for i := range d {
		d[i] = make([]float64, n)
	}
	// path from each tip to the root as list of (node, weight)
	type step struct {
		n *Node
		w float64
	}
	paths := make([][]step, n)
	var rec func(nd *Node, acc []step)
	rec = func(nd *Node, acc []step) {
		if nd.IsTip() {
			paths[idx[nd.Name]] = append([]step(nil), acc...)
		}
		for _, c := range nd.Children {
			w := 0.0
			switch metric {
			case MetricLen:
				if c.HasLen {
					w = c.Len
				}
			case MetricTopo:
				w = 1
			case MetricSup:
				if c.HasSup {
					w = c.Sup
				}
			}
			rec(c, append(acc, step{c, w}))
		}
	}
	rec(t.Root, nil)
	for i := 0; i < n; i++ {
		for j := i + 1; j < n; j++ {
			pi, pj := paths[i], paths[j]
			k := 0
			for k < len(pi) && k < len(pj) && pi[k].n == pj[k].n {
				k++
			}
			s := 0.0
			for _, st := range pi[k:] {
				s += st.w
			}
			for _, st := range pj[k:] {
				s += st.w
			}
			d[i][j], d[j][i] = s, s
		}
	}
	return d, names
}

// RootDist returns the distance from the root to every tip (by name).
func (t *Tree) RootDist() map[string]float64 {
	out := map[string]float64{}
	var rec func(n *Node, acc float64)
	rec = func(n *Node, acc float64) {
		if n.IsTip() {
			out[n.Name] = acc
		}
		for _, c := range n.Children {
			l := 0.0
			if c.HasLen {
				l = c.Len
			}
			rec(c, acc+l)
		}
	}
	rec(t.Root, 0)
	return out
}

// ---------------------------------------------------------------------------
// Restriction (induced subtree)

// Restrict returns the tree induced on keep: other tips dropped, resulting
// single-child inner nodes suppressed (lengths added, absent = 0; support = max).
// The root is kept even if it ends with one child? No: a root left with a single
// child is replaced by that child (as pruning does).
func (t *Tree) Restrict(keep map[string]bool) *Tree {
	var rec func(n *Node) *Node
	rec = func(n *Node) *Node {
		if n.IsTip() {
			if keep[n.Name] {
				c := *n
				c.Children = nil
				return &c
			}
			return nil
		}
		var kids []*Node
		for _, c := range n.Children {
			if r := rec(c); r != nil {
				kids = append(kids, r)
			}
		}
		if len(kids) == 0 {
			return nil
		}
		if len(kids) == 1 {
			k := kids[0]
			// merge branch n->parent into k
			if n.HasLen || k.HasLen {
				l := 0.0
				if n.HasLen {
					l += n.Len
				}
				if k.HasLen {
					l += k.Len
				}
				k.HasLen, k.Len = true, l
			}
			if n.HasSup && (!k.HasSup || n.Sup > k.Sup) {
				k.HasSup, k.Sup = true, n.Sup
			}
			return k
		}
		c := *n
		c.Children = kids
		return &c
	}
	r := rec(t.Root)
	if r == nil {
		return &Tree{Root: &Node{}}
	}
	return &Tree{Root: r}
}

// ---------------------------------------------------------------------------
// Canonical forms

// CanonRooted: sorted nested-set representation of the rooted topology (names only).
func (t *Tree) CanonRooted() string {
	var rec func(n *Node) string
	rec = func(n *Node) string {
		if n.IsTip() {
			return n.Name
		}
		var parts []string
		for _, c := range n.Children {
			parts = append(parts, rec(c))
		}
		sort.Strings(parts)
		return "(" + strings.Join(parts, ",") + ")"
	}
	return rec(t.Root)
}

// CanonUnrooted: sorted list of non-trivial canonical bipartitions + tip names.
func (t *Tree) CanonUnrooted() string {
	names := t.TipNames()
	var ss []uint64
	for s := range t.InternalSplits() {
		ss = append(ss, uint64(s))
	}
	sort.Slice(ss, func(i, j int) bool { return ss[i] < ss[j] })
	return fmt.Sprint(names, ss)
}

// SingleChildNodes counts inner non-root nodes with exactly one child.
func (t *Tree) SingleChildNodes() int {
	c := 0
	t.Walk(func(n, p *Node) {
		if p != nil && len(n.Children) == 1 {
			c++
		}
	})
	return c
}

// Diameter returns the largest tip-to-tip path length.
func (t *Tree) Diameter() float64 {
	d, _ := t.DistMatrix(MetricLen)
	m := 0.0
	for i := range d {
		for j := range d[i] {
			m = math.Max(m, d[i][j])
		}
	}
	return m
}

// SameFloat: identical bit pattern (so that -0 != 0) or both NaN.
func SameFloat(a, b float64) bool {
	return math.Float64bits(a) == math.Float64bits(b)
}

// Close: relative tolerance comparison for derived quantities.
func Close(a, b float64) bool {
	if a == b {
		return true
	}
	d := math.Abs(a - b)
	return d <= 1e-9*math.Max(1, math.Max(math.Abs(a), math.Abs(b)))
}

package refmodel

import (
	"fmt"
	"sort"
)

// Reference side of C17 (NNI neighbourhood). Everything is computed by
// definition on tip sets; nothing here knows how gotree performs an NNI.

// C17Reroot returns a copy of t presented with target (a node of t) as root.
// Node data stays with the nodes, branch data stays with the branches. The
// neighbours of a node keep their order: children first, former parent last.
func C17Reroot(t *Tree, target *Node) *Tree {
	par := map[*Node]*Node{}
	t.Walk(func(n, p *Node) { par[n] = p })
	setBranch := func(dst, src *Node) {
		dst.HasLen, dst.Len = src.HasLen, src.Len
		dst.HasSup, dst.Sup = src.HasSup, src.Sup
		dst.HasPv, dst.Pv = src.HasPv, src.Pv
		dst.BrCom = append([]string(nil), src.BrCom...)
	}
	var rec func(n, from *Node) *Node
	rec = func(n, from *Node) *Node {
		c := &Node{Name: n.Name, NodeCom: append([]string(nil), n.NodeCom...)}
		for _, ch := range n.Children {
			if ch != from {
				k := rec(ch, n)
				setBranch(k, ch) // branch ch-n is described by ch
				c.Children = append(c.Children, k)
			}
		}
		if p := par[n]; p != nil && p != from {
			k := rec(p, n)
			setBranch(k, n) // branch n-p is described by n
			c.Children = append(c.Children, k)
		}
		return c
	}
	return &Tree{Root: rec(target, nil)}
}

// C17InnerNodes lists the inner nodes in pre-order (root first).
func C17InnerNodes(t *Tree) []*Node {
	var out []*Node
	t.Walk(func(n, _ *Node) {
		if !n.IsTip() {
			out = append(out, n)
		}
	})
	return out
}

// C17Branch is a branch on which an NNI is possible: both of its ends have
// exactly three neighbours. Split is its canonical bipartition AB|CD, Alts are
// the canonical bipartitions AC|BD and AD|BC of the two rearrangements.
type C17Branch struct {
	Split Split
	Alts  [2]Split
}

// C17Eligible returns the branches whose both ends have three neighbours
// (degree = children + 1 for the parent, the root has no parent), in pre-order,
// the sorted tip names, and the number of non-trivial bipartitions of the tree
// that are carried by no such branch (the root split of a rooted tree whose two
// root children are both inner nodes).
func C17Eligible(t *Tree) (brs []C17Branch, names []string, uncovered int) {
	names = t.TipNames()
	idx := TipIndex(names)
	below := t.Below(idx)
	n := len(names)
	full := Split(1)<<uint(n) - 1
	deg := func(nd *Node) int {
		if nd == t.Root {
			return len(nd.Children)
		}
		return len(nd.Children) + 1
	}
	covered := map[Split]bool{}
	t.Walk(func(nd, p *Node) {
		if p == nil || deg(nd) != 3 || deg(p) != 3 {
			return
		}
		a, b := below[nd.Children[0]], below[nd.Children[1]]
		var others []Split
		for _, c := range p.Children {
			if c != nd {
				others = append(others, below[c])
			}
		}
		if p != t.Root {
			others = append(others, full&^below[p])
		}
		if len(others) != 2 {
			panic("refmodel: degree-3 node without two other sides")
		}
		br := C17Branch{Split: (a | b).Canon(n)}
		br.Alts[0] = (a | others[0]).Canon(n)
		br.Alts[1] = (a | others[1]).Canon(n)
		brs = append(brs, br)
		covered[br.Split] = true
	})
	for s := range t.InternalSplits() {
		if !covered[s] {
			uncovered++
		}
	}
	return
}

// C17CanonOf renders a set of non-trivial canonical bipartitions together with
// the tip names (same form as CanonUnrooted).
func C17CanonOf(names []string, splits map[Split]bool) string {
	var ss []uint64
	for s := range splits {
		ss = append(ss, uint64(s))
	}
	sort.Slice(ss, func(i, j int) bool { return ss[i] < ss[j] })
	return fmt.Sprint(names, ss)
}

// C17Neighbourhood returns the canonical unrooted forms of all trees that are
// one NNI away from t across an eligible branch (two per branch), sorted.
func C17Neighbourhood(t *Tree) []string {
	brs, names, _ := C17Eligible(t)
	base := t.InternalSplits()
	var out []string
	for _, br := range brs {
		for _, alt := range br.Alts {
			s := map[Split]bool{}
			for k := range base {
				if k != br.Split {
					s[k] = true
				}
			}
			s[alt] = true
			out = append(out, C17CanonOf(names, s))
		}
	}
	sort.Strings(out)
	return out
}

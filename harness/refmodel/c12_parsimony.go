package refmodel

// Reference side of property C12 (parsimony): unit-cost Sankoff dynamic
// programme with set-valued tips, a brute-force cross-check of it, and the
// enumeration of all rootings of an unrooted tree. Deliberately naive; never
// imports gotree.

// C12Inf is the cost of an impossible reconstruction.
const C12Inf = 1 << 20

// C12Topo is a tree flattened in pre-order: node i has children Children[i]
// (indices, in order), Parent[i] (-1 for the root) and, for tips, Name[i].
type C12Topo struct {
	N        int
	Children [][]int
	Parent   []int
	Tip      []bool
	Name     []string
}

// C12Flatten flattens t in pre-order.
func C12Flatten(t *Tree) *C12Topo {
	tp := &C12Topo{}
	var rec func(n *Node, parent int) int
	rec = func(n *Node, parent int) int {
		i := tp.N
		tp.N++
		tp.Children = append(tp.Children, nil)
		tp.Parent = append(tp.Parent, parent)
		tp.Tip = append(tp.Tip, n.IsTip())
		tp.Name = append(tp.Name, n.Name)
		for _, c := range n.Children {
			ci := rec(c, i)
			tp.Children[i] = append(tp.Children[i], ci)
		}
		return i
	}
	rec(t.Root, -1)
	return tp
}

// Polytomy: some node has more than three neighbours, or the root more than three children
// (i.e. the tree is not a binary rooted / binary unrooted tree).
func (tp *C12Topo) Polytomy() bool {
	for i := 0; i < tp.N; i++ {
		if tp.Tip[i] {
			continue
		}
		deg := len(tp.Children[i])
		if tp.Parent[i] >= 0 {
			deg++
		}
		if deg > 3 {
			return true
		}
	}
	return false
}

// c12dp: minimum number of changes over all assignments of the k states to the
// nodes in which every tip takes a state of its set tipSets[i] (bit s = state s
// admissible) and, if fv >= 0, node fv takes state fs. Nodes are in pre-order, so
// walking the indices downwards meets every child before its parent.
func c12dp(tp *C12Topo, k int, tipSets []uint32, fv, fs int) int {
	cost := make([]int, tp.N*k)
	for i := tp.N - 1; i >= 0; i-- {
		ci := cost[i*k : i*k+k]
		if tp.Tip[i] {
			for s := 0; s < k; s++ {
				if tipSets[i]&(1<<uint(s)) == 0 {
					ci[s] = C12Inf
				}
			}
		}
		for _, c := range tp.Children[i] {
			cc := cost[c*k : c*k+k]
			for s := 0; s < k; s++ {
				best := C12Inf
				for t := 0; t < k; t++ {
					v := cc[t]
					if t != s {
						v++
					}
					if v < best {
						best = v
					}
				}
				ci[s] += best
				if ci[s] > C12Inf {
					ci[s] = C12Inf
				}
			}
		}
		if i == fv {
			for s := 0; s < k; s++ {
				if s != fs {
					ci[s] = C12Inf
				}
			}
		}
	}
	best := C12Inf
	for _, v := range cost[:k] {
		if v < best {
			best = v
		}
	}
	return best
}

// C12Sankoff returns the minimum number of state changes on the tree and, per
// node, the set of states that node takes in at least one most-parsimonious
// reconstruction (criterion: cost of the best reconstruction with the node
// forced to the state == global minimum).
func C12Sankoff(tp *C12Topo, k int, tipSets []uint32) (min int, opt []uint32) {
	min = c12dp(tp, k, tipSets, -1, -1)
	opt = make([]uint32, tp.N)
	for v := 0; v < tp.N; v++ {
		for s := 0; s < k; s++ {
			if c12dp(tp, k, tipSets, v, s) == min {
				opt[v] |= 1 << uint(s)
			}
		}
	}
	return
}

// C12Min is the minimum alone.
func C12Min(tp *C12Topo, k int, tipSets []uint32) int { return c12dp(tp, k, tipSets, -1, -1) }

// C12Cost counts the branches whose two ends carry different states.
func C12Cost(tp *C12Topo, state []int) int {
	c := 0
	for i := 1; i < tp.N; i++ {
		if state[i] != state[tp.Parent[i]] {
			c++
		}
	}
	return c
}

// C12Brute is the definition itself: enumerate every assignment of states to
// all nodes (tips within their sets), count the changes.
func C12Brute(tp *C12Topo, k int, tipSets []uint32) (min int, opt []uint32) {
	state := make([]int, tp.N)
	min = C12Inf
	opt = make([]uint32, tp.N)
	var rec func(i int)
	rec = func(i int) {
		if i == tp.N {
			c := C12Cost(tp, state)
			if c < min {
				min = c
				for j := range opt {
					opt[j] = 0
				}
			}
			if c == min {
				for j, s := range state {
					opt[j] |= 1 << uint(s)
				}
			}
			return
		}
		for s := 0; s < k; s++ {
			if tp.Tip[i] && tipSets[i]&(1<<uint(s)) == 0 {
				continue
			}
			state[i] = s
			rec(i + 1)
		}
	}
	rec(0)
	return
}

// C12Rootings returns every rooting of the unrooted tree underlying t (a
// two-child root is suppressed first): the tree rooted at each inner node, then
// the tree rooted on each branch (new two-child root). Tip names are kept, all
// other decoration is dropped. Child order follows the adjacency order.
func C12Rootings(t *Tree) []*Tree {
	type gnode struct {
		name string
		adj  []int
	}
	var g []*gnode
	var add func(n *Node) int
	add = func(n *Node) int {
		id := len(g)
		g = append(g, &gnode{name: n.Name})
		for _, c := range n.Children {
			ci := add(c)
			g[id].adj = append(g[id].adj, ci)
			g[ci].adj = append(g[ci].adj, id)
		}
		return id
	}
	add(t.Root)
	alive := make([]bool, len(g))
	for i := range alive {
		alive[i] = true
	}
	if len(t.Root.Children) == 2 {
		// suppress node 0: join its two neighbours
		a, b := g[0].adj[0], g[0].adj[1]
		for i, x := range g[a].adj {
			if x == 0 {
				g[a].adj[i] = b
			}
		}
		for i, x := range g[b].adj {
			if x == 0 {
				g[b].adj[i] = a
			}
		}
		alive[0] = false
	}
	var sub func(v, from int) *Node
	sub = func(v, from int) *Node {
		n := &Node{}
		if len(g[v].adj) == 1 {
			n.Name = g[v].name
			return n
		}
		for _, w := range g[v].adj {
			if w != from {
				n.Children = append(n.Children, sub(w, v))
			}
		}
		return n
	}
	var out []*Tree
	for v := range g {
		if alive[v] && len(g[v].adj) > 1 {
			out = append(out, &Tree{Root: sub(v, -1)})
		}
	}
	for v := range g {
		if !alive[v] {
			continue
		}
		for _, w := range g[v].adj {
			if v < w {
				out = append(out, &Tree{Root: &Node{Children: []*Node{sub(v, w), sub(w, v)}}})
			}
		}
	}
	return out
}

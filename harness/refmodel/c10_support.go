package refmodel

import (
	"fmt"
	"sort"
)

// Bootstrap supports by definition (property C10). Everything works on
// bipartitions = bit masks of the tips below a branch; nothing is shared with
// gotree's bitsets, hashes or traversals.

// C10Branch is the expectation for one bipartition of the reference tree.
type C10Branch struct {
	Depth   int     // size of the light side
	Count   int     // number of bootstrap trees containing the bipartition
	SumDist int     // sum over bootstrap trees of the transfer distance
	Dists   []int   // transfer distance per bootstrap tree (in the order given)
	FBP     float64 // Count / k
	TBE     float64 // 1 - (SumDist/k)/(Depth-1); only meaningful for Depth >= 2
	InAll   bool    // Count == k
}

// C10Expect is the expectation for a reference tree and a collection of bootstrap trees.
type C10Expect struct {
	N      int
	K      int
	Names  []string
	Idx    map[string]int
	Branch map[Split]*C10Branch // canonical bipartition of every branch of the reference tree (tip branches included)
}

// C10Hamming is the number of taxa on which two sides differ.
func C10Hamming(a, b Split) int { return (a ^ b).Count() }

// C10AllBelow lists the tip sets below all branches of t (tip branches included;
// for a bifurcating root both root branches are listed, they are complementary).
func C10AllBelow(t *Tree, idx map[string]int) []Split {
	below := t.Below(idx)
	var out []Split
	t.Walk(func(n, p *Node) {
		if p != nil {
			out = append(out, below[n])
		}
	})
	return out
}

// C10TransferDist is the transfer distance of the bipartition {b, complement}
// to the tree whose branch sides are given: the minimum, over all branches and both
// orientations, of the number of taxa that have to change side.
func C10TransferDist(b Split, n int, bootSides []Split) int {
	full := Split(1)<<uint(n) - 1
	best := n
	for _, s := range bootSides {
		for _, o := range []Split{s & full, full &^ s} {
			if d := C10Hamming(b&full, o); d < best {
				best = d
			}
		}
	}
	return best
}

// C10SameTaxa reports whether both trees have exactly the same tip names (no duplicates).
func C10SameTaxa(a, b *Tree) bool {
	x, y := a.TipNames(), b.TipNames()
	if len(x) != len(y) {
		return false
	}
	for i := range x {
		if x[i] != y[i] || (i > 0 && x[i] == x[i-1]) {
			return false
		}
	}
	return true
}

// C10Oracle computes the expected supports by brute force.
func C10Oracle(ref *Tree, boots []*Tree) (*C10Expect, error) {
	names := ref.TipNames()
	n := len(names)
	if n < 4 || n > 62 {
		return nil, fmt.Errorf("oracle: %d taxa out of range", n)
	}
	if len(boots) == 0 {
		return nil, fmt.Errorf("oracle: empty collection")
	}
	for _, b := range boots {
		if !C10SameTaxa(ref, b) {
			return nil, fmt.Errorf("oracle: taxon sets differ")
		}
	}
	idx := TipIndex(names)
	ex := &C10Expect{N: n, K: len(boots), Names: names, Idx: idx, Branch: map[Split]*C10Branch{}}
	sides := make([][]Split, len(boots))
	has := make([]map[Split]bool, len(boots))
	for i, b := range boots {
		sides[i] = C10AllBelow(b, idx)
		has[i] = map[Split]bool{}
		for _, s := range sides[i] {
			has[i][s.Canon(n)] = true
		}
	}
	for _, b := range C10AllBelow(ref, idx) {
		k := b.Canon(n)
		if _, done := ex.Branch[k]; done {
			continue
		}
		br := &C10Branch{}
		c := b.Count()
		br.Depth = c
		if n-c < c {
			br.Depth = n - c
		}
		for i := range boots {
			if has[i][k] {
				br.Count++
			}
			d := C10TransferDist(b, n, sides[i])
			br.Dists = append(br.Dists, d)
			br.SumDist += d
		}
		br.InAll = br.Count == len(boots)
		br.FBP = float64(br.Count) / float64(len(boots))
		if br.Depth >= 2 {
			br.TBE = 1 - (float64(br.SumDist)/float64(len(boots)))/float64(br.Depth-1)
		}
		ex.Branch[k] = br
	}
	return ex, nil
}

// C10Graph is an unrooted view of a tree (a bifurcating root is suppressed), used
// to derive all presentations (rootings, child orders) of one unrooted topology.
type C10Graph struct {
	Adj  [][]int
	Name []string
}

func C10ToGraph(t *Tree) *C10Graph {
	g := &C10Graph{}
	id := map[*Node]int{}
	add := func(n *Node) int {
		id[n] = len(g.Name)
		g.Name = append(g.Name, n.Name)
		g.Adj = append(g.Adj, nil)
		return id[n]
	}
	suppress := len(t.Root.Children) == 2
	t.Walk(func(n, p *Node) {
		if p == nil && suppress {
			return
		}
		add(n)
	})
	link := func(a, b *Node) {
		g.Adj[id[a]] = append(g.Adj[id[a]], id[b])
		g.Adj[id[b]] = append(g.Adj[id[b]], id[a])
	}
	t.Walk(func(n, p *Node) {
		if p == nil {
			return
		}
		if p == t.Root && suppress {
			if n == t.Root.Children[0] {
				link(n, t.Root.Children[1])
			}
			return
		}
		link(p, n)
	})
	return g
}

func (g *C10Graph) sub(v, from int, mirror bool) *Node {
	nd := &Node{Name: g.Name[v]}
	for _, w := range g.Adj[v] {
		if w != from {
			nd.Children = append(nd.Children, g.sub(w, v, mirror))
		}
	}
	if mirror {
		for i, j := 0, len(nd.Children)-1; i < j; i, j = i+1, j-1 {
			nd.Children[i], nd.Children[j] = nd.Children[j], nd.Children[i]
		}
	}
	return nd
}

// AtNode presents the topology with inner node v as (multifurcating) root.
func (g *C10Graph) AtNode(v int, mirror bool) *Tree { return &Tree{Root: g.sub(v, -1, mirror)} }

// OnEdge presents the topology rooted on the branch v-w (bifurcating root).
func (g *C10Graph) OnEdge(v, w int, mirror bool) *Tree {
	r := &Node{Children: []*Node{g.sub(v, w, mirror), g.sub(w, v, mirror)}}
	if mirror {
		r.Children[0], r.Children[1] = r.Children[1], r.Children[0]
	}
	return &Tree{Root: r}
}

// C10SortedSplits returns the keys of a split set in increasing order.
func C10SortedSplits(m map[Split]*C10Branch) []Split {
	out := make([]Split, 0, len(m))
	for s := range m {
		out = append(out, s)
	}
	sort.Slice(out, func(i, j int) bool { return out[i] < out[j] })
	return out
}

// Package enum holds the exhaustive enumerators: plane shapes, labelled
// topologies, subsets, sequences, bounded deviations.
package enum

import (
	"fmt"

	rm "verif/harness/refmodel"
)

// Shapes returns all plane (ordered) rooted trees with n leaves in which every
// inner node has >= 2 children: 1, 1, 3, 11, 45, 197, 903 for n = 1..7. Tips are
// named prefix1..prefixn from left to right.
func Shapes(n int, prefix string) []*rm.Tree {
	memo := map[int][]*rm.Node{}
	var gen func(n int) []*rm.Node
	gen = func(n int) []*rm.Node {
		if v, ok := memo[n]; ok {
			return v
		}
		var out []*rm.Node
		if n == 1 {
			out = []*rm.Node{{}}
		} else {
			// ordered compositions of n into k >= 2 parts
			var comp func(rest int, parts []int)
			comp = func(rest int, parts []int) {
				if rest == 0 {
					if len(parts) >= 2 {
						// product of shapes
						var prod func(i int, kids []*rm.Node)
						prod = func(i int, kids []*rm.Node) {
							if i == len(parts) {
								out = append(out, &rm.Node{Children: append([]*rm.Node(nil), kids...)})
								return
							}
							for _, s := range gen(parts[i]) {
								prod(i+1, append(kids, s))
							}
						}
						prod(0, nil)
					}
					return
				}
				for p := 1; p <= rest; p++ {
					if p == n {
						continue
					}
					comp(rest-p, append(parts, p))
				}
			}
			comp(n, nil)
		}
		memo[n] = out
		return out
	}
	var res []*rm.Tree
	for _, s := range gen(n) {
		t := &rm.Tree{Root: s.Clone()}
		i := 0
		t.Walk(func(nd, _ *rm.Node) {
			if nd.IsTip() {
				i++
				nd.Name = fmt.Sprintf("%s%d", prefix, i)
			}
		})
		res = append(res, t)
	}
	return res
}

// Hierarchies returns all rooted labelled trees (every inner node >= 2
// children, children unordered) on the given labels: 1, 4, 26, 236, 2752, 39208 for 2..7 labels.
// binaryOnly restricts to fully binary ones: 1, 3, 15, 105, 945.
func Hierarchies(labels []string, binaryOnly bool) []*rm.Tree {
	if len(labels) == 1 {
		return []*rm.Tree{{Root: &rm.Node{Name: labels[0]}}}
	}
	cur := []*rm.Node{{Children: []*rm.Node{{Name: labels[0]}, {Name: labels[1]}}}}
	for _, lab := range labels[2:] {
		var next []*rm.Node
		for _, t := range cur {
			// enumerate positions by pre-order index
			var nodes []*rm.Node
			var collect func(n *rm.Node)
			collect = func(n *rm.Node) {
				nodes = append(nodes, n)
				for _, c := range n.Children {
					collect(c)
				}
			}
			collect(t)
			for i := range nodes {
				// (a) new child of inner node i
				if !binaryOnly && !nodes[i].IsTip() {
					c := t.Clone()
					var cn []*rm.Node
					var col func(n *rm.Node)
					col = func(n *rm.Node) {
						cn = append(cn, n)
						for _, ch := range n.Children {
							col(ch)
						}
					}
					col(c)
					cn[i].Children = append(cn[i].Children, &rm.Node{Name: lab})
					next = append(next, c)
				}
				// (b) subdivide the edge above node i (above the root for i == 0)
				c := t.Clone()
				var cn []*rm.Node
				var par []*rm.Node
				var col func(n, p *rm.Node)
				col = func(n, p *rm.Node) {
					cn = append(cn, n)
					par = append(par, p)
					for _, ch := range n.Children {
						col(ch, n)
					}
				}
				col(c, nil)
				nn := &rm.Node{Children: []*rm.Node{cn[i], {Name: lab}}}
				if par[i] == nil {
					c = nn
				} else {
					for k, ch := range par[i].Children {
						if ch == cn[i] {
							par[i].Children[k] = nn
						}
					}
				}
				next = append(next, c)
			}
		}
		cur = next
	}
	out := make([]*rm.Tree, len(cur))
	for i, n := range cur {
		out[i] = &rm.Tree{Root: n}
	}
	return out
}

// Unrooted returns all labelled unrooted trees on the labels (>= 3), multifurcating
// ones included unless binaryOnly: 1, 4, 26, 236, 2752 for 3..7 labels (binary: 1, 3, 15, 105, 945).
// Presented with the root at the node adjacent to the last label, which is the last child.
func Unrooted(labels []string, binaryOnly bool) []*rm.Tree {
	n := len(labels)
	hs := Hierarchies(labels[:n-1], binaryOnly)
	out := make([]*rm.Tree, 0, len(hs))
	for _, h := range hs {
		root := h.Root
		if root.IsTip() {
			continue
		}
		root.Children = append(root.Children, &rm.Node{Name: labels[n-1]})
		out = append(out, h)
	}
	return out
}

// RootedTrees returns all labelled rooted trees whose root has exactly two children
// (other nodes multifurcating unless binaryOnly).
func RootedTrees(labels []string, binaryOnly bool) []*rm.Tree {
	var out []*rm.Tree
	for _, h := range Hierarchies(labels, binaryOnly) {
		if len(h.Root.Children) == 2 {
			out = append(out, h)
		}
	}
	return out
}

// Labels returns prefix1..prefixn (or A, B, C... if prefix is empty).
func Labels(n int, prefix string) []string {
	out := make([]string, n)
	for i := range out {
		if prefix == "" {
			out[i] = string(rune('A' + i))
		} else {
			out[i] = fmt.Sprintf("%s%d", prefix, i+1)
		}
	}
	return out
}

// Subsets calls f with every subset of 0..n-1 as a bitmask, sizes in [min,max].
func Subsets(n, min, max int, f func(mask uint64)) {
	for m := uint64(0); m < 1<<uint(n); m++ {
		c := 0
		for x := m; x != 0; x &= x - 1 {
			c++
		}
		if c >= min && c <= max {
			f(m)
		}
	}
}

// Sequences calls f with every sequence of length l over 0..k-1.
func Sequences(k, l int, f func(seq []int)) {
	seq := make([]int, l)
	var rec func(i int)
	rec = func(i int) {
		if i == l {
			f(seq)
			return
		}
		for v := 0; v < k; v++ {
			seq[i] = v
			rec(i + 1)
		}
	}
	rec(0)
}

// Multisets calls f with every non-decreasing sequence of length l over 0..k-1.
func Multisets(k, l int, f func(seq []int)) {
	seq := make([]int, l)
	var rec func(i, from int)
	rec = func(i, from int) {
		if i == l {
			f(seq)
			return
		}
		for v := from; v < k; v++ {
			seq[i] = v
			rec(i+1, v)
		}
	}
	rec(0, 0)
}

// Deviations enumerates assignments to nslots slots: slot i takes a value in
// 0..menu[i]-1, value 0 is the default, at most maxDev slots are non-default.
func Deviations(menu []int, maxDev int, f func(assign []int)) {
	assign := make([]int, len(menu))
	var rec func(i, dev int)
	rec = func(i, dev int) {
		if i == len(menu) {
			f(assign)
			return
		}
		assign[i] = 0
		rec(i+1, dev)
		if dev < maxDev {
			for v := 1; v < menu[i]; v++ {
				assign[i] = v
				rec(i+1, dev+1)
			}
			assign[i] = 0
		}
	}
	rec(0, 0)
}

// Permutations calls f with every permutation of 0..n-1.
func Permutations(n int, f func(p []int)) {
	p := make([]int, n)
	for i := range p {
		p[i] = i
	}
	var rec func(k int)
	rec = func(k int) {
		if k == n {
			f(p)
			return
		}
		for i := k; i < n; i++ {
			p[k], p[i] = p[i], p[k]
			rec(k + 1)
			p[k], p[i] = p[i], p[k]
		}
	}
	rec(0)
}

#!/bin/bash
# Builds the framework offline from files on disk: instrumenter, instrumented overlay of /repo, harness binary (+ race variant).
set -e
cd ${VERIF_DIR:-/verif}
export GOFLAGS=-mod=mod GOPROXY=off GOSUMDB=off GOTOOLCHAIN=local GODEBUG=goindex=0
mkdir -p build/bin evidence replays
BIN=$(bin/build.sh)
echo "harness: $BIN"
$BIN -list

// mcinst rewrites the current sources of gotree into an overlay tree in which
// every source of nondeterminism goes through package mcrt.
//
//	mcinst -repo /repo -rt /verif/mc/rt -out /verif/build/<hash>
//
// writes <out>/src/... and <out>/overlay.json. Exit code 2 = construct not supported.
package main

import (
	"bytes"
	"encoding/json"
	"flag"
	"fmt"
	"go/ast"
	"go/constant"
	"go/printer"
	"go/token"
	"go/types"
	"os"
	"path/filepath"
	"sort"
	"strings"

	"golang.org/x/tools/go/ast/astutil"
	"golang.org/x/tools/go/packages"
)

const mcrtPath = "github.com/evolbioinfo/gotree/mcrt"

var (
	repo     = flag.String("repo", "/repo", "gotree working tree")
	rtDir    = flag.String("rt", "/verif/mc/rt", "runtime sources")
	outDir   = flag.String("out", "", "output directory")
	yieldAll = flag.String("yieldall", "hashmap,tree,support", "comma separated package names: yield before every statement")
	verbose  = flag.Bool("v", false, "verbose")
)

type stats struct {
	Files, Go, Send, Recv, Close, RangeChan, RangeMap, Yield, Tick, Exit, Now, NumCPU, ImportRewrites int
	MapKeyTypes                                                                                      map[string]int
}

var st = stats{MapKeyTypes: map[string]int{}}

func fatalf(code int, f string, a ...any) {
	fmt.Fprintf(os.Stderr, "mcinst: "+f+"\n", a...)
	os.Exit(code)
}

func main() {
	flag.Parse()
	if *outDir == "" {
		fatalf(2, "-out required")
	}
	abs, _ := filepath.Abs(*repo)
	*repo = abs
	cfg := &packages.Config{
		Mode: packages.NeedName | packages.NeedFiles | packages.NeedSyntax | packages.NeedTypes | packages.NeedTypesInfo | packages.NeedImports | packages.NeedDeps | packages.NeedCompiledGoFiles,
		Dir:  *repo,
		Env:  append(os.Environ(), "GOFLAGS=-mod=mod", "GOPROXY=off", "GOSUMDB=off", "GOTOOLCHAIN=local"),
	}
	pkgs, err := packages.Load(cfg, "./...")
	if err != nil {
		fatalf(2, "load: %v", err)
	}
	nerr := 0
	for _, p := range pkgs {
		for _, e := range p.Errors {
			fmt.Fprintf(os.Stderr, "mcinst: %s: %v\n", p.PkgPath, e)
			nerr++
		}
	}
	if nerr > 0 {
		fatalf(3, "the repository does not type-check")
	}
	overlay := map[string]string{}
	yall := map[string]bool{}
	for _, n := range strings.Split(*yieldAll, ",") {
		if n != "" {
			yall[n] = true
		}
	}
	sort.Slice(pkgs, func(i, j int) bool { return pkgs[i].PkgPath < pkgs[j].PkgPath })
	for _, p := range pkgs {
		if strings.HasPrefix(p.PkgPath, mcrtPath) {
			continue
		}
		for i, f := range p.Syntax {
			fn := p.CompiledGoFiles[i]
			if !strings.HasPrefix(fn, *repo+"/") {
				continue
			}
			in := &inst{pkg: p, file: f, fset: p.Fset, info: p.TypesInfo, yieldAll: yall[p.Name], fname: strings.TrimPrefix(fn, *repo+"/")}
			in.run()
			f.Comments = nil // comments would be interleaved with the position-less inserted nodes
			var buf bytes.Buffer
			pc := printer.Config{Mode: printer.SourcePos | printer.UseSpaces | printer.TabIndent, Tabwidth: 8}
			if err := pc.Fprint(&buf, p.Fset, f); err != nil {
				fatalf(2, "print %s: %v", fn, err)
			}
			dst := filepath.Join(*outDir, "src", in.fname)
			os.MkdirAll(filepath.Dir(dst), 0o755)
			if err := os.WriteFile(dst, buf.Bytes(), 0o644); err != nil {
				fatalf(2, "%v", err)
			}
			overlay[fn] = dst
			st.Files++
		}
	}
	// third-party: gostats uses math/rand
	if gs := findModuleDir(pkgs, "github.com/fredericlemoine/gostats"); gs != "" {
		ents, _ := os.ReadDir(gs)
		for _, e := range ents {
			if !strings.HasSuffix(e.Name(), ".go") || strings.HasSuffix(e.Name(), "_test.go") {
				continue
			}
			b, _ := os.ReadFile(filepath.Join(gs, e.Name()))
			if !bytes.Contains(b, []byte(`"math/rand"`)) {
				continue
			}
			b = bytes.Replace(b, []byte(`"math/rand"`), []byte(`rand "`+mcrtPath+`/mrand"`), 1)
			dst := filepath.Join(*outDir, "src", "_gostats", e.Name())
			os.MkdirAll(filepath.Dir(dst), 0o755)
			os.WriteFile(dst, b, 0o644)
			overlay[filepath.Join(gs, e.Name())] = dst
		}
	} else {
		fatalf(2, "gostats module directory not found")
	}
	// virtual package mcrt
	filepath.Walk(*rtDir, func(path string, info os.FileInfo, err error) error {
		if err != nil || info.IsDir() || !strings.HasSuffix(path, ".go") || strings.HasSuffix(path, "_test.go") {
			return nil
		}
		rel, _ := filepath.Rel(*rtDir, path)
		overlay[filepath.Join(*repo, "mcrt", rel)] = path
		return nil
	})
	ob, _ := json.MarshalIndent(map[string]any{"Replace": overlay}, "", " ")
	if err := os.WriteFile(filepath.Join(*outDir, "overlay.json"), ob, 0o644); err != nil {
		fatalf(2, "%v", err)
	}
	sb, _ := json.MarshalIndent(st, "", " ")
	os.WriteFile(filepath.Join(*outDir, "mcinst-stats.json"), sb, 0o644)
	if *verbose {
		fmt.Println(string(sb))
	}
}

func findModuleDir(pkgs []*packages.Package, path string) string {
	var found string
	packages.Visit(pkgs, func(p *packages.Package) bool {
		if p.PkgPath == path && len(p.GoFiles) > 0 {
			found = filepath.Dir(p.GoFiles[0])
		}
		return found == ""
	}, nil)
	return found
}

type inst struct {
	pkg      *packages.Package
	file     *ast.File
	fset     *token.FileSet
	info     *types.Info
	yieldAll bool
	fname    string
	needMcrt bool
	keepUse  map[string]string // package name -> a member to reference so that the import stays used
	sharedVars map[*types.Var]bool // variables declared outside a goroutine body and written (or address-taken) inside one
	tmp      int
}

func (in *inst) pos(n ast.Node) string {
	p := in.fset.Position(n.Pos())
	return fmt.Sprintf("%s:%d", in.fname, p.Line)
}

func (in *inst) unsupported(n ast.Node, what string) {
	fatalf(2, "unsupported construct at %s: %s", in.pos(n), what)
}

func (in *inst) mcrt(name string) ast.Expr {
	in.needMcrt = true
	return &ast.SelectorExpr{X: ast.NewIdent("mcrt"), Sel: ast.NewIdent(name)}
}

func (in *inst) call(name string, args ...ast.Expr) *ast.CallExpr {
	return &ast.CallExpr{Fun: in.mcrt(name), Args: args}
}

func (in *inst) fresh(base string) string {
	in.tmp++
	return fmt.Sprintf("__mc_%s%d", base, in.tmp)
}

func (in *inst) isPkg(e ast.Expr, path string) bool {
	id, ok := e.(*ast.Ident)
	if !ok {
		return false
	}
	pn, ok := in.info.Uses[id].(*types.PkgName)
	return ok && pn.Imported().Path() == path
}

func (in *inst) isBuiltin(e ast.Expr, name string) bool {
	id, ok := e.(*ast.Ident)
	if !ok || id.Name != name {
		return false
	}
	_, ok = in.info.Uses[id].(*types.Builtin)
	return ok
}

func (in *inst) typeOf(e ast.Expr) types.Type {
	if tv, ok := in.info.Types[e]; ok {
		return tv.Type
	}
	if id, ok := e.(*ast.Ident); ok {
		if o := in.info.ObjectOf(id); o != nil {
			return o.Type()
		}
	}
	return nil
}

func (in *inst) isChan(e ast.Expr) bool {
	t := in.typeOf(e)
	if t == nil {
		return false
	}
	_, ok := t.Underlying().(*types.Chan)
	return ok
}

func (in *inst) isMap(e ast.Expr) bool {
	t := in.typeOf(e)
	if t == nil {
		return false
	}
	_, ok := t.Underlying().(*types.Map)
	return ok
}

func (in *inst) isConst(e ast.Expr) bool {
	tv, ok := in.info.Types[e]
	return ok && (tv.Value != nil && tv.Value.Kind() != constant.Unknown || tv.IsNil())
}

func (in *inst) run() {
	// 1. imports
	for _, imp := range in.file.Imports {
		var to string
		switch imp.Path.Value {
		case `"sync"`:
			to = mcrtPath + "/msync"
		case `"sync/atomic"`:
			to = mcrtPath + "/matomic"
		case `"math/rand"`:
			to = mcrtPath + "/mrand"
		}
		if to != "" {
			imp.Path.Value = `"` + to + `"`
			imp.EndPos = 0
			st.ImportRewrites++
		}
	}
	in.keepUse = map[string]string{}
	// 2. go statements with function literals get yields first (needs original AST positions/types)
	goLits := map[*ast.FuncLit]bool{}
	ast.Inspect(in.file, func(n ast.Node) bool {
		if g, ok := n.(*ast.GoStmt); ok {
			if fl, ok := g.Call.Fun.(*ast.FuncLit); ok {
				goLits[fl] = true
			}
		}
		return true
	})
	in.sharedVars = map[*types.Var]bool{}
	for fl := range goLits {
		in.collectWritten(fl)
	}
	for fl := range goLits {
		in.addYields(fl.Body, fl, false)
	}
	if in.yieldAll {
		for _, d := range in.file.Decls {
			if fd, ok := d.(*ast.FuncDecl); ok && fd.Body != nil {
				in.addYields(fd.Body, nil, true)
			}
		}
	}
	// 3. everything else
	astutil.Apply(in.file, nil, func(c *astutil.Cursor) bool {
		switch n := c.Node().(type) {
		case *ast.SelectorExpr:
			switch {
			case n.Sel.Name == "Exit" && in.isPkg(n.X, "os"):
				in.keepUse["os"] = "Exit"
				c.Replace(in.mcrt("Exit"))
				st.Exit++
			case n.Sel.Name == "Now" && in.isPkg(n.X, "time"):
				in.keepUse["time"] = "Now"
				c.Replace(in.mcrt("Now"))
				st.Now++
			case n.Sel.Name == "NumCPU" && in.isPkg(n.X, "runtime"):
				in.keepUse["runtime"] = "NumCPU"
				c.Replace(in.mcrt("NumCPU"))
				st.NumCPU++
			}
		case *ast.GoStmt:
			c.Replace(in.rewriteGo(n))
			st.Go++
		case *ast.SendStmt:
			c.Replace(&ast.ExprStmt{X: in.call("Send", n.Chan, n.Value)})
			st.Send++
		case *ast.UnaryExpr:
			if n.Op == token.ARROW {
				// v, ok := <-ch ?
				two := false
				switch p := c.Parent().(type) {
				case *ast.AssignStmt:
					two = len(p.Lhs) == 2 && len(p.Rhs) == 1
				case *ast.ValueSpec:
					two = len(p.Names) == 2 && len(p.Values) == 1
				}
				if two {
					c.Replace(in.call("Recv2", n.X))
				} else {
					c.Replace(in.call("Recv", n.X))
				}
				st.Recv++
			}
		case *ast.CallExpr:
			if in.isBuiltin(n.Fun, "close") && len(n.Args) == 1 {
				c.Replace(in.call("Close", n.Args[0]))
				st.Close++
			} else if (in.isBuiltin(n.Fun, "len") || in.isBuiltin(n.Fun, "cap")) && len(n.Args) == 1 && in.isChan(n.Args[0]) {
				if in.isBuiltin(n.Fun, "len") {
					c.Replace(in.call("Len", n.Args[0]))
				}
			}
		case *ast.SelectStmt:
			in.unsupported(n, "select")
		case *ast.RangeStmt:
			if in.isChan(n.X) {
				c.Replace(in.rewriteRangeChan(n))
				st.RangeChan++
			} else if in.isMap(n.X) {
				c.Replace(in.rewriteRangeMap(n))
				st.RangeMap++
			} else {
				in.tick(n.Body)
			}
		case *ast.ForStmt:
			in.tick(n.Body)
		case *ast.FuncDecl:
			if n.Body != nil {
				in.tick(n.Body)
			}
		case *ast.FuncLit:
			in.tick(n.Body)
		}
		return true
	})
	if in.needMcrt {
		astutil.AddNamedImport(in.fset, in.file, "mcrt", mcrtPath)
	}
	// keep imports used
	names := make([]string, 0, len(in.keepUse))
	for k := range in.keepUse {
		names = append(names, k)
	}
	sort.Strings(names)
	for _, pkg := range names {
		in.file.Decls = append(in.file.Decls, &ast.GenDecl{Tok: token.VAR, Specs: []ast.Spec{&ast.ValueSpec{
			Names:  []*ast.Ident{ast.NewIdent("_")},
			Values: []ast.Expr{&ast.SelectorExpr{X: ast.NewIdent(pkg), Sel: ast.NewIdent(in.keepUse[pkg])}},
		}}})
	}
}

func (in *inst) tick(b *ast.BlockStmt) {
	b.List = append([]ast.Stmt{&ast.ExprStmt{X: in.call("Tick")}}, b.List...)
	st.Tick++
}

// go f(a, b) -> { __a := a; __b := b; mcrt.Go(func() { f(__a, __b) }) }
func (in *inst) rewriteGo(g *ast.GoStmt) ast.Stmt {
	var pre []ast.Stmt
	call := &ast.CallExpr{Fun: g.Call.Fun, Ellipsis: g.Call.Ellipsis}
	if _, ok := g.Call.Fun.(*ast.FuncLit); !ok {
		switch f := g.Call.Fun.(type) {
		case *ast.Ident:
			// plain function name or variable: variable must be hoisted
			if _, isVar := in.info.ObjectOf(f).(*types.Var); isVar {
				name := in.fresh("f")
				pre = append(pre, &ast.AssignStmt{Lhs: []ast.Expr{ast.NewIdent(name)}, Tok: token.DEFINE, Rhs: []ast.Expr{f}})
				call.Fun = ast.NewIdent(name)
			}
		default:
			name := in.fresh("f")
			pre = append(pre, &ast.AssignStmt{Lhs: []ast.Expr{ast.NewIdent(name)}, Tok: token.DEFINE, Rhs: []ast.Expr{g.Call.Fun}})
			call.Fun = ast.NewIdent(name)
		}
	}
	for _, a := range g.Call.Args {
		if in.isConst(a) {
			call.Args = append(call.Args, a)
			continue
		}
		name := in.fresh("a")
		pre = append(pre, &ast.AssignStmt{Lhs: []ast.Expr{ast.NewIdent(name)}, Tok: token.DEFINE, Rhs: []ast.Expr{a}})
		call.Args = append(call.Args, ast.NewIdent(name))
	}
	lit := &ast.FuncLit{Type: &ast.FuncType{Params: &ast.FieldList{}}, Body: &ast.BlockStmt{List: []ast.Stmt{&ast.ExprStmt{X: call}}}}
	pre = append(pre, &ast.ExprStmt{X: in.call("Go", lit)})
	return &ast.BlockStmt{List: pre}
}

// for x := range ch { body } -> for __ch := ch; ; { x, __ok := mcrt.Recv2(__ch); if !__ok { break }; body }
func (in *inst) rewriteRangeChan(r *ast.RangeStmt) ast.Stmt {
	chv := in.fresh("ch")
	okv := in.fresh("ok")
	var recv ast.Stmt
	key := r.Key
	if key == nil {
		key = ast.NewIdent("_")
	}
	if r.Tok == token.ASSIGN {
		// x declared outside: var __ok bool; x, __ok = Recv2
		recv = &ast.BlockStmt{} // placeholder, replaced below
		decl := &ast.DeclStmt{Decl: &ast.GenDecl{Tok: token.VAR, Specs: []ast.Spec{&ast.ValueSpec{Names: []*ast.Ident{ast.NewIdent(okv)}, Type: ast.NewIdent("bool")}}}}
		asg := &ast.AssignStmt{Lhs: []ast.Expr{key, ast.NewIdent(okv)}, Tok: token.ASSIGN, Rhs: []ast.Expr{in.call("Recv2", ast.NewIdent(chv))}}
		body := append([]ast.Stmt{&ast.ExprStmt{X: in.call("Tick")}, decl, asg, in.breakIfNot(okv)}, r.Body.List...)
		return &ast.ForStmt{For: r.For, Init: &ast.AssignStmt{Lhs: []ast.Expr{ast.NewIdent(chv)}, Tok: token.DEFINE, Rhs: []ast.Expr{r.X}}, Body: &ast.BlockStmt{Lbrace: r.Body.Lbrace, List: body, Rbrace: r.Body.Rbrace}}
	}
	recv = &ast.AssignStmt{Lhs: []ast.Expr{key, ast.NewIdent(okv)}, Tok: token.DEFINE, Rhs: []ast.Expr{in.call("Recv2", ast.NewIdent(chv))}}
	body := append([]ast.Stmt{&ast.ExprStmt{X: in.call("Tick")}, recv, in.breakIfNot(okv)}, r.Body.List...)
	st.Tick++
	return &ast.ForStmt{For: r.For, Init: &ast.AssignStmt{Lhs: []ast.Expr{ast.NewIdent(chv)}, Tok: token.DEFINE, Rhs: []ast.Expr{r.X}}, Body: &ast.BlockStmt{Lbrace: r.Body.Lbrace, List: body, Rbrace: r.Body.Rbrace}}
}

func (in *inst) breakIfNot(okv string) ast.Stmt {
	return &ast.IfStmt{Cond: &ast.UnaryExpr{Op: token.NOT, X: ast.NewIdent(okv)}, Body: &ast.BlockStmt{List: []ast.Stmt{&ast.BranchStmt{Tok: token.BREAK}}}}
}

// for k, v := range m { body } -> for __it := mcrt.MapIter(m, site); __it.Next(); { k, v := __it.Key(), __it.Val(); body }
func (in *inst) rewriteRangeMap(r *ast.RangeStmt) ast.Stmt {
	mt := in.typeOf(r.X).Underlying().(*types.Map)
	st.MapKeyTypes[types.TypeString(mt.Key(), func(p *types.Package) string { return p.Name() })]++
	it := in.fresh("it")
	site := &ast.BasicLit{Kind: token.STRING, Value: fmt.Sprintf("%q", in.pos(r))}
	init := &ast.AssignStmt{Lhs: []ast.Expr{ast.NewIdent(it)}, Tok: token.DEFINE, Rhs: []ast.Expr{in.call("MapIter", r.X, site)}}
	cond := &ast.CallExpr{Fun: &ast.SelectorExpr{X: ast.NewIdent(it), Sel: ast.NewIdent("Next")}}
	blank := func(e ast.Expr) bool {
		if e == nil {
			return true
		}
		id, ok := e.(*ast.Ident)
		return ok && id.Name == "_"
	}
	var lhs, rhs []ast.Expr
	if !blank(r.Key) {
		lhs = append(lhs, r.Key)
		rhs = append(rhs, &ast.CallExpr{Fun: &ast.SelectorExpr{X: ast.NewIdent(it), Sel: ast.NewIdent("Key")}})
	}
	if !blank(r.Value) {
		lhs = append(lhs, r.Value)
		rhs = append(rhs, &ast.CallExpr{Fun: &ast.SelectorExpr{X: ast.NewIdent(it), Sel: ast.NewIdent("Val")}})
	}
	body := []ast.Stmt{&ast.ExprStmt{X: in.call("Tick")}}
	st.Tick++
	if len(lhs) > 0 {
		body = append(body, &ast.AssignStmt{Lhs: lhs, Tok: r.Tok, Rhs: rhs})
	}
	body = append(body, r.Body.List...)
	return &ast.ForStmt{For: r.For, Init: init, Cond: cond, Body: &ast.BlockStmt{Lbrace: r.Body.Lbrace, List: body, Rbrace: r.Body.Rbrace}}
}

// addYields inserts mcrt.Yield(site) before the statements of a goroutine
// body that mention a variable declared outside of it (captured or package
// level), recursively through nested blocks but not into nested function literals.
func (in *inst) addYields(b *ast.BlockStmt, lit *ast.FuncLit, all bool) {
	if b == nil {
		return
	}
	var out []ast.Stmt
	yname := "Yield"
	if all {
		yname = "YieldPkg"
	}
	for _, s := range b.List {
		if all || in.mentionsOuter(s, lit) {
			out = append(out, &ast.ExprStmt{X: in.call(yname, &ast.BasicLit{Kind: token.STRING, Value: fmt.Sprintf("%q", "y@"+in.pos(s))})})
			st.Yield++
		}
		out = append(out, s)
		in.yieldsInside(s, lit, all)
	}
	b.List = out
}

func (in *inst) yieldsInside(s ast.Stmt, lit *ast.FuncLit, all bool) {
	switch n := s.(type) {
	case *ast.BlockStmt:
		in.addYields(n, lit, all)
	case *ast.IfStmt:
		in.addYields(n.Body, lit, all)
		if n.Else != nil {
			in.yieldsInside(n.Else, lit, all)
		}
	case *ast.ForStmt:
		in.addYields(n.Body, lit, all)
	case *ast.RangeStmt:
		in.addYields(n.Body, lit, all)
	case *ast.SwitchStmt:
		for _, c := range n.Body.List {
			cc := c.(*ast.CaseClause)
			blk := &ast.BlockStmt{List: cc.Body}
			in.addYields(blk, lit, all)
			cc.Body = blk.List
		}
	case *ast.TypeSwitchStmt:
		for _, c := range n.Body.List {
			cc := c.(*ast.CaseClause)
			blk := &ast.BlockStmt{List: cc.Body}
			in.addYields(blk, lit, all)
			cc.Body = blk.List
		}
	case *ast.LabeledStmt:
		in.yieldsInside(n.Stmt, lit, all)
	}
}

// rootVar returns the variable at the root of an lvalue expression (v, v.f, v[i], *v, ...).
func (in *inst) rootVar(e ast.Expr) *types.Var {
	for {
		switch x := e.(type) {
		case *ast.Ident:
			v, _ := in.info.ObjectOf(x).(*types.Var)
			return v
		case *ast.SelectorExpr:
			if _, isPkg := in.info.Uses[identOf(x.X)].(*types.PkgName); isPkg {
				v, _ := in.info.ObjectOf(x.Sel).(*types.Var)
				return v
			}
			e = x.X
		case *ast.IndexExpr:
			e = x.X
		case *ast.StarExpr:
			e = x.X
		case *ast.ParenExpr:
			e = x.X
		case *ast.SliceExpr:
			e = x.X
		default:
			return nil
		}
	}
}

func identOf(e ast.Expr) *ast.Ident {
	id, _ := e.(*ast.Ident)
	return id
}

// collectWritten records the variables declared outside lit that are assigned,
// incremented or address-taken inside it: the shared mutable state of the goroutine.
func (in *inst) collectWritten(lit *ast.FuncLit) {
	outer := func(v *types.Var) bool {
		return v != nil && !v.IsField() && (v.Pos() < lit.Pos() || v.Pos() > lit.End())
	}
	ast.Inspect(lit.Body, func(n ast.Node) bool {
		switch x := n.(type) {
		case *ast.AssignStmt:
			if x.Tok != token.DEFINE {
				for _, l := range x.Lhs {
					if v := in.rootVar(l); outer(v) {
						in.sharedVars[v] = true
					}
				}
			}
		case *ast.IncDecStmt:
			if v := in.rootVar(x.X); outer(v) {
				in.sharedVars[v] = true
			}
		case *ast.UnaryExpr:
			if x.Op == token.AND {
				if v := in.rootVar(x.X); outer(v) {
					in.sharedVars[v] = true
				}
			}
		case *ast.RangeStmt:
			if x.Tok == token.ASSIGN {
				for _, l := range []ast.Expr{x.Key, x.Value} {
					if l != nil {
						if v := in.rootVar(l); outer(v) {
							in.sharedVars[v] = true
						}
					}
				}
			}
		}
		return true
	})
}

// mentionsOuter: does the statement (its own header expressions, not nested
// blocks) use a variable declared outside lit?
func (in *inst) mentionsOuter(s ast.Stmt, lit *ast.FuncLit) bool {
	found := false
	check := func(n ast.Node) {
		if n == nil {
			return
		}
		ast.Inspect(n, func(m ast.Node) bool {
			if found {
				return false
			}
			switch x := m.(type) {
			case *ast.FuncLit:
				return false
			case *ast.BlockStmt:
				return false
			case *ast.Ident:
				if v, ok := in.info.Uses[x].(*types.Var); ok && !v.IsField() {
					if lit == nil || in.sharedVars[v] {
						found = true
					}
				}
			}
			return true
		})
	}
	switch n := s.(type) {
	case *ast.IfStmt:
		check(n.Init)
		check(n.Cond)
	case *ast.ForStmt:
		check(n.Init)
		check(n.Cond)
		check(n.Post)
	case *ast.RangeStmt:
		check(n.X)
	case *ast.SwitchStmt:
		check(n.Init)
		check(n.Tag)
	case *ast.TypeSwitchStmt:
		check(n.Init)
		check(n.Assign)
	case *ast.BlockStmt, *ast.LabeledStmt:
	default:
		check(s)
	}
	return found
}

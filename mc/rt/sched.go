// Package mcrt is the runtime of the gomc model checker. It is injected into
// the gotree module as a virtual package (go build -overlay) and imported both
// by the instrumented gotree sources and by the verification harness.
//
// Two modes: outside of Run (or with X == nil) every shim is a pass-through
// to the real primitive. Inside Run the calling goroutines are "controlled
// threads": exactly one holds the token and runs; every hooked operation is a
// scheduling point at which the explorer decides who runs next.
package mcrt

import (
	"fmt"
	"runtime"
	"runtime/debug"
	"strings"
	"sync"
	"time"
)

// Kind of a choice point.
type Kind uint8

const (
	KSched Kind = iota // which thread runs next
	KRand              // rand.Intn / Perm element: uniform n-way draw
	KFloat             // rand.Float64: menu
	KMap               // map iteration order
	KClock             // time.Now
)

func (k Kind) String() string {
	return [...]string{"sched", "rand", "float", "map", "clock"}[k]
}

// Point is one recorded choice.
type Point struct {
	Kind   Kind
	N      int    // number of alternatives
	Choice int    // alternative taken
	Cost   int    // cost of taking a non-default alternative here
	Label  string // human readable (thread ids, site)
}

// Verdict of an execution.
type Verdict int

const (
	VDone Verdict = iota
	VDeadlock
	VFuel
	VPanic
	VExit
	VLeak     // driver thread finished, other threads blocked forever
	VDiverged // replayed prefix did not fit (engine error)
)

func (v Verdict) String() string {
	return [...]string{"completed", "deadlock", "fuel", "panic", "exit", "leak", "diverged"}[v]
}

// Config of one execution.
type Config struct {
	Prefix     []int         // choices to replay; afterwards default choice 0
	Fuel       int64         // max ticks+points; 0 = default
	RandMode   int           // RandEnumerate, RandSeeded, RandBounded
	MapMode    int           // MapSorted (choice point, default sorted), MapNative
	NumCPU     int           // value returned by NumCPU(); 0 = real
	ClockAlt   bool          // make time.Now a choice point
	ClockShift time.Duration // added to the constant clock T0 (lets a harness ask for two instants inside one second)
	NoSched    bool          // do not create schedule choice points (always run default)
	SwitchCost int           // cost of a non-default choice when the running thread is blocked or done (0 = free, as in CHESS)
	YieldPkg   bool          // activate the package-wide statement yields (hashmap)
	YieldTicks bool          // every function entry and loop iteration executed by a thread other than the driver is a scheduling point
	TraceOps   bool          // record the sequence of sync operations (for diagnostics)
	FloatMenu  []float64
}

const (
	RandSeeded = iota
	RandEnumerate
	RandBounded
)
const (
	MapNative = iota
	MapSorted
)

// Result of one execution.
type Result struct {
	Verdict  Verdict
	Detail   string // panic value + stack, blocked threads, exit code...
	ExitCode int
	Points   []Point
	Ticks    int64
	Threads  int
	Ops      []string
	MapSites map[string]int // site -> max #keys iterated
}

type thread struct {
	id      int
	gate    chan struct{}
	done    bool
	enabled func() bool // pending operation's guard (nil = enabled)
	op      string      // pending operation (static name)
	obj     int         // ... and the id of the object it works on (-1 = none)
	parked  bool
}

// Exec is the state of the execution in progress.
type Exec struct {
	cfg      Config
	threads  []*thread
	cur      *thread
	points   []Point
	verdict  Verdict
	detail   string
	exitCode int
	over     bool // verdict fixed, everybody unwinds
	ticks    int64
	fuel     int64
	exitCh   chan int
	mu       sync.Mutex // guards live (explorer vs. threads)
	live     int
	chans    map[uintptr]*chanState
	mutexes  map[any]*mutexState
	wgs      map[any]*wgState
	ops      []string
	mapSites map[string]int
	goid     map[int64]*thread
}

// X is the execution in progress (nil = pass-through mode).
var X *Exec

type abortSentinel struct{}

// Active reports whether a controlled execution is running.
func Active() bool { return X != nil }

// Run executes body as thread 0 of a controlled execution and returns when
// every thread has finished or has been unwound.
func Run(cfg Config, body func()) Result {
	if X != nil {
		panic("mcrt: nested Run")
	}
	x := &Exec{cfg: cfg, exitCh: make(chan int, 64),
		chans: map[uintptr]*chanState{}, mutexes: map[any]*mutexState{}, wgs: map[any]*wgState{},
		mapSites: map[string]int{}}
	x.fuel = cfg.Fuel
	if x.fuel == 0 {
		x.fuel = 50_000_000
	}
	X = x
	t0 := x.newThread()
	x.cur = t0
	x.spawn(t0, body)
	t0.gate <- struct{}{}
	// supervise
	for {
		x.mu.Lock()
		live := x.live
		x.mu.Unlock()
		if live == 0 {
			break
		}
		<-x.exitCh
		x.mu.Lock()
		x.live--
		live = x.live
		x.mu.Unlock()
		if x.over && live > 0 {
			// release one parked thread so that it unwinds (one at a time)
			for _, t := range x.threads {
				if !t.done && t.parked {
					t.parked = false
					t.gate <- struct{}{}
					break
				}
			}
		}
	}
	X = nil
	return Result{Verdict: x.verdict, Detail: x.detail, ExitCode: x.exitCode, Points: x.points,
		Ticks: x.ticks, Threads: len(x.threads), Ops: x.ops, MapSites: x.mapSites}
}

func (x *Exec) newThread() *thread {
	t := &thread{id: len(x.threads), gate: make(chan struct{}, 1), op: "start", obj: -1}
	x.threads = append(x.threads, t)
	x.mu.Lock()
	x.live++
	x.mu.Unlock()
	return t
}

func (x *Exec) spawn(t *thread, f func()) {
	t.parked = true
	go func() {
		<-t.gate
		t.parked = false
		defer func() {
			r := recover()
			t.done = true
			if r != nil {
				if _, ok := r.(abortSentinel); !ok {
					x.setVerdict(VPanic, fmt.Sprintf("T%d panic: %v\n%s", t.id, r, trimStack(debug.Stack())))
				}
			}
			if !x.over {
				x.threadExit(t)
			}
			x.exitCh <- t.id
		}()
		if x.over {
			return
		}
		f()
	}()
}

func trimStack(b []byte) string {
	lines := strings.Split(string(b), "\n")
	var out []string
	for i := 0; i < len(lines); i++ {
		l := lines[i]
		if strings.Contains(l, "/mcrt") || strings.Contains(l, "runtime/debug") || strings.Contains(l, "runtime/panic") || strings.HasPrefix(l, "panic(") || strings.HasPrefix(l, "goroutine ") {
			continue
		}
		if strings.HasPrefix(l, "\t") {
			// keep file:line only
			f := strings.TrimSpace(l)
			if j := strings.Index(f, " +0x"); j >= 0 {
				f = f[:j]
			}
			out = append(out, f)
		}
		if len(out) >= 8 {
			break
		}
	}
	return strings.Join(out, " < ")
}

func (x *Exec) setVerdict(v Verdict, detail string) {
	if x.over {
		return
	}
	x.over = true
	x.verdict = v
	x.detail = detail
}

// abort fixes the verdict and unwinds the calling thread.
func (x *Exec) abort(v Verdict, detail string) {
	x.setVerdict(v, detail)
	panic(abortSentinel{})
}

// called by a finishing thread that holds the token (normal end)
func (x *Exec) threadExit(t *thread) {
	en := x.enabledThreads(nil)
	if len(en) == 0 {
		alldone := true
		for _, o := range x.threads {
			if !o.done {
				alldone = false
			}
		}
		if alldone {
			x.setVerdict(VDone, "")
		} else if x.threads[0].done {
			x.setVerdict(VLeak, x.blockedDesc())
		} else {
			x.setVerdict(VDeadlock, x.blockedDesc())
		}
		return
	}
	idx := 0
	if len(en) > 1 {
		idx = x.choose(KSched, len(en), x.cfg.SwitchCost, func() string { return x.schedLabel(en) })
	}
	next := en[idx]
	x.cur = next
	next.parked = false
	next.gate <- struct{}{}
}

func (t *thread) desc() string {
	if t.obj < 0 {
		return t.op
	}
	return fmt.Sprintf("%s(%d)", t.op, t.obj)
}

func (x *Exec) blockedDesc() string {
	var sb strings.Builder
	for _, o := range x.threads {
		if !o.done {
			fmt.Fprintf(&sb, "T%d@%s ", o.id, o.desc())
		}
	}
	return strings.TrimSpace(sb.String())
}

func (x *Exec) schedLabel(en []*thread) string {
	var sb strings.Builder
	for i, t := range en {
		if i > 0 {
			sb.WriteByte(',')
		}
		fmt.Fprintf(&sb, "T%d:%s", t.id, t.desc())
	}
	return sb.String()
}

// enabledThreads returns the enabled threads in canonical order: self first
// (if enabled), then ascending ids.
func (x *Exec) enabledThreads(self *thread) []*thread {
	var en []*thread
	if self != nil && !self.done && (self.enabled == nil || self.enabled()) {
		en = append(en, self)
	}
	for _, t := range x.threads {
		if t == self || t.done {
			continue
		}
		if t.enabled == nil || t.enabled() {
			en = append(en, t)
		}
	}
	return en
}

// point is a scheduling point: the calling thread wants to perform an
// operation guarded by enabled (nil = always enabled). It returns when the
// thread has been chosen to run and the guard holds.
func (x *Exec) point(op string, obj int, enabled func() bool) {
	if x.over {
		panic(abortSentinel{})
	}
	t := x.cur
	x.ticks++
	if x.ticks > x.fuel {
		x.abort(VFuel, "fuel exhausted at "+op)
	}
	t.enabled = enabled
	t.op, t.obj = op, obj
	en := x.enabledThreads(t)
	if len(en) == 0 {
		v := VDeadlock
		if x.threads[0].done {
			v = VLeak
		}
		x.abort(v, x.blockedDesc())
	}
	idx := 0
	if len(en) > 1 && !x.cfg.NoSched {
		cost := x.cfg.SwitchCost
		if en[0] == t {
			cost = 1
		}
		idx = x.choose(KSched, len(en), cost, func() string { return x.schedLabel(en) })
	}
	next := en[idx]
	if next != t {
		x.cur = next
		t.parked = true
		next.parked = false
		next.gate <- struct{}{}
		<-t.gate
		t.parked = false
		if x.over {
			panic(abortSentinel{})
		}
	}
	t.enabled = nil
	if x.cfg.TraceOps {
		x.ops = append(x.ops, fmt.Sprintf("T%d:%s", t.id, t.desc()))
	}
}

// choose records a choice point and returns the alternative to take.
func (x *Exec) choose(kind Kind, n int, cost int, label func() string) int {
	i := len(x.points)
	c := 0
	if i < len(x.cfg.Prefix) {
		c = x.cfg.Prefix[i]
		if c < 0 || c >= n {
			x.abort(VDiverged, fmt.Sprintf("replay diverged at point %d: choice %d of %d (%s %s)", i, c, n, kind, label()))
		}
	}
	p := Point{Kind: kind, N: n, Choice: c, Cost: cost}
	if c != 0 || i >= len(x.cfg.Prefix) {
		// labels are only needed for the points that may be reported
		p.Label = label()
	}
	x.points = append(x.points, p)
	return c
}

// Go starts f as a new controlled thread (or a plain goroutine in pass-through mode).
func Go(f func()) {
	x := X
	if x == nil {
		go f()
		return
	}
	if x.over {
		panic(abortSentinel{})
	}
	c := x.newThread()
	c.op, c.obj = "start", -1
	x.spawn(c, f)
	x.point("go", c.id, nil)
}

// Yield is a pure scheduling point (inserted before accesses to shared variables).
func Yield(site string) {
	x := X
	if x == nil {
		return
	}
	x.point(site, -1, nil)
}

// YieldPkg is the statement-level yield inserted in whole packages
// (hashmap); only active when the execution asks for it.
func YieldPkg(site string) {
	x := X
	if x == nil || !x.cfg.YieldPkg || x.cfg.NoSched || x.over || x.cur == nil || x.cur.id == 0 {
		return // the driver thread itself is not preempted between statements: only the threads it started
	}
	x.point(site, -1, nil)
}

// Tick is the fuel counter, inserted at function entries and loop bodies.
func Tick() {
	x := X
	if x == nil {
		return
	}
	x.ticks++
	if x.ticks > x.fuel {
		if x.over {
			panic(abortSentinel{})
		}
		x.abort(VFuel, "fuel exhausted: "+caller(2))
	}
	if x.cfg.YieldTicks && !x.cfg.NoSched && x.cur != nil && x.cur.id != 0 && !x.over {
		x.point("tick", -1, nil)
	}
}

func caller(skip int) string {
	_, f, l, ok := runtime.Caller(skip)
	if !ok {
		return "?"
	}
	if i := strings.LastIndex(f, "/gotree/"); i >= 0 {
		f = f[i+8:]
	}
	return fmt.Sprintf("%s:%d", f, l)
}

// Exit replaces os.Exit.
func Exit(code int) {
	x := X
	if x == nil {
		osExit(code)
		return
	}
	if x.over {
		panic(abortSentinel{})
	}
	x.exitCode = code
	x.abort(VExit, fmt.Sprintf("os.Exit(%d) at %s", code, caller(2)))
}

// Choose lets the harness add its own choice points (kind rand, cost given).
func Choose(n int, cost int, label string) int {
	x := X
	if x == nil || n <= 1 {
		return 0
	}
	return x.choose(KRand, n, cost, func() string { return label })
}

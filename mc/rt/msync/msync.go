// Package sync is the drop-in replacement of package sync used by the
// instrumented gotree sources (import path rewritten by mcinst).
package sync

import (
	realsync "sync"

	"github.com/evolbioinfo/gotree/mcrt"
)

type Locker = realsync.Locker
type Once = realsync.Once
type Pool = realsync.Pool
type Map = realsync.Map

type Mutex struct {
	real realsync.Mutex
}

func (m *Mutex) Lock() {
	if mcrt.X == nil {
		m.real.Lock()
		return
	}
	mcrt.MutexLock(m)
}
func (m *Mutex) Unlock() {
	if mcrt.X == nil {
		m.real.Unlock()
		return
	}
	mcrt.MutexUnlock(m)
}
func (m *Mutex) TryLock() bool {
	if mcrt.X == nil {
		return m.real.TryLock()
	}
	return mcrt.MutexTryLock(m)
}

type RWMutex struct {
	real realsync.RWMutex
}

func (m *RWMutex) Lock() {
	if mcrt.X == nil {
		m.real.Lock()
		return
	}
	mcrt.MutexLock(m)
}
func (m *RWMutex) Unlock() {
	if mcrt.X == nil {
		m.real.Unlock()
		return
	}
	mcrt.MutexUnlock(m)
}
func (m *RWMutex) RLock() {
	if mcrt.X == nil {
		m.real.RLock()
		return
	}
	mcrt.MutexRLock(m)
}
func (m *RWMutex) RUnlock() {
	if mcrt.X == nil {
		m.real.RUnlock()
		return
	}
	mcrt.MutexRUnlock(m)
}

type WaitGroup struct {
	real realsync.WaitGroup
}

func (w *WaitGroup) Add(d int) {
	if mcrt.X == nil {
		w.real.Add(d)
		return
	}
	mcrt.WGAdd(w, d)
}
func (w *WaitGroup) Done() {
	if mcrt.X == nil {
		w.real.Done()
		return
	}
	mcrt.WGAdd(w, -1)
}
func (w *WaitGroup) Wait() {
	if mcrt.X == nil {
		w.real.Wait()
		return
	}
	mcrt.WGWait(w)
}

package mcrt

import (
	"math/big"
	"time"
)

// ExploreOpts bounds a stateless depth-first exploration by re-execution.
type ExploreOpts struct {
	Base     Config
	Bound    int   // maximal total cost of deviations from the default choices
	MaxExecs int64 // 0 = unlimited; hitting it clears Stats.Exhaustive
	Deadline time.Time
	Shard    int // this process explores the level-1 subtrees i with i % NShards == Shard
	NShards  int // 0 or 1 = everything
}

// Stats of an exploration.
type Stats struct {
	Execs      int64
	Points     int64 // choice points seen (transitions)
	MaxDepth   int
	Exhaustive bool
	Verdicts   map[Verdict]int64
	MaxTicks   int64
}

// Explore runs body under every choice sequence within the bound. visit is
// called after each execution with its result and full choice sequence; it
// returns false to stop the exploration.
func Explore(o ExploreOpts, body func(), visit func(r *Result, choices []int) bool) Stats {
	st := Stats{Exhaustive: true, Verdicts: map[Verdict]int64{}}
	stack := [][]int{{}}
	root := true
	for len(stack) > 0 {
		if (o.MaxExecs > 0 && st.Execs >= o.MaxExecs) || (!o.Deadline.IsZero() && st.Execs%64 == 0 && time.Now().After(o.Deadline)) {
			st.Exhaustive = false
			break
		}
		prefix := stack[len(stack)-1]
		stack = stack[:len(stack)-1]
		cfg := o.Base
		cfg.Prefix = prefix
		r := Run(cfg, body)
		choices := make([]int, len(r.Points))
		for i, p := range r.Points {
			choices[i] = p.Choice
		}
		isRoot := root
		root = false
		if r.Verdict == VDiverged {
			// engine error: nondeterminism escaped the seams
			st.Execs++
			st.Verdicts[r.Verdict]++
			visit(&r, choices)
			st.Exhaustive = false
			return st
		}
		// expand
		cost := 0
		for i := 0; i < len(prefix) && i < len(r.Points); i++ {
			if r.Points[i].Choice != 0 {
				cost += r.Points[i].Cost
			}
		}
		nchild := 0
		var children [][]int
		for i := len(prefix); i < len(r.Points); i++ {
			p := r.Points[i]
			if cost+p.Cost <= o.Bound {
				for alt := 1; alt < p.N; alt++ {
					if isRoot && o.NShards > 1 {
						nchild++
						if (nchild-1)%o.NShards != o.Shard {
							continue
						}
					}
					child := make([]int, i+1)
					copy(child, choices[:i])
					child[i] = alt
					children = append(children, child)
				}
			}
			if p.Choice != 0 {
				cost += p.Cost
			}
		}
		// push in reverse so that the earliest / smallest alternative is explored first
		for i := len(children) - 1; i >= 0; i-- {
			stack = append(stack, children[i])
		}
		if isRoot && o.NShards > 1 && o.Shard != 0 {
			continue // the root execution itself belongs to shard 0
		}
		st.Execs++
		st.Points += int64(len(r.Points))
		if len(r.Points) > st.MaxDepth {
			st.MaxDepth = len(r.Points)
		}
		if r.Ticks > st.MaxTicks {
			st.MaxTicks = r.Ticks
		}
		st.Verdicts[r.Verdict]++
		if !visit(&r, choices) {
			st.Exhaustive = false
			break
		}
	}
	return st
}

// Weight is the probability of an execution: product of 1/N over its uniform random draws.
func Weight(points []Point) *big.Rat {
	w := big.NewRat(1, 1)
	for _, p := range points {
		if p.Kind == KRand {
			w.Mul(w, big.NewRat(1, int64(p.N)))
		}
	}
	return w
}

// DeviationCost is the total cost of the non-default choices of an execution.
func DeviationCost(points []Point) int {
	c := 0
	for _, p := range points {
		if p.Choice != 0 {
			c += p.Cost
		}
	}
	return c
}

// Package atomic is the drop-in replacement of sync/atomic for instrumented sources.
package atomic

import (
	realatomic "sync/atomic"

	"github.com/evolbioinfo/gotree/mcrt"
)

func AddInt32(addr *int32, delta int32) int32 {
	if mcrt.X == nil {
		return realatomic.AddInt32(addr, delta)
	}
	mcrt.AtomicPoint("atomic.AddInt32")
	*addr += delta
	return *addr
}
func AddInt64(addr *int64, delta int64) int64 {
	if mcrt.X == nil {
		return realatomic.AddInt64(addr, delta)
	}
	mcrt.AtomicPoint("atomic.AddInt64")
	*addr += delta
	return *addr
}
func LoadInt32(addr *int32) int32 {
	if mcrt.X == nil {
		return realatomic.LoadInt32(addr)
	}
	mcrt.AtomicPoint("atomic.LoadInt32")
	return *addr
}
func LoadInt64(addr *int64) int64 {
	if mcrt.X == nil {
		return realatomic.LoadInt64(addr)
	}
	mcrt.AtomicPoint("atomic.LoadInt64")
	return *addr
}
func StoreInt32(addr *int32, v int32) {
	if mcrt.X == nil {
		realatomic.StoreInt32(addr, v)
		return
	}
	mcrt.AtomicPoint("atomic.StoreInt32")
	*addr = v
}
func StoreInt64(addr *int64, v int64) {
	if mcrt.X == nil {
		realatomic.StoreInt64(addr, v)
		return
	}
	mcrt.AtomicPoint("atomic.StoreInt64")
	*addr = v
}
func CompareAndSwapInt32(addr *int32, old, new int32) bool {
	if mcrt.X == nil {
		return realatomic.CompareAndSwapInt32(addr, old, new)
	}
	mcrt.AtomicPoint("atomic.CASInt32")
	if *addr == old {
		*addr = new
		return true
	}
	return false
}
func CompareAndSwapInt64(addr *int64, old, new int64) bool {
	if mcrt.X == nil {
		return realatomic.CompareAndSwapInt64(addr, old, new)
	}
	mcrt.AtomicPoint("atomic.CASInt64")
	if *addr == old {
		*addr = new
		return true
	}
	return false
}

// Package rand is the drop-in replacement of math/rand for instrumented sources.
package rand

import (
	realrand "math/rand"

	"github.com/evolbioinfo/gotree/mcrt"
)

type Rand = realrand.Rand
type Source = realrand.Source

func NewSource(seed int64) Source { return realrand.NewSource(seed) }
func New(src Source) *Rand        { return realrand.New(src) }
func Seed(seed int64)             { realrand.Seed(seed) }
func Intn(n int) int              { return mcrt.Intn(n) }
func Perm(n int) []int            { return mcrt.Perm(n) }
func Float64() float64            { return mcrt.Float64() }
func Int() int                    { return realrand.Int() }
func Int63() int64                { return realrand.Int63() }
func Int31n(n int32) int32        { return int32(mcrt.Intn(int(n))) }
func Int63n(n int64) int64        { return int64(mcrt.Intn(int(n))) }
func Shuffle(n int, swap func(i, j int)) {
	if !mcrt.Active() {
		realrand.Shuffle(n, swap)
		return
	}
	for i := n - 1; i > 0; i-- {
		j := mcrt.Intn(i + 1)
		swap(i, j)
	}
}

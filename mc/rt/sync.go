package mcrt


// Models of sync.Mutex / RWMutex / WaitGroup. State is kept per execution,
// keyed by the address of the user's object.

type mutexState struct {
	id       int
	writer   bool
	readers  int
	wwaiting int // writers waiting (blocks new readers, as package sync documents)
}

type wgState struct {
	id int
	n  int
}

func (x *Exec) mutexOf(key any) *mutexState {
	m := x.mutexes[key]
	if m == nil {
		m = &mutexState{id: len(x.mutexes)}
		x.mutexes[key] = m
	}
	return m
}

func (x *Exec) wgOf(key any) *wgState {
	w := x.wgs[key]
	if w == nil {
		w = &wgState{id: len(x.wgs)}
		x.wgs[key] = w
	}
	return w
}

// MutexLock etc. are called by the msync shims in controlled mode.
func MutexLock(key any) {
	x := X
	m := x.mutexOf(key)
	m.wwaiting++
	x.point("lock-m", m.id, func() bool { return !m.writer && m.readers == 0 })
	m.wwaiting--
	m.writer = true
}

func MutexTryLock(key any) bool {
	x := X
	m := x.mutexOf(key)
	x.point("trylock-m", m.id, nil)
	if m.writer || m.readers > 0 {
		return false
	}
	m.writer = true
	return true
}

func MutexUnlock(key any) {
	x := X
	m := x.mutexOf(key)
	x.point("unlock-m", m.id, nil)
	if !m.writer {
		panic("sync: unlock of unlocked mutex")
	}
	m.writer = false
}

func MutexRLock(key any) {
	x := X
	m := x.mutexOf(key)
	x.point("rlock-m", m.id, func() bool { return !m.writer && m.wwaiting == 0 })
	m.readers++
}

func MutexRUnlock(key any) {
	x := X
	m := x.mutexOf(key)
	x.point("runlock-m", m.id, nil)
	if m.readers <= 0 {
		panic("sync: RUnlock of unlocked RWMutex")
	}
	m.readers--
}

func WGAdd(key any, d int) {
	x := X
	w := x.wgOf(key)
	x.point("wg.Add-w", w.id, nil)
	w.n += d
	if w.n < 0 {
		panic("sync: negative WaitGroup counter")
	}
}

func WGWait(key any) {
	x := X
	w := x.wgOf(key)
	x.point("wg.Wait-w", w.id, func() bool { return w.n == 0 })
}

// AtomicPoint is the scheduling point in front of an atomic operation.
func AtomicPoint(op string) {
	x := X
	x.point(op, -1, nil)
}

package mcrt

import (
	"reflect"
)

// Model of a Go channel, keyed by the identity of the real channel. In
// controlled executions the real channel is never touched.
type chanState struct {
	id     int
	ref    any // keeps the real channel alive so that its address is not reused
	cap    int
	buf    []any
	closed bool
	// rendezvous (cap == 0): waiting parties
	sendq []*sendWait
	recvq []*recvWait
}

type sendWait struct {
	v    any
	done bool // value has been taken by a receiver
}
type recvWait struct {
	v    any
	ok   bool
	done bool // a sender (or close) has completed this receive
}

func (x *Exec) chanOf(ch any) *chanState {
	rv := reflect.ValueOf(ch)
	p := rv.Pointer()
	if p == 0 {
		return nil
	}
	cs := x.chans[p]
	if cs == nil {
		cs = &chanState{id: len(x.chans), cap: rv.Cap(), ref: ch}
		x.chans[p] = cs
	}
	return cs
}

func removeSend(q []*sendWait, w *sendWait) []*sendWait {
	for i, o := range q {
		if o == w {
			return append(q[:i:i], q[i+1:]...)
		}
	}
	return q
}
func removeRecv(q []*recvWait, w *recvWait) []*recvWait {
	for i, o := range q {
		if o == w {
			return append(q[:i:i], q[i+1:]...)
		}
	}
	return q
}

// Send is ch <- v.
func Send[T any](ch chan<- T, v T) {
	x := X
	if x == nil {
		ch <- v
		return
	}
	if x.over {
		panic(abortSentinel{})
	}
	cs := x.chanOf(ch)
	if cs == nil {
		x.point("send-nil-chan", -1, func() bool { return false })
		return
	}
	if cs.cap > 0 {
		x.point("send-c", cs.id, func() bool { return cs.closed || len(cs.buf) < cs.cap })
		if cs.closed {
			panic("send on closed channel")
		}
		cs.buf = append(cs.buf, v)
		return
	}
	// unbuffered: register, then either we complete a waiting receiver or a receiver completes us
	w := &sendWait{v: v}
	cs.sendq = append(cs.sendq, w)
	x.point("send-c", cs.id, func() bool { return w.done || cs.closed || len(cs.recvq) > 0 })
	if w.done {
		return
	}
	cs.sendq = removeSend(cs.sendq, w)
	if cs.closed {
		panic("send on closed channel")
	}
	r := cs.recvq[0]
	cs.recvq = cs.recvq[1:]
	r.v, r.ok, r.done = v, true, true
}

func recvAny(x *Exec, ch any) (any, bool) {
	if x.over {
		panic(abortSentinel{})
	}
	cs := x.chanOf(ch)
	if cs == nil {
		x.point("recv-nil-chan", -1, func() bool { return false })
		return nil, false
	}
	if cs.cap > 0 {
		x.point("recv-c", cs.id, func() bool { return len(cs.buf) > 0 || cs.closed })
		if len(cs.buf) > 0 {
			v := cs.buf[0]
			cs.buf = cs.buf[1:]
			return v, true
		}
		return nil, false // closed and drained
	}
	w := &recvWait{}
	cs.recvq = append(cs.recvq, w)
	x.point("recv-c", cs.id, func() bool { return w.done || cs.closed || len(cs.sendq) > 0 })
	if w.done {
		return w.v, w.ok
	}
	cs.recvq = removeRecv(cs.recvq, w)
	if len(cs.sendq) > 0 {
		s := cs.sendq[0]
		cs.sendq = cs.sendq[1:]
		s.done = true
		return s.v, true
	}
	return nil, false // closed
}

// Recv is <-ch.
func Recv[T any](ch <-chan T) T {
	x := X
	if x == nil {
		return <-ch
	}
	v, _ := recvAny(x, ch)
	if v == nil {
		var z T
		return z
	}
	return v.(T)
}

// Recv2 is v, ok := <-ch.
func Recv2[T any](ch <-chan T) (T, bool) {
	x := X
	if x == nil {
		v, ok := <-ch
		return v, ok
	}
	v, ok := recvAny(x, ch)
	if v == nil {
		var z T
		return z, ok
	}
	return v.(T), ok
}

// Close is close(ch).
func Close[T any](ch chan<- T) {
	x := X
	if x == nil {
		close(ch)
		return
	}
	if x.over {
		panic(abortSentinel{})
	}
	cs := x.chanOf(ch)
	if cs == nil {
		x.point("close-nil-chan", -1, nil)
		panic("close of nil channel")
	}
	x.point("close-c", cs.id, nil)
	if cs.closed {
		panic("close of closed channel")
	}
	cs.closed = true
}

// Len is len(ch), Cap is cap(ch).
func Len[T any](ch <-chan T) int {
	x := X
	if x == nil {
		return len(ch)
	}
	cs := x.chanOf(ch)
	if cs == nil {
		return 0
	}
	return len(cs.buf)
}

package mcrt

import (
	"fmt"
	"math"
	"math/rand"
	"os"
	"reflect"
	"runtime"
	"sort"
	"time"
)

func osExit(code int) { os.Exit(code) }

// ---- random numbers -------------------------------------------------------

// Intn is rand.Intn.
func Intn(n int) int {
	x := X
	if x == nil || x.cfg.RandMode == RandSeeded {
		return rand.Intn(n)
	}
	if n <= 0 {
		panic("invalid argument to Intn")
	}
	if n == 1 {
		return 0
	}
	cost := 0
	if x.cfg.RandMode == RandBounded {
		cost = 1
	}
	return x.choose(KRand, n, cost, func() string { return fmt.Sprintf("Intn(%d)@%s", n, caller(4)) })
}

// Perm is rand.Perm: a uniform permutation, drawn as n-1 successive uniform picks.
func Perm(n int) []int {
	x := X
	if x == nil || x.cfg.RandMode == RandSeeded {
		return rand.Perm(n)
	}
	rest := make([]int, n)
	for i := range rest {
		rest[i] = i
	}
	out := make([]int, 0, n)
	for len(rest) > 0 {
		j := 0
		if len(rest) > 1 {
			cost := 0
			if x.cfg.RandMode == RandBounded {
				cost = 1
			}
			k := len(rest)
			j = x.choose(KRand, k, cost, func() string { return fmt.Sprintf("Perm(%d)[%d]@%s", n, n-k, caller(4)) })
		}
		out = append(out, rest[j])
		rest = append(rest[:j], rest[j+1:]...)
	}
	return out
}

var defaultFloatMenu = []float64{0.5, 0.125, 1 - 1.0/(1<<53), 1.0 / (1 << 53)}

// Float64 is rand.Float64: default 0.5, alternatives from a menu (cost 1 each).
func Float64() float64 {
	x := X
	if x == nil || x.cfg.RandMode == RandSeeded {
		return rand.Float64()
	}
	menu := x.cfg.FloatMenu
	if menu == nil {
		menu = defaultFloatMenu
	}
	c := x.choose(KFloat, len(menu), 1, func() string { return "Float64@" + caller(4) })
	return menu[c]
}

// ---- clock, cpus ------------------------------------------------------------

var T0 = time.Date(2020, 2, 29, 23, 59, 59, 999999999, time.UTC)

func Now() time.Time {
	x := X
	if x == nil {
		return time.Now()
	}
	if !x.cfg.ClockAlt {
		return T0.Add(x.cfg.ClockShift)
	}
	site := caller(2)
	c := x.choose(KClock, 2, 1, func() string { return "time.Now@" + site })
	if c == 1 {
		return T0.Add(time.Hour + time.Nanosecond)
	}
	return T0
}

func NumCPU() int {
	x := X
	if x == nil || x.cfg.NumCPU == 0 {
		return runtime.NumCPU()
	}
	return x.cfg.NumCPU
}

// ---- map iteration order ----------------------------------------------------

func lessValue(a, b reflect.Value) int {
	switch a.Kind() {
	case reflect.String:
		if a.String() < b.String() {
			return -1
		} else if a.String() > b.String() {
			return 1
		}
		return 0
	case reflect.Int, reflect.Int8, reflect.Int16, reflect.Int32, reflect.Int64:
		if a.Int() < b.Int() {
			return -1
		} else if a.Int() > b.Int() {
			return 1
		}
		return 0
	case reflect.Uint, reflect.Uint8, reflect.Uint16, reflect.Uint32, reflect.Uint64, reflect.Uintptr:
		if a.Uint() < b.Uint() {
			return -1
		} else if a.Uint() > b.Uint() {
			return 1
		}
		return 0
	case reflect.Float32, reflect.Float64:
		af, bf := a.Float(), b.Float()
		if af < bf || (math.IsNaN(af) && !math.IsNaN(bf)) {
			return -1
		} else if af > bf {
			return 1
		}
		return 0
	case reflect.Bool:
		if a.Bool() == b.Bool() {
			return 0
		} else if !a.Bool() {
			return -1
		}
		return 1
	case reflect.Struct:
		for i := 0; i < a.NumField(); i++ {
			if c := lessValue(a.Field(i), b.Field(i)); c != 0 {
				return c
			}
		}
		return 0
	case reflect.Array:
		for i := 0; i < a.Len(); i++ {
			if c := lessValue(a.Index(i), b.Index(i)); c != 0 {
				return c
			}
		}
		return 0
	case reflect.Interface:
		if a.IsNil() || b.IsNil() {
			if a.IsNil() && b.IsNil() {
				return 0
			} else if a.IsNil() {
				return -1
			}
			return 1
		}
		ae, be := a.Elem(), b.Elem()
		if ae.Type() != be.Type() {
			if ae.Type().String() < be.Type().String() {
				return -1
			}
			return 1
		}
		return lessValue(ae, be)
	}
	return 0 // pointers, channels: no canonical order
}

// Orderable reports whether map keys of this type have a canonical order.
func orderable(t reflect.Type) bool {
	switch t.Kind() {
	case reflect.Pointer, reflect.Chan, reflect.UnsafePointer, reflect.Interface:
		return false
	case reflect.Struct:
		for i := 0; i < t.NumField(); i++ {
			if !orderable(t.Field(i).Type) {
				return false
			}
		}
	case reflect.Array:
		return orderable(t.Elem())
	}
	return true
}

// MapKeys returns the keys of m in the order in which the instrumented
// `for k := range m` visits them. Controlled mode with MapSorted: canonical
// (sorted) order, permuted by an explorer choice (cost 1). Maps whose keys have
// no canonical order (pointers) are visited in native order and reported.
func MapKeys[M ~map[K]V, K comparable, V any](m M, site string) []K {
	keys := make([]K, 0, len(m))
	for k := range m {
		keys = append(keys, k)
	}
	x := X
	if x == nil || x.cfg.MapMode == MapNative || len(keys) < 2 {
		if x != nil && len(keys) > x.mapSites[site] {
			x.mapSites[site] = len(keys)
		}
		return keys
	}
	var zero K
	if !orderable(reflect.TypeOf(&zero).Elem()) {
		if len(keys) > x.mapSites["unordered:"+site] {
			x.mapSites["unordered:"+site] = len(keys)
		}
		return keys
	}
	if len(keys) > x.mapSites[site] {
		x.mapSites[site] = len(keys)
	}
	sort.SliceStable(keys, func(i, j int) bool {
		return lessValue(reflect.ValueOf(&keys[i]).Elem(), reflect.ValueOf(&keys[j]).Elem()) < 0
	})
	n := len(keys)
	perms := permMenu(n)
	c := x.choose(KMap, len(perms), 1, func() string { return fmt.Sprintf("maporder(%d keys)@%s", n, site) })
	if c == 0 {
		return keys
	}
	out := make([]K, n)
	for i, j := range perms[c] {
		out[i] = keys[j]
	}
	return out
}

var permMenus = map[int][][]int{}

// permMenu(n): identity first; all n! permutations for n <= 4, otherwise
// reverse, all rotations, all adjacent transpositions, and swap of first/last.
func permMenu(n int) [][]int {
	if p, ok := permMenus[n]; ok {
		return p
	}
	id := make([]int, n)
	for i := range id {
		id[i] = i
	}
	var out [][]int
	seen := map[string]bool{}
	add := func(p []int) {
		k := fmt.Sprint(p)
		if !seen[k] {
			seen[k] = true
			out = append(out, append([]int{}, p...))
		}
	}
	add(id)
	if n <= 4 {
		var rec func(p []int, k int)
		rec = func(p []int, k int) {
			if k == n {
				add(p)
				return
			}
			for i := k; i < n; i++ {
				p[k], p[i] = p[i], p[k]
				rec(p, k+1)
				p[k], p[i] = p[i], p[k]
			}
		}
		rec(append([]int{}, id...), 0)
	} else {
		rev := make([]int, n)
		for i := range rev {
			rev[i] = n - 1 - i
		}
		add(rev)
		for r := 1; r < n; r++ {
			p := make([]int, n)
			for i := range p {
				p[i] = (i + r) % n
			}
			add(p)
		}
		for i := 0; i+1 < n; i++ {
			p := append([]int{}, id...)
			p[i], p[i+1] = p[i+1], p[i]
			add(p)
		}
		p := append([]int{}, id...)
		p[0], p[n-1] = p[n-1], p[0]
		add(p)
	}
	permMenus[n] = out
	return out
}

// MapIterator drives an instrumented `for k, v := range m`.
type MapIterator[M ~map[K]V, K comparable, V any] struct {
	m    M
	keys []K
	i    int
	k    K
	v    V
}

// MapIter fixes the visiting order of the keys present now; like Go's own
// iteration, entries deleted before they are reached are skipped and entries
// added during the iteration may be missed.
func MapIter[M ~map[K]V, K comparable, V any](m M, site string) *MapIterator[M, K, V] {
	return &MapIterator[M, K, V]{m: m, keys: MapKeys(m, site)}
}

func (it *MapIterator[M, K, V]) Next() bool {
	for it.i < len(it.keys) {
		k := it.keys[it.i]
		it.i++
		if v, ok := it.m[k]; ok {
			it.k, it.v = k, v
			return true
		}
	}
	return false
}
func (it *MapIterator[M, K, V]) Key() K { return it.k }
func (it *MapIterator[M, K, V]) Val() V { return it.v }
